#!/bin/bash
# usage: seedrun.sh <ID> [outdir] [store-name]   (development helper)
# Confirms a seeded change produced by an independent sub-agent and runs the
# checks against it, all in the scratch worktree /var/tmp/wt-me (never /repo):
#   1. patch applies to /repo's HEAD, builds, repository suite passes with it
#   2. demonstration fails with the change and passes without
#   3. quick check of the property (and, with ALL=1, of every property)
# On success the change is stored under /verif/seeded/<ID>/.
ID=$1
SRC=${2:-/tmp/seed-out/$ID}
STORE=${3:-$ID}
WT=${WT:-/var/tmp/wt-me}
export GOFLAGS=-mod=mod GOPROXY=off GOSUMDB=off GOTOOLCHAIN=local
set -u
[ -f "$SRC/patch.diff" ] || { echo "no patch in $SRC"; exit 3; }
git -C $WT checkout -q -- . ; git -C $WT clean -fdq; git -C $WT checkout -q --detach "$(git -C /repo rev-parse HEAD)"
loc=$(python3 -c "import json;print(json.load(open('$SRC/meta.json')).get('demo_location','.'))" 2>/dev/null || echo .)
run=$(python3 -c "import json;print(json.load(open('$SRC/meta.json')).get('demo_run',''))" 2>/dev/null || echo "")
demo=$(ls $SRC/*_test.go 2>/dev/null | head -1)
echo "== $ID: demo=$demo location=$loc run=$run"
if ! git -C $WT apply --check "$SRC/patch.diff" 2>/dev/null; then echo "PATCH DOES NOT APPLY"; exit 4; fi
# without the change
if [ -n "$demo" ]; then cp "$demo" "$WT/$loc/zz_seed_demo_test.go"; fi
( cd $WT/$loc && timeout 300 go test -vet=off -count=1 -run "$(grep -oE 'func (Test[A-Za-z0-9_]+)' $WT/$loc/zz_seed_demo_test.go | awk '{print $2}' | paste -sd'|')" . > /var/tmp/vw/seed-$STORE-without.log 2>&1 ); rc_without=$?
git -C $WT apply "$SRC/patch.diff"
( cd $WT && go build ./... ) || { echo "DOES NOT BUILD"; exit 5; }
( cd $WT/$loc && timeout 300 go test -vet=off -count=1 -run "$(grep -oE 'func (Test[A-Za-z0-9_]+)' $WT/$loc/zz_seed_demo_test.go | awk '{print $2}' | paste -sd'|')" . > /var/tmp/vw/seed-$STORE-with.log 2>&1 ); rc_with=$?
rm -f "$WT/$loc/zz_seed_demo_test.go"
echo "demo: without change rc=$rc_without, with change rc=$rc_with"
( cd $WT && timeout 900 go test -vet=off -count=1 ./... > /var/tmp/vw/seed-$STORE-suite.log 2>&1 ); rc_suite=$?
if [ $rc_suite -ne 0 ]; then
  # the one known flaky test: rerun the root package once
  if grep -q "TestResponseToTimedOutIQ" /var/tmp/vw/seed-$STORE-suite.log && [ "$(grep -c '^FAIL' /var/tmp/vw/seed-$STORE-suite.log)" -le 2 ]; then
    ( cd $WT && timeout 600 go test -vet=off -count=1 . > /var/tmp/vw/seed-$STORE-suite2.log 2>&1 ) && rc_suite=0
  fi
fi
echo "suite with change rc=$rc_suite"
targets=$ID
[ "${ALL:-0}" = 1 ] && targets=$(seq -f "C%02g" 1 20)
caught=""
for p in $targets; do
  out=$(VERIF_REPO=$WT timeout 1200 python3 /verif/check.py $p 2>&1 | grep -E "^VIOLATION|^INCONCLUSIVE|^property=" )
  v=$(echo "$out" | grep -c "^VIOLATION")
  echo "  check $p: $(echo "$out" | grep '^property=' | cut -d' ' -f4-6) violations=$v $(echo "$out" | grep '^INCONCLUSIVE' | head -1)"
  [ "$v" -gt 0 ] && caught="$caught $p"
done
echo "caught by:${caught:- NONE}"
git -C $WT checkout -q -- . ; git -C $WT clean -fdq
if [ $rc_without -eq 0 ] && [ $rc_with -ne 0 ] && [ $rc_suite -eq 0 ]; then
  mkdir -p /verif/seeded/$STORE
  cp "$SRC/patch.diff" /verif/seeded/$STORE/patch.diff
  [ -n "$demo" ] && cp "$demo" /verif/seeded/$STORE/$(basename $demo)
  python3 - "$ID" "$SRC" "$caught" "$STORE" <<'PY'
import json,sys
pid,src,caught,store=sys.argv[1:5]
try: meta=json.load(open(src+'/meta.json'))
except Exception: meta={}
meta['property']=pid
meta['confirmed_here']={"demo_passes_without_change":True,"demo_fails_with_change":True,"repository_suite_passes_with_change":True,
  "how":"seedrun.sh: patch applied in a scratch worktree at /repo's HEAD; demonstration run both ways; go test ./... with the change"}
meta['caught_by_quick_checks']=caught.split()
json.dump(meta,open('/verif/seeded/%s/meta.json'%store,'w'),indent=1)
PY
  echo "CONFIRMED and stored in /verif/seeded/$STORE"
else
  echo "NOT CONFIRMED (without=$rc_without with=$rc_with suite=$rc_suite)"
fi
