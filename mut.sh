#!/bin/bash
# usage: mut.sh <ID> <file> <python-expr old> <new>   -- apply a textual mutation in the scratch worktree /var/tmp/wt-me, run the quick check, revert
ID=$1; F=$2; OLD=$3; NEW=$4
cd /var/tmp/wt-me && git checkout -q -- . && python3 - "$F" "$OLD" "$NEW" <<'PY'
import sys
f,old,new=sys.argv[1:4]
s=open(f).read()
if old not in s:
    print("MUTATION TARGET NOT FOUND"); sys.exit(3)
open(f,'w').write(s.replace(old,new,1))
PY
[ $? -eq 3 ] && exit 3
(cd /var/tmp/wt-me && GOFLAGS=-mod=mod GOPROXY=off go build ./... 2>&1 | head -5)
VERIF_REPO=/var/tmp/wt-me python3 /verif/check.py $ID 2>&1 | grep -E "VIOLATION|INCONCLUSIVE|property=" | head -5
cd /var/tmp/wt-me && git checkout -q -- .
