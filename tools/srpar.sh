#!/bin/bash
# usage: srpar.sh ID...   (max 4 at a time)
cd /verif; k=0
for id in "$@"; do k=$((k%4+1)); ( WT=/var/tmp/wt-me$k ./seedrun.sh ${id%%-*} /tmp/seed-out/$id $id > /var/tmp/vw/sr-$id.log 2>&1 ) & 
  [ $k -eq 4 ] && wait
done; wait
for id in "$@"; do echo "$id: $(grep -E 'demo:|suite|caught by|CONFIRMED|NOT CONF|PATCH|BUILD' /var/tmp/vw/sr-$id.log | tr '\n' ' ')"; done
