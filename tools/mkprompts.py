import json,glob,os,subprocess,sys
rnd=sys.argv[1]
VARS=sys.argv[2] if len(sys.argv)>2 else 'ab'
themes16={
'a': "THEME FOR YOUR CHANGE: your own choice - study the list of earlier changes below, work out which clause of the statement, which entry point, role, framing, input region, history or fault point they have all left alone, and put your change there. Prefer a change whose effect is only visible through the INTERPLAY of two mechanisms of the anchored code (for example: a restart and a cached value, a close and a pending request, a handler reply and a concurrent sender, an option and a default, a chunk boundary and a look-ahead) over one that a single call with a typical input would show.",
}
themes15={
'a': "THEME FOR YOUR CHANGE (pick ONE of these): (1) arithmetic and boundaries - off-by-one, wrap-around of a counter or sequence number, integer conversion or truncation, a length measured in bytes where runes (or the reverse) are meant, an index computed before instead of after a mutation, a comparison that should be <= / >=, an empty / nil / zero-length case, the very first or very last element of something; (2) a secondary file of the property's anchors list (not the most central one) or a helper the anchored code calls; (3) an error path: what is returned, released, rolled back or left behind when a step in the MIDDLE of an operation fails (the second of three writes, a decode after a successful decode, a callback that fails after state was updated). The defect must not show in ordinary single-shot use with small, typical inputs.",
}
themes={
'a': "THEME FOR YOUR CHANGE: a plausible performance / robustness / tidy-up commit (caching or memoising a computed value, pooling or reusing a buffer or slice, lazy initialisation, batching or coalescing writes, adding or moving a size limit or fast path, replacing a hand-written loop by a library call, hoisting work out of a loop, reordering a clean-up) or the handling of ONE particular fault (a failing or short read/write, EOF, a context ending, a callback returning an error) at ONE particular point. The defect must need at least two steps, a particular size/boundary, or a particular fault point to show; it must not show in ordinary single-shot use.",
'b': "THEME FOR YOUR CHANGE: EITHER two cooperating sites that each look fine alone (one site changes a convention slightly - who closes, who flushes, who copies, who validates, which form a value is stored in, what a zero value means - and another site that relied on the old convention), OR the handling of options and configuration (option functions, config struct fields, optional callbacks left nil, zero values, defaults applied at the wrong time), OR a less-used role / framing / entry point (receiving side, server-to-server, component, WebSocket framing, the *Element / Encode* / Unmarshal* / Iter* variants, exported helpers nobody calls in the tests). It must not show in the most common usage.",
}
TH={'r15':themes15,'r16':themes16}.get(rnd,themes)
props={json.loads(l)['id']:json.loads(l) for l in open('/verif/properties.jsonl')}
head=subprocess.check_output(['git','-C','/repo','rev-parse','HEAD'],text=True).strip()
ONLY=sys.argv[3].split(',') if len(sys.argv)>3 else None
for pid,p in props.items():
    if ONLY and pid not in ONLY: continue
    taken=[]
    for d in sorted(glob.glob(f'/verif/seeded/{pid}*')):
        try: m=json.load(open(d+'/meta.json'))
        except Exception: continue
        s=(m.get('summary') or '').replace('\n',' ')[:230]
        if s: taken.append('- '+s)
    for v in VARS:
        ID=f'{pid}-{rnd}{v}'
        wt=f'/tmp/seedwt/{ID}'; out=f'/tmp/seed-out/{ID}'
        if not os.path.isdir(wt):
            subprocess.check_call(['git','-C','/repo','worktree','add','-q','--detach',wt,head])
        os.makedirs(out,exist_ok=True)
        pj={k:p[k] for k in ('id','title','statement','quantifier','why_tests_cant','anchors')}
        txt=f"""You are helping to evaluate how good a (hidden) verification effort for the Go XMPP library mellium/xmpp is, by playing the part of a developer who introduces a subtle regression.

YOUR WORKSPACE: the git worktree {wt} (a checkout of mellium/xmpp, module mellium.im/xmpp). Work ONLY there and in your output directory {out}. Do NOT read, list or touch /repo, /verif, /root or any other worktree under /tmp/seedwt - what you write must be independent of anything outside your worktree. Do not commit anything. There is no network. In every shell command first run:
  export GOFLAGS=-mod=mod GOPROXY=off GOSUMDB=off GOTOOLCHAIN=local
(the existing test suite is: cd {wt} && go test -vet=off -count=1 ./...   - about 1-3 minutes; the machine is shared, be patient, use a timeout of 15 minutes).

THE PROPERTY (semantic property of the library that is supposed to hold for every input / history / schedule):
{json.dumps(pj,indent=1)}

YOUR TASK: write ONE change to the library (non-test .go files only; do not edit or delete existing tests) that BREAKS this property while (1) the library still compiles (go build ./... && go vet is not needed), (2) the whole existing test suite still passes, unedited, and (3) the change looks like something a well-meaning developer could commit (a refactoring, tidy-up, optimisation, robustness tweak, with a believable rationale in a comment if you like). The breakage must need something SPECIFIC to manifest - a particular interleaving, a crash or fault at a particular point, a multi-step sequence of operations, an unusual (but legal) input, or two cooperating sites that each look fine alone - NOT something ordinary use would expose at once. It must be a real violation of the property's statement as written (re-read the statement: do not break something the statement does not promise), reachable through the exported API of the library by a caller who follows the documentation.

{TH[v]}

ALREADY TAKEN - earlier changes for this property (one line each). Choose a DIFFERENT code site AND a different mechanism; prefer a clause of the statement, an input region, an entry point, a role or an argument form these leave alone:
{chr(10).join(taken) if taken else '(none)'}

ALSO WRITE A DEMONSTRATION: a Go test file named seed_demo_test.go (test function name starting with TestSeed{pid}{rnd}{v}) that lives in ONE package directory of the worktree (say which: demo_location, relative to the worktree root, '.' for the root package; use an external test package name like xmpp_test or the internal one, as you need), uses only what is available offline (standard library, the module's existing dependencies), is deterministic (if it needs an interleaving, force it with channels / a net.Conn or io.ReadWriter you control / a context you control, not with sleeps where avoidable; it must pass reliably without the change, also on a loaded machine, and fail reliably with it), finishes within 60 seconds and FAILS with your change and PASSES without it. Verify all of that yourself: run the demo with the change (fails), stash the change (git stash / git diff > file; git checkout -- .) and run it without (passes), re-apply, run the full suite with the change (passes - if an existing test fails because of your change, pick another change; the test TestResponseToTimedOutIQ in the root package is known to hang/flake in about 1% of runs independent of any change, re-run if only that one fails).

DELIVER, in {out}/ :
  patch.diff        - `git -C {wt} diff` of the library change ONLY (not containing seed_demo_test.go), applying cleanly with `git apply` to the unchanged worktree
  seed_demo_test.go - the demonstration
  meta.json         - {{"summary": "<one paragraph: file, function, what was changed, the cover story, which clause of the statement breaks and why the existing tests do not notice>", "files_changed": [...], "needs_to_manifest": "<what specific input / history / interleaving / fault is needed>", "demo_location": "<dir relative to worktree root>", "demo_run": "go test -vet=off -count=1 -run TestSeed{pid}{rnd}{v} .", "verified": {{"builds": true, "suite_passes": true, "demo_fails_with_change": true, "demo_passes_without": true}}}}
Only set the verified flags to what you actually observed. When you are done, leave the worktree as it is (it will be deleted) and reply with a three-line summary. If after a serious effort you cannot find a change that survives the existing suite, say so in meta.json ("summary": "NONE: why") instead of delivering a weak or invalid one.
"""
        open(f'/var/tmp/prompts/{ID}.txt','w').write(txt)
print('ok')
