#!/bin/bash
# usage: reseed_par.sh [pattern] [jobs]   (development helper)
# Re-runs the quick check of every stored seeded change against its own
# property, several at a time (one scratch worktree per job under /var/tmp),
# and lists the outcome of each; changes that are no longer caught show
# violations=0.
cd /verif
PAT=${1:-C}; J=${2:-5}
for k in $(seq 1 $J); do
  [ -d /var/tmp/wt-par$k ] || git -C /repo worktree add -q --detach /var/tmp/wt-par$k HEAD
done
ls -d seeded/${PAT}* | xargs -n1 basename | awk -v j=$J '{print (NR%j)+1, $0}' > /var/tmp/vw/par.list
for k in $(seq 1 $J); do
  ( grep "^$k " /var/tmp/vw/par.list | cut -d' ' -f2 | while read st; do
      WT=/var/tmp/wt-par$k ./reseed.sh $st 2>&1 | head -1
    done ) &
done
wait
for k in $(seq 1 $J); do git -C /repo worktree remove --force /var/tmp/wt-par$k; done
