#!/bin/bash
# usage: reseed_all.sh [pattern]   (development helper)
# Re-runs the quick check of every stored seeded change against its own
# property and lists the ones that are no longer caught.
cd /verif
for d in seeded/${1:-C}*; do
  st=$(basename $d)
  r=$(./reseed.sh $st 2>&1 | head -1)
  echo "$r"
done
