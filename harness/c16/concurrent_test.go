package c16

// jid.Escape and jid.Unescape are shared package-level values: every caller in
// a process goes through the same two.  What one call returns must therefore
// not depend on the calls other goroutines make at the same time.  Several
// goroutines transform their own generated inputs through every interface at
// once; each result is held to the same oracle as a lone call (the harness's
// XEP-0106 reference, round trip, absence of the disallowed characters).

import (
	"bytes"
	"fmt"
	"strings"
	"sync"
	"testing"

	"golang.org/x/text/transform"
	"pgregory.net/rapid"

	"mellium.im/xmpp/jid"
	"mellium.im/xmpp/verifharness/internal/ev"
)

func concurrentOne(in []byte, rounds int) string {
	wantEsc := refEscape(in)
	wantUn := refUnescape(in)
	for r := 0; r < rounds; r++ {
		var esc []byte
		switch r % 3 {
		case 0:
			esc = []byte(jid.Escape.String(string(in)))
		case 1:
			esc = jid.Escape.Bytes(in)
		default:
			var err error
			esc, _, err = transform.Bytes(jid.Escape, in)
			if err != nil {
				return fmt.Sprintf("transform.Bytes(Escape, %q): %v", in, err)
			}
		}
		if i := bytes.IndexAny(esc, nine); i >= 0 {
			return fmt.Sprintf("Escape(%q) = %q contains the disallowed character %q", in, esc, esc[i])
		}
		if back := refUnescape(esc); !bytes.Equal(back, in) {
			return fmt.Sprintf("Escape(%q) = %q, which unescapes (reference) to %q", in, esc, back)
		}
		if !bytes.Equal(esc, wantEsc) && bytes.Equal(refUnescape(wantEsc), in) && len(esc) != len(wantEsc) {
			return fmt.Sprintf("Escape(%q) = %q has %d bytes, a lone call gives %d", in, esc, len(esc), len(wantEsc))
		}
		if back := jid.Unescape.Bytes(esc); !bytes.Equal(back, in) {
			return fmt.Sprintf("Unescape(Escape(%q)) = %q", in, back)
		}
		if un := jid.Unescape.String(string(in)); un != string(wantUn) {
			return fmt.Sprintf("Unescape(%q) = %q, reference %q", in, un, wantUn)
		}
	}
	return ""
}

func TestC16Concurrent(t *testing.T) {
	ev.Check(t, 300, 3000, func(rt *rapid.T) {
		n := rapid.IntRange(2, 8).Draw(rt, "goroutines")
		var ins [][]byte
		escapables := 0
		for i := 0; i < n; i++ {
			in := genInput().Draw(rt, "in")
			if rapid.Bool().Draw(rt, "dense") {
				// make sure the goroutines escape different characters
				in = append([]byte(strings.Repeat(string(ten[(i*3)%len(ten)])+"x"+string(ten[(i*7+1)%len(ten)]), 1+i)), in...)
			}
			if firstChange(true, in) < len(in) {
				escapables++
			}
			ins = append(ins, in)
		}
		rounds := rapid.SampledFrom([]int{30, 100, 300}).Draw(rt, "rounds")
		ev.Case(escapables >= 2, fmt.Sprintf("concurrent|%q|%d", ins, rounds), "concurrent-use-of-the-shared-transformers")
		var wg sync.WaitGroup
		start := make(chan struct{})
		problems := make([]string, n)
		for i := range ins {
			wg.Add(1)
			go func(i int) {
				defer wg.Done()
				<-start
				var res string
				if p := ev.Guard(func() { res = concurrentOne(ins[i], rounds) }); p != "" {
					res = p
				}
				problems[i] = res
			}(i)
		}
		close(start)
		wg.Wait()
		for i, p := range problems {
			if p != "" {
				ev.Failf(rt, "%d goroutines using jid.Escape / jid.Unescape at the same time, inputs %q\ngoroutine %d: %s", n, ins, i, p)
			}
		}
	})
}
