// C16 — JID escaping is a lossless, chunk-independent transform.
package c16

import (
	"bytes"
	"errors"
	"fmt"
	"io"
	"strings"
	"testing"

	"golang.org/x/text/transform"
	"pgregory.net/rapid"

	"mellium.im/xmpp/jid"
	"mellium.im/xmpp/verifharness/internal/ev"
)

func TestMain(m *testing.M) { ev.Main(m, "C16") }

// ---------------------------------------------------------------- reference

const nine = ` "&'/:<>@`
const ten = nine + `\`

func refEscape(s []byte) []byte {
	var out []byte
	for _, c := range s {
		if strings.IndexByte(ten, c) >= 0 {
			out = append(out, '\\', "0123456789abcdef"[c>>4], "0123456789abcdef"[c&15])
		} else {
			out = append(out, c)
		}
	}
	return out
}

func hexval(c byte) (byte, bool) {
	switch {
	case '0' <= c && c <= '9':
		return c - '0', true
	case 'a' <= c && c <= 'f':
		return c - 'a' + 10, true
	case 'A' <= c && c <= 'F':
		return c - 'A' + 10, true
	}
	return 0, false
}

// refSeq reports whether s[i:] starts with one of the ten escape sequences.
func refSeq(s []byte, i int) (byte, bool) {
	if i+2 >= len(s) || s[i] != '\\' {
		return 0, false
	}
	h, ok1 := hexval(s[i+1])
	l, ok2 := hexval(s[i+2])
	if !ok1 || !ok2 {
		return 0, false
	}
	c := h<<4 | l
	if strings.IndexByte(ten, c) < 0 {
		return 0, false
	}
	return c, true
}

func refUnescape(s []byte) []byte {
	var out []byte
	for i := 0; i < len(s); {
		if c, ok := refSeq(s, i); ok {
			out = append(out, c)
			i += 3
			continue
		}
		out = append(out, s[i])
		i++
	}
	return out
}

// firstChange returns the offset of the first byte the reference transform
// would alter (len(s) if none).
func firstChange(escape bool, s []byte) int {
	for i := range s {
		if escape {
			if strings.IndexByte(ten, s[i]) >= 0 {
				return i
			}
		} else if _, ok := refSeq(s, i); ok {
			return i
		}
	}
	return len(s)
}

// ---------------------------------------------------------------- generator

var seqs = []string{`\20`, `\22`, `\26`, `\27`, `\2f`, `\3a`, `\3c`, `\3e`, `\40`, `\5c`, `\2F`, `\3A`, `\3C`, `\3E`, `\5C`}

func genInput() *rapid.Generator[[]byte] {
	return rapid.Custom(func(t *rapid.T) []byte {
		var out []byte
		n := rapid.IntRange(0, 10).Draw(t, "pieces")
		for i := 0; i < n; i++ {
			switch rapid.IntRange(0, 11).Draw(t, "kind") {
			case 10: // backslash + one hex digit + one arbitrary byte, in either order
				out = append(out, '\\')
				h := "0123456789abcdefABCDEF"[rapid.IntRange(0, 21).Draw(t, "h1")]
				b := rapid.Byte().Draw(t, "anybyte")
				if rapid.Bool().Draw(t, "hexfirst") {
					out = append(out, h, b)
				} else {
					out = append(out, b, h)
				}
			case 11: // dense run of characters that must be escaped (output up to 3x the input)
				k := rapid.IntRange(1, 45).Draw(t, "dense")
				for j := 0; j < k; j++ {
					out = append(out, ten[rapid.IntRange(0, 9).Draw(t, "esc")])
				}
			case 0:
				out = append(out, ten[rapid.IntRange(0, 8).Draw(t, "esc")])
			case 1:
				out = append(out, '\\')
			case 2:
				out = append(out, rapid.SampledFrom(seqs).Draw(t, "seq")...)
			case 3: // backslash + two hex digits, usually not a defined sequence
				out = append(out, '\\')
				out = append(out, "0123456789abcdefABCDEF"[rapid.IntRange(0, 21).Draw(t, "h1")])
				out = append(out, "0123456789abcdefABCDEF"[rapid.IntRange(0, 21).Draw(t, "h2")])
			case 4:
				out = append(out, "0123456789abcdefABCDEF"[rapid.IntRange(0, 21).Draw(t, "h")])
			case 5, 6: // short plain run
				k := rapid.IntRange(1, 6).Draw(t, "run")
				out = append(out, bytes.Repeat([]byte{'x'}, k)...)
			case 7: // run that reaches a 128-byte boundary
				k := rapid.SampledFrom([]int{120, 124, 125, 126, 127, 128, 129, 130, 250, 253, 254, 255, 256, 257}).Draw(t, "longrun")
				k += rapid.IntRange(-2, 2).Draw(t, "jit")
				out = append(out, bytes.Repeat([]byte{'y'}, k)...)
			case 8:
				out = append(out, rapid.Byte().Draw(t, "byte"))
			case 9:
				out = append(out, []byte(rapid.StringN(0, 3, -1).Draw(t, "str"))...)
			}
		}
		return out
	})
}

func nontrivial(s []byte) bool {
	for i := range s {
		_, isSeq := refSeq(s, i)
		if strings.IndexByte(ten, s[i]) >= 0 || isSeq {
			if i >= 2 {
				return true
			}
		}
	}
	return false
}

func nearBoundary(s []byte) bool {
	for i := range s {
		_, isSeq := refSeq(s, i)
		if strings.IndexByte(ten, s[i]) >= 0 || isSeq {
			m := i % 128
			if i >= 100 && (m <= 3 || m >= 125) {
				return true
			}
		}
	}
	return false
}

// ---------------------------------------------------------------- driver

type schedule struct {
	cuts []int // chunk end offsets, increasing, last == len(src)
	caps []int // destination capacities, cycled
}

func genSchedule(t *rapid.T, n int) schedule {
	var sc schedule
	pos := 0
	for pos < n {
		step := rapid.IntRange(1, 1+n).Draw(t, "chunk")
		if rapid.IntRange(0, 2).Draw(t, "small") > 0 {
			step = rapid.IntRange(1, 4).Draw(t, "chunkS")
		}
		pos += step
		if pos > n {
			pos = n
		}
		sc.cuts = append(sc.cuts, pos)
	}
	if len(sc.cuts) == 0 {
		sc.cuts = []int{0}
	}
	k := rapid.IntRange(1, 4).Draw(t, "ncaps")
	for i := 0; i < k; i++ {
		sc.caps = append(sc.caps, rapid.SampledFrom([]int{0, 1, 2, 3, 4, 5, 7, 16, 127, 128, 129, 4096}).Draw(t, "cap"))
	}
	return sc
}

// drive runs tr over src following the transform.Transformer contract: on
// ErrShortDst the remaining source is offered again with a fresh destination
// (enlarged when no progress was possible), on ErrShortSrc more source is
// supplied.  It returns the output or a description of a contract breach.
func drive(tr transform.Transformer, src []byte, sc schedule) (out []byte, breach string) {
	tr.Reset()
	var pending []byte
	prev := 0
	capIdx := 0
	budget := 8*len(src) + 200
	for ci, end := range sc.cuts {
		pending = append(pending, src[prev:end]...)
		prev = end
		atEOF := ci == len(sc.cuts)-1
		grow := 0
		for {
			budget--
			if budget < 0 {
				return out, "no termination within 8*len+200 Transform calls"
			}
			c := sc.caps[capIdx%len(sc.caps)] + grow
			capIdx++
			dst := make([]byte, c)
			var nDst, nSrc int
			var err error
			if p := ev.Guard(func() { nDst, nSrc, err = tr.Transform(dst, pending, atEOF) }); p != "" {
				return out, fmt.Sprintf("Transform(dst[%d], %q, %v): %s", c, pending, atEOF, p)
			}
			if nDst < 0 || nDst > len(dst) || nSrc < 0 || nSrc > len(pending) {
				return out, fmt.Sprintf("Transform(dst[%d], %q, %v) = (%d, %d, %v): counts out of range", c, pending, atEOF, nDst, nSrc, err)
			}
			out = append(out, dst[:nDst]...)
			pending = pending[nSrc:]
			if err == nil {
				if len(pending) != 0 {
					return out, fmt.Sprintf("Transform returned nil error with %d source bytes unconsumed", len(pending))
				}
				break
			}
			if errors.Is(err, transform.ErrShortDst) {
				if nDst == 0 && nSrc == 0 {
					if c >= 3 && len(pending) > 0 {
						// a destination that holds a whole escape sequence is enough
						// to get on by at least one byte or one sequence: a consumer
						// with a fixed buffer (transform.Reader has 4096 bytes) would
						// otherwise never finish
						return out, fmt.Sprintf("Transform(dst[%d], %q, %v) = (0, 0, ErrShortDst): no progress although the destination holds a whole escape sequence", c, pending, atEOF)
					}
					grow = grow*2 + 1
				}
				continue
			}
			if errors.Is(err, transform.ErrShortSrc) {
				if atEOF {
					return out, fmt.Sprintf("ErrShortSrc at EOF with pending %q", pending)
				}
				if nDst == 0 && nSrc == 0 && len(pending) > 8 {
					// asking for more source is fine, but never with this much
					// undecided input: sequences are three bytes long.
					return out, fmt.Sprintf("ErrShortSrc without progress on %d pending bytes", len(pending))
				}
				break
			}
			return out, fmt.Sprintf("unexpected error %v", err)
		}
	}
	return out, ""
}

type chunkReader struct {
	src  []byte
	cuts []int
	i    int
	pos  int
}

func (r *chunkReader) Read(p []byte) (int, error) {
	if r.pos >= len(r.src) {
		return 0, io.EOF
	}
	for r.i < len(r.cuts) && r.cuts[r.i] <= r.pos {
		r.i++
	}
	end := len(r.src)
	if r.i < len(r.cuts) {
		end = r.cuts[r.i]
	}
	n := copy(p, r.src[r.pos:end])
	r.pos += n
	return n, nil
}

// ---------------------------------------------------------------- property

func checkAll(t interface {
	Helper()
	Fatalf(string, ...any)
}, in []byte, sc schedule) {
	t.Helper()
	fail := func(format string, args ...any) {
		t.Helper()
		ev.Failf(t, "input=%q chunks=%v caps=%v\n%s", in, sc.cuts, sc.caps, fmt.Sprintf(format, args...))
	}

	wantU := refUnescape(in)
	wantE := refEscape(in)

	// one-piece interfaces
	var gotE, gotU []byte
	var gotES, gotUS string
	if p := ev.Guard(func() { gotE = jid.Escape.Bytes(append([]byte(nil), in...)) }); p != "" {
		fail("Escape.Bytes: %s", p)
	}
	if p := ev.Guard(func() { gotES = jid.Escape.String(string(in)) }); p != "" {
		fail("Escape.String: %s", p)
	}
	if p := ev.Guard(func() { gotU = jid.Unescape.Bytes(append([]byte(nil), in...)) }); p != "" {
		fail("Unescape.Bytes: %s", p)
	}
	if p := ev.Guard(func() { gotUS = jid.Unescape.String(string(in)) }); p != "" {
		fail("Unescape.String: %s", p)
	}
	if string(gotE) != gotES {
		fail("Escape.Bytes %q != Escape.String %q", gotE, gotES)
	}
	if string(gotU) != gotUS {
		fail("Unescape.Bytes %q != Unescape.String %q", gotU, gotUS)
	}
	// escaped output: none of the disallowed characters, decodes back
	if i := bytes.IndexAny(gotE, nine); i >= 0 {
		fail("Escape output %q contains disallowed character %q at %d", gotE, gotE[i], i)
	}
	if back := refUnescape(gotE); !bytes.Equal(back, in) {
		fail("Escape output %q does not decode (reference unescape) to the input: %q", gotE, back)
	}
	if !bytes.Equal(gotE, wantE) {
		// The statement does not fix the spelling of the escape (only that it
		// round-trips and is free of disallowed characters); record, do not fail.
		ev.Class("escape-differs-from-reference-spelling")
	}
	var rt []byte
	if p := ev.Guard(func() { rt = jid.Unescape.Bytes(append([]byte(nil), gotE...)) }); p != "" {
		fail("Unescape(Escape(in)=%q): %s", gotE, p)
	}
	if !bytes.Equal(rt, in) {
		fail("Unescape(Escape(in)) = %q, Escape(in) = %q", rt, gotE)
	}
	if !bytes.Equal(gotU, wantU) {
		fail("Unescape = %q, reference (only the ten sequences, either case) = %q", gotU, wantU)
	}

	// streaming Transform under the generated schedule
	for _, tc := range []struct {
		name string
		tr   jid.Transformer
		want []byte
	}{{"Escape", jid.Escape, gotE}, {"Unescape", jid.Unescape, gotU}} {
		out, breach := drive(tc.tr, in, sc)
		if breach != "" {
			fail("%s.Transform schedule: %s", tc.name, breach)
		}
		if !bytes.Equal(out, tc.want) {
			fail("%s chunked Transform = %q, one-piece = %q", tc.name, out, tc.want)
		}
		// x/text reader over a chunked source
		var rd []byte
		var rerr error
		if p := ev.Guard(func() {
			rd, rerr = io.ReadAll(transform.NewReader(&chunkReader{src: in, cuts: sc.cuts}, tc.tr))
		}); p != "" {
			fail("%s transform.NewReader: %s", tc.name, p)
		}
		if rerr != nil || !bytes.Equal(rd, tc.want) {
			fail("%s transform.NewReader = %q, %v; one-piece = %q", tc.name, rd, rerr, tc.want)
		}
		// x/text writer fed in chunks
		var wb bytes.Buffer
		if p := ev.Guard(func() {
			w := transform.NewWriter(&wb, tc.tr)
			prev := 0
			for _, c := range sc.cuts {
				if _, rerr = w.Write(in[prev:c]); rerr != nil {
					return
				}
				prev = c
			}
			rerr = w.Close()
		}); p != "" {
			fail("%s transform.NewWriter: %s", tc.name, p)
		}
		if rerr != nil || !bytes.Equal(wb.Bytes(), tc.want) {
			fail("%s transform.NewWriter = %q, %v; one-piece = %q", tc.name, wb.Bytes(), rerr, tc.want)
		}
		// Span
		for _, atEOF := range []bool{true, false} {
			var n int
			var err error
			if p := ev.Guard(func() { n, err = tc.tr.Span(in, atEOF) }); p != "" {
				fail("%s.Span(atEOF=%v): %s", tc.name, atEOF, p)
			}
			if n < 0 || n > len(in) {
				fail("%s.Span(atEOF=%v) = %d out of range", tc.name, atEOF, n)
			}
			fc := firstChange(tc.name == "Escape", in)
			if tc.name == "Unescape" && !atEOF {
				// With more input to come a trailing backslash (or backslash
				// plus the first digit of a defined sequence) is undecided and
				// must not be declared unchanged.
				if l := len(in); l >= 1 && in[l-1] == '\\' && fc > l-1 {
					fc = l - 1
				} else if l >= 2 && in[l-2] == '\\' && strings.IndexByte("2345", in[l-1]) >= 0 && fc > l-2 {
					fc = l - 2
				}
			}
			if n > fc {
				fail("%s.Span(atEOF=%v) = %d, %v: goes past offset %d which the transform changes", tc.name, atEOF, n, err, fc)
			}
			if err == nil && n != len(in) {
				fail("%s.Span(atEOF=%v) = %d, nil but len(src) = %d", tc.name, atEOF, n, len(in))
			}
			if atEOF && fc == len(in) && (err != nil || n != len(in)) {
				fail("%s.Span(atEOF=true) = %d, %v on input the transform leaves unchanged", tc.name, n, err)
			}
		}
	}
}

func TestC16EscapeLaws(t *testing.T) {
	ev.Check(t, 60000, 600000, func(rt *rapid.T) {
		in := genInput().Draw(rt, "in")
		sc := genSchedule(rt, len(in))
		nt := nontrivial(in)
		classes := []string{}
		if nearBoundary(in) {
			classes = append(classes, "special-near-128-boundary")
		}
		if len(sc.cuts) > 1 {
			classes = append(classes, "multi-chunk")
		}
		small := false
		for _, c := range sc.caps {
			if c < 3*len(in) {
				small = true
			}
		}
		if small {
			classes = append(classes, "dst-smaller-than-output")
		}
		ev.Case(nt || (small && len(in) > 0 && firstChange(true, in) < len(in)),
			fmt.Sprintf("%q|%v|%v", in, sc.cuts, sc.caps), classes...)
		checkAll(rt, in, sc)
	})
}

// TestC16Sweep enumerates, completely, every position of every special piece
// inside plain runs that straddle the 128- and 256-byte boundaries, with
// byte-wise, whole and boundary-adjacent chunkings.
func TestC16Sweep(t *testing.T) {
	ev.Begin(t)
	pieces := []string{" ", "@", `\`, `\20`, `\5C`, `\40`, `\2g`, `\4`, `\`}
	lens := []int{0, 1, 2, 3, 4, 5, 124, 125, 126, 127, 128, 129, 130, 253, 254, 255, 256, 257}
	for _, p := range pieces {
		for _, l := range lens {
			for _, tail := range []string{"", "c", "cc", " b"} {
				in := []byte(strings.Repeat("a", l) + p + tail)
				for _, sc := range []schedule{
					{cuts: []int{len(in)}, caps: []int{4096}},
					{cuts: []int{len(in)}, caps: []int{1}},
					{cuts: byteCuts(len(in)), caps: []int{3}},
					{cuts: uniq([]int{l, l + 1, l + 2, len(in)}, len(in)), caps: []int{128}},
				} {
					ev.Case(l >= 2, fmt.Sprintf("%q|%v|%v", in, sc.cuts, sc.caps), "sweep")
					checkAll(t, in, sc)
				}
			}
		}
	}
}

// TestC16DenseSweep: inputs made (almost) only of characters that must be
// escaped, every length up to 140 bytes with 0..3 plain bytes in front: the
// output is three times the input, whatever internal buffer sizes are.
func TestC16DenseSweep(t *testing.T) {
	ev.Begin(t)
	for n := 0; n <= 140; n++ {
		for pre := 0; pre <= 3; pre++ {
			in := []byte(strings.Repeat("a", pre))
			for j := 0; j < n; j++ {
				in = append(in, ten[(j+pre)%len(ten)])
			}
			ev.Case(n >= 2, fmt.Sprintf("%q", in), "dense-sweep")
			checkAll(t, in, schedule{cuts: []int{len(in)}, caps: []int{4096}})
			checkAll(t, in, schedule{cuts: byteCuts(len(in)), caps: []int{3}})
		}
	}
}

// TestC16PairSweep enumerates, completely, every two-byte continuation of a
// backslash (65536 inputs): only the ten defined sequences, in either hex
// case, may be altered by Unescape, and Escape must treat every byte alike.
func TestC16PairSweep(t *testing.T) {
	ev.Begin(t)
	for x := 0; x < 256; x++ {
		for y := 0; y < 256; y++ {
			in := []byte{'a', '\\', byte(x), byte(y), 'z'}
			_, isSeq := refSeq(in, 1)
			ev.Case(true, fmt.Sprintf("%q", in), "pair-sweep")
			if isSeq {
				ev.Class("pair-sweep-defined-sequence")
			}
			checkAll(t, in, schedule{cuts: []int{len(in)}, caps: []int{4096}})
			if ev.Thorough() || isSeq || x < 0x20 || y < 0x20 {
				checkAll(t, in, schedule{cuts: byteCuts(len(in)), caps: []int{3}})
			}
		}
	}
}

func byteCuts(n int) []int {
	if n == 0 {
		return []int{0}
	}
	c := make([]int, n)
	for i := range c {
		c[i] = i + 1
	}
	return c
}

func uniq(c []int, n int) []int {
	var out []int
	last := 0
	for _, v := range c {
		if v > n {
			v = n
		}
		if v > last {
			out = append(out, v)
			last = v
		}
	}
	if len(out) == 0 || out[len(out)-1] != n {
		out = append(out, n)
	}
	return out
}

// TestC16Regress replays the concrete inputs of every finding ever made.
func TestC16Regress(t *testing.T) {
	ev.Begin(t)
	for _, s := range []string{
		`ab\20c`, `abcde\20c`, strings.Repeat("a", 126) + " b", strings.Repeat("a", 127) + "@",
		`\20`, `a\20`, `\5c20`, `\5c5c`, `\`, `\2`, `a\`, `a\2`, `\2\20`,
	} {
		in := []byte(s)
		for _, sc := range []schedule{
			{cuts: []int{len(in)}, caps: []int{4096}},
			{cuts: byteCuts(len(in)), caps: []int{0, 1, 2}},
		} {
			ev.Case(true, fmt.Sprintf("%q|%v|%v", in, sc.cuts, sc.caps), "regress")
			checkAll(t, in, sc)
		}
	}
}

// FuzzC16 is the coverage-guided variant (thorough tier only): the bytes are
// the input, the two integers derive the chunking and destination capacity.
func FuzzC16(f *testing.F) {
	for _, s := range []string{`ab\20c`, `abcde\20c`, `\5c20`, `a b@c/d`, `\`, `\2`, strings.Repeat("a", 126) + " b"} {
		f.Add([]byte(s), uint8(1), uint8(3))
	}
	f.Fuzz(func(t *testing.T, in []byte, chunk uint8, dcap uint8) {
		if len(in) > 700 {
			in = in[:700]
		}
		step := int(chunk%9) + 1
		var cuts []int
		for p := step; p < len(in); p += step {
			cuts = append(cuts, p)
		}
		cuts = append(cuts, len(in))
		checkAll(t, in, schedule{cuts: cuts, caps: []int{int(dcap % 131)}})
	})
}
