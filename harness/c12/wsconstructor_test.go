package c12

// The websocket package's own constructor (websocket.NewSession; NewClient and
// DialSession go through it): the address the session is created for is the
// one its headers carry and the one whose resourcepart it asks for in resource
// binding.

import (
	"bytes"
	"context"
	"fmt"
	"testing"

	"pgregory.net/rapid"

	"mellium.im/xmpp"
	"mellium.im/xmpp/jid"
	"mellium.im/xmpp/stanza"
	"mellium.im/xmpp/verifharness/internal/ev"
	"mellium.im/xmpp/verifharness/internal/wire"
	"mellium.im/xmpp/verifharness/internal/xt"
	"mellium.im/xmpp/websocket"
)

func wsOpen(from, to, id string) string {
	s := `<open xmlns="` + wsNS + `" version="1.0"`
	if id != "" {
		s += ` id="` + id + `"`
	}
	if from != "" {
		s += ` from="` + esc(from) + `"`
	}
	if to != "" {
		s += ` to="` + esc(to) + `"`
	}
	return s + "/>"
}

func TestC12WebSocketConstructor(t *testing.T) {
	ev.Check(t, 1500, 15000, func(rt *rapid.T) {
		wantRes := 1
		if rapid.IntRange(0, 3).Draw(rt, "nores") == 0 {
			wantRes = -1
		}
		local := genJID(rt, "local", wantRes)
		if local.Localpart() == "" {
			local = jid.MustParse("romeo@" + local.Domainpart())
			if wantRes > 0 {
				local, _ = local.WithResource("orchard'<&>")
			}
		}
		assigned := local
		if local.Resourcepart() == "" {
			assigned, _ = local.WithResource("srv-assigned")
		}
		desc := fmt.Sprintf("websocket.NewSession for %s (server assigns %s)", local, assigned)
		ev.Case(local.Resourcepart() != "", desc, "websocket-constructor")
		fail := func(format string, args ...any) {
			rt.Helper()
			ev.Failf(rt, "%s\n%s", desc, fmt.Sprintf(format, args...))
		}
		var opens []*xt.Node
		var request *xt.Node
		peer := wire.NewReactive(func(r *wire.Reactive, fresh []byte) []byte {
			switch {
			case bytes.Contains(fresh, []byte("<open ")):
				if n, err := xt.Parse(fresh[bytes.Index(fresh, []byte("<open ")):]); err == nil {
					opens = append(opens, n)
				}
				if len(opens) == 1 {
					return []byte(wsOpen(local.Domain().String(), "", "w1") + `<features xmlns="` + wire.StreamNS + `"><restart xmlns="urn:verif:restart"/></features>`)
				}
				return []byte(wsOpen(local.Domain().String(), "", "w2") + `<features xmlns="` + wire.StreamNS + `"><bind xmlns="` + bindNS + `"/></features>`)
			case bytes.Contains(fresh, []byte("<restart")):
				return []byte(`<ok xmlns="urn:verif:restart"/>`)
			case bytes.Contains(fresh, []byte("<iq")):
				items, _, err := wire.ParseStream(fresh, false, stanza.NSClient)
				if err != nil || len(wire.Elements(items)) != 1 {
					return nil
				}
				request = wire.Elements(items)[0]
				id, _ := request.Get("id")
				return []byte(`<iq xmlns="jabber:client" type="result" id="` + esc(id) + `"><bind xmlns="` + bindNS + `"><jid>` + esc(assigned.String()) + `</jid></bind></iq>`)
			}
			return nil
		})
		ran := 0
		var s *xmpp.Session
		var err error
		if p := ev.Guard(func() {
			s, err = websocket.NewSession(context.Background(), local, peer.Conn, restartFeature(&ran), xmpp.BindResource())
		}); p != "" {
			fail("%s", p)
		}
		if err != nil {
			fail("websocket.NewSession failed: %v\noutput: %q", err, peer.Conn.Output())
		}
		if len(opens) < 2 {
			fail("saw %d <open/> elements, want 2\noutput: %q", len(opens), peer.Conn.Output())
		}
		for i, o := range opens {
			if from, _ := o.Get("from"); from != local.String() {
				fail("header %d the library sent has from=%q, want the address the session was created for (%q)", i, from, local.String())
			}
			if to, _ := o.Get("to"); to != local.Domain().String() {
				fail("header %d the library sent has to=%q, want %q", i, to, local.Domain().String())
			}
		}
		if request == nil {
			fail("no bind request seen\noutput: %q", peer.Conn.Output())
		}
		b := request.Find("bind")
		if b == nil {
			fail("bind request without <bind/>: %s", request.Canon())
		}
		res := b.Find("resource")
		switch {
		case local.Resourcepart() == "" && res != nil:
			fail("the session's address has no resourcepart but the bind request asks for %q", res.InnerText())
		case local.Resourcepart() != "" && (res == nil || res.InnerText() != local.Resourcepart()):
			got := "none"
			if res != nil {
				got = fmt.Sprintf("%q", res.InnerText())
			}
			fail("the bind request asks for resource %s, want exactly the resourcepart of the session's own address %q", got, local.Resourcepart())
		}
		if !s.LocalAddr().Equal(assigned) {
			fail("after binding LocalAddr() = %s, the server assigned %s", s.LocalAddr(), assigned)
		}
	})
}
