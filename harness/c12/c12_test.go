// C12 — Negotiation carries addresses and identifiers faithfully and checks them.
package c12

import (
	"bytes"
	"context"
	"encoding/xml"
	"errors"
	"fmt"
	"io"
	"regexp"
	"strings"
	"sync"
	"testing"

	"pgregory.net/rapid"

	"mellium.im/xmlstream"
	"mellium.im/xmpp"
	intstream "mellium.im/xmpp/internal/stream"
	"mellium.im/xmpp/internal/wskey"
	"mellium.im/xmpp/jid"
	"mellium.im/xmpp/stanza"
	"mellium.im/xmpp/stream"
	"mellium.im/xmpp/verifharness/internal/ev"
	"mellium.im/xmpp/verifharness/internal/gen"
	"mellium.im/xmpp/verifharness/internal/wire"
	"mellium.im/xmpp/verifharness/internal/xt"
)

func TestMain(m *testing.M) { ev.Main(m, "C12") }

const (
	wsNS   = "urn:ietf:params:xml:ns:xmpp-framing"
	xmlNS  = "http://www.w3.org/XML/1998/namespace"
	bindNS = "urn:ietf:params:xml:ns:xmpp-bind"
)

type fataler interface {
	Helper()
	Fatalf(string, ...any)
}

// ---------------------------------------------------------------- generators

var resourceBits = []string{"r", "orchard", "home ", " work", "a'b", `q"uote`, "x&y", "<tag>", "a b", "é", "日本", "]]>", "&amp;", "'", "\"", "%", "=", "/slash"}

func genJID(t *rapid.T, label string, wantResource int) jid.JID {
	local := rapid.SampledFrom([]string{"", "romeo", "juliet", "a.b", "o'n"[:1], "x+y", "é"}).Draw(t, label+"-local")
	domain := rapid.SampledFrom([]string{"example.net", "example.org", "im.example.com", "localhost"}).Draw(t, label+"-domain")
	res := ""
	if wantResource > 0 || (wantResource == 0 && rapid.Bool().Draw(t, label+"-hasres")) {
		n := rapid.IntRange(1, 3).Draw(t, label+"-nres")
		for i := 0; i < n; i++ {
			res += rapid.SampledFrom(resourceBits).Draw(t, label+"-res")
		}
	}
	if res != "" && rapid.IntRange(0, 7).Draw(t, label+"-blankres") == 0 {
		// a resourcepart made of nothing but blanks (legal: the OpaqueString
		// profile maps other spaces to U+0020 and keeps them)
		res = rapid.SampledFrom([]string{" ", "  ", "\u00a0", " \u2003 "}).Draw(t, label+"-blank")
	}
	j, err := jid.New(local, domain, res)
	if err != nil {
		// all parts are valid by construction; fall back to something certainly valid
		j = jid.MustParse("romeo@example.net")
	}
	return j
}

func esc(s string) string {
	var b strings.Builder
	_ = xml.EscapeText(&b, []byte(s))
	return b.String()
}

func wsCtx(ws bool) context.Context {
	if ws {
		return context.WithValue(context.Background(), wskey.Key{}, struct{}{})
	}
	return context.Background()
}

type rw struct {
	io.Reader
	io.Writer
}

// parseHeader parses a printed header with an independent encoding/xml pass.
func parseHeader(b []byte, ws bool) (*xt.Node, error) {
	items, _, err := wire.ParseStream(b, true, "")
	if err != nil {
		return nil, err
	}
	for _, it := range items {
		switch it.Kind {
		case "open":
			if ws {
				return nil, fmt.Errorf("websocket header is not a complete element")
			}
			return it.Node, nil
		case "decl":
		default:
			return nil, fmt.Errorf("unexpected %s before the stream open tag: %q", it.Kind, it.Raw)
		}
	}
	return nil, fmt.Errorf("no stream open tag in %q", b)
}

// parseWSHeader parses <open .../>.
func parseWSHeader(b []byte) (*xt.Node, error) {
	d := xml.NewDecoder(bytes.NewReader(b))
	n, err := xt.FromReader(d, nil)
	if err != nil {
		return nil, err
	}
	if tok, err := d.Token(); err != io.EOF {
		return nil, fmt.Errorf("trailing %v %v after <open/>", tok, err)
	}
	return n, nil
}

// ---------------------------------------------------------------- (a) header printing

// failWriter accepts a number of bytes and then reports an error.
type failWriter struct{ accept int }

func (f *failWriter) Write(p []byte) (int, error) {
	if f.accept >= len(p) {
		f.accept -= len(p)
		return len(p), nil
	}
	n := f.accept
	f.accept = 0
	return n, errors.New("verif: the transport failed")
}

func TestC12HeaderPrinting(t *testing.T) {
	ev.Check(t, 15000, 100000, func(rt *rapid.T) {
		ws := rapid.Bool().Draw(rt, "ws")
		to := genJID(rt, "to", 0)
		from := genJID(rt, "from", 0)
		toS, fromS := to.String(), from.String()
		if rapid.IntRange(0, 5).Draw(rt, "noto") == 0 {
			toS = ""
		}
		if rapid.IntRange(0, 5).Draw(rt, "nofrom") == 0 {
			fromS = ""
		}
		id := ""
		if rapid.Bool().Draw(rt, "hasid") {
			id = gen.NonEmptyText(rt, "id")
		}
		lang := rapid.SampledFrom([]string{"", "en", "de-CH", "x-klingon", "zh-Hant-TW"}).Draw(rt, "lang")
		ns := rapid.SampledFrom([]string{stanza.NSClient, stanza.NSServer}).Draw(rt, "ns")
		special := strings.ContainsAny(toS+fromS+id, `'"&<>`)
		ev.Case(special, fmt.Sprintf("print ws=%v to=%q from=%q id=%q lang=%q ns=%s", ws, toS, fromS, id, lang, ns),
			"print", fmt.Sprintf("print-ws=%v", ws))
		fail := func(format string, args ...any) {
			rt.Helper()
			ev.Failf(rt, "intstream.Send(ws=%v, version=1.0, lang=%q, to=%q, from=%q, id=%q) xmlns=%s\n%s", ws, lang, toS, fromS, id, ns, fmt.Sprintf(format, args...))
		}
		// history: headers of other streams whose transmission failed (the
		// transport accepted none or some of the bytes) precede this one in the
		// process; nothing of them may turn up in this header
		for k, nfail := 0, rapid.SampledFrom([]int{0, 0, 0, 1, 2}).Draw(rt, "failedBefore"); k < nfail; k++ {
			fw := &failWriter{accept: rapid.SampledFrom([]int{0, 0, 1, 20, 60}).Draw(rt, "accepted")}
			staleInfo := stream.Info{XMLNS: ns}
			if p := ev.Guard(func() {
				_ = intstream.Send(rw{Writer: fw}, &staleInfo, rapid.Bool().Draw(rt, "stalews"), stream.DefaultVersion, "tlh", "stale-to.example", "stale-from@stale.example/stale", "stale-stream-id")
			}); p != "" {
				fail("an earlier Send over a failing transport: %s", p)
			}
			ev.Class("print-after-failed-header-write")
		}
		var buf bytes.Buffer
		info := stream.Info{XMLNS: ns}
		var err error
		if p := ev.Guard(func() {
			err = intstream.Send(rw{Writer: &buf}, &info, ws, stream.DefaultVersion, lang, toS, fromS, id)
		}); p != "" {
			fail("%s", p)
		}
		if bytes.Contains(buf.Bytes(), []byte("stale")) {
			fail("the header contains bytes of a header written earlier for another stream (whose transmission failed)\nheader: %q", buf.Bytes())
		}
		if err != nil {
			fail("Send failed: %v", err)
		}
		var n *xt.Node
		if ws {
			n, err = parseWSHeader(buf.Bytes())
		} else {
			n, err = parseHeader(buf.Bytes(), false)
		}
		if err != nil {
			fail("header is not well-formed: %v\nheader: %q", err, buf.Bytes())
		}
		if n.DupAttr {
			fail("header has a duplicated attribute: %q", buf.Bytes())
		}
		wantName := xml.Name{Space: wire.StreamNS, Local: "stream"}
		if ws {
			wantName = xml.Name{Space: wsNS, Local: "open"}
		}
		if n.Name != wantName {
			fail("header element is %v, want %v\nheader: %q", n.Name, wantName, buf.Bytes())
		}
		get := func(local string) string { v, _ := n.Get(local); return v }
		if get("to") != toS || get("from") != fromS || get("id") != id || get("version") != "1.0" {
			fail("a peer parsing the header recovers to=%q from=%q id=%q version=%q\nheader: %q", get("to"), get("from"), get("id"), get("version"), buf.Bytes())
		}
		gotLang := ""
		for _, a := range n.Attr {
			if a.Name.Local == "lang" && (a.Name.Space == xmlNS || a.Name.Space == "xml") {
				gotLang = a.Value
			}
		}
		if gotLang != lang {
			fail("a peer parsing the header recovers xml:lang=%q\nheader: %q", gotLang, buf.Bytes())
		}
		if !ws {
			gotNS := ""
			for _, a := range n.Attr {
				if a.Name.Space == "" && a.Name.Local == "xmlns" {
					gotNS = a.Value
				}
			}
			if gotNS != ns {
				fail("content namespace in the header is %q\nheader: %q", gotNS, buf.Bytes())
			}
		}
		// the library's own parser must recover the same information
		var in stream.Info
		var eerr error
		recv := id == ""
		if p := ev.Guard(func() {
			eerr = intstream.Expect(context.Background(), &in, xml.NewDecoder(bytes.NewReader(buf.Bytes())), recv, ws)
		}); p != "" {
			fail("Expect on the printed header: %s", p)
		}
		if eerr != nil {
			fail("Expect rejects the header the library printed: %v\nheader: %q", eerr, buf.Bytes())
		}
		if in.To.String() != toS || in.From.String() != fromS || in.ID != id || in.Version != stream.DefaultVersion || in.Lang != lang {
			fail("Expect recovers to=%q from=%q id=%q version=%v lang=%q\nheader: %q", in.To, in.From, in.ID, in.Version, in.Lang, buf.Bytes())
		}
		if !ws && in.XMLNS != ns {
			fail("Expect recovers content namespace %q\nheader: %q", in.XMLNS, buf.Bytes())
		}
	})
}

// ---------------------------------------------------------------- (b) header acceptance

type hdr struct {
	raw      string
	accept   bool
	streamEr string
	why      string
}

const decoyAttrs = ` xmlns:d="urn:verif:decoy" d:id="decoy-id" d:version="1.0" d:xmlns="jabber:client" d:to="decoy.example" d:from="decoy@example.org/x" d:lang="tlh" xmlns:id="urn:verif:ids" xmlns:version="1.0" xmlns:to="urn:verif:to"`

func genHeader(t *rapid.T, ws, recv bool) hdr {
	var h hdr
	if rapid.IntRange(0, 9).Draw(t, "streamerr") == 0 {
		cond := rapid.SampledFrom([]string{"host-unknown", "conflict", "see-other-host", "unsupported-version"}).Draw(t, "cond")
		pre := ""
		if rapid.Bool().Draw(t, "errAfterOpen") && !ws {
			// error sent in place of the features but still before negotiation completes is
			// another clause; here: error in place of the header, which for TCP framing
			// needs the stream prefix declared on the element itself
		}
		// RFC 6120 4.9.2: descriptive text and an application-specific condition
		// element (in a namespace of the application) may accompany the defined
		// condition; the error is still the defined condition
		extra := rapid.SampledFrom([]string{"", "", `<text xmlns="urn:ietf:params:xml:ns:xmpp-streams" xml:lang="en">go away</text>`,
			`<overloaded xmlns="urn:example:app-errors"/>`, `<conflict xmlns="urn:example:app-errors">3</conflict>`,
			`<text xmlns="urn:ietf:params:xml:ns:xmpp-streams">t</text><banned xmlns="urn:example:app-errors"/>`}).Draw(t, "errExtra")
		h.raw = pre + `<stream:error xmlns:stream="` + wire.StreamNS + `"><` + cond + ` xmlns="urn:ietf:params:xml:ns:xmpp-streams"/>` + extra + `</stream:error>`
		h.streamEr = cond
		h.why = "stream error in place of the header"
		return h
	}
	okName := true
	var name string
	nameKind := rapid.IntRange(0, 9).Draw(t, "namekind")
	switch {
	case nameKind <= 6:
		if ws {
			name = `open xmlns="` + wsNS + `"`
		} else {
			name = `stream:stream xmlns:stream="` + wire.StreamNS + `"`
		}
	case nameKind == 7: // the other framing's open element
		okName = false
		if ws {
			name = `stream:stream xmlns:stream="` + wire.StreamNS + `"`
		} else {
			name = `open xmlns="` + wsNS + `"`
		}
	case nameKind == 8: // right local name, wrong namespace
		okName = false
		if ws {
			name = `open xmlns="urn:verif:x"`
		} else {
			name = `stream:stream xmlns:stream="urn:verif:x"`
		}
	default: // wrong local name
		okName = false
		if ws {
			name = `close xmlns="` + wsNS + `"`
		} else {
			name = `stream:features xmlns:stream="` + wire.StreamNS + `"`
		}
	}
	attrs := ""
	okNS := true
	if !ws || nameKind == 7 {
		switch rapid.IntRange(0, 6).Draw(t, "contentns") {
		case 0:
			okNS = false
			attrs += ` xmlns="urn:verif:other"`
		case 1:
			okNS = false // missing
		case 2:
			attrs += ` xmlns="` + stanza.NSServer + `"`
		default:
			attrs += ` xmlns="` + stanza.NSClient + `"`
		}
		if strings.Contains(name, ` xmlns="`) {
			// the element already declares a default namespace (the websocket open
			// element offered on a TCP stream): do not declare it twice
			attrs = ""
			okNS = false
		}
	}
	if ws {
		okNS = true
	}
	okVersion := true
	switch rapid.IntRange(0, 7).Draw(t, "version") {
	case 0:
		okVersion = false // missing
	case 1:
		okVersion = false
		attrs += ` version="` + rapid.SampledFrom([]string{"0.9", "1.1", "2.0", "1", "1.0.0", "x", "", "256.0", "257.0", "1.256", "513.512", "65537.65536", "4294967297.0", "18446744073709551617.0", "+1.0", "1.+0", "-255.0", "1.-256", " 1.0", "1.0 ", "1,0", "1.0.", ".0", "1.", "0x1.0", "1e0.0"}).Draw(t, "badversion") + `"`
	default:
		attrs += ` version="1.0"`
	}
	okID := true
	switch rapid.IntRange(0, 3).Draw(t, "id") {
	case 0:
		okID = recv
	case 1:
		okID = recv
		attrs += ` id=""`
	default:
		attrs += ` id="` + esc(gen.NonEmptyText(t, "idv")) + `"`
	}
	okAddr := true
	switch rapid.IntRange(0, 5).Draw(t, "addr") {
	case 0:
		okAddr = false
		attrs += ` from="` + rapid.SampledFrom([]string{"@example.net", "a@/r", "a@b@c/", "/"}).Draw(t, "badjid") + `"`
	case 1:
		okAddr = false
		attrs += ` to="@"`
	case 2:
		attrs += ` from="` + esc(genJID(t, "hfrom", 0).String()) + `" to="` + esc(genJID(t, "hto", 0).String()) + `"`
	case 3:
		attrs += ` xml:lang="en" from="example.net"`
	}
	if rapid.IntRange(0, 4).Draw(t, "foreignattr") == 0 {
		attrs += ` foo="bar" xmlns:x="urn:verif:x" x:y="z"`
	}
	if rapid.IntRange(0, 2).Draw(t, "decoyattrs") == 0 {
		// qualified attributes, and prefix declarations, that merely share the
		// local name of a header attribute are not that attribute: they neither
		// make up for a missing one nor override the real one
		attrs += decoyAttrs
	}
	lead := rapid.SampledFrom([]string{"", "", `<?xml version="1.0"?>`, `<?xml version="1.0" encoding="UTF-8"?>` + "\n", " \n"}).Draw(t, "lead")
	end := ">"
	if ws || nameKind == 7 && !ws {
		end = "/>"
	}
	h.raw = lead + "<" + name + attrs + end
	h.accept = okName && okNS && okVersion && okID && okAddr
	h.why = fmt.Sprintf("open-element-of-framing=%v content-namespace-supported=%v version-1.0=%v id-ok=%v addresses-parse=%v", okName, okNS, okVersion, okID, okAddr)
	return h
}

func TestC12HeaderAcceptance(t *testing.T) {
	ev.Check(t, 20000, 150000, func(rt *rapid.T) {
		ws := rapid.Bool().Draw(rt, "ws")
		recv := rapid.Bool().Draw(rt, "recv")
		h := genHeader(rt, ws, recv)
		classes := []string{"accept", fmt.Sprintf("accept-ws=%v-recv=%v", ws, recv)}
		if !h.accept {
			classes = append(classes, "rejected-header")
		}
		ev.Case(!h.accept, fmt.Sprintf("expect ws=%v recv=%v %q", ws, recv, h.raw), classes...)
		fail := func(format string, args ...any) {
			rt.Helper()
			ev.Failf(rt, "intstream.Expect(recv=%v, ws=%v) on %q\nreference: %s\n%s", recv, ws, h.raw, h.why, fmt.Sprintf(format, args...))
		}
		var in stream.Info
		var err error
		if p := ev.Guard(func() {
			err = intstream.Expect(context.Background(), &in, xml.NewDecoder(strings.NewReader(h.raw)), recv, ws)
		}); p != "" {
			fail("%s", p)
		}
		switch {
		case h.streamEr != "":
			var se stream.Error
			if !errors.As(err, &se) || se.Err != h.streamEr {
				fail("a stream error sent in place of the header must be returned as such, got %T %v", err, err)
			}
		case h.accept && err != nil:
			fail("header must be accepted, got %v", err)
		case !h.accept && err == nil:
			fail("header must be rejected, but it was accepted (info %+v)", in)
		}
	})
}

// ---------------------------------------------------------------- (c) restarts and (d) bind, through the public API

// decoysInHeaders makes tcpHeaderV add qualified look-alike attributes (set per
// case by TestC12Restart).
var decoysInHeaders bool

var langAttr = regexp.MustCompile(`xml:lang=['"]([^'"]*)['"]`)

func tcpHeader(ns, from, to, id string) string {
	return tcpHeaderV(ns, from, to, id, "1.0")
}

// tcpHeaderV: ns == "" omits the content namespace declaration, version == ""
// the version attribute.
func tcpHeaderV(ns, from, to, id, version string) string {
	s := `<?xml version="1.0"?><stream:stream`
	if ns != "" {
		s += ` xmlns="` + ns + `"`
	}
	s += ` xmlns:stream="` + wire.StreamNS + `"`
	if version != "" {
		s += ` version="` + version + `"`
	}
	if decoysInHeaders {
		s += decoyAttrs
	}
	if id != "" {
		s += ` id="` + esc(id) + `"`
	}
	if from != "" {
		s += ` from="` + esc(from) + `"`
	}
	if to != "" {
		s += ` to="` + esc(to) + `"`
	}
	return s + ">"
}

// restartFeature is a harness stream feature that asks for a stream restart.
func restartFeature(ran *int) xmpp.StreamFeature {
	return xmpp.StreamFeature{
		Name:       xml.Name{Space: "urn:verif:restart", Local: "restart"},
		Prohibited: xmpp.Authn,
		List: func(ctx context.Context, e xmlstream.TokenWriter, start xml.StartElement) (bool, error) {
			if err := e.EncodeToken(start); err != nil {
				return true, err
			}
			return true, e.EncodeToken(start.End())
		},
		Parse: func(ctx context.Context, d *xml.Decoder, start *xml.StartElement) (bool, interface{}, error) {
			return true, nil, d.Skip()
		},
		Negotiate: func(ctx context.Context, s *xmpp.Session, data interface{}) (xmpp.SessionState, io.ReadWriter, error) {
			*ran++
			if s.State()&xmpp.Received != 0 {
				// consume the selection <restart/>
				r := s.TokenReader()
				d := xml.NewTokenDecoder(r)
				tok, err := d.Token()
				if err == nil {
					if _, ok := tok.(xml.StartElement); ok {
						err = d.Skip()
					}
				}
				r.Close()
				if err != nil {
					return 0, nil, err
				}
				if _, err := fmt.Fprint(s.Conn(), `<ok xmlns="urn:verif:restart"/>`); err != nil {
					return 0, nil, err
				}
				return xmpp.Authn, s.Conn(), nil
			}
			if _, err := fmt.Fprint(s.Conn(), `<restart xmlns="urn:verif:restart"/>`); err != nil {
				return 0, nil, err
			}
			r := s.TokenReader()
			d := xml.NewTokenDecoder(r)
			tok, err := d.Token()
			if err == nil {
				if _, ok := tok.(xml.StartElement); ok {
					err = d.Skip()
				}
			}
			r.Close()
			if err != nil {
				return 0, nil, err
			}
			return xmpp.Authn, s.Conn(), nil
		},
	}
}

func TestC12Restart(t *testing.T) {
	ev.Check(t, 8000, 40000, func(rt *rapid.T) {
		recv := rapid.Bool().Draw(rt, "recv")
		// (a receiving server-to-server session has no way of being told the
		// addresses it expects, so any header naming an origin is refused; that
		// is outside this property's "accepted only if" clause: c2s only when
		// receiving)
		s2s := rapid.Bool().Draw(rt, "s2s") && !recv
		ns := stanza.NSClient
		state := xmpp.SessionState(0)
		if s2s {
			ns = stanza.NSServer
			state |= xmpp.S2S
		}
		// the initiating side's own address may carry a resourcepart (the one it
		// will ask for in resource binding)
		us := genJID(rt, "us", 0)
		them := genJID(rt, "them", 0)
		if !recv {
			them = them.Domain()
		} else {
			us = us.Domain()
		}
		// one case in four goes through the convenience constructor of its kind
		// (NewClientSession: the server is the domain of the own address)
		wrapper := rapid.IntRange(0, 3).Draw(rt, "wrapper") == 0
		if wrapper && !recv && !s2s {
			them = us.Domain()
		}
		// a client's first header need not say who it is: then no origin is
		// established, only the location the client asked for
		firstNoFrom := recv && rapid.IntRange(0, 3).Draw(rt, "firstNoFrom") == 0
		// second header: which address changes ("resource": the initiating
		// entity's address differs in nothing but the resourcepart)
		change := rapid.SampledFrom([]string{"none", "none", "from", "to", "dropfrom", "dropto", "both", "resource", "shift"}).Draw(rt, "change")
		other := jid.MustParse("mallory@evil.example")
		if (recv && change == "to") || (!recv && change == "from") || change == "both" {
			other = other.Domain()
		}
		// second header: what it fails to declare although the first one did (what
		// an earlier header of the same connection said does not count for a later one)
		defects := []string{"none", "none", "none", "none", "noversion", "badversion", "nons", "otherns", "nostreamprefix", "otherstreamns"}
		if !recv {
			defects = append(defects, "noid")
		}
		defect := rapid.SampledFrom(defects).Draw(rt, "defect")
		ns2, id2, version2 := ns, "s2", "1.0"
		switch defect {
		case "noversion":
			version2 = ""
		case "badversion":
			version2 = rapid.SampledFrom([]string{"0.9", "1.1", "2.0", "x", "257.0", "1.256", "+1.0", "-255.0"}).Draw(rt, "badversion")
		case "nons":
			ns2 = ""
		case "otherns":
			ns2 = "urn:verif:other"
		case "noid":
			id2 = ""
		}
		if recv {
			id2 = ""
		}
		decoysInHeaders = rapid.IntRange(0, 2).Draw(rt, "decoys") == 0
		defer func() { decoysInHeaders = false }()
		desc := fmt.Sprintf("restart recv=%v s2s=%v convenience-constructor=%v us=%s them=%s second-header-change=%s second-header-defect=%s qualified-look-alike-attributes=%v first-header-without-from=%v", recv, s2s, wrapper, us, them, change, defect, decoysInHeaders, firstNoFrom)
		ev.Case(true, desc, "restart", "restart-"+change, "restart-defect-"+defect)
		fail := func(format string, args ...any) {
			rt.Helper()
			ev.Failf(rt, "%s\n%s", desc, fmt.Sprintf(format, args...))
		}
		ran := 0
		feat := restartFeature(&ran)
		headers := 0
		from1 := them.String()
		if firstNoFrom {
			from1 = ""
		}
		from2, to2 := from1, us.String()
		switch change {
		case "from":
			from2 = other.String()
		case "to":
			to2 = other.String()
		case "both":
			from2, to2 = other.String(), "elsewhere.example"
		case "dropfrom":
			from2 = ""
		case "dropto":
			to2 = ""
		case "shift":
			// the same octets with the boundary between domainpart and
			// resourcepart moved: example.net -> example.ne/t,
			// me@example.org/phone -> me@example.orgphone
			shift := func(j jid.JID) string {
				var alt jid.JID
				var err error
				if r := j.Resourcepart(); r != "" {
					alt, err = jid.New(j.Localpart(), j.Domainpart()+r, "")
				} else {
					d := j.Domainpart()
					alt, err = jid.New(j.Localpart(), d[:len(d)-1], d[len(d)-1:])
				}
				if err != nil || alt.String() == j.String() {
					return "shifted.invalid"
				}
				return alt.String()
			}
			if rapid.Bool().Draw(rt, "shiftFrom") {
				from2 = shift(them)
			} else {
				to2 = shift(us)
			}
		case "resource":
			initiator := us
			if recv {
				initiator = them
			}
			var alt jid.JID
			if initiator.Resourcepart() != "" && rapid.Bool().Draw(rt, "dropres") {
				alt = initiator.Bare()
			} else {
				// another resourcepart: one that differs in a further character, or
				// in nothing but a space at its end or beginning
				suffix := rapid.SampledFrom([]string{"2", "2", " ", "\t"}).Draw(rt, "ressuffix")
				var err error
				if suffix == " " && rapid.Bool().Draw(rt, "spacefirst") {
					alt, err = initiator.WithResource(" " + initiator.Resourcepart() + "x")
				} else {
					alt, err = initiator.WithResource(initiator.Resourcepart() + suffix)
				}
				if err != nil || alt.Equal(initiator) {
					alt, _ = initiator.WithResource(initiator.Resourcepart() + "2")
				}
			}
			if recv {
				from2 = alt.String()
			} else {
				to2 = alt.String()
			}
		}
		// the language of the session's streams is chosen per session by the
		// configuration function (the initial configuration names another one)
		lang := rapid.SampledFrom([]string{"", "", "en", "de-CH", "x-klingon"}).Draw(rt, "lang")
		header2 := func() string {
			h := tcpHeaderV(ns2, from2, to2, id2, version2)
			switch defect {
			case "nostreamprefix":
				// the prefix of the open tag is not declared by this header (what an
				// earlier header of the connection declared does not count)
				h = strings.Replace(h, ` xmlns:stream="`+wire.StreamNS+`"`, ``, 1)
			case "otherstreamns":
				h = strings.Replace(h, ` xmlns:stream="`+wire.StreamNS+`"`, ` xmlns:stream="urn:verif:notstreams"`, 1)
			}
			return h
		}
		peer := wire.NewReactive(func(r *wire.Reactive, fresh []byte) []byte {
			if !recv {
				// we are the receiving entity of the library's stream
				switch {
				case bytes.Contains(fresh, []byte("<stream:stream")):
					headers++
					if headers == 1 {
						return []byte(tcpHeader(ns, them.String(), us.String(), "s1") + `<stream:features><restart xmlns="urn:verif:restart"/></stream:features>`)
					}
					if defect == "nostreamprefix" || defect == "otherstreamns" {
						return []byte(header2())
					}
					return []byte(header2() + `<stream:features/>`)
				case bytes.Contains(fresh, []byte("<restart")):
					return []byte(`<ok xmlns="urn:verif:restart"/>`)
				}
				return nil
			}
			// we are the initiating entity
			switch r.Steps {
			case 0:
				return []byte(tcpHeader(ns, from1, us.String(), ""))
			case 1:
				return []byte(`<restart xmlns="urn:verif:restart"/>`)
			case 2:
				return []byte(header2())
			}
			return nil
		})
		neg := xmpp.NewNegotiator(func(sess *xmpp.Session, _ *xmpp.StreamConfig) xmpp.StreamConfig {
			cfg := xmpp.StreamConfig{Features: []xmpp.StreamFeature{feat}}
			if lang != "" {
				cfg.Lang = "zz"
				if sess != nil {
					cfg.Lang = lang
				}
			}
			return cfg
		})
		defer func() {
			// every header the library sent after the first carries the language
			// the configuration function chose for this session
			if wrapper || lang == "" {
				return
			}
			for i, part := range bytes.Split(peer.Conn.Output(), []byte("<?xml"))[1:] {
				end := bytes.Index(part, []byte("<stream:stream"))
				if end < 0 {
					continue
				}
				tag := part[end:]
				if k := bytes.IndexByte(tag, '>'); k >= 0 {
					tag = tag[:k]
				}
				m := langAttr.FindSubmatch(tag)
				got := ""
				if m != nil {
					got = string(m[1])
				}
				if i >= 1 && got != lang {
					fail("header %d the library sent declares the language %q; the configuration function chose %q for this session\noutput: %q", i, got, lang, peer.Conn.Output())
				}
			}
		}()
		var s *xmpp.Session
		var err error
		if p := ev.Guard(func() {
			switch {
			case wrapper && recv:
				s, err = xmpp.ReceiveClientSession(context.Background(), us, peer.Conn, feat)
			case wrapper && s2s:
				s, err = xmpp.NewServerSession(context.Background(), them, us, peer.Conn, feat)
			case wrapper:
				s, err = xmpp.NewClientSession(context.Background(), us, peer.Conn, feat)
			case recv:
				s, err = xmpp.ReceiveSession(context.Background(), peer.Conn, state, neg)
			default:
				s, err = xmpp.NewSession(context.Background(), them, us, peer.Conn, state, neg)
			}
		}); p != "" {
			fail("%s", p)
		}
		changed := change == "from" || change == "to" || change == "both" || change == "resource" || change == "shift"
		if firstNoFrom && from2 != "" && to2 == us.String() {
			// an origin named for the first time differs from nothing established:
			// the statement does not say whether that header is accepted
			return
		}
		if ran != 1 {
			fail("the restarting feature ran %d times (harness expectation 1); err=%v output=%q", ran, err, peer.Conn.Output())
		}
		sentHeaders := bytes.Count(peer.Conn.Output(), []byte("<stream:stream"))
		if recv && defect == "none" {
			// the receiving side answers an accepted header with its own: a rejected
			// second header leaves exactly one header of ours on the wire
			if changed && sentHeaders != 1 {
				fail("the header after the restart carries changed addresses (from=%q to=%q; established from=%q to=%q) but the library answered it with a stream header of its own (%d headers sent)\noutput: %q", from2, to2, them, us, sentHeaders, peer.Conn.Output())
			}
			if !changed && sentHeaders != 2 {
				fail("the header after the restart is consistent but was not answered (%d headers sent, err=%v)\noutput: %q", sentHeaders, err, peer.Conn.Output())
			}
		}
		if defect != "none" {
			why := map[string]string{"noversion": "declares no version", "badversion": "declares version " + version2, "nons": "declares no content namespace",
				"otherns": "declares the content namespace urn:verif:other", "noid": "carries no stream id",
				"nostreamprefix": "does not declare the prefix of its open tag", "otherstreamns": "binds the prefix of its open tag to another namespace"}[defect]
			if err == nil {
				fail("the header after the restart %s but was accepted; state %v\noutput: %q", why, s.State(), peer.Conn.Output())
			}
			if s != nil && s.State()&xmpp.Ready != 0 {
				fail("session ready after a restart header that %s", why)
			}
			if recv && sentHeaders != 1 {
				fail("the header after the restart %s but the library answered it with a stream header of its own (%d headers sent)\noutput: %q", why, sentHeaders, peer.Conn.Output())
			}
			return
		}
		if changed {
			if err == nil {
				fail("the header after the restart carries addresses (from=%q to=%q) that differ from the established ones (from=%q to=%q) but was accepted; state %v", from2, to2, them, us, s.State())
			}
			if s != nil && s.State()&xmpp.Ready != 0 {
				fail("session ready after a header with changed addresses")
			}
			return
		}
		if recv {
			// as receiver the library keeps reading selections after the restart; the
			// peer ends the stream, so an error (EOF) is the expected outcome
			return
		}
		if err != nil {
			fail("negotiation with unchanged addresses failed: %v\noutput: %q", err, peer.Conn.Output())
		}
		if !s.LocalAddr().Equal(us) || !s.RemoteAddr().Equal(them) {
			fail("after negotiation LocalAddr=%s RemoteAddr=%s, want %s / %s", s.LocalAddr(), s.RemoteAddr(), us, them)
		}
		// what the session reports about its two streams is what the headers said
		in, outInfo := s.In(), s.Out()
		if in.ID != id2 || !in.From.Equal(them) || !in.To.Equal(us) || in.XMLNS != ns {
			fail("In() reports id=%q from=%s to=%s xmlns=%q; the peer's last header said id=%q from=%s to=%s xmlns=%q", in.ID, in.From, in.To, in.XMLNS, id2, them, us, ns)
		}
		if !outInfo.To.Equal(them) || !outInfo.From.Equal(us) || outInfo.XMLNS != ns {
			fail("Out() reports to=%s from=%s xmlns=%q; our headers named to=%s from=%s xmlns=%q", outInfo.To, outInfo.From, outInfo.XMLNS, them, us, ns)
		}
		// both headers the library sent must name the peer and us
		out := peer.Conn.Output()
		for i, part := range bytes.Split(out, []byte("<?xml"))[1:] {
			n, perr := parseHeader(append([]byte("<?xml"), part...), false)
			if perr != nil {
				// the part also contains the feature selection; cut at the end of the open tag
				end := bytes.IndexByte(part, '>')
				end2 := bytes.IndexByte(part[end+1:], '>')
				n, perr = parseHeader(append([]byte("<?xml"), part[:end+1+end2+1]...), false)
			}
			if perr != nil {
				fail("header %d the library sent is not well-formed: %v\noutput: %q", i, perr, out)
			}
			if to, _ := n.Get("to"); to != them.String() {
				fail("header %d the library sent has to=%q, want %q", i, to, them.String())
			}
			if from, _ := n.Get("from"); from != us.String() {
				fail("header %d the library sent has from=%q, want %q", i, from, us.String())
			}
		}
	})
}

// ---------------------------------------------------------------- (d) resource binding

func TestC12BindInitiator(t *testing.T) {
	ev.Check(t, 10000, 50000, func(rt *rapid.T) {
		wantRes := 1
		if rapid.IntRange(0, 2).Draw(rt, "nores") == 0 {
			wantRes = -1
		}
		local := genJID(rt, "local", wantRes)
		if local.Localpart() == "" {
			local = jid.MustParse("romeo@" + local.Domainpart())
			if wantRes > 0 {
				local, _ = local.WithResource("orchard'<&>")
			}
		}
		policy := rapid.SampledFrom([]string{"result", "result", "result-other", "error", "wrongid", "noid", "emptyid", "notype", "malformed", "nobind", "typeget"}).Draw(rt, "policy")
		assigned := local
		switch policy {
		case "result-other":
			assigned = genJID(rt, "assigned", 1)
		case "result":
			if local.Resourcepart() == "" {
				assigned, _ = local.WithResource("srv-" + rapid.SampledFrom(resourceBits).Draw(rt, "srvres"))
			}
		}
		// the assigned address in any of the spellings XML has for the same text
		jidSpelling := gen.SpellText(rt, "jidtext", assigned.String())
		desc := fmt.Sprintf("bind initiator local=%s policy=%s assigned=%s (written as %q)", local, policy, assigned, jidSpelling)
		ev.Case(local.Resourcepart() != "" || policy != "result", desc, "bind-initiator", "bind-"+policy)
		fail := func(format string, args ...any) {
			rt.Helper()
			ev.Failf(rt, "%s\n%s", desc, fmt.Sprintf(format, args...))
		}
		var request *xt.Node
		peer := wire.NewReactive(func(r *wire.Reactive, fresh []byte) []byte {
			switch {
			case bytes.Contains(fresh, []byte("<stream:stream")):
				return []byte(tcpHeader(stanza.NSClient, local.Domain().String(), "", "s1") + `<stream:features><bind xmlns="` + bindNS + `"/></stream:features>`)
			case bytes.Contains(fresh, []byte("<iq")):
				items, _, err := wire.ParseStream(fresh, false, stanza.NSClient)
				if err != nil || len(wire.Elements(items)) != 1 {
					return nil
				}
				request = wire.Elements(items)[0]
				id, _ := request.Get("id")
				switch policy {
				case "result", "result-other":
					return []byte(`<iq type="result" id="` + esc(id) + `"><bind xmlns="` + bindNS + `"><jid>` + jidSpelling + `</jid></bind></iq>`)
				case "error":
					return []byte(`<iq type="error" id="` + esc(id) + `"><error type="cancel"><conflict xmlns="urn:ietf:params:xml:ns:xmpp-stanzas"/></error></iq>`)
				case "wrongid":
					return []byte(`<iq type="result" id="` + esc(id) + `x"><bind xmlns="` + bindNS + `"><jid>` + esc(assigned.String()) + `</jid></bind></iq>`)
				case "noid":
					// a reply that does not name the request it answers
					return []byte(`<iq type="result"><bind xmlns="` + bindNS + `"><jid>` + esc(assigned.String()) + `</jid></bind></iq>`)
				case "emptyid":
					return []byte(`<iq id="" type="result"><bind xmlns="` + bindNS + `"><jid>` + esc(assigned.String()) + `</jid></bind></iq>`)
				case "notype":
					return []byte(`<iq id="` + esc(id) + `"><bind xmlns="` + bindNS + `"><jid>` + esc(assigned.String()) + `</jid></bind></iq>`)
				case "malformed":
					return []byte(`<iq type="result" id="` + esc(id) + `"><bind xmlns="` + bindNS + `"><jid>@@@</jid></bind></iq>`)
				case "nobind":
					return []byte(`text instead of an element`)
				case "typeget":
					return []byte(`<iq type="get" id="` + esc(id) + `"><bind xmlns="` + bindNS + `"><jid>` + esc(assigned.String()) + `</jid></bind></iq>`)
				}
			}
			return nil
		})
		var s *xmpp.Session
		var err error
		if p := ev.Guard(func() {
			s, err = xmpp.NewSession(context.Background(), local.Domain(), local, peer.Conn, xmpp.Secure|xmpp.Authn,
				xmpp.NewNegotiator(func(*xmpp.Session, *xmpp.StreamConfig) xmpp.StreamConfig {
					return xmpp.StreamConfig{Features: []xmpp.StreamFeature{xmpp.BindResource()}}
				}))
		}); p != "" {
			fail("%s", p)
		}
		if request == nil {
			fail("no bind request seen; err=%v output=%q", err, peer.Conn.Output())
		}
		if typ, _ := request.Get("type"); request.Name.Local != "iq" || typ != "set" {
			fail("bind request is %s", request.Canon())
		}
		b := request.Find("bind")
		if b == nil || b.Name.Space != bindNS {
			fail("bind request has no bind payload: %s", request.Canon())
		}
		res := b.Find("resource")
		switch {
		case local.Resourcepart() == "":
			if res != nil && res.InnerText() != "" {
				fail("address without resourcepart but the request asks for %q", res.InnerText())
			}
		case res == nil:
			fail("own address has resourcepart %q but the request asks for none: %s", local.Resourcepart(), request.Canon())
		case res.InnerText() != local.Resourcepart():
			fail("own address has resourcepart %q but the request asks for %q", local.Resourcepart(), res.InnerText())
		}
		switch policy {
		case "result", "result-other":
			if err != nil {
				fail("bind result but negotiation failed: %v", err)
			}
			if s.State()&xmpp.Ready == 0 {
				fail("bind result but the session is not ready")
			}
			if !s.LocalAddr().Equal(assigned) {
				fail("server assigned %s but the session reports %s", assigned, s.LocalAddr())
			}
			if in, out := s.In(), s.Out(); !in.To.Equal(assigned) || !out.From.Equal(assigned) {
				fail("server assigned %s; afterwards In().To = %s and Out().From = %s", assigned, in.To, out.From)
			}
		default:
			if err == nil {
				fail("bind reply %q accepted: session state %v addr %s", policy, s.State(), s.LocalAddr())
			}
			if s != nil && s.State()&xmpp.Ready != 0 {
				fail("session ready after bind reply %q", policy)
			}
		}
	})
}

func TestC12BindReceiver(t *testing.T) {
	ev.Check(t, 10000, 50000, func(rt *rapid.T) {
		client := genJID(rt, "client", -1)
		if client.Localpart() == "" {
			client = jid.MustParse("juliet@" + client.Domainpart())
		}
		reqRes := ""
		if rapid.Bool().Draw(rt, "reqres") {
			reqRes = rapid.SampledFrom(resourceBits).Draw(rt, "res") + rapid.SampledFrom(resourceBits).Draw(rt, "res2")
		}
		id := gen.NonEmptyText(rt, "id")
		mode := rapid.SampledFrom([]string{"default", "custom", "custom", "custom-stanzaerr", "custom-err"}).Draw(rt, "mode")
		given, _ := client.WithResource("given-" + rapid.SampledFrom(resourceBits).Draw(rt, "gres"))
		desc := fmt.Sprintf("bind receiver client=%s requested=%q id=%q mode=%s", client, reqRes, id, mode)
		ev.Case(true, desc, "bind-receiver", "bindrecv-"+mode)
		fail := func(format string, args ...any) {
			rt.Helper()
			ev.Failf(rt, "%s\n%s", desc, fmt.Sprintf(format, args...))
		}
		type cbArgs struct {
			j jid.JID
			r string
		}
		var calls []cbArgs
		feat := xmpp.BindResource()
		if mode == "default" && rapid.Bool().Draw(rt, "sharedFeatureValue") {
			// one feature value serving many sessions, as a server builds its
			// feature list once
			feat = sharedBind
			ev.Class("bind-feature-value-reused")
		}
		switch mode {
		case "custom":
			feat = xmpp.BindCustom(func(j jid.JID, r string) (jid.JID, error) {
				calls = append(calls, cbArgs{j, r})
				return given, nil
			})
		case "custom-stanzaerr":
			feat = xmpp.BindCustom(func(j jid.JID, r string) (jid.JID, error) {
				calls = append(calls, cbArgs{j, r})
				return jid.JID{}, stanza.Error{Type: stanza.Cancel, Condition: stanza.Conflict}
			})
		case "custom-err":
			feat = xmpp.BindCustom(func(j jid.JID, r string) (jid.JID, error) {
				calls = append(calls, cbArgs{j, r})
				return jid.JID{}, errors.New("verif: database down")
			})
		}
		var reply *xt.Node
		var replyRaw []byte
		peer := wire.NewReactive(func(r *wire.Reactive, fresh []byte) []byte {
			switch r.Steps {
			case 0:
				return []byte(tcpHeader(stanza.NSClient, client.String(), client.Domain().String(), ""))
			case 1:
				req := `<iq type="set" id="` + esc(id) + `"><bind xmlns="` + bindNS + `">`
				if reqRes != "" {
					req += `<resource>` + esc(reqRes) + `</resource>`
				}
				return []byte(req + `</bind></iq>`)
			case 2:
				replyRaw = append([]byte(nil), fresh...)
				items, _, err := wire.ParseStream(fresh, false, stanza.NSClient)
				if err == nil && len(wire.Elements(items)) >= 1 {
					reply = wire.Elements(items)[0]
				}
			}
			return nil
		})
		var s *xmpp.Session
		var err error
		if p := ev.Guard(func() {
			s, err = xmpp.ReceiveSession(context.Background(), peer.Conn, xmpp.Secure|xmpp.Authn,
				xmpp.NewNegotiator(func(*xmpp.Session, *xmpp.StreamConfig) xmpp.StreamConfig {
					return xmpp.StreamConfig{Features: []xmpp.StreamFeature{feat}}
				}))
		}); p != "" {
			fail("%s", p)
		}
		if mode != "default" {
			if len(calls) != 1 {
				fail("the application's callback was called %d times; err=%v", len(calls), err)
			}
			if calls[0].r != reqRes || !calls[0].j.Equal(client) {
				fail("callback called with (%s, %q), the client %s asked for %q", calls[0].j, calls[0].r, client, reqRes)
			}
		}
		if mode == "custom-err" {
			if err == nil {
				fail("the callback failed but negotiation succeeded")
			}
			return
		}
		if reply == nil {
			if len(replyRaw) == 0 {
				replyRaw = peer.Conn.Output()[peer.Mark:]
				items, _, perr := wire.ParseStream(replyRaw, false, stanza.NSClient)
				if perr == nil && len(wire.Elements(items)) >= 1 {
					reply = wire.Elements(items)[0]
				}
			}
			if reply == nil {
				fail("no well-formed reply to the bind request: err=%v output after the request: %q", err, replyRaw)
			}
		}
		if rid, _ := reply.Get("id"); reply.Name.Local != "iq" || rid != id {
			fail("the reply %s does not answer the request's id %q", reply.Canon(), id)
		}
		if mode == "custom-stanzaerr" {
			return
		}
		if err != nil {
			fail("bind succeeded on the wire but negotiation failed: %v", err)
		}
		if typ, _ := reply.Get("type"); typ != "result" {
			fail("reply type %q", typ)
		}
		b := reply.Find("bind")
		if b == nil || b.Find("jid") == nil {
			fail("reply carries no bound address: %s", reply.Canon())
		}
		bound, perr := jid.Parse(b.Find("jid").InnerText())
		if perr != nil {
			fail("bound address %q does not parse: %v", b.Find("jid").InnerText(), perr)
		}
		switch mode {
		case "custom":
			if !bound.Equal(given) {
				fail("the callback chose %s but the reply says %s", given, bound)
			}
		case "default":
			if !bound.Bare().Equal(client) || bound.Resourcepart() == "" {
				fail("default bind must assign a fresh non-empty resource on %s, reply says %s", client, bound)
			}
			seenMu.Lock()
			dup := seenRes[bound.Resourcepart()]
			seenRes[bound.Resourcepart()] = true
			seenMu.Unlock()
			if dup {
				fail("default bind assigned resource %q twice: not fresh", bound.Resourcepart())
			}
		}
		if s.State()&xmpp.Ready == 0 {
			fail("bind done but the session is not ready")
		}
	})
}

var (
	seenMu     sync.Mutex
	seenRes    = map[string]bool{}
	sharedBind = xmpp.BindResource()
)
