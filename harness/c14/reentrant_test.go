package c14

// Re-entrant and repeated dispatch through one multiplexer: a message handler
// unwraps an embedded stanza (as carbons / forwarding handlers do) and hands it
// to the same multiplexer before it returns.  What the multiplexer buffers for
// one stanza is that stanza's alone: the handlers chosen for the later payloads
// of the outer stanza are still handed the complete outer stanza from its start
// element, and the handlers of the embedded stanza theirs.

import (
	"encoding/xml"
	"fmt"
	"strings"
	"testing"

	"pgregory.net/rapid"

	"mellium.im/xmlstream"
	"mellium.im/xmpp/mux"
	"mellium.im/xmpp/stanza"
	"mellium.im/xmpp/verifharness/internal/ev"
)

type reCase struct {
	stanzaNS string
	outer    []string // local names of the outer message's payloads: a (re-enters), b, d
	texts    []string
	inner    []string // payloads of the embedded chat message: c, e
	rounds   int
	partial  bool // the re-entering handler reads only part of the outer stanza first
}

func (c reCase) outerXML(round int) string {
	var sb strings.Builder
	fmt.Fprintf(&sb, `<message xmlns="%s" id="o%d" from="a@example.org/x">`, c.stanzaNS, round)
	for i, p := range c.outer {
		fmt.Fprintf(&sb, `<%s xmlns="urn:verif:%s" n="%d">%s</%s>`, p, p, i, c.texts[i%len(c.texts)], p)
	}
	sb.WriteString(`</message>`)
	return sb.String()
}

func (c reCase) innerXML() string {
	var sb strings.Builder
	fmt.Fprintf(&sb, `<message xmlns="%s" type="chat" id="inner" from="b@example.org/y">`, c.stanzaNS)
	for i, p := range c.inner {
		fmt.Fprintf(&sb, `<%s xmlns="urn:verif:%s" n="i%d">embedded</%s>`, p, p, i, p)
	}
	sb.WriteString(`</message>`)
	return sb.String()
}

func (c reCase) String() string {
	return fmt.Sprintf("mux.New(%q); outer payloads %v (handler of <a/> re-dispatches the embedded message, after reading only part: %v), embedded payloads %v, %d rounds\nouter: %s\nembedded: %s",
		c.stanzaNS, c.outer, c.partial, c.inner, c.rounds, c.outerXML(0), c.innerXML())
}

func genReCase(t *rapid.T) reCase {
	c := reCase{stanzaNS: rapid.SampledFrom([]string{stanza.NSClient, stanza.NSServer}).Draw(t, "ns")}
	n := rapid.IntRange(2, 5).Draw(t, "nouter")
	for i := 0; i < n; i++ {
		c.outer = append(c.outer, rapid.SampledFrom([]string{"a", "b", "d", "b"}).Draw(t, "outer"))
	}
	c.texts = []string{rapid.SampledFrom([]string{"x", "some text", "", "&amp;"}).Draw(t, "t1"), "y"}
	m := rapid.IntRange(1, 3).Draw(t, "ninner")
	for i := 0; i < m; i++ {
		c.inner = append(c.inner, rapid.SampledFrom([]string{"c", "e"}).Draw(t, "inner"))
	}
	c.rounds = rapid.IntRange(1, 3).Draw(t, "rounds")
	c.partial = rapid.Bool().Draw(t, "partial")
	return c
}

type reEvent struct {
	who  string
	toks []xml.Token
}

func readAllToks(t xml.TokenReader, limit int) []xml.Token {
	var out []xml.Token
	for i := 0; i < limit; i++ {
		tok, err := t.Token()
		if tok != nil {
			out = append(out, xml.CopyToken(tok))
		}
		if err != nil {
			break
		}
	}
	return out
}

func checkReentrant(t failer, c reCase) {
	t.Helper()
	fail := func(format string, args ...any) {
		t.Helper()
		ev.Failf(t, "%s\n%s", c.String(), fmt.Sprintf(format, args...))
	}
	innerToks, err := parse(c.innerXML())
	if err != nil {
		t.Fatalf("harness: %v", err)
	}
	var events []reEvent
	var m *mux.ServeMux
	var out []xml.Token
	var encCalls []string
	record := func(who string) mux.MessageHandlerFunc {
		return func(msg stanza.Message, r xmlstream.TokenReadEncoder) error {
			events = append(events, reEvent{who: who, toks: readAllToks(r, 500)})
			return nil
		}
	}
	reenter := func(msg stanza.Message, r xmlstream.TokenReadEncoder) error {
		e := reEvent{who: "a"}
		if c.partial {
			e.toks = readAllToks(r, 2)
		}
		// hand the embedded stanza to the same multiplexer
		st := innerToks[0].(xml.StartElement).Copy()
		if err := m.HandleXMPP(encoder{TokenReader: &sliceReader{toks: innerToks[1:]}, out: &out, enc: &encCalls}, &st); err != nil {
			return err
		}
		if !c.partial {
			e.toks = readAllToks(r, 500)
		}
		events = append(events, e)
		return nil
	}
	if p := ev.Guard(func() {
		m = mux.New(c.stanzaNS,
			mux.MessageFunc(stanza.NormalMessage, xml.Name{Space: "urn:verif:a", Local: "a"}, reenter),
			mux.MessageFunc(stanza.NormalMessage, xml.Name{Space: "urn:verif:b", Local: "b"}, record("b")),
			mux.MessageFunc(stanza.NormalMessage, xml.Name{Space: "urn:verif:d", Local: "d"}, record("d")),
			mux.MessageFunc(stanza.ChatMessage, xml.Name{Space: "urn:verif:c", Local: "c"}, record("c")),
			mux.MessageFunc(stanza.ChatMessage, xml.Name{Space: "urn:verif:e", Local: "e"}, record("e")),
		)
	}); p != "" {
		fail("mux.New: %s", p)
	}
	for round := 0; round < c.rounds; round++ {
		events = nil
		outerToks, err := parse(c.outerXML(round))
		if err != nil {
			t.Fatalf("harness: %v", err)
		}
		st := outerToks[0].(xml.StartElement).Copy()
		var herr error
		if p := ev.Guard(func() {
			herr = m.HandleXMPP(encoder{TokenReader: &sliceReader{toks: outerToks[1:]}, out: &out, enc: &encCalls}, &st)
		}); p != "" {
			fail("round %d: HandleXMPP: %s", round, p)
		}
		if herr != nil {
			fail("round %d: HandleXMPP returned %v", round, herr)
		}
		// expected invocations: one per outer payload in order; each <a/> is
		// preceded by the handlers of the embedded message's payloads
		var want []string
		for _, p := range c.outer {
			if p == "a" {
				want = append(want, c.inner...)
			}
			want = append(want, p)
		}
		var got []string
		for _, e := range events {
			got = append(got, e.who)
		}
		if strings.Join(got, " ") != strings.Join(want, " ") {
			fail("round %d: handlers invoked %v, expected %v", round, got, want)
		}
		for i, e := range events {
			ref := outerToks
			which := "outer"
			if e.who == "c" || e.who == "e" {
				ref, which = innerToks, "embedded"
			}
			wantN := len(ref)
			if e.who == "a" && c.partial {
				wantN = 2
			}
			if d := firstDiff(e.toks, ref[:min(wantN, len(ref))]); d != "" || len(e.toks) != wantN {
				fail("round %d: invocation %d (handler of <%s/>) was not handed the complete %s stanza from its start element: %s\nread:      %s\nreference: %s",
					round, i, e.who, which, d, toksString(e.toks), toksString(ref))
			}
		}
	}
	if len(out) != 0 || len(encCalls) != 0 {
		fail("the multiplexer wrote %s (encoder calls %v)", toksString(out), encCalls)
	}
}

func TestC14Reentrant(t *testing.T) {
	ev.Check(t, 3000, 20000, func(rt *rapid.T) {
		c := genReCase(rt)
		re := 0
		for _, p := range c.outer {
			if p == "a" {
				re++
			}
		}
		classes := []string{"reentrant-dispatch"}
		if re > 0 {
			classes = append(classes, "handler-redispatches-embedded-stanza")
		}
		if c.rounds > 1 {
			classes = append(classes, "mux-used-for-several-stanzas")
		}
		ev.Case(re > 0 && len(c.outer) >= 2, c.String(), classes...)
		checkReentrant(rt, c)
	})
}
