package c14

// One multiplexer serves every session of a server: stanzas of different
// sessions are dispatched through it at the same time.  What the multiplexer
// buffers for one stanza is that stanza's alone: each goroutine's stanza is
// dispatched to the handlers of its own payloads, in order, and each of them
// is handed that complete stanza from its start element.

import (
	"encoding/xml"
	"fmt"
	"strings"
	"sync"
	"testing"

	"pgregory.net/rapid"

	"mellium.im/xmlstream"
	"mellium.im/xmpp/mux"
	"mellium.im/xmpp/stanza"
	"mellium.im/xmpp/verifharness/internal/ev"
)

type conMsg struct {
	kind     string // message presence
	payloads []string
	text     string
}

func (m conMsg) xml(ns, id string) string {
	var sb strings.Builder
	typ := ` type="chat"`
	if m.kind == "presence" {
		typ = ""
	}
	fmt.Fprintf(&sb, `<%s xmlns="%s"%s id="%s" from="a@example.org/x">`, m.kind, ns, typ, id)
	for i, p := range m.payloads {
		fmt.Fprintf(&sb, `<%s xmlns="urn:verif:%s" n="%d">%s</%s>`, p, p, i, m.text, p)
	}
	fmt.Fprintf(&sb, `</%s>`, m.kind)
	return sb.String()
}

func TestC14Concurrent(t *testing.T) {
	ev.Check(t, 600, 6000, func(rt *rapid.T) {
		ns := rapid.SampledFrom([]string{stanza.NSClient, stanza.NSServer}).Draw(rt, "ns")
		ng := rapid.IntRange(2, 6).Draw(rt, "goroutines")
		rounds := rapid.IntRange(5, 40).Draw(rt, "rounds")
		msgs := make([]conMsg, ng)
		for g := range msgs {
			m := conMsg{kind: rapid.SampledFrom([]string{"message", "message", "presence"}).Draw(rt, "kind")}
			for k := rapid.IntRange(0, 4).Draw(rt, "npayloads"); k > 0; k-- {
				m.payloads = append(m.payloads, rapid.SampledFrom([]string{"a", "b", "c", "d"}).Draw(rt, "payload"))
			}
			m.text = rapid.SampledFrom([]string{"", "x", strings.Repeat("long text ", 40)}).Draw(rt, "text")
			msgs[g] = m
		}
		desc := fmt.Sprintf("one mux.New(%q), %d goroutines dispatching at the same time (%d rounds): %v", ns, ng, rounds, msgs)
		ev.Case(true, desc, "concurrent-dispatch-through-one-mux")

		type event struct {
			who  string
			toks []xml.Token
		}
		var mu sync.Mutex
		events := map[string][]event{} // by stanza id
		record := func(who string, id string, r xml.TokenReader) {
			toks := readAllToks(r, 2000)
			mu.Lock()
			events[id] = append(events[id], event{who, toks})
			mu.Unlock()
		}
		var opts []mux.Option
		for _, p := range []string{"a", "b", "c", "d"} {
			p := p
			name := xml.Name{Space: "urn:verif:" + p, Local: p}
			opts = append(opts,
				mux.MessageFunc(stanza.ChatMessage, name, func(msg stanza.Message, r xmlstream.TokenReadEncoder) error {
					record(p, msg.ID, r)
					return nil
				}),
				mux.PresenceFunc(stanza.AvailablePresence, name, func(pr stanza.Presence, r xmlstream.TokenReadEncoder) error {
					record(p, pr.ID, r)
					return nil
				}))
		}
		opts = append(opts,
			mux.MessageFunc(stanza.ChatMessage, xml.Name{}, func(msg stanza.Message, r xmlstream.TokenReadEncoder) error {
				record("*", msg.ID, r)
				return nil
			}),
			mux.PresenceFunc(stanza.AvailablePresence, xml.Name{}, func(pr stanza.Presence, r xmlstream.TokenReadEncoder) error {
				record("*", pr.ID, r)
				return nil
			}))
		var m *mux.ServeMux
		if p := ev.Guard(func() { m = mux.New(ns, opts...) }); p != "" {
			ev.Failf(rt, "%s\nmux.New: %s", desc, p)
		}
		refs := map[string][]xml.Token{}
		problems := make([]string, ng)
		var wg sync.WaitGroup
		start := make(chan struct{})
		for g := range msgs {
			for r := 0; r < rounds; r++ {
				id := fmt.Sprintf("g%d-%d", g, r)
				toks, err := parse(msgs[g].xml(ns, id))
				if err != nil {
					rt.Fatalf("harness: %v", err)
				}
				refs[id] = toks
			}
			wg.Add(1)
			go func(g int) {
				defer wg.Done()
				<-start
				for r := 0; r < rounds && problems[g] == ""; r++ {
					id := fmt.Sprintf("g%d-%d", g, r)
					toks := refs[id]
					st := toks[0].(xml.StartElement).Copy()
					var out []xml.Token
					var enc []string
					var herr error
					if p := ev.Guard(func() {
						herr = m.HandleXMPP(encoder{TokenReader: &sliceReader{toks: toks[1:], lastWithEOF: r%2 == 1}, out: &out, enc: &enc}, &st)
					}); p != "" {
						problems[g] = fmt.Sprintf("HandleXMPP(%s) panicked: %s", id, p)
					} else if herr != nil {
						problems[g] = fmt.Sprintf("HandleXMPP(%s) returned %v", id, herr)
					} else if len(out) != 0 {
						problems[g] = fmt.Sprintf("HandleXMPP(%s) wrote %s", id, toksString(out))
					}
				}
			}(g)
		}
		close(start)
		wg.Wait()
		for g, p := range problems {
			if p != "" {
				ev.Failf(rt, "%s\ngoroutine %d: %s", desc, g, p)
			}
		}
		for g, msg := range msgs {
			want := append([]string(nil), msg.payloads...)
			if len(want) == 0 {
				want = []string{"*"}
			}
			for r := 0; r < rounds; r++ {
				id := fmt.Sprintf("g%d-%d", g, r)
				var got []string
				for _, e := range events[id] {
					got = append(got, e.who)
				}
				if strings.Join(got, " ") != strings.Join(want, " ") {
					ev.Failf(rt, "%s\nstanza %s (%s): handlers invoked %v, expected %v", desc, id, msg.xml(ns, id), got, want)
				}
				for i, e := range events[id] {
					if d := firstDiff(e.toks, refs[id]); d != "" || len(e.toks) != len(refs[id]) {
						ev.Failf(rt, "%s\nstanza %s: invocation %d (handler of <%s/>) was not handed that complete stanza from its start element: %s\nread:      %s\nreference: %s", desc, id, i, e.who, d, toksString(e.toks), toksString(refs[id]))
					}
				}
			}
		}
	})
}
