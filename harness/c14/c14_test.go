// C14 — The multiplexer always picks the most specific registered handler.
//
// The oracle (lookup, below) is written from the statement of the property:
// among the patterns registered for the element's own stanza kind and type the
// most specific match wins — exact name, then local name only, then namespace
// only, then (stanzas only) the bare type wildcard.  It does not mirror the
// cascades in mux.go: it ranks every registered pattern against the name and
// takes the minimum.
package c14

import (
	"encoding/xml"
	"errors"
	"fmt"
	"io"
	"reflect"
	"sort"
	"strings"
	"testing"

	"pgregory.net/rapid"

	"mellium.im/xmlstream"
	"mellium.im/xmpp"
	"mellium.im/xmpp/mux"
	"mellium.im/xmpp/stanza"
	"mellium.im/xmpp/verifharness/internal/ev"
	"mellium.im/xmpp/verifharness/internal/gen"
)

func TestMain(m *testing.M) { ev.Main(m, "C14") }

// ---------------------------------------------------------------- universe

type kind int

const (
	kTop kind = iota
	kIQ
	kMsg
	kPres
)

func (k kind) String() string { return [...]string{"top", "iq", "message", "presence"}[k] }

var (
	iqTypes   = []string{"get", "set", "result", "error"}
	msgTypes  = []string{"normal", "chat", "error", "groupchat", "headline"}
	presTypes = []string{"", "error", "probe", "subscribe", "subscribed", "unavailable", "unsubscribe", "unsubscribed"}
)

func typesOf(k kind) []string {
	switch k {
	case kIQ:
		return iqTypes
	case kMsg:
		return msgTypes
	case kPres:
		return presTypes
	}
	return []string{""}
}

const nsErr = "urn:ietf:params:xml:ns:xmpp-stanzas"

// The nine pattern names over locals {a,b} and namespaces {x,y}: four exact
// names, the two single-wildcard forms for each, and the full wildcard (the
// "bare type" pattern; stanza tables only).
var patNames = []xml.Name{
	{Space: "x", Local: "a"}, {Space: "x", Local: "b"}, {Space: "y", Local: "a"}, {Space: "y", Local: "b"},
	{Local: "a"}, {Local: "b"},
	{Space: "x"}, {Space: "y"},
	{},
}

type pat struct {
	k    kind
	typ  string
	name xml.Name
}

func (p pat) String() string {
	if p.k == kTop {
		return fmt.Sprintf("top{%s}%s", p.name.Space, p.name.Local)
	}
	return fmt.Sprintf("%s[%s]{%s}%s", p.k, p.typ, p.name.Space, p.name.Local)
}

// ---------------------------------------------------------------- reference

const (
	rankExact = iota
	rankLocal
	rankSpace
	rankType
	rankNone
)

var rankName = [...]string{"exact", "local-only", "namespace-only", "type-wildcard", "none"}

// rank says how specifically p matches an element (or payload) of the given
// kind, type and name; rankNone if it does not match at all.  hasName is false
// for a stanza without payload, which only the bare type pattern matches.
func rank(p pat, k kind, typ string, n xml.Name, hasName bool) int {
	if p.k != k || p.typ != typ {
		return rankNone
	}
	switch {
	case p.name.Space == "" && p.name.Local == "":
		if k == kTop {
			return rankNone
		}
		return rankType
	case !hasName:
		return rankNone
	case p.name.Space != "" && p.name.Local != "":
		if p.name == n {
			return rankExact
		}
	case p.name.Space == "":
		if p.name.Local == n.Local {
			return rankLocal
		}
	case p.name.Local == "":
		if p.name.Space == n.Space {
			return rankSpace
		}
	}
	return rankNone
}

// lookup returns the index of the winning pattern (-1: none), its rank and the
// number of registered patterns that match at all.
func lookup(cfg []pat, k kind, typ string, n xml.Name, hasName bool) (idx, best, matching int) {
	idx, best = -1, rankNone
	for i, p := range cfg {
		r := rank(p, k, typ, n, hasName)
		if r == rankNone {
			continue
		}
		matching++
		if r < best {
			idx, best = i, r
		}
	}
	return idx, best, matching
}

// ---------------------------------------------------------------- input model

type node struct {
	text string
	el   *elem
}

type elem struct {
	local   string
	ns      string
	inherit bool // no xmlns attribute: take the parent's namespace
	attrs   [][2]string
	kids    []node
}

func (e *elem) render(b *strings.Builder) {
	b.WriteString("<" + e.local)
	if !e.inherit {
		fmt.Fprintf(b, ` xmlns="%s"`, e.ns)
	}
	for _, a := range e.attrs {
		fmt.Fprintf(b, ` %s="%s"`, a[0], a[1])
	}
	if len(e.kids) == 0 {
		b.WriteString("/>")
		return
	}
	b.WriteString(">")
	for _, k := range e.kids {
		if k.el != nil {
			k.el.render(b)
		} else {
			b.WriteString(k.text)
		}
	}
	b.WriteString("</" + e.local + ">")
}

func (e *elem) String() string {
	var b strings.Builder
	e.render(&b)
	return b.String()
}

// parse is the independent reading of the input: the token list of the whole
// element as encoding/xml sees it.
func parse(s string) ([]xml.Token, error) {
	d := xml.NewDecoder(strings.NewReader(s))
	var out []xml.Token
	for {
		tok, err := d.Token()
		if tok != nil {
			out = append(out, xml.CopyToken(tok))
		}
		if err == io.EOF {
			return out, nil
		}
		if err != nil {
			return out, err
		}
	}
}

func attrOf(start xml.StartElement, local string) (string, bool) {
	for _, a := range start.Attr {
		if a.Name.Space == "" && a.Name.Local == local {
			return a.Value, true
		}
	}
	return "", false
}

// facts is what the oracle needs to know about an input, all of it taken from
// the independent parse.
type facts struct {
	ref      []xml.Token
	start    xml.StartElement
	k        kind
	typ      string
	id       string
	to, from string
	kids     []int // indexes in ref of the depth-1 start elements
	kidEnd   []int // indexes in ref of their end elements
	hasText  bool  // non-whitespace text directly inside the element
}

func analyse(stanzaNS, s string) (facts, error) {
	var f facts
	ref, err := parse(s)
	if err != nil {
		return f, err
	}
	f.ref = ref
	st, ok := ref[0].(xml.StartElement)
	if !ok {
		return f, fmt.Errorf("first token is %T", ref[0])
	}
	f.start = st
	f.k = kTop
	if stanzaNS == "" || st.Name.Space == stanzaNS {
		// (a multiplexer without a stanza namespace routes the stanzas of any)
		switch st.Name.Local {
		case "iq":
			f.k = kIQ
		case "message":
			f.k = kMsg
		case "presence":
			f.k = kPres
		}
	}
	if f.k != kTop {
		f.typ, ok = attrOf(st, "type")
		if f.k == kMsg {
			// RFC 6121 §5.2.2 and the documentation of stanza.MessageType: a message
			// without type, or with a type that is not one of the five defined ones,
			// is a normal message
			known := false
			for _, mt := range msgTypes {
				if f.typ == mt {
					known = true
				}
			}
			if !ok || !known {
				f.typ = "normal"
			}
		}
		f.id, _ = attrOf(st, "id")
		f.to, _ = attrOf(st, "to")
		f.from, _ = attrOf(st, "from")
	}
	depth := 0
	for i, tok := range ref {
		switch t := tok.(type) {
		case xml.StartElement:
			if depth == 1 {
				f.kids = append(f.kids, i)
			}
			depth++
		case xml.EndElement:
			depth--
			if depth == 1 {
				f.kidEnd = append(f.kidEnd, i)
			}
		case xml.CharData:
			if depth == 1 && strings.TrimSpace(string(t)) != "" {
				f.hasText = true
			}
		}
	}
	if depth != 0 || len(f.kids) != len(f.kidEnd) {
		return f, fmt.Errorf("unbalanced input")
	}
	return f, nil
}

// ---------------------------------------------------------------- handlers

const (
	readNone = iota
	readSome
	readAll
)

type prog struct {
	mode int
	k    int
	// the handler returns an error of its own after reading
	fail bool
}

var errHandlerFailed = errors.New("verif: this handler fails")

func (p prog) String() string {
	switch p.mode {
	case readNone:
		return "none"
	case readSome:
		if p.fail {
			return fmt.Sprintf("some(%d)+fails", p.k)
		}
		return fmt.Sprintf("some(%d)", p.k)
	}
	if p.fail {
		return "all+fails"
	}
	return "all"
}

type event struct {
	pat      int
	api      kind
	typ      string
	id       string
	start    *xml.StartElement
	toks     []xml.Token
	eof      bool
	err      error
	overflow bool
	prog     prog
}

type recorder struct {
	progs  []prog
	events []event
	limit  int
	// the invocations beyond the listed programs fail too
	failRest bool
}

// read executes the next read program on t.  Read errors other than io.EOF are
// propagated to the caller (the multiplexer).
func (r *recorder) read(e *event, t xml.TokenReader) (err error) {
	p := prog{mode: readAll, fail: r.failRest}
	if n := len(r.events); n < len(r.progs) {
		p = r.progs[n]
	}
	e.prog = p
	if p.fail {
		defer func() {
			if err == nil {
				err = errHandlerFailed
			}
		}()
	}
	want := 0
	switch p.mode {
	case readSome:
		want = p.k
	case readAll:
		want = r.limit
	}
	for len(e.toks) < want {
		tok, err := t.Token()
		if tok != nil {
			e.toks = append(e.toks, xml.CopyToken(tok))
		}
		if err == io.EOF {
			e.eof = true
			return nil
		}
		if err != nil {
			e.err = err
			return err
		}
		if tok == nil {
			e.err = fmt.Errorf("Token() = nil, nil")
			return nil
		}
	}
	if p.mode == readAll {
		e.overflow = true
	}
	return nil
}

type handler struct {
	rec *recorder
	pat int
}

func (h handler) HandleXMPP(t xmlstream.TokenReadEncoder, start *xml.StartElement) error {
	e := event{pat: h.pat, api: kTop}
	if start != nil {
		c := start.Copy()
		e.start = &c
	}
	err := h.rec.read(&e, t)
	h.rec.events = append(h.rec.events, e)
	return err
}

func (h handler) HandleIQ(iq stanza.IQ, t xmlstream.TokenReadEncoder, start *xml.StartElement) error {
	e := event{pat: h.pat, api: kIQ, typ: string(iq.Type), id: iq.ID}
	if start != nil {
		c := start.Copy()
		e.start = &c
	}
	err := h.rec.read(&e, t)
	h.rec.events = append(h.rec.events, e)
	return err
}

func (h handler) HandleMessage(msg stanza.Message, t xmlstream.TokenReadEncoder) error {
	e := event{pat: h.pat, api: kMsg, typ: string(msg.Type), id: msg.ID}
	err := h.rec.read(&e, t)
	h.rec.events = append(h.rec.events, e)
	return err
}

func (h handler) HandlePresence(p stanza.Presence, t xmlstream.TokenReadEncoder) error {
	e := event{pat: h.pat, api: kPres, typ: string(p.Type), id: p.ID}
	err := h.rec.read(&e, t)
	h.rec.events = append(h.rec.events, e)
	return err
}

// option registers p with h, through the interface form or the Func adapter.
func option(p pat, h handler, fn bool) mux.Option {
	switch p.k {
	case kIQ:
		if fn {
			return mux.IQFunc(stanza.IQType(p.typ), p.name, h.HandleIQ)
		}
		return mux.IQ(stanza.IQType(p.typ), p.name, h)
	case kMsg:
		if fn {
			return mux.MessageFunc(stanza.MessageType(p.typ), p.name, h.HandleMessage)
		}
		return mux.Message(stanza.MessageType(p.typ), p.name, h)
	case kPres:
		if fn {
			return mux.PresenceFunc(stanza.PresenceType(p.typ), p.name, h.HandlePresence)
		}
		return mux.Presence(stanza.PresenceType(p.typ), p.name, h)
	}
	if fn {
		return mux.HandleFunc(p.name, h.HandleXMPP)
	}
	return mux.Handle(p.name, h)
}

// ---------------------------------------------------------------- plumbing

type sliceReader struct {
	toks        []xml.Token
	i           int
	lastWithEOF bool
}

func (r *sliceReader) Token() (xml.Token, error) {
	if r.i >= len(r.toks) {
		return nil, io.EOF
	}
	t := r.toks[r.i]
	r.i++
	if r.lastWithEOF && r.i == len(r.toks) {
		return xml.CopyToken(t), io.EOF
	}
	return xml.CopyToken(t), nil
}

// encoder is the xmlstream.TokenReadEncoder handed to HandleXMPP: the token
// reader over the rest of the element plus a writer that records.
type encoder struct {
	xml.TokenReader
	out *[]xml.Token
	enc *[]string
}

func (e encoder) EncodeToken(t xml.Token) error {
	*e.out = append(*e.out, xml.CopyToken(t))
	return nil
}

func (e encoder) Encode(v interface{}) error {
	*e.enc = append(*e.enc, fmt.Sprintf("Encode(%T)", v))
	return nil
}

func (e encoder) EncodeElement(v interface{}, start xml.StartElement) error {
	*e.enc = append(*e.enc, fmt.Sprintf("EncodeElement(%T, %v)", v, start.Name))
	return nil
}

var _ xmlstream.TokenReadEncoder = encoder{}

func tokString(t xml.Token) string {
	switch v := t.(type) {
	case xml.StartElement:
		var b strings.Builder
		fmt.Fprintf(&b, "<{%s}%s", v.Name.Space, v.Name.Local)
		for _, a := range v.Attr {
			if a.Name.Space != "" {
				fmt.Fprintf(&b, " {%s}%s=%q", a.Name.Space, a.Name.Local, a.Value)
			} else {
				fmt.Fprintf(&b, " %s=%q", a.Name.Local, a.Value)
			}
		}
		return b.String() + ">"
	case xml.EndElement:
		return fmt.Sprintf("</{%s}%s>", v.Name.Space, v.Name.Local)
	case xml.CharData:
		return fmt.Sprintf("%q", string(v))
	case nil:
		return "nil"
	}
	return fmt.Sprintf("%T(%v)", t, t)
}

func toksString(ts []xml.Token) string {
	s := make([]string, len(ts))
	for i, t := range ts {
		s[i] = tokString(t)
	}
	return "[" + strings.Join(s, " ") + "]"
}

func tokEqual(a, b xml.Token) bool {
	if ca, ok := a.(xml.CharData); ok {
		cb, ok := b.(xml.CharData)
		return ok && string(ca) == string(cb)
	}
	if sa, ok := a.(xml.StartElement); ok {
		sb, ok := b.(xml.StartElement)
		if !ok || sa.Name != sb.Name || len(sa.Attr) != len(sb.Attr) {
			return false
		}
		for i := range sa.Attr {
			if sa.Attr[i] != sb.Attr[i] {
				return false
			}
		}
		return true
	}
	return reflect.DeepEqual(a, b)
}

// firstDiff compares got against the first len(got) tokens of want.
func firstDiff(got, want []xml.Token) string {
	for i, g := range got {
		if i >= len(want) {
			return fmt.Sprintf("token %d: got %s, reference has only %d tokens", i, tokString(g), len(want))
		}
		if !tokEqual(g, want[i]) {
			return fmt.Sprintf("token %d: got %s, reference %s", i, tokString(g), tokString(want[i]))
		}
	}
	return ""
}

// ---------------------------------------------------------------- the case

type tcase struct {
	stanzaNS string
	cfg      []pat  // registration order
	fn       []bool // Func adapter per registration
	xml      string
	progs    []prog
	live     bool // drive from a live xml.Decoder (as the session does) instead of a token slice
	// the token reader returns its last token together with io.EOF (as
	// xmlstream.Wrap, stanza.*.Wrap and xmlstream.MultiReader do: a stanza that
	// was assembled from tokens or unwrapped from a carbon / forwarded message)
	lastWithEOF bool
	// the multiplexer is the zero value of ServeMux with the options applied to
	// it directly (as disco.Handle does), not built by mux.New: it has no stanza
	// namespace and routes the stanzas of any
	zeroValue bool
	// every handler invocation beyond the listed read programs returns an error
	failRest bool
}

func (c tcase) canon() string {
	ps := make([]string, len(c.cfg))
	for i, p := range c.cfg {
		ps[i] = p.String()
	}
	sort.Strings(ps)
	return fmt.Sprintf("%s|%s|%s|%v|%v|%v|%v|%v", c.stanzaNS, strings.Join(ps, ","), c.xml, c.progs, c.live, c.lastWithEOF, c.zeroValue, c.failRest)
}

func (c tcase) describe() string {
	var b strings.Builder
	if c.zeroValue {
		fmt.Fprintf(&b, "zero-value ServeMux (options applied directly) with %d patterns (registration order; F = Func adapter):\n", len(c.cfg))
	} else {
		fmt.Fprintf(&b, "mux.New(%q) with %d patterns (registration order; F = Func adapter):\n", c.stanzaNS, len(c.cfg))
	}
	for i, p := range c.cfg {
		f := ""
		if c.fn[i] {
			f = " F"
		}
		fmt.Fprintf(&b, "  h%d = %s%s\n", i, p, f)
	}
	fmt.Fprintf(&b, "input: %s\nread programs per invocation: %v (then all; failing: %v); live decoder: %v\n", c.xml, c.progs, c.failRest, c.live)
	return b.String()
}

type expect struct {
	pats     []int // expected handler invocations, in order
	names    []string
	ranks    []int
	maxMatch int
	fallback bool
}

// predict applies the statement to an analysed input.
func predict(cfg []pat, f facts) expect {
	var ex expect
	add := func(n xml.Name, hasName bool) {
		idx, r, m := lookup(cfg, f.k, f.typ, n, hasName)
		if m > ex.maxMatch {
			ex.maxMatch = m
		}
		ex.ranks = append(ex.ranks, r)
		if idx >= 0 {
			ex.pats = append(ex.pats, idx)
			ex.names = append(ex.names, fmt.Sprintf("{%s}%s", n.Space, n.Local))
		}
	}
	switch f.k {
	case kTop:
		add(f.start.Name, true)
	case kIQ:
		// The payload of an IQ is its (first) child element.
		if len(f.kids) == 0 {
			add(xml.Name{}, false)
		} else {
			add(f.ref[f.kids[0]].(xml.StartElement).Name, true)
		}
		if len(ex.pats) == 0 && (f.typ == "get" || f.typ == "set") {
			ex.fallback = true
		}
	default:
		if len(f.kids) == 0 {
			add(xml.Name{}, false)
		}
		for _, i := range f.kids {
			add(f.ref[i].(xml.StartElement).Name, true)
		}
	}
	return ex
}

type failer interface {
	Helper()
	Fatalf(string, ...any)
}

// runCase builds the mux, feeds it the element and compares with the oracle.
// It returns the facts and expectation so the caller can classify; ev.Case
// must have been called by the caller via the classify callback before any
// check is made.
func runCase(t failer, c tcase, classify func(facts, expect)) {
	t.Helper()
	refNS := c.stanzaNS
	if c.zeroValue {
		refNS = ""
	}
	f, err := analyse(refNS, c.xml)
	if err != nil {
		t.Fatalf("harness: generated input does not parse: %v\n%s", err, c.xml)
	}
	stanzaAsTop := false
	if f.k != kTop {
		// a top-level pattern that matches the stanza element itself (only a
		// namespace-only pattern on the stanza namespace can) outranks the bare
		// type wildcard; the generator keeps payload patterns out of such cases
		specific := false
		for _, p := range c.cfg {
			if p.k == f.k && p.typ == f.typ && p.name != (xml.Name{}) {
				specific = true
			}
		}
		if idx, _, _ := lookup(c.cfg, kTop, "", f.start.Name, true); idx >= 0 && !specific {
			f.k, f.typ = kTop, ""
			stanzaAsTop = true
		}
	}
	ex := predict(c.cfg, f)
	if classify != nil {
		classify(f, ex)
	}
	if stanzaAsTop {
		ev.Class("stanza-matched-by-top-level-namespace-pattern")
	}
	fail := func(format string, args ...any) {
		t.Helper()
		ev.Failf(t, "%s%s", c.describe(), fmt.Sprintf(format, args...))
	}

	rec := &recorder{progs: c.progs, limit: len(f.ref) + 50, failRest: c.failRest}
	opts := make([]mux.Option, len(c.cfg))
	var m *mux.ServeMux
	if p := ev.Guard(func() {
		for i, p := range c.cfg {
			opts[i] = option(p, handler{rec: rec, pat: i}, c.fn[i])
		}
		if c.zeroValue {
			m = &mux.ServeMux{}
			for _, o := range opts {
				o(m)
			}
		} else {
			m = mux.New(c.stanzaNS, opts...)
		}
	}); p != "" {
		fail("registering distinct patterns with non-nil handlers was refused: %s", p)
	}

	var out []xml.Token
	var encCalls []string
	var start xml.StartElement
	var rd xml.TokenReader
	if c.live {
		d := xml.NewDecoder(strings.NewReader(c.xml))
		tok, err := d.Token()
		if err != nil {
			t.Fatalf("harness: %v", err)
		}
		start = tok.(xml.StartElement).Copy()
		rd = xmlstream.InnerElement(d)
	} else {
		start = f.start.Copy()
		rd = &sliceReader{toks: f.ref[1:], lastWithEOF: c.lastWithEOF}
	}
	var herr error
	if p := ev.Guard(func() {
		herr = m.HandleXMPP(encoder{TokenReader: rd, out: &out, enc: &encCalls}, &start)
	}); p != "" {
		fail("HandleXMPP: %s", p)
	}

	// which handlers ran, in which order
	got := make([]int, len(rec.events))
	for i, e := range rec.events {
		got[i] = e.pat
	}
	if !reflect.DeepEqual(got, append([]int{}, ex.pats...)) {
		fail("handlers invoked: %s\nexpected (most specific match per payload %v, ranks %s): %s\nHandleXMPP returned %v",
			hnames(got), ex.names, ranksString(ex.ranks), hnames(ex.pats), herr)
	}

	// what each of them was given
	for i, e := range rec.events {
		if e.api != f.k {
			fail("invocation %d (h%d) came through the %s interface for a %s element", i, e.pat, e.api, f.k)
		}
		if e.err != nil {
			fail("invocation %d (h%d, reads %s): read error %v after %s", i, e.pat, e.prog, e.err, toksString(e.toks))
		}
		if e.overflow {
			fail("invocation %d (h%d): no end of stream after %d tokens (input has %d): %s", i, e.pat, len(e.toks), len(f.ref), toksString(e.toks))
		}
		if f.k != kTop && (e.typ != f.typ || e.id != f.id) {
			fail("invocation %d (h%d): stanza value has type %q id %q, element has type %q id %q", i, e.pat, e.typ, e.id, f.typ, f.id)
		}
		switch f.k {
		case kMsg, kPres:
			// the complete stanza from its start element, whatever earlier
			// handlers consumed
			if d := firstDiff(e.toks, f.ref); d != "" {
				fail("invocation %d (h%d, reads %s) was not handed the stanza from its start element: %s\nread:      %s\nreference: %s",
					i, e.pat, e.prog, d, toksString(e.toks), toksString(f.ref))
			}
			wantN := len(f.ref)
			if e.prog.mode == readSome && e.prog.k < wantN {
				wantN = e.prog.k
			}
			if e.prog.mode == readNone {
				wantN = 0
			}
			if len(e.toks) != wantN {
				fail("invocation %d (h%d, reads %s) could read only %d of the %d tokens of the stanza (end of stream: %v)\nread:      %s\nreference: %s",
					i, e.pat, e.prog, len(e.toks), len(f.ref), e.eof, toksString(e.toks), toksString(f.ref))
			}
		case kTop:
			if e.start == nil || !tokEqual(*e.start, f.start) {
				fail("invocation %d (h%d): start element %v, want %s", i, e.pat, e.start, tokString(f.start))
			}
			if d := firstDiff(e.toks, f.ref[1:]); d != "" {
				fail("invocation %d (h%d, reads %s): %s\nread:      %s\nreference: %s", i, e.pat, e.prog, d, toksString(e.toks), toksString(f.ref[1:]))
			}
		case kIQ:
			if len(f.kids) == 0 {
				if e.start != nil && e.start.Name != (xml.Name{}) {
					fail("invocation %d (h%d): payload start %s for an empty IQ", i, e.pat, tokString(*e.start))
				}
				if len(e.toks) != 0 {
					fail("invocation %d (h%d): read %s from an empty IQ", i, e.pat, toksString(e.toks))
				}
				break
			}
			k0, k0end := f.kids[0], f.kidEnd[0]
			if e.start == nil || !tokEqual(*e.start, f.ref[k0]) {
				fail("invocation %d (h%d): payload start %v, want %s", i, e.pat, e.start, tokString(f.ref[k0]))
			}
			// the handler must be able to read the rest of its payload; what
			// follows the payload is not checked
			rest := f.ref[k0+1 : k0end+1]
			gotp := e.toks
			if len(gotp) > len(rest) {
				gotp = gotp[:len(rest)]
			}
			if d := firstDiff(gotp, rest); d != "" {
				fail("invocation %d (h%d, reads %s): payload %s\nread:      %s\nreference: %s", i, e.pat, e.prog, d, toksString(e.toks), toksString(rest))
			}
			if e.prog.mode == readAll && len(e.toks) < len(rest) {
				fail("invocation %d (h%d, reads all): payload ends early\nread:      %s\nreference: %s", i, e.pat, toksString(e.toks), toksString(rest))
			}
		}
	}

	// what the multiplexer itself wrote
	if len(encCalls) != 0 {
		fail("multiplexer called %v on the encoder", encCalls)
	}
	if ex.fallback {
		if d := checkFallback(out, f); d != "" {
			fail("unhandled %s IQ: expected one service-unavailable error reply (to=%q from=%q id=%q): %s\nwritten: %s",
				f.typ, f.from, f.to, f.id, d, toksString(out))
		}
	} else if len(out) != 0 {
		fail("expected nothing to be written, multiplexer wrote %s", toksString(out))
	}
	failed := 0
	for _, e := range rec.events {
		if e.prog.fail {
			failed++
		}
	}
	if herr != nil && failed == 0 {
		fail("HandleXMPP returned %v although every handler returned nil and the input is well formed", herr)
	}
	if herr == nil && failed > 0 {
		fail("%d handlers returned an error but HandleXMPP returned nil", failed)
	}
}

func hnames(ps []int) string {
	s := make([]string, len(ps))
	for i, p := range ps {
		s[i] = fmt.Sprintf("h%d", p)
	}
	return "[" + strings.Join(s, " ") + "]"
}

func ranksString(rs []int) string {
	s := make([]string, len(rs))
	for i, r := range rs {
		s[i] = rankName[r]
	}
	return "[" + strings.Join(s, " ") + "]"
}

// checkFallback validates the default reply to an unhandled get/set IQ:
// exactly one IQ of type error, addressed back, same id, carrying a
// service-unavailable stanza error.
func checkFallback(out []xml.Token, f facts) string {
	if len(out) == 0 {
		return "nothing was written"
	}
	depth, tops := 0, 0
	var path []xml.Name
	found := false
	for _, tok := range out {
		switch t := tok.(type) {
		case xml.StartElement:
			if depth == 0 {
				tops++
				if t.Name.Local != "iq" || (t.Name.Space != "" && t.Name.Space != f.start.Name.Space) {
					return fmt.Sprintf("top-level element is %s", tokString(t))
				}
				if v, _ := attrOf(t, "type"); v != "error" {
					return fmt.Sprintf("type=%q", v)
				}
				if v, _ := attrOf(t, "id"); v != f.id {
					return fmt.Sprintf("id=%q, request had %q", v, f.id)
				}
				if v, _ := attrOf(t, "to"); v != f.from {
					return fmt.Sprintf("to=%q, request came from %q", v, f.from)
				}
				if v, _ := attrOf(t, "from"); v != f.to {
					return fmt.Sprintf("from=%q, request was sent to %q", v, f.to)
				}
			}
			if t.Name.Local == "service-unavailable" && t.Name.Space == nsErr && len(path) == 2 && path[1].Local == "error" {
				found = true
			}
			path = append(path, t.Name)
			depth++
		case xml.EndElement:
			depth--
			if depth < 0 {
				return "unbalanced output"
			}
			path = path[:len(path)-1]
		case xml.CharData:
			if depth == 0 && strings.TrimSpace(string(t)) != "" {
				return "text at top level"
			}
		}
	}
	if depth != 0 {
		return "unbalanced output"
	}
	if tops != 1 {
		return fmt.Sprintf("%d top-level elements", tops)
	}
	if !found {
		return "no <error><service-unavailable xmlns='" + nsErr + "'/></error> inside"
	}
	return ""
}

// ---------------------------------------------------------------- generators

var jids = []string{"", "romeo@example.net", "juliet@example.com/balcony", "example.org"}

func genLeaf(t *rapid.T, depth int) *elem {
	e := &elem{
		local: rapid.SampledFrom([]string{"a", "a", "b", "b", "c"}).Draw(t, "local"),
	}
	switch rapid.IntRange(0, 9).Draw(t, "nsKind") {
	case 0:
		e.inherit = true
	case 1:
		e.ns = "z"
	case 2:
		e.ns = "" // xmlns="": no namespace at all
	case 3, 4, 5:
		e.ns = "y"
	default:
		e.ns = "x"
	}
	if depth < 2 {
		switch rapid.IntRange(0, 5).Draw(t, "content") {
		case 0:
			e.kids = []node{{text: spelled(t, rapid.SampledFrom([]string{"t", "hello world", " ", "\n  "}).Draw(t, "text"))}}
		case 1:
			// a grandchild whose name may well be registered: it must never be
			// dispatched on
			e.kids = []node{{el: genLeaf(t, depth+1)}}
		case 2:
			e.kids = []node{{text: "u"}, {el: genLeaf(t, depth+1)}, {el: genLeaf(t, depth+1)}}
		}
	}
	if rapid.IntRange(0, 5).Draw(t, "attr") == 0 {
		e.attrs = append(e.attrs, [2]string{"n", "1"})
	}
	return e
}

func genText(t *rapid.T) string {
	return spelled(t, rapid.SampledFrom([]string{" ", "\n\t", "txt", " mixed content "}).Draw(t, "between"))
}

// spelled writes text, one time in three, in another of the spellings XML has
// for it (CDATA sections, character references, several runs): the decoder
// then delivers it as several character-data tokens.
func spelled(t *rapid.T, s string) string {
	if rapid.IntRange(0, 2).Draw(t, "spelled") != 0 {
		return s
	}
	return gen.SpellText(t, "sp", s)
}

func genStanza(t *rapid.T, stanzaNS string, k kind, typ string) *elem {
	e := &elem{local: k.String(), ns: stanzaNS}
	omit := (k == kMsg && typ == "normal" || k == kPres && typ == "") && rapid.Bool().Draw(t, "omitType")
	if !omit {
		if k == kMsg && typ == "normal" && rapid.IntRange(0, 2).Draw(t, "unknownType") == 0 {
			// an unrecognised (or empty) type value: still a normal message
			typ = rapid.SampledFrom([]string{"", "broadcast", "CHAT", "Normal", "chat ", "get", "unavailable"}).Draw(t, "unknownTypeValue")
		}
		e.attrs = append(e.attrs, [2]string{"type", typ})
	}
	if id := rapid.SampledFrom([]string{"", "i1", "42"}).Draw(t, "id"); id != "" || k == kIQ {
		if id == "" {
			id = "q7"
		}
		e.attrs = append(e.attrs, [2]string{"id", id})
	}
	if j := rapid.SampledFrom(jids).Draw(t, "to"); j != "" {
		e.attrs = append(e.attrs, [2]string{"to", j})
	}
	if j := rapid.SampledFrom(jids).Draw(t, "from"); j != "" {
		e.attrs = append(e.attrs, [2]string{"from", j})
	}
	if rapid.IntRange(0, 4).Draw(t, "lang") == 0 {
		e.attrs = append(e.attrs, [2]string{"xml:lang", "en"})
	}
	if rapid.IntRange(0, 4).Draw(t, "foreignAttrs") == 0 {
		// attributes of the same local names in a foreign namespace are not the
		// stanza's own type / id / addresses
		e.attrs = append(e.attrs, [2]string{"xmlns:x", "urn:verif:ext"})
		for _, ty := range typesOf(k) {
			if ty != "" && ty != typ {
				e.attrs = append(e.attrs, [2]string{"x:type", ty})
				break
			}
		}
		if rapid.Bool().Draw(t, "foreignID") {
			e.attrs = append(e.attrs, [2]string{"x:id", "foreign-id"})
		}
		if rapid.Bool().Draw(t, "foreignAddr") {
			e.attrs = append(e.attrs, [2]string{"x:to", "foreign@example.org/x"}, [2]string{"x:from", "other@example.org/y"})
		}
	}
	// shuffle attribute order
	if len(e.attrs) > 1 {
		perm := rapid.Permutation(e.attrs).Draw(t, "attrOrder")
		e.attrs = perm
	}
	switch k {
	case kIQ:
		// Only a result IQ may be empty.  get/set/error IQs without payload are
		// not generated: the repository's own TestMux cases 42 and 43 pin
		// "an empty IQ of type get/set is illegal and should result in an
		// error", so the statement's "empty stanzas go to the type wildcard"
		// is not extended to them.
		n := 1
		if typ == "result" && rapid.IntRange(0, 2).Draw(t, "emptyResult") == 0 {
			n = 0
		}
		if n == 1 {
			if rapid.IntRange(0, 3).Draw(t, "leadingSpace") == 0 {
				e.kids = append(e.kids, node{text: spelled(t, rapid.SampledFrom([]string{" ", "\n  ", "\t"}).Draw(t, "ws"))})
			}
			e.kids = append(e.kids, node{el: genLeaf(t, 0)})
			if typ == "error" && rapid.Bool().Draw(t, "errChild") {
				e.kids = append(e.kids, node{el: &elem{local: "error", inherit: true, attrs: [][2]string{{"type", "cancel"}},
					kids: []node{{el: &elem{local: "item-not-found", ns: nsErr}}}}})
			}
		}
	default:
		n := rapid.SampledFrom([]int{0, 1, 1, 2, 2, 2, 3, 3, 4, 4, 11, 12, 26}).Draw(t, "nKids")
		for i := 0; i < n; i++ {
			if rapid.IntRange(0, 3).Draw(t, "textBefore") == 0 {
				e.kids = append(e.kids, node{text: genText(t)})
			}
			e.kids = append(e.kids, node{el: genLeaf(t, 0)})
		}
		if n > 0 && rapid.IntRange(0, 3).Draw(t, "textAfter") == 0 {
			e.kids = append(e.kids, node{text: genText(t)})
		}
		// a bulky payload (a long list, a big form): hundreds or thousands of
		// tokens inside one of the children
		if n > 0 && rapid.IntRange(0, 9).Draw(t, "bulky") == 0 {
			var els []*elem
			for _, k := range e.kids {
				if k.el != nil {
					els = append(els, k.el)
				}
			}
			target := els[rapid.IntRange(0, len(els)-1).Draw(t, "bulkyKid")]
			m := rapid.SampledFrom([]int{40, 84, 85, 86, 170, 341, 342, 700, 1400}).Draw(t, "bulkyItems")
			for i := 0; i < m; i++ {
				target.kids = append(target.kids, node{el: &elem{local: "i", inherit: true, kids: []node{{text: "v"}}}})
			}
		}
	}
	return e
}

func genTop(t *rapid.T, stanzaNS string) *elem {
	e := &elem{}
	e.local = rapid.SampledFrom([]string{"a", "a", "a", "b", "b", "c", "message", "iq", "presence"}).Draw(t, "topLocal")
	nss := []string{"x", "x", "x", "y", "y", "z", ""}
	if e.local == "a" || e.local == "b" || e.local == "c" {
		// {stanzaNS}a is not a stanza; {x}message is not one either
		nss = append(nss, stanzaNS)
	}
	e.ns = rapid.SampledFrom(nss).Draw(t, "topNS")
	n := rapid.IntRange(0, 2).Draw(t, "topKids")
	for i := 0; i < n; i++ {
		if rapid.IntRange(0, 3).Draw(t, "topText") == 0 {
			e.kids = append(e.kids, node{text: genText(t)})
		}
		e.kids = append(e.kids, node{el: genLeaf(t, 0)})
	}
	if rapid.IntRange(0, 4).Draw(t, "topAttr") == 0 {
		e.attrs = append(e.attrs, [2]string{"type", "get"}, [2]string{"id", "i1"})
	}
	return e
}

func genProgs(t *rapid.T, max int) []prog {
	ps := make([]prog, 5)
	for i := range ps {
		switch rapid.IntRange(0, 4).Draw(t, "readMode") {
		case 0:
			ps[i] = prog{mode: readNone}
		case 1, 2:
			ps[i] = prog{mode: readSome, k: rapid.IntRange(1, max).Draw(t, "readK")}
		default:
			ps[i] = prog{mode: readAll}
		}
		ps[i].fail = rapid.IntRange(0, 5).Draw(t, "handlerFails") == 0
	}
	return ps
}

// genConfig draws a subset of the pattern universe.  The focus (kind, type)
// gets each of its patterns with probability about one half so that several
// patterns compete for the same input; distractors are the same names under
// other kinds and types.
func genConfig(t *rapid.T, fk kind, ftyp string) ([]pat, []bool) {
	var cfg []pat
	addMask := func(k kind, typ string, mask int) {
		for i, n := range patNames {
			if mask&(1<<i) == 0 {
				continue
			}
			if k == kTop && n == (xml.Name{}) {
				continue // no bare wildcard at top level (not covered by the statement)
			}
			cfg = append(cfg, pat{k: k, typ: typ, name: n})
		}
	}
	// (bits are drawn one by one: rapid's integer ranges favour small values)
	drawMask := func(label string, dense bool) int {
		m := 0
		for i := range patNames {
			if rapid.Bool().Draw(t, label) || (dense && rapid.Bool().Draw(t, label+"Dense")) {
				m |= 1 << i
			}
		}
		return m
	}
	addMask(fk, ftyp, drawMask("focusBit", rapid.Bool().Draw(t, "focusDense")))
	if fk == kMsg && ftyp == "normal" && rapid.IntRange(0, 3).Draw(t, "emptyTypePatterns") == 0 {
		// message patterns registered with the empty type: a pattern of its own
		// (no message has that type: a missing type attribute means normal), which
		// neither collides with the normal patterns nor is ever chosen
		addMask(kMsg, "", drawMask("emptyTypeBit", true))
	}
	if fk == kIQ && rapid.IntRange(0, 3).Draw(t, "emptyTypeIQPatterns") == 0 {
		// IQ patterns registered with the empty type (the package's own tests
		// register such handlers): no IQ has that type, so they are patterns of
		// another type than the element's own and are never chosen
		addMask(kIQ, "", drawMask("emptyTypeIQBit", true))
	}
	nd := rapid.IntRange(0, 3).Draw(t, "distractors")
	seen := map[string]bool{fmt.Sprint(fk, ftyp): true}
	for i := 0; i < nd; i++ {
		k := kind(rapid.IntRange(0, 3).Draw(t, "dKind"))
		typ := rapid.SampledFrom(typesOf(k)).Draw(t, "dType")
		if seen[fmt.Sprint(k, typ)] {
			continue
		}
		seen[fmt.Sprint(k, typ)] = true
		mask := 511
		if rapid.Bool().Draw(t, "dPartial") {
			mask = drawMask("dBit", false)
		}
		addMask(k, typ, mask)
	}
	if len(cfg) > 1 {
		cfg = rapid.Permutation(cfg).Draw(t, "regOrder")
	}
	fn := make([]bool, len(cfg))
	for i := range fn {
		fn[i] = rapid.IntRange(0, 3).Draw(t, "func") == 3
	}
	return cfg, fn
}

func genCase(t *rapid.T) tcase {
	var c tcase
	c.stanzaNS = rapid.SampledFrom([]string{stanza.NSClient, stanza.NSClient, stanza.NSServer}).Draw(t, "stanzaNS")
	fk := kind(rapid.SampledFrom([]int{0, 1, 1, 2, 2, 2, 3, 3, 3}).Draw(t, "kind"))
	ftyp := rapid.SampledFrom(typesOf(fk)).Draw(t, "type")
	c.cfg, c.fn = genConfig(t, fk, ftyp)
	// the input is usually of the focus kind and type
	ik, ityp := fk, ftyp
	if rapid.IntRange(0, 9).Draw(t, "offFocus") == 0 {
		ik = kind(rapid.IntRange(0, 3).Draw(t, "inKind"))
		ityp = rapid.SampledFrom(typesOf(ik)).Draw(t, "inType")
	}
	var e *elem
	if ik == kTop {
		e = genTop(t, c.stanzaNS)
	} else {
		e = genStanza(t, c.stanzaNS, ik, ityp)
	}
	topForStanza := false
	if ik != kTop && rapid.IntRange(0, 7).Draw(t, "stanzaNSPattern") == 0 {
		topForStanza = true
		// a namespace-only top-level pattern naming the stanza namespace itself
		// matches the stanza element: the statement ranks a namespace-only match
		// above the bare type wildcard.  (It does not order it against payload
		// patterns, so the element's own table keeps at most its bare wildcard.)
		var cfg []pat
		var fn []bool
		for i, p := range c.cfg {
			if p.k == ik && p.typ == ityp && p.name != (xml.Name{}) {
				continue
			}
			cfg, fn = append(cfg, p), append(fn, c.fn[i])
		}
		pos := rapid.IntRange(0, len(cfg)).Draw(t, "stanzaNSPatternPos")
		top := pat{k: kTop, name: xml.Name{Space: c.stanzaNS}}
		cfg = append(cfg[:pos:pos], append([]pat{top}, cfg[pos:]...)...)
		fn = append(fn[:pos:pos], append([]bool{rapid.Bool().Draw(t, "stanzaNSPatternFn")}, fn[pos:]...)...)
		c.cfg, c.fn = cfg, fn
	}
	if (ik == kMsg || ik == kPres) && !topForStanza && rapid.IntRange(0, 5).Draw(t, "ownNamePattern") == 0 {
		// a payload pattern that happens to match the stanza element's own name
		// (a handler for core children registers the stanza namespace): it is a
		// payload pattern all the same, an empty stanza is not dispatched to it
		own := rapid.SampledFrom([]xml.Name{{Space: c.stanzaNS}, {Local: ik.String()}, {Space: c.stanzaNS, Local: ik.String()}}).Draw(t, "ownName")
		c.cfg = append(c.cfg, pat{k: ik, typ: ityp, name: own})
		c.fn = append(c.fn, rapid.Bool().Draw(t, "ownNameFn"))
	}
	c.xml = e.String()
	c.progs = genProgs(t, 12)
	c.failRest = rapid.IntRange(0, 3).Draw(t, "failRest") == 0
	c.live = rapid.Bool().Draw(t, "live")
	c.lastWithEOF = !c.live && rapid.Bool().Draw(t, "lastWithEOF")
	// (a top-level element that merely has a stanza's local name would be a
	// stanza for such a multiplexer, without the attributes the generator gives
	// stanzas: left to the builds with a stanza namespace)
	stanzaLike := e.local == "iq" || e.local == "message" || e.local == "presence"
	c.zeroValue = !topForStanza && (ik != kTop || !stanzaLike) && rapid.IntRange(0, 5).Draw(t, "zeroValue") == 0
	return c
}

// ---------------------------------------------------------------- properties

func classify(c tcase) func(facts, expect) {
	return func(f facts, ex expect) {
		classes := []string{"kind:" + f.k.String()}
		for _, r := range ex.ranks {
			classes = append(classes, "winner:"+rankName[r])
		}
		if ex.maxMatch >= 2 {
			classes = append(classes, fmt.Sprintf("competing:%d", ex.maxMatch))
		}
		if ex.fallback {
			classes = append(classes, "iq-fallback-reply")
		}
		if f.k != kTop && len(f.kids) == 0 {
			classes = append(classes, "empty-stanza")
		}
		if len(ex.pats) >= 2 {
			classes = append(classes, "multi-dispatch")
		}
		if c.live {
			classes = append(classes, "live-decoder")
		}
		if c.lastWithEOF {
			classes = append(classes, "reader-returns-last-token-with-EOF")
		}
		if c.zeroValue {
			classes = append(classes, "zero-value-ServeMux")
		}
		for _, p := range c.cfg {
			if p.k != kTop && (p.name.Space == c.stanzaNS || p.name.Local == "message" || p.name.Local == "presence") {
				classes = append(classes, "payload-pattern-matching-the-stanza-name")
				break
			}
		}
		partial := false
		modes := map[int]bool{}
		for i := range ex.pats {
			p := prog{mode: readAll}
			if i < len(c.progs) {
				p = c.progs[i]
			}
			modes[p.mode] = true
			if p.mode == readSome && p.k < len(f.ref) {
				partial = true
			}
		}
		for m := range modes {
			classes = append(classes, "reads:"+[...]string{"none", "some", "all"}[m])
		}
		sort.Strings(classes)
		multiPartial := (f.k == kMsg || f.k == kPres) && len(ex.pats) >= 2 && partial
		if multiPartial {
			classes = append(classes, "multi-dispatch-partial-read")
		}
		ev.Case(ex.maxMatch >= 2 || multiPartial, c.canon(), classes...)
	}
}

// TestC14Dispatch: random pattern sets, random elements and stanzas, random
// read programs.
func TestC14Dispatch(t *testing.T) {
	ev.Check(t, 20000, 200000, func(rt *rapid.T) {
		c := genCase(rt)
		runCase(rt, c, classify(c))
	})
}

// TestC14SweepCascade enumerates (in both tiers), for every stanza kind and
// type and for top level elements, every subset of the nine (eight) patterns against every
// payload name over {a,b,c} x {x,y,z}: the lookup order decided completely.
func TestC14SweepCascade(t *testing.T) {
	ev.Begin(t)
	var targets []pat
	targets = append(targets, pat{k: kTop})
	for _, k := range []kind{kIQ, kMsg, kPres} {
		for _, typ := range typesOf(k) {
			targets = append(targets, pat{k: k, typ: typ})
		}
	}
	for _, tg := range targets {
		for mask := 0; mask < 512; mask++ {
			if tg.k == kTop && mask >= 256 {
				break
			}
			var cfg []pat
			for i, n := range patNames {
				if mask&(1<<i) != 0 {
					cfg = append(cfg, pat{k: tg.k, typ: tg.typ, name: n})
				}
			}
			// the same names under a sibling type must never interfere
			if tg.k != kTop {
				other := typesOf(tg.k)[0]
				if other == tg.typ {
					other = typesOf(tg.k)[1]
				}
				cfg = append(cfg, pat{k: tg.k, typ: other, name: xml.Name{Space: "x", Local: "a"}}, pat{k: tg.k, typ: other, name: xml.Name{}})
			}
			for _, local := range []string{"a", "b", "c"} {
				for _, ns := range []string{"x", "y", "z"} {
					child := &elem{local: local, ns: ns}
					var e *elem
					if tg.k == kTop {
						e = child
					} else {
						e = &elem{local: tg.k.String(), ns: stanza.NSClient, attrs: [][2]string{{"type", tg.typ}, {"id", "s1"}, {"from", "romeo@example.net"}},
							kids: []node{{el: child}}}
					}
					c := tcase{stanzaNS: stanza.NSClient, cfg: cfg, fn: make([]bool, len(cfg)), xml: e.String(), progs: []prog{{mode: readAll}}}
					runCase(t, c, func(f facts, ex expect) {
						ev.Case(ex.maxMatch >= 2, c.canon(), "sweep", "sweep-winner:"+rankName[ex.ranks[0]])
					})
				}
			}
		}
	}
}

// TestC14Registration: a duplicate or nil registration anywhere in an
// otherwise valid option list is refused (panic while building the option or
// in mux.New); without it the list is accepted.
func TestC14Registration(t *testing.T) {
	ev.Check(t, 3000, 30000, func(rt *rapid.T) {
		fk := kind(rapid.IntRange(0, 3).Draw(rt, "kind"))
		ftyp := rapid.SampledFrom(typesOf(fk)).Draw(rt, "type")
		cfg, fn := genConfig(rt, fk, ftyp)
		what := rapid.SampledFrom([]string{"dup", "dup", "nil", "nil", "valid"}).Draw(rt, "what")
		r := regCase{cfg: cfg, fn: fn, what: what}
		switch what {
		case "dup":
			if len(cfg) == 0 {
				r.what = "valid"
				break
			}
			r.bad = cfg[rapid.IntRange(0, len(cfg)-1).Draw(rt, "dupOf")]
			r.badFn = rapid.Bool().Draw(rt, "dupFunc")
			r.pos = rapid.IntRange(0, len(cfg)).Draw(rt, "pos")
		case "nil":
			k := kind(rapid.IntRange(0, 3).Draw(rt, "nilKind"))
			names := patNames
			if k == kTop {
				names = patNames[:8]
			}
			r.bad = pat{k: k, typ: rapid.SampledFrom(typesOf(k)).Draw(rt, "nilType"), name: rapid.SampledFrom(names).Draw(rt, "nilName")}
			r.badFn = rapid.Bool().Draw(rt, "nilFunc")
			r.pos = rapid.IntRange(0, len(cfg)).Draw(rt, "pos")
		}
		ev.Case(len(cfg) >= 2 && r.what != "valid", r.canon(), "registration:"+r.what, fmt.Sprintf("registration-func:%v", r.badFn))
		checkRegistration(rt, r)
		checkIncremental(rt, r)
	})
}

type regCase struct {
	cfg   []pat
	fn    []bool
	what  string // "dup", "nil", "valid"
	bad   pat
	badFn bool
	pos   int
}

func (r regCase) canon() string {
	ps := make([]string, len(r.cfg))
	for i, p := range r.cfg {
		ps[i] = p.String()
	}
	return fmt.Sprintf("%s|%s|%v|%d|%s", r.what, r.bad, r.badFn, r.pos, strings.Join(ps, ","))
}

// nilOption builds a registration of p with a nil handler: the nil interface
// value for the interface form, the nil function for the Func adapter.
func nilOption(p pat, fn bool) mux.Option {
	switch p.k {
	case kIQ:
		if fn {
			return mux.IQFunc(stanza.IQType(p.typ), p.name, nil)
		}
		return mux.IQ(stanza.IQType(p.typ), p.name, nil)
	case kMsg:
		if fn {
			return mux.MessageFunc(stanza.MessageType(p.typ), p.name, nil)
		}
		return mux.Message(stanza.MessageType(p.typ), p.name, nil)
	case kPres:
		if fn {
			return mux.PresenceFunc(stanza.PresenceType(p.typ), p.name, nil)
		}
		return mux.Presence(stanza.PresenceType(p.typ), p.name, nil)
	}
	if fn {
		return mux.HandleFunc(p.name, nil)
	}
	return mux.Handle(p.name, nil)
}

func checkRegistration(t failer, r regCase) {
	t.Helper()
	rec := &recorder{}
	var desc strings.Builder
	var panicked string
	_ = xmpp.Handler(handler{})
	p := ev.Guard(func() {
		var opts []mux.Option
		for i := 0; i <= len(r.cfg); i++ {
			if i == r.pos && r.what != "valid" {
				if r.what == "nil" {
					fmt.Fprintf(&desc, "  %s <- nil handler (Func adapter: %v)\n", r.bad, r.badFn)
					opts = append(opts, nilOption(r.bad, r.badFn))
				} else {
					fmt.Fprintf(&desc, "  %s <- second registration (Func adapter: %v)\n", r.bad, r.badFn)
					opts = append(opts, option(r.bad, handler{rec: rec, pat: 1000}, r.badFn))
				}
			}
			if i < len(r.cfg) {
				fmt.Fprintf(&desc, "  %s (Func adapter: %v)\n", r.cfg[i], r.fn[i])
				opts = append(opts, option(r.cfg[i], handler{rec: rec, pat: i}, r.fn[i]))
			}
		}
		mux.New(stanza.NSClient, opts...)
	})
	if p != "" {
		panicked = strings.SplitN(p, "\n", 2)[0]
	}
	switch {
	case r.what == "valid" && p != "":
		ev.Failf(t, "mux.New with distinct patterns and non-nil handlers was refused (%s):\n%s", panicked, desc.String())
	case r.what != "valid" && p == "":
		ev.Failf(t, "mux.New accepted a %s registration (no panic):\n%s", map[string]string{"dup": "duplicate", "nil": "nil-handler"}[r.what], desc.String())
	case r.what == "nil" && !strings.Contains(panicked, "nil"):
		// refused, but for the wrong reason (e.g. reported as duplicate)
		if !r.registered() {
			ev.Failf(t, "nil-handler registration refused with an unrelated message %q:\n%s", panicked, desc.String())
		}
	}
}

// checkIncremental: the same options applied one at a time to a mux that
// exists already (opt(m), the way the handler packages extend a mux): a refused
// registration leaves the mux as it was - what was registered first for the
// pattern is still what the lookup finds.
func checkIncremental(t failer, r regCase) {
	t.Helper()
	if r.what != "dup" {
		return
	}
	rec := &recorder{}
	m := mux.New(stanza.NSClient)
	owner := -1
	for i := 0; i <= len(r.cfg); i++ {
		if i == r.pos {
			// the duplicate: refused if the pattern is registered already (then
			// nothing may change), accepted otherwise (then it owns the pattern)
			p := ev.Guard(func() { option(r.bad, handler{rec: rec, pat: 1000}, r.badFn)(m) })
			if owner >= 0 && p == "" {
				ev.Failf(t, "a second registration of %s on an existing mux was accepted (no panic)", r.bad)
			}
			if owner < 0 && p == "" {
				owner = 1000
			}
		}
		if i < len(r.cfg) {
			p := ev.Guard(func() { option(r.cfg[i], handler{rec: rec, pat: i}, r.fn[i])(m) })
			if r.cfg[i] == r.bad {
				if owner >= 0 && p == "" {
					ev.Failf(t, "a second registration of %s on an existing mux was accepted (no panic)", r.bad)
				}
				if owner < 0 && p == "" {
					owner = i
				}
			} else if p != "" {
				ev.Failf(t, "registering the distinct pattern %s on an existing mux was refused: %s", r.cfg[i], strings.SplitN(p, "\n", 2)[0])
			}
		}
	}
	// who answers for the pattern now?
	found := false
	if p := ev.Guard(func() {
		switch r.bad.k {
		case kIQ:
			if h, ok := m.IQHandler(stanza.IQType(r.bad.typ), r.bad.name); ok {
				found = true
				_ = h.HandleIQ(stanza.IQ{}, nil, nil)
			}
		case kMsg:
			if h, ok := m.MessageHandler(stanza.MessageType(r.bad.typ), r.bad.name); ok {
				found = true
				_ = h.HandleMessage(stanza.Message{}, nil)
			}
		case kPres:
			if h, ok := m.PresenceHandler(stanza.PresenceType(r.bad.typ), r.bad.name); ok {
				found = true
				_ = h.HandlePresence(stanza.Presence{}, nil)
			}
		default:
			if h, ok := m.Handler(r.bad.name); ok {
				found = true
				_ = h.HandleXMPP(nil, nil)
			}
		}
	}); p != "" {
		ev.Failf(t, "looking up %s after the registrations: %s", r.bad, p)
	}
	if !found || len(rec.events) != 1 {
		ev.Failf(t, "after registering %s (and a refused second registration of it) the lookup for exactly that pattern found a handler: %v, invocations recorded: %d", r.bad, found, len(rec.events))
	}
	if got := rec.events[0].pat; got != owner {
		ev.Failf(t, "pattern %s was registered first by option %d; a second registration (option %d) was refused with a panic, yet the lookup now finds the handler of option %d", r.bad, owner, 1000, got)
	}
	ev.Class("registration:refused-duplicate-leaves-first-owner")
}

// registered reports whether the bad pattern is also part of the valid list
// (then a "multiple registrations" panic is as good as a "nil handler" one).
func (r regCase) registered() bool {
	for _, p := range r.cfg {
		if p == r.bad {
			return true
		}
	}
	return false
}

// ---------------------------------------------------------------- regressions

func pn(space, local string) xml.Name { return xml.Name{Space: space, Local: local} }

// TestC14Regress replays concrete inputs: the findings made with this check and
// the hand-picked corners of the statement.
func TestC14Regress(t *testing.T) {
	ev.Begin(t)
	all := func(k kind, typ string) []pat {
		var cfg []pat
		for _, n := range patNames {
			if k == kTop && n == (xml.Name{}) {
				continue
			}
			cfg = append(cfg, pat{k: k, typ: typ, name: n})
		}
		return cfg
	}
	cases := []tcase{
		// local-only beats namespace-only in every table
		{cfg: []pat{{kTop, "", pn("x", "")}, {kTop, "", pn("", "a")}}, xml: `<a xmlns="x"/>`},
		{cfg: []pat{{kIQ, "get", pn("x", "")}, {kIQ, "get", pn("", "a")}, {kIQ, "get", pn("", "")}}, xml: `<iq xmlns="jabber:client" type="get" id="1"><a xmlns="x"/></iq>`},
		{cfg: []pat{{kMsg, "chat", pn("x", "")}, {kMsg, "chat", pn("", "a")}, {kMsg, "chat", pn("", "")}}, xml: `<message xmlns="jabber:client" type="chat"><a xmlns="x"/></message>`},
		{cfg: []pat{{kPres, "", pn("x", "")}, {kPres, "", pn("", "a")}, {kPres, "", pn("", "")}}, xml: `<presence xmlns="jabber:client"><a xmlns="x"/></presence>`},
		// everything registered, three payloads, partial reads
		{cfg: all(kMsg, "normal"), xml: `<message xmlns="jabber:client" id="i1"><a xmlns="x">t</a> txt <c xmlns="y"/><b xmlns="z"><a xmlns="x"/></b></message>`,
			progs: []prog{{mode: readSome, k: 3}, {mode: readAll}, {mode: readSome, k: 1}}},
		{cfg: all(kPres, "subscribe"), xml: `<presence xmlns="jabber:client" type="subscribe"><c xmlns="z"/><c xmlns="z"/></presence>`,
			progs: []prog{{mode: readAll}, {mode: readAll}}},
		// empty stanzas go to the type wildcard only
		{cfg: all(kMsg, "chat"), xml: `<message xmlns="jabber:client" type="chat"/>`},
		{cfg: all(kPres, ""), xml: `<presence xmlns="jabber:server" type=""></presence>`, stanzaNS: stanza.NSServer},
		{cfg: all(kIQ, "result"), xml: `<iq xmlns="jabber:client" type="result" id="9"/>`},
		// defaults
		{cfg: all(kIQ, "set"), xml: `<iq xmlns="jabber:client" type="get" id="9" to="example.org" from="juliet@example.com/balcony"><a xmlns="x"/></iq>`},
		{cfg: nil, xml: `<iq xmlns="jabber:client" type="set" id="9"><a xmlns="x"/></iq>`},
		{cfg: all(kIQ, "set"), xml: `<iq xmlns="jabber:client" type="result" id="9"><a xmlns="x"/></iq>`},
		{cfg: all(kIQ, "set"), xml: `<iq xmlns="jabber:client" type="error" id="9"><a xmlns="x"/><error type="cancel"/></iq>`},
		{cfg: all(kMsg, "chat"), xml: `<message xmlns="jabber:client" type="headline"><a xmlns="x"/></message>`},
		{cfg: all(kMsg, "chat"), xml: `<presence xmlns="jabber:client" type="error"><a xmlns="x"/></presence>`},
		{cfg: all(kTop, ""), xml: `<c xmlns="z"><a xmlns="x"/></c>`},
		// a stanza name outside the stanza namespace is an ordinary element
		{cfg: append(all(kTop, ""), all(kMsg, "normal")...), xml: `<message xmlns="x"><a/></message>`},
	}
	for _, c := range cases {
		if c.stanzaNS == "" {
			c.stanzaNS = stanza.NSClient
		}
		c.fn = make([]bool, len(c.cfg))
		for _, live := range []bool{false, true} {
			c.live = live
			c := c
			runCase(t, c, func(f facts, ex expect) { ev.Case(true, c.canon(), "regress") })
		}
	}
	// registrations
	two := []pat{{kIQ, "get", pn("x", "a")}, {kMsg, "chat", pn("", "")}}
	for _, r := range []regCase{
		{cfg: two, what: "valid"},
		{cfg: two, what: "dup", bad: two[0], pos: 2},
		{cfg: two, what: "dup", bad: two[1], badFn: true, pos: 0},
		{cfg: two, what: "nil", bad: pat{kTop, "", pn("x", "a")}, pos: 1},
		{cfg: two, what: "nil", bad: pat{kIQ, "set", pn("x", "a")}, pos: 1},
		{cfg: two, what: "nil", bad: pat{kMsg, "normal", pn("", "")}, pos: 1},
		{cfg: two, what: "nil", bad: pat{kPres, "", pn("", "")}, pos: 1},
		{cfg: two, what: "nil", bad: pat{kTop, "", pn("x", "a")}, badFn: true, pos: 1},
		{cfg: two, what: "nil", bad: pat{kIQ, "set", pn("x", "a")}, badFn: true, pos: 1},
		{cfg: two, what: "nil", bad: pat{kMsg, "normal", pn("", "")}, badFn: true, pos: 1},
		{cfg: two, what: "nil", bad: pat{kPres, "", pn("", "")}, badFn: true, pos: 1},
	} {
		r.fn = make([]bool, len(r.cfg))
		ev.Case(true, r.canon(), "regress")
		checkRegistration(t, r)
	}
}
