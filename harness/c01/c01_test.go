// C01 — Stream features are negotiated only when allowed, in order, at most once.
package c01

import (
	"bytes"
	"context"
	"encoding/xml"
	"fmt"
	"io"
	"strings"
	"testing"

	"pgregory.net/rapid"

	"mellium.im/xmlstream"
	"mellium.im/xmpp"
	"mellium.im/xmpp/jid"
	"mellium.im/xmpp/stanza"
	"mellium.im/xmpp/verifharness/internal/ev"
	"mellium.im/xmpp/verifharness/internal/wire"
	"mellium.im/xmpp/verifharness/internal/xt"
	"mellium.im/xmpp/websocket"
)

func TestMain(m *testing.M) { ev.Main(m, "C01") }

const (
	wsNS       = "urn:ietf:params:xml:ns:xmpp-framing"
	startTLSNS = "urn:ietf:params:xml:ns:xmpp-tls"
)

// ---------------------------------------------------------------- case model

type feat struct {
	k          int
	space      string
	local      string
	necessary  xmpp.SessionState
	prohibited xmpp.SessionState
	mandatory  bool // what List reports / what the honest peer would advertise
	restart    bool
	negotiable bool
	adds       xmpp.SessionState
	ready      bool // contributes Ready itself (like resource binding)
	isStartTLS bool
}

func (f feat) String() string {
	return fmt.Sprintf("f%d{%s nec=%v pro=%v mandatory=%v restart=%v negotiable=%v adds=%v ready=%v}", f.k, f.space, f.necessary, f.prohibited, f.mandatory, f.restart, f.negotiable, f.adds, f.ready)
}

type advItem struct {
	k        int // feature index, -1 unknown
	required bool
	// for an unknown item: index of a configured feature whose namespace (but not
	// whose element name) the unknown element carries, -1 none.  Such an element
	// is not that feature's advertisement.
	alias int
	// for an unknown item of a long advertisement: a number that makes its
	// namespace distinct (0: the one shared unknown namespace)
	pad int
}

type selection struct {
	kind string // feature unknown iqwrapped
	k    int
}

type tcase struct {
	recv    bool
	ws      bool
	s2s     bool
	initial xmpp.SessionState
	feats   []feat
	// the XML console is switched on (StreamConfig.TeeIn / TeeOut)
	tee bool
	// restarting features hand back a new layer around the connection (as a
	// TLS or compression feature does) instead of the connection itself
	wrapOnRestart bool
	adverts       [][]advItem // initiator: advertisement per features list
	selects       []selection // receiver: selections in order
}

func (tc tcase) String() string {
	var sb strings.Builder
	fmt.Fprintf(&sb, "recv=%v ws=%v s2s=%v initial=%v xml-console=%v restart-hands-back-a-new-layer=%v", tc.recv, tc.ws, tc.s2s, tc.initial, tc.tee, tc.wrapOnRestart)
	for _, f := range tc.feats {
		fmt.Fprintf(&sb, "\n  %s", f)
	}
	if !tc.recv {
		for i, a := range tc.adverts {
			fmt.Fprintf(&sb, "\n  advertisement %d:", i)
			npad := 0
			for _, it := range a {
				if it.k < 0 && it.alias < 0 && npad > 0 {
					npad++
					continue
				}
				if npad > 1 {
					fmt.Fprintf(&sb, " ...(%d unknown features in all; pad=%v)", npad, a[0].pad > 0 || it.pad > 0)
				}
				npad = 0
				if it.k < 0 && it.alias < 0 {
					npad = 1
				}
				fmt.Fprintf(&sb, " f%d(required=%v)", it.k, it.required)
				if it.k < 0 && it.alias >= 0 {
					fmt.Fprintf(&sb, "[an element <other/> in the namespace of f%d]", it.alias)
				}
			}
		}
	} else {
		sb.WriteString("\n  selections:")
		for _, s := range tc.selects {
			fmt.Fprintf(&sb, " %s:f%d", s.kind, s.k)
		}
	}
	return sb.String()
}

var maskChoices = []xmpp.SessionState{0, 0, 0, xmpp.Secure, xmpp.Authn, xmpp.Secure | xmpp.Authn}

func genCase(t *rapid.T) tcase {
	tc := tcase{recv: rapid.Bool().Draw(t, "recv"), ws: rapid.IntRange(0, 3).Draw(t, "ws") == 0, s2s: rapid.Bool().Draw(t, "s2s")}
	tc.initial = rapid.SampledFrom([]xmpp.SessionState{0, 0, xmpp.Secure, xmpp.Authn, xmpp.Secure | xmpp.Authn}).Draw(t, "initial")
	tc.tee = rapid.IntRange(0, 3).Draw(t, "tee") == 0
	tc.wrapOnRestart = rapid.IntRange(0, 2).Draw(t, "wrapOnRestart") == 0
	n := rapid.IntRange(1, 5).Draw(t, "nfeats")
	hasTLS := false
	for k := 0; k < n; k++ {
		f := feat{k: k, space: fmt.Sprintf("urn:verif:f%d", k), local: fmt.Sprintf("f%d", k)}
		f.necessary = rapid.SampledFrom(maskChoices).Draw(t, "necessary")
		f.prohibited = rapid.SampledFrom(maskChoices).Draw(t, "prohibited")
		if rapid.IntRange(0, 7).Draw(t, "oddmask") == 0 {
			f.prohibited |= rapid.SampledFrom([]xmpp.SessionState{xmpp.Ready, xmpp.S2S, xmpp.Received}).Draw(t, "oddbit")
		}
		f.mandatory = rapid.Bool().Draw(t, "mandatory")
		f.restart = rapid.IntRange(0, 2).Draw(t, "restart") == 0
		f.negotiable = rapid.IntRange(0, 5).Draw(t, "negotiable") > 0
		f.adds = rapid.SampledFrom(maskChoices).Draw(t, "adds")
		if !hasTLS && !tc.recv && rapid.IntRange(0, 4).Draw(t, "starttls") == 0 {
			// a stand-in with the STARTTLS name (the initiator attempts it even
			// when it is not advertised on the first list)
			hasTLS = true
			f.isStartTLS = true
			f.space, f.local = startTLSNS, "starttls"
			f.prohibited = xmpp.Secure
			f.necessary = 0
			f.adds = xmpp.Secure
			// (an application's own feature under the STARTTLS name need not ask
			// for a restart: one in four does not)
			f.restart = rapid.IntRange(0, 3).Draw(t, "tlsRestart") > 0
			f.negotiable = true
		}
		if rapid.IntRange(0, 5).Draw(t, "ready") == 0 && !f.isStartTLS {
			// like resource binding: mandatory, ends negotiation itself
			f.ready = true
			f.mandatory = true
			f.restart = false
			f.prohibited |= xmpp.Ready
		}
		tc.feats = append(tc.feats, f)
	}
	if !tc.recv {
		na := rapid.IntRange(1, 5).Draw(t, "nadverts")
		for i := 0; i < na; i++ {
			var adv []advItem
			ni := rapid.IntRange(0, 4).Draw(t, "nitems")
			for j := 0; j < ni; j++ {
				it := advItem{k: rapid.IntRange(-1, n-1).Draw(t, "item"), alias: -1}
				if it.k < 0 && rapid.Bool().Draw(t, "alias") {
					it.alias = rapid.IntRange(0, n-1).Draw(t, "aliasof")
				}
				if it.k >= 0 && rapid.IntRange(0, 4).Draw(t, "honest") > 0 {
					it.required = tc.feats[it.k].mandatory
				} else {
					it.required = rapid.Bool().Draw(t, "required")
				}
				adv = append(adv, it)
			}
			// a long advertisement: dozens or hundreds of features this side does
			// not know, before, between or behind the configured ones
			if rapid.IntRange(0, 11).Draw(t, "longAdvert") == 0 {
				np := rapid.SampledFrom([]int{15, 31, 32, 33, 64, 100, 255, 256, 257, 1100}).Draw(t, "npad")
				at := 0
				if len(adv) > 0 && rapid.IntRange(0, 2).Draw(t, "padFront") == 0 {
					at = rapid.IntRange(0, len(adv)).Draw(t, "padAt")
				}
				distinct := rapid.IntRange(0, 3).Draw(t, "padDistinct") > 0
				var pads []advItem
				for k := 1; k <= np; k++ {
					it := advItem{k: -1, alias: -1, required: k%7 == 0}
					if distinct {
						it.pad = k
					}
					pads = append(pads, it)
				}
				adv = append(adv[:at:at], append(pads, adv[at:]...)...)
			}
			// listed finding: a feature that sets the ready bit itself (like
			// resource binding) advertised next to another mandatory feature may
			// be picked first and end negotiation.  The generator keeps such a
			// feature from sharing a list with other required configured features.
			if ev.IsKnown(knownReadyPreempts) {
				hasReady := false
				for _, it := range adv {
					if it.k >= 0 && tc.feats[it.k].ready {
						hasReady = true
					}
				}
				if hasReady {
					first := -1
					var kept []advItem
					for _, it := range adv {
						switch {
						case it.k < 0:
						case tc.feats[it.k].ready && (first == -1 || it.k == first):
							first = it.k
						case tc.feats[it.k].ready:
							// a second ready-setting feature: leave it out of this list
							ev.Excluded(knownReadyPreempts)
							continue
						case it.required:
							it.required = false
							ev.Excluded(knownReadyPreempts)
						}
						kept = append(kept, it)
					}
					adv = kept
				}
			}
			tc.adverts = append(tc.adverts, adv)
		}
	} else {
		ns := rapid.IntRange(0, 6).Draw(t, "nselects")
		for i := 0; i < ns; i++ {
			s := selection{kind: "feature", k: rapid.IntRange(0, n-1).Draw(t, "sel")}
			switch rapid.IntRange(0, 9).Draw(t, "selkind") {
			case 0:
				s.kind = "unknown"
			case 1:
				s.kind = "iqwrapped"
			case 2:
				// an element with the local name of a configured feature in a
				// namespace nothing was advertised in: not a selection of it
				s.kind = "namesake"
			}
			tc.selects = append(tc.selects, s)
		}
	}
	return tc
}

// ---------------------------------------------------------------- trace

type traceEntry struct {
	k       int
	state   xmpp.SessionState
	epoch   int // number of stream headers the library had sent
	list    int // index of the current features list
	restart bool
}

type run struct {
	tc      *tcase
	trace   []traceEntry
	headers int // stream headers written by the library so far
	lists   int // features lists exchanged so far
	// wire events observed by the peer, in order
	events []string
	// receiver: advertisements observed on the wire (parsed), with the state at that time
	advSeen []*xt.Node
	// state snapshots taken by List callbacks (receiver): state when advertising
	listStates []xmpp.SessionState
}

func (r *run) features() []xmpp.StreamFeature {
	var out []xmpp.StreamFeature
	for i := range r.tc.feats {
		f := r.tc.feats[i]
		sf := xmpp.StreamFeature{
			Name:       xml.Name{Space: f.space, Local: f.local},
			Necessary:  f.necessary,
			Prohibited: f.prohibited,
			List: func(ctx context.Context, e xmlstream.TokenWriter, start xml.StartElement) (bool, error) {
				if err := e.EncodeToken(start); err != nil {
					return f.mandatory, err
				}
				if f.mandatory {
					req := xml.StartElement{Name: xml.Name{Local: "required"}}
					if err := e.EncodeToken(req); err != nil {
						return true, err
					}
					if err := e.EncodeToken(req.End()); err != nil {
						return true, err
					}
				}
				return f.mandatory, e.EncodeToken(start.End())
			},
			Parse: func(ctx context.Context, d *xml.Decoder, start *xml.StartElement) (bool, interface{}, error) {
				parsed := struct {
					Required *struct{} `xml:"required"`
				}{}
				err := d.DecodeElement(&parsed, start)
				return parsed.Required != nil, nil, err
			},
		}
		if f.negotiable {
			sf.Negotiate = func(ctx context.Context, s *xmpp.Session, data interface{}) (xmpp.SessionState, io.ReadWriter, error) {
				r.trace = append(r.trace, traceEntry{k: f.k, state: s.State(), epoch: r.headers, list: r.lists, restart: f.restart})
				conn := s.Conn()
				rd := s.TokenReader()
				d := xml.NewTokenDecoder(rd)
				var err error
				if s.State()&xmpp.Received != 0 {
					// consume the selection, acknowledge
					var tok xml.Token
					tok, err = d.Token()
					if err == nil {
						if st, ok := tok.(xml.StartElement); ok {
							if st.Name.Local == "iq" {
								// legacy features are selected by an IQ: consume it whole
								err = d.Skip()
							} else {
								err = d.Skip()
							}
						}
					}
					rd.Close()
					if err != nil {
						return 0, nil, err
					}
					if _, err = fmt.Fprintf(conn, `<ok xmlns="%s"/>`, f.space); err != nil {
						return 0, nil, err
					}
				} else {
					if _, err = fmt.Fprintf(conn, `<%s xmlns="%s"/>`, f.local, f.space); err != nil {
						rd.Close()
						return 0, nil, err
					}
					var tok xml.Token
					tok, err = d.Token()
					if err == nil {
						if _, ok := tok.(xml.StartElement); ok {
							err = d.Skip()
						} else {
							err = fmt.Errorf("verif: expected <ok/>, got %T", tok)
						}
					}
					rd.Close()
					if err != nil {
						return 0, nil, err
					}
				}
				mask := f.adds
				if f.ready {
					mask |= xmpp.Ready
				}
				if f.restart {
					if r.tc.wrapOnRestart {
						return mask, struct{ io.ReadWriter }{conn}, nil
					}
					return mask, conn, nil
				}
				return mask, nil, nil
			}
		}
		out = append(out, sf)
	}
	return out
}

func esc(s string) string {
	var b strings.Builder
	_ = xml.EscapeText(&b, []byte(s))
	return b.String()
}

func (r *run) header(from, to, id string) string {
	tc := r.tc
	ns := stanza.NSClient
	if tc.s2s {
		ns = stanza.NSServer
	}
	attrs := ` version="1.0"`
	if id != "" {
		attrs += ` id="` + id + `"`
	}
	if from != "" {
		attrs += ` from="` + esc(from) + `"`
	}
	if to != "" {
		attrs += ` to="` + esc(to) + `"`
	}
	if tc.ws {
		return `<open xmlns="` + wsNS + `"` + attrs + `/>`
	}
	return `<?xml version="1.0"?><stream:stream xmlns="` + ns + `" xmlns:stream="` + wire.StreamNS + `"` + attrs + `>`
}

func (r *run) advertisement(adv []advItem) string {
	var sb strings.Builder
	if r.tc.ws {
		sb.WriteString(`<features xmlns="` + wire.StreamNS + `">`)
	} else {
		sb.WriteString(`<stream:features>`)
	}
	for _, it := range adv {
		space, local := "urn:verif:unknown", "unknown"
		if it.k >= 0 {
			space, local = r.tc.feats[it.k].space, r.tc.feats[it.k].local
		} else if it.alias >= 0 {
			space, local = r.tc.feats[it.alias].space, "other"
		} else if it.pad > 0 {
			space = fmt.Sprintf("urn:verif:unknown:%d", it.pad)
		}
		sb.WriteString(`<` + local + ` xmlns="` + space + `">`)
		if it.required {
			sb.WriteString(`<required/>`)
		}
		sb.WriteString(`</` + local + `>`)
	}
	if r.tc.ws {
		sb.WriteString(`</features>`)
	} else {
		sb.WriteString(`</stream:features>`)
	}
	return sb.String()
}

var (
	us   = jid.MustParse("me@example.net")
	them = jid.MustParse("example.net")
)

func isHeader(b []byte, ws bool) bool {
	if ws {
		return bytes.Contains(b, []byte("<open "))
	}
	return bytes.Contains(b, []byte("<stream:stream"))
}

// ---------------------------------------------------------------- one execution

type outcome struct {
	err     error
	state   xmpp.SessionState
	run     *run
	out     []byte
	panic   string
	problem string // wire-level invariant broken, detected by the peer
}

func execute(tc *tcase) outcome {
	r := &run{tc: tc}
	var o outcome
	o.run = r
	pendingRestart := false
	var peer *wire.Reactive
	if !tc.recv {
		peer = wire.NewReactive(func(p *wire.Reactive, fresh []byte) []byte {
			if p.Steps > 60 {
				// at most 5 features per stream and 5 lists: the library is going
				// round in circles; end the peer's stream so that the call returns
				if o.problem == "" {
					o.problem = "the library keeps negotiating: more than 60 exchanges for at most 5 features and 5 advertisements"
				}
				return nil
			}
			hdr := isHeader(fresh, tc.ws)
			if pendingRestart {
				// (I7) a feature asked for a restart: the next thing the library
				// writes must be a fresh stream header and nothing else
				want := "<?xml"
				if tc.ws {
					want = "<open "
				}
				if !bytes.HasPrefix(bytes.TrimSpace(fresh), []byte(want)) && o.problem == "" {
					o.problem = fmt.Sprintf("a feature asked for a restart but the next bytes written are %q, not a fresh stream header", fresh)
				}
				pendingRestart = false
			}
			switch {
			case hdr:
				r.headers++
				r.events = append(r.events, "header")
				if r.lists >= len(tc.adverts) {
					return nil
				}
				adv := tc.adverts[r.lists]
				r.lists++
				return []byte(r.header(them.String(), us.String(), fmt.Sprintf("s%d", r.headers)) + r.advertisement(adv))
			case len(bytes.TrimSpace(fresh)) > 0:
				// a feature request: acknowledge it
				items, _, err := wire.ParseStream(fresh, false, "jabber:client")
				if err != nil || len(wire.Elements(items)) != 1 {
					if o.problem == "" {
						o.problem = fmt.Sprintf("unexpected bytes from the library: %q", fresh)
					}
					return nil
				}
				el := wire.Elements(items)[0]
				r.events = append(r.events, "select:"+el.Name.Space)
				for _, f := range tc.feats {
					if f.space == el.Name.Space && f.restart {
						pendingRestart = true
					}
				}
				return []byte(`<ok xmlns="` + el.Name.Space + `"/>`)
			default:
				// the library reads again without having written: it expects an
				// updated features list
				if r.lists >= len(tc.adverts) {
					return nil
				}
				adv := tc.adverts[r.lists]
				r.lists++
				r.events = append(r.events, "list")
				return []byte(r.advertisement(adv))
			}
		})
	} else {
		sel := 0
		sentHeader := false
		peer = wire.NewReactive(func(p *wire.Reactive, fresh []byte) []byte {
			if !sentHeader {
				sentHeader = true
				return []byte(r.header(us.String(), them.String(), ""))
			}
			// parse what the library wrote: header and/or features list and/or ack
			body := fresh
			if isHeader(fresh, tc.ws) {
				r.headers++
				r.events = append(r.events, "header")
			}
			if i := bytes.Index(body, []byte("features")); i >= 0 {
				// cut out the features element
				start := bytes.LastIndexByte(body[:i], '<')
				endTag := []byte("</stream:features>")
				if tc.ws {
					endTag = []byte("</features>")
				}
				end := bytes.Index(body, endTag)
				if start >= 0 && end > start {
					raw := body[start : end+len(endTag)]
					src := raw
					if !tc.ws {
						src = append(append([]byte(`<w xmlns:stream="`+wire.StreamNS+`">`), raw...), []byte("</w>")...)
					}
					n, err := xt.Parse(src)
					if err == nil {
						if !tc.ws {
							n = n.Find("features")
						}
						r.advSeen = append(r.advSeen, n)
						r.lists++
						r.events = append(r.events, "list")
					} else if o.problem == "" {
						o.problem = fmt.Sprintf("features list is not well-formed: %v: %q", err, raw)
					}
				}
			}
			if pendingRestart {
				pendingRestart = false
				return []byte(r.header(us.String(), them.String(), ""))
			}
			if sel >= len(tc.selects) {
				return nil
			}
			s := tc.selects[sel]
			sel++
			f := tc.feats[s.k]
			r.events = append(r.events, fmt.Sprintf("select:%s:f%d", s.kind, s.k))
			switch s.kind {
			case "unknown":
				return []byte(`<nope xmlns="urn:verif:unknown"/>`)
			case "iqwrapped":
				return []byte(`<iq type="set" id="x"><` + f.local + ` xmlns="` + f.space + `"/></iq>`)
			case "namesake":
				return []byte(`<` + f.local + ` xmlns="urn:verif:elsewhere"/>`)
			}
			return []byte(`<` + f.local + ` xmlns="` + f.space + `"/>`)
		})
		// when a restarting feature runs on the receiving side the peer has to
		// send a new header next: learn it from the trace
		_ = sel
	}
	feats := r.features()
	if tc.recv {
		// wrap Negotiate to tell the peer about restarts
		for i := range feats {
			if feats[i].Negotiate == nil {
				continue
			}
			inner := feats[i].Negotiate
			restart := tc.feats[i].restart
			feats[i].Negotiate = func(ctx context.Context, s *xmpp.Session, data interface{}) (xmpp.SessionState, io.ReadWriter, error) {
				m, rw, err := inner(ctx, s, data)
				if err == nil && restart {
					pendingRestart = true
				}
				return m, rw, err
			}
		}
	}
	var teeIn, teeOut bytes.Buffer
	cfg := func(*xmpp.Session, *xmpp.StreamConfig) xmpp.StreamConfig {
		c := xmpp.StreamConfig{Features: feats}
		if tc.tee {
			c.TeeIn, c.TeeOut = &teeIn, &teeOut
		}
		return c
	}
	neg := xmpp.NewNegotiator(cfg)
	if tc.ws {
		neg = websocket.Negotiator(cfg)
	}
	state := tc.initial
	if tc.s2s {
		state |= xmpp.S2S
	}
	var s *xmpp.Session
	o.panic = ev.Guard(func() {
		if tc.recv {
			s, o.err = xmpp.ReceiveSession(context.Background(), peer.Conn, state, neg)
		} else {
			s, o.err = xmpp.NewSession(context.Background(), them, us, peer.Conn, state, neg)
		}
	})
	if s != nil {
		o.state = s.State()
	}
	o.out = peer.Conn.Output()
	return o
}

// ---------------------------------------------------------------- invariants

func eligibleMasks(f feat, st xmpp.SessionState) bool {
	return st&f.necessary == f.necessary && st&f.prohibited == 0
}

func checkOutcome(tc *tcase, o outcome) string {
	r := o.run
	if o.panic != "" {
		return o.panic
	}
	if o.problem != "" {
		return o.problem
	}
	advOf := func(list int) []advItem {
		if tc.recv || list <= 0 || list > len(tc.adverts) {
			return nil
		}
		return tc.adverts[list-1]
	}
	ranInEpoch := map[[2]int]bool{}
	var prev xmpp.SessionState = tc.initial
	// the state as it follows from what the features negotiated so far returned
	// (independent of what Session.State reports inside a Negotiate call)
	model := tc.initial
	for i, e := range r.trace {
		f := tc.feats[e.k]
		// I1
		if !eligibleMasks(f, e.state) {
			return fmt.Sprintf("trace[%d]: f%d negotiated in state %v although it needs %v and forbids %v", i, e.k, e.state, f.necessary, f.prohibited)
		}
		// I1': the same against the bits the earlier features have set, and the
		// state a feature sees must contain them
		if missing := model &^ e.state &^ (xmpp.Received | xmpp.S2S); missing != 0 {
			return fmt.Sprintf("trace[%d]: f%d was run with Session.State() = %v, which lacks the bits %v set by the features negotiated before it", i, e.k, e.state, missing)
		}
		if model&f.prohibited != 0 {
			return fmt.Sprintf("trace[%d]: f%d negotiated although it forbids %v and the features negotiated before it had set %v", i, e.k, f.prohibited, model)
		}
		model |= f.adds
		if f.ready {
			model |= xmpp.Ready
		}
		// I4
		key := [2]int{e.k, e.epoch}
		if ranInEpoch[key] {
			return fmt.Sprintf("trace[%d]: f%d negotiated twice on stream %d", i, e.k, e.epoch)
		}
		ranInEpoch[key] = true
		// I6
		if e.state&prev != prev&^(xmpp.Received) && e.state&prev&^xmpp.Received != prev&^xmpp.Received {
			return fmt.Sprintf("trace[%d]: state went from %v to %v (bits removed)", i, prev, e.state)
		}
		prev = e.state
		if !tc.recv {
			// I2
			adv := advOf(e.list)
			advertised := false
			for _, it := range adv {
				if it.k == e.k {
					advertised = true
				}
			}
			forced := f.isStartTLS && e.epoch == 1 && e.list == 1 && e.state&xmpp.Secure == 0
			if !advertised && !forced {
				return fmt.Sprintf("trace[%d]: f%d negotiated although the current advertisement (list %d) does not contain it", i, e.k, e.list)
			}
			// I5: voluntary before mandatory
			// (a feature advertised twice with contradicting flags is not clearly
			// mandatory: only an unambiguous advertisement counts)
			mandatoryAsAdvertised := false
			for _, it := range adv {
				if it.k == e.k && it.required {
					mandatoryAsAdvertised = true
				}
			}
			for _, it := range adv {
				if it.k == e.k && !it.required {
					mandatoryAsAdvertised = false
				}
			}
			if forced && !advertised {
				mandatoryAsAdvertised = false
			}
			if mandatoryAsAdvertised {
				for _, it := range adv {
					if it.k < 0 || it.k == e.k || it.required {
						continue
					}
					// is the same feature also advertised as required in this list? then it is not clearly voluntary
					ambiguous := false
					for _, it2 := range adv {
						if it2.k == it.k && it2.required {
							ambiguous = true
						}
					}
					v := tc.feats[it.k]
					if ambiguous || !v.negotiable || ranInEpoch[[2]int{v.k, e.epoch}] {
						continue
					}
					// eligible both when the list was read and now
					listState := stateAtList(tc, r, e.list, i)
					if eligibleMasks(v, e.state) && eligibleMasks(v, listState) {
						return fmt.Sprintf("trace[%d]: mandatory f%d negotiated while the eligible voluntary f%d of the same advertisement had not been negotiated", i, e.k, v.k)
					}
				}
			}
		}
	}
	final := o.state
	if final&prev&^xmpp.Received != prev&^xmpp.Received {
		return fmt.Sprintf("final state %v lost bits of %v", final, prev)
	}
	// restarts: every executed restarting feature must be followed by a header
	restarts := 0
	for _, e := range r.trace {
		if e.restart {
			restarts++
		}
	}
	if o.err == nil {
		if final&xmpp.Ready == 0 {
			return fmt.Sprintf("establishment reported (nil error) without the ready bit: state %v", final)
		}
		if r.headers != 1+restarts {
			return fmt.Sprintf("establishment reported after %d restart requests but the library sent %d stream headers (a restart always begins with a fresh header)", restarts, r.headers)
		}
		// I8: no eligible mandatory feature of the last advertisement left
		if !tc.recv {
			adv := advOf(r.lists)
			for _, it := range adv {
				if it.k < 0 || !it.required {
					continue
				}
				f := tc.feats[it.k]
				if !f.negotiable {
					continue
				}
				contradicted := false
				for _, it2 := range adv {
					if it2.k == it.k && !it2.required {
						contradicted = true
					}
				}
				if contradicted {
					continue
				}
				ran := false
				for _, e := range r.trace {
					if e.k == it.k && e.epoch == r.headers {
						ran = true
					}
				}
				listState := stateAtList(tc, r, r.lists, len(r.trace))
				if !ran && eligibleMasks(f, final&^xmpp.Ready) && eligibleMasks(f, listState) {
					return fmt.Sprintf("establishment reported although the eligible mandatory f%d of the last advertisement was not negotiated", it.k)
				}
			}
		}
	}
	if tc.recv {
		if msg := checkReceiver(tc, o); msg != "" {
			return msg
		}
	}
	return ""
}

// stateAtList is the session state when features list number `list` was read:
// the state at entry of the first trace entry belonging to that list, or the
// state after the last entry before it.
func stateAtList(tc *tcase, r *run, list int, upto int) xmpp.SessionState {
	st := tc.initial
	if tc.s2s {
		st |= xmpp.S2S
	}
	for i := 0; i < upto && i < len(r.trace); i++ {
		e := r.trace[i]
		if e.list >= list {
			return e.state
		}
		st = e.state | tc.feats[e.k].adds
	}
	return st
}

func checkReceiver(tc *tcase, o outcome) string {
	r := o.run
	// R1: every advertisement equals the configured features whose masks hold.
	// The state at advertisement time is reconstructed from the trace.
	st := tc.initial | xmpp.Received
	if tc.s2s {
		st |= xmpp.S2S
	}
	ti := 0
	for li, adv := range r.advSeen {
		// advance the state over the trace entries that ran before this list
		for ti < len(r.trace) && r.trace[ti].list <= li {
			st |= tc.feats[r.trace[ti].k].adds
			if tc.feats[r.trace[ti].k].ready {
				st |= xmpp.Ready
			}
			ti++
		}
		want := map[string]bool{}
		for _, f := range tc.feats {
			if eligibleMasks(f, st) {
				want[f.space] = f.mandatory
			}
		}
		got := map[string]bool{}
		for _, c := range adv.Children {
			if c.IsText() {
				continue
			}
			if _, dup := got[c.Name.Space]; dup {
				return fmt.Sprintf("advertisement %d lists %s twice", li, c.Name.Space)
			}
			got[c.Name.Space] = c.Find("required") != nil
		}
		for sp, req := range want {
			g, ok := got[sp]
			if !ok {
				return fmt.Sprintf("advertisement %d (state %v) omits %s although its prerequisites hold", li, st, sp)
			}
			if g != req {
				return fmt.Sprintf("advertisement %d lists %s with required=%v, configured %v", li, sp, g, req)
			}
		}
		for sp := range got {
			if _, ok := want[sp]; !ok {
				return fmt.Sprintf("advertisement %d (state %v) lists %s although its prerequisites do not hold", li, st, sp)
			}
		}
	}
	// R2: replay the selections against a reference model to find the first one
	// that must be refused; the double of that selection must not be in the trace
	// and the outcome must be an error.
	st = tc.initial | xmpp.Received
	if tc.s2s {
		st |= xmpp.S2S
	}
	negotiated := map[int]bool{}
	advertised := func() map[int]bool {
		m := map[int]bool{}
		for _, f := range tc.feats {
			if eligibleMasks(f, st) {
				m[f.k] = true
			}
		}
		return m
	}
	cur := advertised()
	expected := 0 // number of Negotiate executions expected before the first refusal / end
	for _, s := range tc.selects {
		if st&xmpp.Ready != 0 {
			break
		}
		f := tc.feats[s.k]
		refuse := s.kind == "unknown" || s.kind == "namesake" || !cur[s.k] || negotiated[s.k] || !f.negotiable
		if refuse {
			if len(r.trace) > expected {
				e := r.trace[expected]
				return fmt.Sprintf("selection %s:f%d had to be refused (advertised=%v already-negotiated=%v negotiable=%v) but f%d ran afterwards", s.kind, s.k, cur[s.k], negotiated[s.k], f.negotiable, e.k)
			}
			if o.err == nil {
				return fmt.Sprintf("selection %s:f%d had to be refused but establishment was reported", s.kind, s.k)
			}
			return ""
		}
		if expected >= len(r.trace) {
			// the library stopped earlier (error): nothing more to compare
			return ""
		}
		if r.trace[expected].k != s.k {
			return fmt.Sprintf("selection %d asked for f%d but f%d ran", expected, s.k, r.trace[expected].k)
		}
		expected++
		st |= f.adds
		if f.ready {
			st |= xmpp.Ready
		}
		negotiated[s.k] = true
		switch {
		case f.restart:
			negotiated = map[int]bool{}
			cur = advertised()
		case f.mandatory:
			// an updated list is sent after a mandatory feature
			cur = advertised()
		}
	}
	if len(r.trace) > expected {
		return fmt.Sprintf("%d features ran but only %d selections were valid", len(r.trace), expected)
	}
	return ""
}

// ---------------------------------------------------------------- property

func check(t interface {
	Helper()
	Fatalf(string, ...any)
}, tc tcase, runs int) {
	t.Helper()
	for i := 0; i < runs; i++ {
		o := execute(&tc)
		if msg := checkOutcome(&tc, o); msg != "" {
			var tr strings.Builder
			for j, e := range o.run.trace {
				fmt.Fprintf(&tr, "\n    [%d] f%d state=%v stream=%d list=%d restart=%v", j, e.k, e.state, e.epoch, e.list, e.restart)
			}
			ev.Failf(t, "%s\nexecution %d of %d: %s\nresult: err=%v state=%v headers-sent=%d lists=%d\nwire events: %v\ntrace:%s\nlibrary output: %q",
				tc.String(), i+1, runs, msg, o.err, o.state, o.run.headers, o.run.lists, o.run.events, tr.String(), o.out)
		}
		record(&tc, o)
	}
}

func record(tc *tcase, o outcome) {
	if len(o.run.trace) >= 2 {
		ev.Class("executed>=2-features")
	}
	for _, e := range o.run.trace {
		if e.restart {
			ev.Class("executed-restart")
			break
		}
	}
	if o.err == nil {
		ev.Class("established")
	} else {
		ev.Class("failed")
	}
}

func classify(tc tcase) (bool, []string) {
	var classes []string
	if tc.recv {
		classes = append(classes, "role-receiver")
	} else {
		classes = append(classes, "role-initiator")
	}
	if tc.ws {
		classes = append(classes, "framing-websocket")
	}
	if tc.s2s {
		classes = append(classes, "s2s")
	}
	mixed := false
	for _, a := range tc.adverts {
		req, vol := false, false
		for _, it := range a {
			if it.required {
				req = true
			} else {
				vol = true
			}
		}
		if req && vol {
			mixed = true
		}
	}
	if mixed {
		classes = append(classes, "mixed-mandatory-voluntary-advertisement")
	}
	for _, a := range tc.adverts {
		for _, it := range a {
			if it.k < 0 && it.alias >= 0 {
				classes = append(classes, "advertisement-has-foreign-element-in-a-feature-namespace")
			}
		}
	}
	restarts := false
	for _, f := range tc.feats {
		if f.restart && f.negotiable {
			restarts = true
		}
	}
	return len(tc.feats) >= 2 || restarts || mixed || len(tc.selects) >= 2, classes
}

const knownReadyPreempts = "c01-ready-setting-feature-preempts-mandatory"

// TestC01Known_ReadyPreempts replays the witness of the listed finding: the
// advertisement [f1 (mandatory), f0 (mandatory, sets Ready itself)]; whenever
// the map order selects f0 first the session is reported established with the
// eligible mandatory f1 never negotiated.
func TestC01Known_ReadyPreempts(t *testing.T) {
	ev.Begin(t)
	tc := tcase{initial: xmpp.Authn, feats: []feat{
		{k: 0, space: "urn:verif:f0", local: "f0", prohibited: xmpp.Ready, mandatory: true, negotiable: true, ready: true},
		{k: 1, space: "urn:verif:f1", local: "f1", necessary: xmpp.Authn, mandatory: true, negotiable: true},
	}, adverts: [][]advItem{{{k: 1, required: true}, {k: 0, required: true}}, {}}}
	still, detail := false, ""
	for i := 0; i < 64 && !still; i++ {
		o := execute(&tc)
		if msg := checkOutcome(&tc, o); msg != "" {
			still, detail = true, msg
		}
	}
	ev.Witness(knownReadyPreempts, still, detail)
	if still && !ev.IsKnown(knownReadyPreempts) {
		ev.Failf(t, "%s\n%s", tc.String(), detail)
	}
}

func TestC01Negotiation(t *testing.T) {
	runs := ev.N(6, 12)
	ev.Check(t, 12000, 40000, func(rt *rapid.T) {
		tc := genCase(rt)
		nt, classes := classify(tc)
		ev.Case(nt, tc.String(), classes...)
		check(rt, tc, runs)
	})
}
