package c20

// One info value, several goroutines: a server keeps the disco#info of its
// own identity in one value and computes the verification string for every
// connection that asks.  The callers only read the value; each brings its own
// hash.Hash.  Every result equals the XEP-0115 5.1 construction (and the
// results of hashing the same value again, afterwards, still do).

import (
	"fmt"
	"sync"
	"testing"

	"pgregory.net/rapid"

	"mellium.im/xmpp/verifharness/internal/ev"
)

func TestC20SharedValue(t *testing.T) {
	hs := linked()
	if len(hs) == 0 {
		t.Fatal("no hash function linked")
	}
	ev.Check(t, 1500, 20000, func(rt *rapid.T) {
		base := genWellFormed(rt)
		if !apiSafe(base) || level(base) < lvlWellFormed {
			ev.Class("shared-value-skipped-not-reference-level")
			return
		}
		m := permute(rt, base)
		hf := rapid.SampledFrom(hs).Draw(rt, "hash")
		n := rapid.IntRange(2, 6).Draw(rt, "goroutines")
		rounds := rapid.IntRange(1, 3).Draw(rt, "rounds")
		want := refVer(refString(base), hf.New())
		ev.Case(dims(base) >= 2, fmt.Sprintf("shared|%s|%s|%d|%d", m.String(), hf, n, rounds), "one-value-hashed-by-several-goroutines")
		in := buildAPI(m)
		type res struct {
			out   string
			panic string
		}
		results := make([][]res, n)
		var wg sync.WaitGroup
		start := make(chan struct{})
		for g := 0; g < n; g++ {
			wg.Add(1)
			go func(g int) {
				defer wg.Done()
				<-start
				for r := 0; r < rounds; r++ {
					var x res
					h := hf.New()
					x.panic = ev.Guard(func() {
						if (g+r)%2 == 0 {
							x.out = in.Hash(h)
						} else {
							x.out = string(in.AppendHash(nil, h))
						}
					})
					results[g] = append(results[g], x)
				}
			}(g)
		}
		close(start)
		wg.Wait()
		for g, rs := range results {
			for r, x := range rs {
				if x.panic != "" {
					ev.Failf(rt, "model: %s\n%d goroutines hash one value (%s) at the same time; goroutine %d call %d panicked: %s", m, n, hf, g, r, trimPanic(x.panic))
				}
				if x.out != want {
					ev.Failf(rt, "model: %s\n%d goroutines hash one value (%s) at the same time; goroutine %d call %d got %q, the XEP-0115 5.1 construction gives %q\nS = %q", m, n, hf, g, r, x.out, want, refString(base))
				}
			}
		}
		if again := in.Hash(hf.New()); again != want {
			ev.Failf(rt, "model: %s\nhashing the same value once more afterwards gives %q, the XEP-0115 5.1 construction gives %q", m, again, want)
		}
	})
}
