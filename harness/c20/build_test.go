package c20

// Two independent ways of turning a model into a disco.Info value: the public
// constructors of the form package, and decoding of generated peer XML.

import (
	"encoding/xml"
	"strings"

	"mellium.im/xmpp/disco"
	"mellium.im/xmpp/disco/info"
	"mellium.im/xmpp/form"
)

// ------------------------------------------------------------------ API path

func apiField(fd fieldM) form.Field {
	var o []form.Option
	for _, v := range fd.Vals {
		o = append(o, form.Value(v))
	}
	if fd.Label != "" {
		o = append(o, form.Label(fd.Label))
	}
	if fd.Desc != "" {
		o = append(o, form.Desc(fd.Desc))
	}
	if fd.Required {
		o = append(o, form.Required)
	}
	for _, op := range fd.Opts {
		o = append(o, form.ListItem(op, op))
	}
	switch fd.Typ {
	case "hidden":
		return form.Hidden(fd.Var, o...)
	case "boolean":
		return form.Boolean(fd.Var, o...)
	case "jid-single":
		return form.JID(fd.Var, o...)
	case "jid-multi":
		return form.JIDMulti(fd.Var, o...)
	case "list-single":
		return form.List(fd.Var, o...)
	case "list-multi":
		return form.ListMulti(fd.Var, o...)
	case "text-multi":
		return form.TextMulti(fd.Var, o...)
	case "text-private":
		return form.TextPrivate(fd.Var, o...)
	case "fixed":
		if fd.Var == "" {
			return form.Fixed(o...)
		}
	}
	return form.Text(fd.Var, o...)
}

func apiForm(f formM) form.Data {
	if len(f.Fields) == 0 {
		switch f.Kind {
		case 1:
			return form.Data{}
		case 2:
			return *form.Cancel(f.Title, f.Instr)
		}
	}
	var o []form.Field
	if f.Title != "" {
		o = append(o, form.Title(f.Title))
	}
	if f.Instr != "" {
		o = append(o, form.Instructions(f.Instr))
	}
	if f.Result {
		o = append(o, form.Result)
	}
	for _, fd := range f.Fields {
		o = append(o, apiField(fd))
	}
	return *form.New(o...)
}

// buildAPI constructs the value the way a local caller would.
func buildAPI(m infoM) disco.Info {
	out := disco.Info{InfoQuery: disco.InfoQuery{Node: m.Node}}
	for _, id := range m.Idents {
		out.Identity = append(out.Identity, info.Identity{Category: id.Cat, Type: id.Type, Lang: id.Lang, Name: id.Name})
	}
	for _, f := range m.Feats {
		out.Features = append(out.Features, info.Feature{Var: f})
	}
	for _, f := range m.Forms {
		out.Form = append(out.Form, apiForm(f))
	}
	return out
}

// apiSafe reports whether the API path represents the model faithfully.
func apiSafe(m infoM) bool {
	for _, f := range m.Forms {
		for _, fd := range f.Fields {
			if fd.Loose || fd.Typ == "" {
				return false
			}
			if fd.Typ == "fixed" && fd.Var != "" {
				return false
			}
		}
	}
	return true
}

// --------------------------------------------------------------- Submit path

// submitSafe reports whether every form of the model can be produced as a
// submission: form.New declares the fields without values, Set enters them,
// Submit renders the form, and the rendering is decoded into a form.Data.
// Submit leaves out unset and fixed fields, renders one value for the
// single-valued types and normalises booleans and JIDs, so: every field has a
// var and at least one non-empty value, exactly one for single-valued types;
// no boolean/JID/fixed fields; no text-multi (C19: Submit panics on some
// text-multi values and splits at line ends).
func submitSafe(m infoM) bool {
	if !apiSafe(m) {
		return false
	}
	for _, f := range m.Forms {
		if len(f.Fields) == 0 {
			return false
		}
		vars := map[string]bool{}
		for _, fd := range f.Fields {
			if fd.Var == "" || len(fd.Vals) == 0 || vars[fd.Var] {
				return false // Set addresses fields by var
			}
			vars[fd.Var] = true
			for _, v := range fd.Vals {
				if v == "" {
					return false
				}
			}
			switch fd.Typ {
			case "hidden", "text-single", "text-private", "list-single":
				if len(fd.Vals) != 1 {
					return false
				}
			case "list-multi":
			default:
				return false
			}
		}
	}
	return true
}

func submitForm(f formM) (form.Data, error) {
	var o []form.Field
	for _, fd := range f.Fields {
		bare := fd
		bare.Vals = nil
		o = append(o, apiField(bare))
	}
	d := form.New(o...)
	for _, fd := range f.Fields {
		var err error
		if fd.Typ == "list-multi" {
			_, err = d.Set(fd.Var, append([]string(nil), fd.Vals...))
		} else {
			_, err = d.Set(fd.Var, fd.Vals[0])
		}
		if err != nil {
			return form.Data{}, err
		}
	}
	sub, _ := d.Submit()
	var out form.Data
	err := xml.NewTokenDecoder(sub).Decode(&out)
	return out, err
}

// buildSubmit is buildAPI with every form produced by Set + Submit.
func buildSubmit(m infoM) (disco.Info, error) {
	bare := m
	bare.Forms = nil
	out := buildAPI(bare)
	for _, f := range m.Forms {
		d, err := submitForm(f)
		if err != nil {
			return out, err
		}
		out.Form = append(out.Form, d)
	}
	return out, nil
}

// ------------------------------------------------------------------ XML path

// esc writes s as XML text that is safe both in character data and in an
// attribute value delimited by either quote; white space other than the
// ordinary blank is written as a character reference so that no attribute or
// line-end normalisation can apply.
func esc(b *strings.Builder, s string) {
	for _, r := range s {
		switch r {
		case '&':
			b.WriteString("&amp;")
		case '<':
			b.WriteString("&lt;")
		case '>':
			b.WriteString("&gt;")
		case '"':
			b.WriteString("&quot;")
		case '\'':
			b.WriteString("&apos;")
		case '\n':
			b.WriteString("&#xA;")
		case '\t':
			b.WriteString("&#x9;")
		case '\r':
			b.WriteString("&#xD;")
		default:
			b.WriteRune(r)
		}
	}
}

// xmlStyle holds the generated spelling choices of the peer.
type xmlStyle struct {
	Quote      byte // ' or "
	Pretty     bool // white space between elements
	Interleave bool // identities, features and forms mixed (round robin)
	SelfClose  bool // <feature .../> rather than <feature ...></feature>
	ValueFirst bool // <value/> children before <desc/>, <required/>, <option/>
}

func attr(b *strings.Builder, st xmlStyle, name, val string) {
	b.WriteByte(' ')
	b.WriteString(name)
	b.WriteByte('=')
	b.WriteByte(st.Quote)
	esc(b, val)
	b.WriteByte(st.Quote)
}

func xmlForm(f formM, st xmlStyle) string {
	var b strings.Builder
	nl := func() {
		if st.Pretty {
			b.WriteString("\n    ")
		}
	}
	typ := "form"
	if f.Result {
		typ = "result"
	}
	b.WriteString("<x xmlns=")
	b.WriteByte(st.Quote)
	b.WriteString("jabber:x:data")
	b.WriteByte(st.Quote)
	attr(&b, st, "type", typ)
	if len(f.Fields) == 0 && f.Kind == 1 {
		b.WriteString("/>")
		return b.String()
	}
	b.WriteString(">")
	if f.Title != "" {
		nl()
		b.WriteString("<title>")
		esc(&b, f.Title)
		b.WriteString("</title>")
	}
	if f.Instr != "" {
		nl()
		b.WriteString("<instructions>")
		esc(&b, f.Instr)
		b.WriteString("</instructions>")
	}
	for _, fd := range f.Fields {
		nl()
		b.WriteString("<field")
		if fd.Typ != "" {
			attr(&b, st, "type", fd.Typ)
		}
		if fd.Var != "" {
			attr(&b, st, "var", fd.Var)
		}
		if fd.Label != "" {
			attr(&b, st, "label", fd.Label)
		}
		vals := func() {
			for _, v := range fd.Vals {
				if v == "" && st.SelfClose {
					b.WriteString("<value/>")
					continue
				}
				b.WriteString("<value>")
				esc(&b, v)
				b.WriteString("</value>")
			}
		}
		rest := func() {
			if fd.Desc != "" {
				b.WriteString("<desc>")
				esc(&b, fd.Desc)
				b.WriteString("</desc>")
			}
			if fd.Required {
				b.WriteString("<required/>")
			}
			for _, o := range fd.Opts {
				b.WriteString("<option")
				attr(&b, st, "label", o)
				b.WriteString("><value>")
				esc(&b, o)
				b.WriteString("</value></option>")
			}
		}
		if len(fd.Vals) == 0 && fd.Desc == "" && !fd.Required && len(fd.Opts) == 0 && st.SelfClose {
			b.WriteString("/>")
			continue
		}
		b.WriteString(">")
		if st.ValueFirst {
			vals()
			rest()
		} else {
			rest()
			vals()
		}
		b.WriteString("</field>")
	}
	if st.Pretty {
		b.WriteString("\n  ")
	}
	b.WriteString("</x>")
	return b.String()
}

// writeXML renders the model as the <query/> payload of a disco#info reply.
func writeXML(m infoM, st xmlStyle) string {
	var ids, feats, forms []string
	for _, id := range m.Idents {
		var b strings.Builder
		b.WriteString("<identity")
		attr(&b, st, "category", id.Cat)
		attr(&b, st, "type", id.Type)
		if id.Name != "" {
			attr(&b, st, "name", id.Name)
		}
		if id.Lang != "" {
			attr(&b, st, "xml:lang", id.Lang)
		}
		if st.SelfClose {
			b.WriteString("/>")
		} else {
			b.WriteString("></identity>")
		}
		ids = append(ids, b.String())
	}
	for _, f := range m.Feats {
		var b strings.Builder
		b.WriteString("<feature")
		attr(&b, st, "var", f)
		if st.SelfClose {
			b.WriteString("/>")
		} else {
			b.WriteString("></feature>")
		}
		feats = append(feats, b.String())
	}
	for _, f := range m.Forms {
		forms = append(forms, xmlForm(f, st))
	}
	var children []string
	if st.Interleave {
		for len(ids)+len(feats)+len(forms) > 0 {
			if len(forms) > 0 {
				children, forms = append(children, forms[0]), forms[1:]
			}
			if len(feats) > 0 {
				children, feats = append(children, feats[0]), feats[1:]
			}
			if len(ids) > 0 {
				children, ids = append(children, ids[0]), ids[1:]
			}
		}
	} else {
		children = append(append(append(children, ids...), feats...), forms...)
	}
	var b strings.Builder
	b.WriteString("<query xmlns=")
	b.WriteByte(st.Quote)
	b.WriteString("http://jabber.org/protocol/disco#info")
	b.WriteByte(st.Quote)
	if m.Node != "" {
		attr(&b, st, "node", m.Node)
	}
	b.WriteString(">")
	for _, c := range children {
		if st.Pretty {
			b.WriteString("\n  ")
		}
		b.WriteString(c)
	}
	if st.Pretty {
		b.WriteString("\n")
	}
	b.WriteString("</query>")
	return b.String()
}

// decodeXML is what a client does with the payload of a peer's reply.
func decodeXML(doc string) (disco.Info, error) {
	var out disco.Info
	err := xml.Unmarshal([]byte(doc), &out)
	return out, err
}

// modelOf reads a decoded value back through the public accessors only (used
// to cross-check the XML writer and by the fuzz target).
func modelOf(in disco.Info) infoM {
	m := infoM{Node: in.Node}
	for _, id := range in.Identity {
		m.Idents = append(m.Idents, identM{Cat: id.Category, Type: id.Type, Lang: id.Lang, Name: id.Name})
	}
	for _, f := range in.Features {
		m.Feats = append(m.Feats, f.Var)
	}
	for i := range in.Form {
		fm := formM{Title: in.Form[i].Title(), Instr: in.Form[i].Instructions(), Result: true}
		in.Form[i].ForFields(func(fd form.FieldData) {
			fm.Fields = append(fm.Fields, fieldM{
				Var: fd.Var, Typ: string(fd.Type), Vals: append([]string(nil), fd.Raw...),
				Label: fd.Label, Desc: fd.Desc, Required: fd.Required, Loose: true,
			})
		})
		m.Forms = append(m.Forms, fm)
	}
	return m
}
