// C20 — the entity-capabilities hash is canonical.
//
// disco.Info.Hash / AppendHash are compared with an independent implementation
// of XEP-0115 §5.1 (ref_test.go) on generated info values, under generated
// permutations of identities, features, forms, fields and values, for every
// hash function of the crypto package that is linked, on values built through
// the public form constructors and on values decoded from generated peer XML
// (build_test.go), including empty and malformed forms (no-panic clause).
package c20

import (
	_ "crypto/sha1"
	_ "crypto/sha256"
	_ "crypto/sha512"
	"fmt"
	"reflect"
	"runtime/debug"
	"strings"
	"sync"
	"testing"

	_ "golang.org/x/crypto/blake2b"
	_ "golang.org/x/crypto/sha3"
	"pgregory.net/rapid"

	"mellium.im/xmpp/crypto"
	"mellium.im/xmpp/disco"
	"mellium.im/xmpp/verifharness/internal/ev"
)

func TestMain(m *testing.M) {
	// every case allocates a few short-lived values (fresh forms, decoders,
	// hash states); the live heap is tiny, so collect less often
	debug.SetGCPercent(800)
	ev.Main(m, "C20")
}

// every hash the crypto package lists
var listed = []crypto.Hash{
	crypto.SHA1, crypto.SHA224, crypto.SHA256, crypto.SHA384, crypto.SHA512,
	crypto.SHA3_256, crypto.SHA3_512, crypto.BLAKE2b_256, crypto.BLAKE2b_512,
}

func linked() []crypto.Hash {
	var out []crypto.Hash
	for _, h := range listed {
		if h.Available() {
			out = append(out, h)
		}
	}
	return out
}

type fataler interface {
	Helper()
	Fatalf(string, ...any)
}

// variant is one spelling of the same info value.
type variant struct {
	m         infoM
	viaXML    bool // peer XML decoded into disco.Info
	viaSubmit bool // forms: form.New without values, Set, Submit, decode the submission
	st        xmlStyle
	doc       string
}

func (v variant) String() string {
	switch {
	case v.viaXML:
		return "decoded from XML: " + v.doc
	case v.viaSubmit:
		return "forms built with form.New + Set + Submit, submission decoded: " + v.m.String()
	}
	return "built with form.New + form.Value: " + v.m.String()
}

// build makes a fresh value: Hash sorts the caller's slices in place, so a
// value is never hashed twice.
func (v variant) build() (disco.Info, error) {
	switch {
	case v.viaXML:
		return decodeXML(v.doc)
	case v.viaSubmit:
		return buildSubmit(v.m)
	}
	return buildAPI(v.m), nil
}

// sameContent compares what the hash depends on (self check of the XML
// writer against the decoder, read back through public accessors).
func sameContent(a, b infoM) bool {
	if len(a.Idents) != len(b.Idents) || len(a.Feats) != len(b.Feats) || len(a.Forms) != len(b.Forms) {
		return false
	}
	for i := range a.Idents {
		if a.Idents[i] != b.Idents[i] {
			return false
		}
	}
	for i := range a.Feats {
		if a.Feats[i] != b.Feats[i] {
			return false
		}
	}
	for i := range a.Forms {
		fa, fb := a.Forms[i].Fields, b.Forms[i].Fields
		if len(fa) != len(fb) {
			return false
		}
		for j := range fa {
			if fa[j].Var != fb[j].Var || len(fa[j].Vals) != len(fb[j].Vals) {
				return false
			}
			for k := range fa[j].Vals {
				if fa[j].Vals[k] != fb[j].Vals[k] {
					return false
				}
			}
		}
	}
	return true
}

// trimPanic keeps the panic value and the source positions of the library
// frames.  The raw stack contains goroutine numbers and argument addresses,
// which differ from run to run; rapid only shrinks failures whose message is
// reproducible.
func trimPanic(p string) string {
	lines := strings.Split(p, "\n")
	out := lines[0]
	for _, l := range lines[1:] {
		l = strings.TrimSpace(l)
		if !strings.Contains(l, ".go:") || strings.Contains(l, "/harness/") ||
			strings.Contains(l, "/src/runtime/") || strings.Contains(l, "/src/testing/") || strings.Contains(l, "rapid@") {
			continue
		}
		if i := strings.Index(l, " +0x"); i >= 0 {
			l = l[:i]
		}
		out += "\n\tat " + l
	}
	return out
}

// three runs the entry points the statement names, each on a fresh value:
// Hash, AppendHash with a nil destination, AppendHash with an empty destination
// that has capacity.  pre, if non-nil, is a value nobody has hashed yet (saves
// one decode); skip, if 1 or 2, leaves that AppendHash form out, 3 both (decoding is
// the expensive part of the XML path, the two forms alternate there).
func three(v variant, hf crypto.Hash, pre *disco.Info, skip int) (res [3]string, problem string) {
	names := [3]string{"Hash(h)", "AppendHash(nil, h)", "AppendHash(make([]byte, 0, 80), h)"}
	for k := 0; k < 3; k++ {
		if k != 0 && (k == skip || skip == 3) {
			continue
		}
		var in disco.Info
		if pre != nil {
			in, pre = *pre, nil
		} else {
			var err error
			if in, err = v.build(); err != nil {
				return res, "" // undecodable peer XML: nothing to hash (counted by the caller)
			}
		}
		h := hf.New()
		var out string
		p := ev.Guard(func() {
			switch k {
			case 0:
				out = in.Hash(h)
			case 1:
				out = string(in.AppendHash(nil, h))
			case 2:
				out = string(in.AppendHash(make([]byte, 0, 80), h))
			}
		})
		if p != "" {
			return res, fmt.Sprintf("%s with %s panicked: %s", names[k], hf, trimPanic(p))
		}
		res[k] = out
	}
	for k := 1; k < 3; k++ {
		if k != skip && skip != 3 && res[k] != res[0] {
			return res, fmt.Sprintf("with %s: Hash(h) = %q but %s = %q", hf, res[0], names[k], res[k])
		}
	}
	return res, ""
}

// checkCase is the property.  primary is used for every variant; variants
// built through the API are additionally hashed with every linked function.
func checkCase(t fataler, base infoM, vs []variant, primary crypto.Hash) {
	t.Helper()
	lvl := level(base)
	fail := func(v variant, format string, args ...any) {
		t.Helper()
		var b strings.Builder
		fmt.Fprintf(&b, "model: %s\nlevel: %d (0 no-panic only, 1 permutation invariance, 2 XEP-0115 reference)\n", base, lvl)
		for i, w := range vs {
			fmt.Fprintf(&b, "variant %d: %s\n", i, w)
		}
		fmt.Fprintf(&b, "failing variant: %s\n", v)
		ev.Failf(t, "%s%s", b.String(), fmt.Sprintf(format, args...))
	}
	// (at the invariance level the literal construction is still unambiguous:
	// all sort keys are distinct; a form without FORM_TYPE has the key and
	// FORM_TYPE value "", a field without var the name "")
	want := ""
	if lvl >= lvlInvariant {
		want = refString(base)
	}
	first := map[crypto.Hash]string{}
	apiLeft := 0
	for _, v := range vs {
		if !v.viaXML && !v.viaSubmit {
			apiLeft++
		}
	}
	firstBy := map[crypto.Hash]int{}
	for i, v := range vs {
		var pre *disco.Info
		skip := 0
		if v.viaXML || v.viaSubmit {
			skip = 1 + i%2
			in, err := v.build()
			if err != nil {
				ev.Class("xml-decode-error")
				ev.Note("generated XML did not decode (%v): %s", err, v)
			} else if got := modelOf(in); !sameContent(got, v.m) {
				// the value the library hashes is not what the peer sent (or what was
				// submitted): the verification string of a peer's reply is the
				// construction over the reply, so this is reported with the hash it
				// leads to (never seen on the unchanged tree in 10^8 cases)
				ev.Class("xml-decoded-differs-from-model")
				if _, p := three(v, primary, nil, 0); p != "" && strings.Contains(p, "panicked") {
					fail(v, "%s", p)
				}
				if lvl >= lvlInvariant {
					got3, _ := three(v, primary, &in, 3)
					if exp := refVer(want, primary.New()); got3[0] != exp {
						fail(v, "the value decoded from the reply differs from the reply in what is hashed (decoded as %s): %s: Hash = %q, XEP-0115 §5.1 gives %q for S = %q", got, primary, got3[0], exp, want)
					}
				}
				continue
			}
			pre = &in
		}
		// every variant: the primary function through all entry points; the
		// last variant built with the form API: every other linked
		// function through Hash (the hash function is opaque to the library,
		// AppendHash is what Hash calls).
		hs := []crypto.Hash{primary}
		isAPI := !v.viaXML && !v.viaSubmit
		if isAPI && apiLeft <= 1 {
			for _, hf := range linked() {
				if hf != primary {
					hs = append(hs, hf)
				}
			}
		}
		if isAPI {
			apiLeft--
		}
		for _, hf := range hs {
			if hf != primary {
				skip = 3
			}
			res, problem := three(v, hf, pre, skip)
			pre = nil
			if problem != "" {
				fail(v, "%s", problem)
			}
			if res[0] == "" {
				continue
			}
			if lvl >= lvlInvariant {
				if prev, ok := first[hf]; !ok {
					first[hf], firstBy[hf] = res[0], i
				} else if prev != res[0] {
					fail(v, "%s: variant %d gives %q, variant %d (same sets, other order) gives %q", hf, firstBy[hf], prev, i, res[0])
				}
			}
			if lvl >= lvlInvariant {
				if exp := refVer(want, hf.New()); res[0] != exp {
					fail(v, "%s: Hash = %q, XEP-0115 §5.1 gives %q for S = %q", hf, res[0], exp, want)
				}
			}
		}
	}
}

func classesOf(m infoM, lvl int) []string {
	cl := []string{[]string{"level0-nopanic-only", "level1-invariance", "level2-reference"}[lvl]}
	if len(m.Idents) >= 2 {
		cl = append(cl, "identities>=2")
	}
	if len(m.Feats) >= 2 {
		cl = append(cl, "features>=2")
	}
	if len(m.Forms) >= 2 {
		cl = append(cl, "forms>=2")
	}
	if len(m.Forms) >= 1 {
		cl = append(cl, "forms>=1")
	}
	lt, nonASCII, multi, emptyVal, emptyForm, noFT := false, false, false, false, false, false
	scan := func(s string) {
		if strings.Contains(s, "<") {
			lt = true
		}
		for i := 0; i < len(s); i++ {
			if s[i] >= 0x80 {
				nonASCII = true
				break
			}
		}
	}
	for _, id := range m.Idents {
		scan(id.Cat + id.Type + id.Lang + id.Name)
	}
	for _, f := range m.Feats {
		scan(f)
	}
	for _, f := range m.Forms {
		if len(f.Fields) == 0 {
			emptyForm = true
		}
		if _, ok := f.formType(); !ok {
			noFT = true
		}
		for _, fd := range f.Fields {
			scan(fd.Var)
			if len(fd.Vals) >= 2 {
				multi = true
			}
			for _, v := range fd.Vals {
				scan(v)
				if v == "" {
					emptyVal = true
				}
			}
		}
	}
	for name, on := range map[string]bool{
		"text-with-<": lt, "non-ASCII": nonASCII, "field-with->=2-values": multi, "empty-<value/>": emptyVal,
		"has-empty-form": emptyForm, "has-form-without-FORM_TYPE": noFT,
		"identity-order-differs-from-concatenated-order": lvl == lvlWellFormed && concatOrderDiffers(m),
	} {
		if on {
			cl = append(cl, name)
		}
	}
	return cl
}

// TestC20Canonical: generated info values × generated permutations × both
// construction paths × every linked hash function.
func TestC20Canonical(t *testing.T) {
	hs := linked()
	if len(hs) == 0 {
		t.Fatal("no hash function linked")
	}
	ev.Note("linked hash functions: %v of listed %v", hs, listed)
	ev.Check(t, 50000, 500000, func(rt *rapid.T) {
		base := genWellFormed(rt)
		var classes []string
		if rapid.IntRange(0, 9).Draw(rt, "malformed?") < 3 {
			n := rapid.IntRange(1, 2).Draw(rt, "nmut")
			for i := 0; i < n; i++ {
				classes = append(classes, "mutation:"+mutate(rt, &base))
			}
		}
		lvl := level(base)
		safe := apiSafe(base)
		primary := rapid.SampledFrom(hs).Draw(rt, "hash")
		vs := make([]variant, 0, 3)
		canon := base.String() + "|" + primary.String()
		nvar := 3
		if !safe {
			nvar = 2 // decoding is the expensive part
		}
		for i := 0; i < nvar; i++ {
			v := variant{m: base}
			if i > 0 {
				v.m = permute(rt, base)
			}
			path := 0
			if safe {
				path = rapid.IntRange(0, 7).Draw(rt, "path")
			}
			v.viaXML = path <= 1
			v.viaSubmit = (path == 2 || path == 3) && len(base.Forms) > 0 && submitSafe(base)
			if v.viaXML {
				v.st = genStyle(rt)
				v.doc = writeXML(v.m, v.st)
				classes = append(classes, "variant-decoded-from-XML")
				canon += "|xml:" + v.doc
			} else if v.viaSubmit {
				classes = append(classes, "variant-forms-via-Set+Submit")
				canon += "|submit:" + v.m.String()
			} else {
				classes = append(classes, "variant-built-with-form-API")
				canon += "|api:" + v.m.String()
			}
			vs = append(vs, v)
		}
		classes = append(classes, classesOf(base, lvl)...)
		classes = append(classes, "hash:"+primary.String())
		ev.Case(dims(base) >= 2 || len(base.Forms) >= 1, canon, classes...)
		checkCase(rt, base, vs, primary)
	})
}

// plainVariants: the model as given and completely reversed, each through
// both paths (where the API can express it).
func plainVariants(m infoM) []variant {
	var vs []variant
	for i, mm := range []infoM{m, reversed(m)} {
		if apiSafe(mm) {
			vs = append(vs, variant{m: mm})
		}
		if len(mm.Forms) > 0 && submitSafe(mm) {
			vs = append(vs, variant{m: mm, viaSubmit: true})
		}
		st := xmlStyle{Quote: '\'', SelfClose: i == 0, Pretty: i == 1, ValueFirst: true}
		vs = append(vs, variant{m: mm, viaXML: true, st: st, doc: writeXML(mm, st)})
	}
	return vs
}

func hidden(v string) fieldM { return fieldM{Var: formTypeVar, Typ: "hidden", Vals: []string{v}} }

// the two worked examples of XEP-0115 (§5.2, §5.3) with S and the result as
// printed in the XEP: they validate the reference before it judges the library.
var xepSimple = infoM{
	Idents: []identM{{Cat: "client", Type: "pc", Name: "Exodus 0.9.1"}},
	Feats: []string{"http://jabber.org/protocol/disco#info", "http://jabber.org/protocol/disco#items",
		"http://jabber.org/protocol/muc", "http://jabber.org/protocol/caps"},
}

var xepComplex = infoM{
	Idents: []identM{{Cat: "client", Type: "pc", Lang: "en", Name: "Psi 0.11"}, {Cat: "client", Type: "pc", Lang: "el", Name: "Ψ 0.11"}},
	Feats: []string{"http://jabber.org/protocol/caps", "http://jabber.org/protocol/disco#info",
		"http://jabber.org/protocol/disco#items", "http://jabber.org/protocol/muc"},
	Forms: []formM{{Result: true, Fields: []fieldM{
		hidden("urn:xmpp:dataforms:softwareinfo"),
		{Var: "ip_version", Typ: "text-multi", Vals: []string{"ipv4", "ipv6"}},
		{Var: "os", Typ: "text-single", Vals: []string{"Mac"}},
		{Var: "os_version", Typ: "text-single", Vals: []string{"10.5.1"}},
		{Var: "software", Typ: "text-single", Vals: []string{"Psi"}},
		{Var: "software_version", Typ: "text-single", Vals: []string{"0.11"}},
	}}},
}

func TestC20ReferenceVectors(t *testing.T) {
	ev.Begin(t)
	for _, tc := range []struct {
		m      infoM
		s, ver string
	}{
		{xepSimple, "client/pc//Exodus 0.9.1<http://jabber.org/protocol/caps<http://jabber.org/protocol/disco#info<http://jabber.org/protocol/disco#items<http://jabber.org/protocol/muc<", "QgayPKawpkPSDYmwT/WM94uAlu0="},
		{xepComplex, "client/pc/el/Ψ 0.11<client/pc/en/Psi 0.11<http://jabber.org/protocol/caps<http://jabber.org/protocol/disco#info<http://jabber.org/protocol/disco#items<http://jabber.org/protocol/muc<urn:xmpp:dataforms:softwareinfo<ip_version<ipv4<ipv6<os<Mac<os_version<10.5.1<software<Psi<software_version<0.11<", "q07IKJEyjvHSyhy//CH0CxmKi8w="},
	} {
		if lvl := level(tc.m); lvl != lvlWellFormed {
			t.Fatalf("harness: XEP example classified at level %d", lvl)
		}
		for _, m := range []infoM{tc.m, reversed(tc.m)} {
			if s := refString(m); s != tc.s {
				t.Fatalf("harness: reference S = %q, XEP-0115 prints %q", s, tc.s)
			}
		}
		if v := refVer(tc.s, crypto.SHA1.New()); v != tc.ver {
			t.Fatalf("harness: reference ver = %q, XEP-0115 prints %q", v, tc.ver)
		}
		ev.Case(true, tc.m.String(), "xep-example")
		checkCase(t, tc.m, plainVariants(tc.m), crypto.SHA1)
	}
}

// TestC20Regress replays the concrete inputs of every finding.
func TestC20Regress(t *testing.T) {
	ev.Begin(t)
	base := infoM{
		Idents: []identM{{Cat: "client", Type: "pc", Name: "x"}},
		Feats:  []string{"urn:xmpp:ping"},
	}
	with := func(forms ...formM) infoM {
		m := base
		m.Forms = forms
		return m
	}
	fa := formM{Result: true, Fields: []fieldM{hidden("urn:a"), {Var: "os", Typ: "text-single", Vals: []string{"Mac"}}}}
	fb := formM{Result: true, Fields: []fieldM{hidden("urn:b"), {Var: "v", Typ: "list-multi", Vals: []string{"2", "1"}}}}
	groups := []struct {
		name   string
		models []infoM
	}{
		// finding 1: a form without fields panics (make([]string, 0, -1))
		{"empty-form-panics", []infoM{
			with(formM{Kind: 0}),               // form.New()            / <x type='form'></x>
			with(formM{Kind: 1}),               // form.Data{}           / <x type='form'/>
			with(formM{Kind: 2, Title: "bye"}), // form.Cancel("bye","") / <x><title>bye</title></x>
			{Forms: []formM{{Kind: 1}}},
		}},
		// finding 2: forms are hashed in input order instead of FORM_TYPE order
		{"forms-not-sorted-by-FORM_TYPE", []infoM{
			with(fb, fa),
			with(fa, fb),
			with(fb, fa, formM{Result: true, Fields: []fieldM{hidden("urn:B")}}),
			{Forms: []formM{{Fields: []fieldM{hidden("b")}}, {Fields: []fieldM{hidden("a")}}}},
		}},
		// boundaries around the findings
		{"boundaries", []infoM{
			with(fa, formM{Kind: 1, Result: true}),                                                // empty form next to another
			with(formM{Fields: []fieldM{hidden("urn:a")}}),                                        // FORM_TYPE only
			with(formM{Fields: []fieldM{{Var: "os", Typ: "text-single", Vals: []string{"Mac"}}}}), // no FORM_TYPE
			with(fa, formM{Fields: []fieldM{{Var: "os", Typ: "text-single", Vals: []string{"Mac"}}}}),
			with(formM{Fields: []fieldM{hidden("urn:a"), {Typ: "fixed", Vals: []string{"section"}}}}), // field without var
			with(formM{Fields: []fieldM{hidden("urn:a"), {Var: "e", Typ: "text-single", Vals: []string{""}, Loose: true}}}),
			with(formM{Fields: []fieldM{{Var: formTypeVar, Typ: "hidden"}, {Var: "a", Typ: "text-single"}}}), // FORM_TYPE without value
			{Idents: []identM{{Cat: "a", Type: "b", Lang: "", Name: "n1"}, {Cat: "a!", Type: "b", Name: "n2"}, {Cat: "A", Type: "b", Lang: "en"}}},
			{Feats: []string{"b", "a<", "a", "B", "😀", "～"}},
			{},
		}},
	}
	for _, g := range groups {
		t.Run(g.name, func(t *testing.T) {
			ev.Begin(t) // one replay record per finding
			for _, m := range g.models {
				ev.Case(true, m.String(), "regress")
				checkCase(t, m, plainVariants(m), crypto.SHA1)
				checkCase(t, m, plainVariants(m), crypto.SHA256)
			}
		})
	}
}

// TestC20PeerXML hashes values decoded from hand-written peer replies that the
// generator's writer cannot spell (the no-panic clause), and checks the ones
// that are well-formed against the reference through the public accessors.
func TestC20PeerXML(t *testing.T) {
	ev.Begin(t)
	const q = `<query xmlns='http://jabber.org/protocol/disco#info'>`
	for _, doc := range peerDocs {
		doc = strings.ReplaceAll(doc, "<query>", q)
		ev.Case(true, doc, "peer-xml")
		checkDoc(t, []byte(doc))
	}
}

var peerDocs = []string{
	`<query><x xmlns='jabber:x:data'/></query>`,
	`<query><x xmlns='jabber:x:data' type='result'></x></query>`,
	`<query><x xmlns='jabber:x:data' type='result'>  </x></query>`,
	`<query><identity category='client' type='pc'/><x xmlns='jabber:x:data' type='result'><title>t</title><instructions>i</instructions></x><feature var='a'/></query>`,
	`<query><x xmlns='jabber:x:data' type='result'><field/></x></query>`,
	`<query><x xmlns='jabber:x:data' type='result'><field/><field/></x></query>`,
	`<query><x xmlns='jabber:x:data' type='result'><field var='FORM_TYPE'/></x></query>`,
	`<query><x xmlns='jabber:x:data' type='result'><field var='FORM_TYPE' type='hidden'><value>a</value><value>b</value></field></x></query>`,
	`<query><x xmlns='jabber:x:data' type='result'><field var='FORM_TYPE' type='boolean'><value>x</value></field><field var='a'/></x></query>`,
	`<query><x xmlns='jabber:x:data' type='result'><field var='FORM_TYPE' type='jid-multi'><value>@</value></field><field var='a'><value/></field></x></query>`,
	`<query><x xmlns='jabber:x:data' type='result'><field var='FORM_TYPE' type='bogus'><value>x</value></field></x></query>`,
	`<query><x xmlns='jabber:x:data' type='result'><field var='a'><value>1</value></field><field var='a'><value>2</value></field></x></query>`,
	`<query><x xmlns='jabber:x:data' type='result'><field type='fixed'><value>s</value></field><field var='FORM_TYPE' type='hidden'><value>urn:a</value></field></x><x xmlns='jabber:x:data'/></query>`,
	`<query><x xmlns='jabber:x:data' type='result'><field var='FORM_TYPE' type='hidden'><value>urn:b</value></field><field var='z'><value>2</value><value>1</value></field></x><x xmlns='jabber:x:data' type='result'><field var='FORM_TYPE' type='hidden'><value>urn:a</value></field></x></query>`,
	`<query><x xmlns='jabber:x:data' type='result'><field var='l' type='list-single'><option label='o'><value>v</value></option></field></x></query>`,
	`<query><identity/><feature/><x xmlns='jabber:x:data'><field var=''><value></value></field></x></query>`,
	`<query><identity xml:lang='en' category='c' type='t' name='n'/><identity xml:lang='de' category='c' type='t' name='m'/></query>`,
}

// checkDoc: arbitrary bytes as the payload of a peer's reply.  If it decodes,
// the decoded value is read back through the public accessors, and the model so
// obtained is judged like a generated one (re-spelled and reversed).
func checkDoc(t fataler, doc []byte) {
	t.Helper()
	var in disco.Info
	var err error
	if p := ev.Guard(func() { in, err = decodeXML(string(doc)) }); p != "" {
		// decoding is the business of C19, not of this property
		ev.Class("peer-xml-decode-panic")
		return
	}
	if err != nil {
		ev.Class("peer-xml-undecodable")
		return
	}
	m := modelOf(in)
	if !reflect.DeepEqual(modelOf(in), m) {
		t.Fatalf("harness: accessors are not deterministic")
	}
	vs := []variant{{m: m, viaXML: true, doc: string(doc)}}
	vs = append(vs, plainVariants(m)...)
	ev.Class([]string{"peer-xml-level0", "peer-xml-level1", "peer-xml-level2"}[level(m)])
	checkCase(t, m, vs, crypto.SHA1)
}

// FuzzC20 (thorough tier): coverage-guided peer XML.
func FuzzC20(f *testing.F) {
	const q = `<query xmlns='http://jabber.org/protocol/disco#info'>`
	for _, doc := range peerDocs {
		f.Add([]byte(strings.ReplaceAll(doc, "<query>", q)))
	}
	for _, m := range []infoM{xepSimple, xepComplex} {
		f.Add([]byte(writeXML(m, xmlStyle{Quote: '\'', SelfClose: true})))
	}
	var once sync.Once
	f.Fuzz(func(t *testing.T, doc []byte) {
		once.Do(func() { ev.Begin(t) }) // attribute violations to FuzzC20/...
		if len(doc) > 4096 {
			return
		}
		checkDoc(t, doc)
	})
}
