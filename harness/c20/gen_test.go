package c20

import (
	"pgregory.net/rapid"
	"strings"
)

// Small alphabet with many near-collisions: byte order differs from
// case-insensitive order ('B' < 'a'), from "concatenated" order ('!' < '/' <
// '<' < 'a'), from UTF-16 order ('～' U+FF5E vs '😀' U+1F600), and contains the
// separator characters of the construction ('<', '/').
var alphabet = []string{"a", "b", "B", "0", "<", ">", "/", "!", "~", " ", "&", "\"", "'", "é", "Ψ", "日", "～", "😀", "\n", "_",
	// text that a Unicode normalisation, case folding or width folding would
	// change (the construction takes the octets as they are): decomposed é,
	// ANGSTROM SIGN, OHM SIGN, the fi ligature, fullwidth A, dotted capital I,
	// final sigma
	"e\u0301", "\u212b", "\u2126", "\ufb01", "\uff21", "\u0130", "\u03c2"}

func genTok(lo, hi int) *rapid.Generator[string] {
	return rapid.Custom(func(t *rapid.T) string {
		n := rapid.IntRange(lo, hi).Draw(t, "len")
		s := ""
		for i := 0; i < n; i++ {
			s += rapid.SampledFrom(alphabet).Draw(t, "ch")
		}
		return s
	})
}

// boundaryLens are lengths around the sizes of buffers an implementation might
// use for an item of the string that is hashed.
var boundaryLens = []int{15, 16, 17, 31, 32, 33, 63, 64, 65, 127, 128, 129, 255, 256, 257, 511, 512, 513, 1023, 1024, 1025, 4095, 4096, 4097}

func pick(t *rapid.T, label string, pool []string, lo, hi int) string {
	if rapid.IntRange(0, 24).Draw(t, label+"-long?") == 0 {
		// an item of a length at a buffer boundary (in bytes)
		n := rapid.SampledFrom(boundaryLens).Draw(t, label+"-len")
		tail := rapid.SampledFrom([]string{"a", "b", "<", "é"}).Draw(t, label+"-tail")
		return strings.Repeat("x", n-len(tail)) + tail
	}
	if rapid.IntRange(0, 9).Draw(t, label+"?") < 6 {
		return rapid.SampledFrom(pool).Draw(t, label)
	}
	return genTok(lo, hi).Draw(t, label+"tok")
}

var (
	catPool  = []string{"client", "server", "conference", "gateway", "a", "A", "a/", "a!", "ab", "Ψ"}
	typePool = []string{"pc", "phone", "bot", "im", "text", "web", "p", "p/", "P", ""}
	langPool = []string{"", "", "en", "el", "de", "en-US", "EN", "e"}
	namePool = []string{"", "Psi 0.11", "Ψ 0.11", "Exodus 0.9.1", "a<b", "x/y", "100%", "%s %d", "a%20b", "Cafe\u0301", "\u212bngstro\u0308m", "o\ufb03ce"}
	featPool = []string{
		"http://jabber.org/protocol/caps", "http://jabber.org/protocol/disco#info",
		"http://jabber.org/protocol/disco#items", "http://jabber.org/protocol/muc",
		"urn:xmpp:ping", "urn:xmpp:Ping", "jabber:iq:version", "a", "a<", "a<b", "ab", "B", "urn:x:%41", "100%", "%v",
	}
	ftPool = []string{
		"urn:xmpp:dataforms:softwareinfo", "http://jabber.org/network/serverinfo", "urn:xmpp:mam:2",
		"a", "b", "B", "a<", "a!", "ab", "é", "urn:x:form%20type", "%!s(MISSING)", "50%%",
	}
	varPool = []string{
		"os", "os_version", "software", "software_version", "ip_version", "abuse-addresses",
		"a", "b", "B", "a<", "ab", "FORM_TYPF", "FORM_TYP", "form_type", "abuse%2Daddresses", "%d", "load%",
	}
	valPool     = []string{"ipv4", "ipv6", "Mac", "10.5.1", "Psi", "0.11", "<", "a<b", "a", "b", "B", "ab", "Ψ", "xmpp:a@b?message;subject=Help%20me", "100%", "50%%", "%s", "%!d(string=x)", "%", "%<"}
	jidPool     = []string{"a@b", "example.net", "x@y/z", "b@a", "A@b"}
	boolPool    = []string{"true", "false", "0", "1"}
	multiTypes  = []string{"hidden", "text-multi", "list-multi", "jid-multi"}
	singleTypes = []string{"text-single", "text-private", "list-single", "boolean", "jid-single"}
)

func genValue(t *rapid.T, typ string) string {
	switch typ {
	case "boolean":
		return rapid.SampledFrom(boolPool).Draw(t, "bool")
	case "jid-single", "jid-multi":
		return rapid.SampledFrom(jidPool).Draw(t, "jid")
	}
	return pick(t, "val", valPool, 1, 4)
}

// genField draws a non-FORM_TYPE field whose var is not in used.
func genField(t *rapid.T, used map[string]bool) (fieldM, bool) {
	v := pick(t, "var", varPool, 1, 3)
	if used[v] || v == "" {
		return fieldM{}, false
	}
	used[v] = true
	fd := fieldM{Var: v}
	multi := rapid.Bool().Draw(t, "multi")
	if multi {
		fd.Typ = rapid.SampledFrom(multiTypes).Draw(t, "mtype")
	} else {
		fd.Typ = rapid.SampledFrom(singleTypes).Draw(t, "stype")
	}
	n := listLen(t, "nvals", 4)
	loose := rapid.IntRange(0, 11).Draw(t, "loose") == 0
	if !multi && n > 1 && !loose {
		n = 1
	}
	for i := 0; i < n; i++ {
		fd.Vals = append(fd.Vals, genValue(t, fd.Typ))
	}
	if loose {
		// what only a peer can send: an empty <value/>, a field without type
		// attribute, several values on a single-valued type
		fd.Loose = true
		switch rapid.IntRange(0, 2).Draw(t, "looseKind") {
		case 0:
			fd.Vals = append(fd.Vals, "")
		case 1:
			fd.Typ = ""
		}
	}
	if rapid.IntRange(0, 5).Draw(t, "deco") == 0 {
		fd.Label = genTok(0, 2).Draw(t, "label")
		fd.Desc = genTok(0, 2).Draw(t, "desc")
		fd.Required = rapid.Bool().Draw(t, "req")
		if fd.Typ == "list-single" || fd.Typ == "list-multi" {
			fd.Opts = append(fd.Opts, fd.Vals...)
		}
	}
	return fd, true
}

func genForm(t *rapid.T, ft string) formM {
	f := formM{Result: rapid.Bool().Draw(t, "result")}
	used := map[string]bool{formTypeVar: true}
	f.Fields = append(f.Fields, fieldM{Var: formTypeVar, Typ: "hidden", Vals: []string{ft}})
	n := listLen(t, "nfields", 4)
	for i := 0; i < n; i++ {
		if fd, ok := genField(t, used); ok {
			f.Fields = append(f.Fields, fd)
		}
	}
	if rapid.IntRange(0, 5).Draw(t, "formdeco") == 0 {
		f.Title = genTok(0, 3).Draw(t, "title")
		f.Instr = genTok(0, 3).Draw(t, "instr")
	}
	return f
}

// genWellFormed draws a model of the well-formed domain of DESIGN.md C20.
func genWellFormed(t *rapid.T) infoM {
	var m infoM
	if rapid.IntRange(0, 3).Draw(t, "node?") == 0 {
		m.Node = genTok(0, 3).Draw(t, "node")
	}
	seen := map[[3]string]bool{}
	n := listLen(t, "nident", 5)
	for i := 0; i < n; i++ {
		id := identM{
			Cat:  pick(t, "cat", catPool, 0, 2),
			Type: pick(t, "type", typePool, 0, 2),
			Lang: pick(t, "lang", langPool, 0, 2),
			Name: pick(t, "name", namePool, 0, 4),
		}
		k := [3]string{id.Cat, id.Type, id.Lang}
		if seen[k] {
			continue
		}
		seen[k] = true
		m.Idents = append(m.Idents, id)
	}
	fs := map[string]bool{}
	n = listLen(t, "nfeat", 8)
	for i := 0; i < n; i++ {
		f := pick(t, "feat", featPool, 0, 3)
		if fs[f] {
			continue
		}
		fs[f] = true
		m.Feats = append(m.Feats, f)
	}
	fts := map[string]bool{}
	n = rapid.IntRange(0, 3).Draw(t, "nform")
	for i := 0; i < n; i++ {
		ft := pick(t, "ft", ftPool, 1, 3)
		if fts[ft] {
			continue
		}
		fts[ft] = true
		m.Forms = append(m.Forms, genForm(t, ft))
	}
	return m
}

// mutate applies one deliberate malformation (names are evidence classes).
func mutate(t *rapid.T, m *infoM) string {
	kind := rapid.SampledFrom([]string{
		"empty-form", "empty-form", "no-FORM_TYPE", "no-FORM_TYPE", "FORM_TYPE-only",
		"FORM_TYPE-values!=1", "FORM_TYPE-odd-type", "dup-var", "field-without-var",
		"dup-identity-key", "dup-FORM_TYPE", "dup-feature", "FORM_TYPE-plain-text-type",
	}).Draw(t, "mutation")
	formIdx := func() int {
		if len(m.Forms) == 0 {
			m.Forms = append(m.Forms, genForm(t, pick(t, "ft", ftPool, 1, 3)))
		}
		return rapid.IntRange(0, len(m.Forms)-1).Draw(t, "formIdx")
	}
	ftIdx := func(f formM) int {
		for i, fd := range f.Fields {
			if fd.Var == formTypeVar {
				return i
			}
		}
		return -1
	}
	switch kind {
	case "empty-form":
		e := formM{Kind: rapid.IntRange(0, 2).Draw(t, "emptyKind"), Result: rapid.Bool().Draw(t, "result")}
		if e.Kind == 2 {
			e.Title = genTok(0, 2).Draw(t, "title")
		}
		pos := rapid.IntRange(0, len(m.Forms)).Draw(t, "pos")
		m.Forms = append(m.Forms[:pos:pos], append([]formM{e}, m.Forms[pos:]...)...)
	case "no-FORM_TYPE":
		i := formIdx()
		if j := ftIdx(m.Forms[i]); j >= 0 {
			f := m.Forms[i]
			f.Fields = append(append([]fieldM(nil), f.Fields[:j]...), f.Fields[j+1:]...)
			m.Forms[i] = f
		}
	case "FORM_TYPE-only":
		i := formIdx()
		if j := ftIdx(m.Forms[i]); j >= 0 {
			m.Forms[i].Fields = []fieldM{m.Forms[i].Fields[j]}
		}
	case "FORM_TYPE-values!=1":
		i := formIdx()
		if j := ftIdx(m.Forms[i]); j >= 0 {
			fd := m.Forms[i].Fields[j]
			if rapid.Bool().Draw(t, "zero") {
				fd.Vals = nil
			} else {
				fd.Vals = append(append([]string(nil), fd.Vals...), pick(t, "ft2", ftPool, 1, 3))
			}
			m.Forms[i].Fields[j] = fd
		}
	case "FORM_TYPE-odd-type":
		i := formIdx()
		if j := ftIdx(m.Forms[i]); j >= 0 {
			m.Forms[i].Fields[j].Typ = rapid.SampledFrom([]string{"boolean", "text-multi", "list-multi", "jid-single", "jid-multi"}).Draw(t, "oddType")
		}
	case "FORM_TYPE-plain-text-type":
		i := formIdx()
		if j := ftIdx(m.Forms[i]); j >= 0 {
			m.Forms[i].Fields[j].Typ = rapid.SampledFrom([]string{"text-single", "text-private", "list-single", ""}).Draw(t, "textType")
		}
	case "dup-var":
		i := formIdx()
		f := m.Forms[i]
		if len(f.Fields) > 0 {
			src := f.Fields[rapid.IntRange(0, len(f.Fields)-1).Draw(t, "dupSrc")]
			dup := fieldM{Var: src.Var, Typ: src.Typ, Vals: []string{pick(t, "val", valPool, 1, 3)}}
			if dup.Typ == "boolean" || dup.Typ == "jid-single" || dup.Typ == "jid-multi" {
				dup.Typ = "text-single"
			}
			m.Forms[i].Fields = append(append([]fieldM(nil), f.Fields...), dup)
		}
	case "field-without-var":
		i := formIdx()
		fd := fieldM{Typ: rapid.SampledFrom([]string{"fixed", "text-single", "hidden"}).Draw(t, "novarType")}
		if rapid.Bool().Draw(t, "novarVal") {
			fd.Vals = []string{pick(t, "val", valPool, 1, 3)}
		}
		m.Forms[i].Fields = append(append([]fieldM(nil), m.Forms[i].Fields...), fd)
	case "dup-identity-key":
		if len(m.Idents) == 0 {
			m.Idents = append(m.Idents, identM{Cat: "client", Type: "pc"})
		}
		d := m.Idents[rapid.IntRange(0, len(m.Idents)-1).Draw(t, "dupIdent")]
		d.Name = pick(t, "name", namePool, 0, 4)
		m.Idents = append(append([]identM(nil), m.Idents...), d)
	case "dup-FORM_TYPE":
		i := formIdx()
		if ft, ok := m.Forms[i].formType(); ok && len(ft.Vals) == 1 {
			m.Forms = append(append([]formM(nil), m.Forms...), genForm(t, ft.Vals[0]))
		}
	case "dup-feature":
		if len(m.Feats) == 0 {
			m.Feats = append(m.Feats, "a")
		}
		m.Feats = append(append([]string(nil), m.Feats...), m.Feats[rapid.IntRange(0, len(m.Feats)-1).Draw(t, "dupFeat")])
	}
	return kind
}

// permute returns a copy of m with identities, features, forms, the fields of
// every form and the values of every field in a generated order.
func permute(t *rapid.T, m infoM) infoM {
	out := infoM{Node: m.Node}
	out.Idents = rapid.Permutation(m.Idents).Draw(t, "permIdent")
	out.Feats = rapid.Permutation(m.Feats).Draw(t, "permFeat")
	forms := rapid.Permutation(m.Forms).Draw(t, "permForm")
	for _, f := range forms {
		g := f
		g.Fields = nil
		for _, fd := range rapid.Permutation(f.Fields).Draw(t, "permField") {
			h := fd
			h.Vals = rapid.Permutation(fd.Vals).Draw(t, "permVal")
			if len(fd.Opts) > 0 {
				h.Opts = append([]string(nil), h.Vals...)
			}
			g.Fields = append(g.Fields, h)
		}
		out.Forms = append(out.Forms, g)
	}
	return out
}

// reversed is the deterministic permutation used by plain tests and the fuzz
// target.
func reversed(m infoM) infoM {
	out := infoM{Node: m.Node}
	for i := len(m.Idents) - 1; i >= 0; i-- {
		out.Idents = append(out.Idents, m.Idents[i])
	}
	for i := len(m.Feats) - 1; i >= 0; i-- {
		out.Feats = append(out.Feats, m.Feats[i])
	}
	for i := len(m.Forms) - 1; i >= 0; i-- {
		f := m.Forms[i]
		g := f
		g.Fields = nil
		for j := len(f.Fields) - 1; j >= 0; j-- {
			fd := f.Fields[j]
			h := fd
			h.Vals = nil
			for k := len(fd.Vals) - 1; k >= 0; k-- {
				h.Vals = append(h.Vals, fd.Vals[k])
			}
			g.Fields = append(g.Fields, h)
		}
		out.Forms = append(out.Forms, g)
	}
	return out
}

func genStyle(t *rapid.T) xmlStyle {
	bits := rapid.IntRange(0, 31).Draw(t, "xmlStyle")
	st := xmlStyle{Quote: '\'', Pretty: bits&2 != 0, Interleave: bits&4 != 0, SelfClose: bits&8 != 0, ValueFirst: bits&16 != 0}
	if bits&1 != 0 {
		st.Quote = '"'
	}
	return st
}

// dims counts the sorted dimensions that hold at least two items.
func dims(m infoM) int {
	n := 0
	if len(m.Idents) >= 2 {
		n++
	}
	if len(m.Feats) >= 2 {
		n++
	}
	if len(m.Forms) >= 2 {
		n++
	}
	fields, vals := false, false
	for _, f := range m.Forms {
		nf := 0
		for _, fd := range f.Fields {
			if fd.Var != formTypeVar {
				nf++
			}
			if len(fd.Vals) >= 2 {
				vals = true
			}
		}
		if nf >= 2 {
			fields = true
		}
	}
	if fields {
		n++
	}
	if vals {
		n++
	}
	return n
}

// listLen draws the length of a generated list: usually 0..max, one time in
// fifteen a few dozen or hundred entries (a client with 300 features, a form
// with 130 fields are legal).
func listLen(t *rapid.T, label string, max int) int {
	if rapid.IntRange(0, 39).Draw(t, label+"Long") == 0 {
		// (lists nested inside other lists stay shorter: the product is what costs)
		long := map[string][]int{"nvals": {17, 33}, "nfields": {17, 33}}[label]
		if long == nil {
			long = []int{17, 33, 65}
		}
		return rapid.SampledFrom(long).Draw(t, label+"N")
	}
	return rapid.IntRange(0, max).Draw(t, label)
}
