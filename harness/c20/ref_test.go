package c20

// Model of a service-discovery info value and the reference construction of
// the XEP-0115 §5.1 verification string.  Nothing in this file looks at the
// library; it is the oracle.

import (
	"encoding/base64"
	"fmt"
	"hash"
	"sort"
	"strings"
)

type identM struct{ Cat, Type, Lang, Name string }

// fieldM is one <field/>.  Typ is the XEP-0004 field type; "" means "no type
// attribute" (only expressible on the XML path).
type fieldM struct {
	Var  string
	Typ  string
	Vals []string
	// Loose: the field cannot be expressed faithfully through the form
	// constructors (empty <value/>, several values on a single-valued type, no
	// type attribute); variants containing it are always built from XML.
	Loose bool
	// decorations that must not influence the hash
	Label, Desc string
	Required    bool
	Opts        []string
}

// formM is one <x xmlns='jabber:x:data'/>.  Kind selects how an empty form is
// spelled (0 ordinary, 1 zero-value form.Data / <x/>, 2 form.Cancel / <x></x>
// with a title only).
type formM struct {
	Fields []fieldM
	Kind   int
	Result bool
	Title  string
	Instr  string
}

type infoM struct {
	Node   string
	Idents []identM
	Feats  []string
	Forms  []formM
}

func (m infoM) String() string {
	var b strings.Builder
	fmt.Fprintf(&b, "info{node=%q identities=[", m.Node)
	for i, id := range m.Idents {
		if i > 0 {
			b.WriteString(", ")
		}
		fmt.Fprintf(&b, "{cat=%q type=%q lang=%q name=%q}", id.Cat, id.Type, id.Lang, id.Name)
	}
	fmt.Fprintf(&b, "] features=%q forms=[", m.Feats)
	for i, f := range m.Forms {
		if i > 0 {
			b.WriteString(", ")
		}
		fmt.Fprintf(&b, "form(kind=%d result=%v title=%q){", f.Kind, f.Result, f.Title)
		for j, fd := range f.Fields {
			if j > 0 {
				b.WriteString(", ")
			}
			fmt.Fprintf(&b, "%q:%s%q", fd.Var, fd.Typ, fd.Vals)
			if fd.Loose {
				b.WriteString("~")
			}
		}
		b.WriteString("}")
	}
	b.WriteString("]}")
	return b.String()
}

const formTypeVar = "FORM_TYPE"

// formType returns the FORM_TYPE field of the form, if any.
func (f formM) formType() (fieldM, bool) {
	for _, fd := range f.Fields {
		if fd.Var == formTypeVar {
			return fd, true
		}
	}
	return fieldM{}, false
}

// Levels of what may be asserted about a model.
const (
	lvlNoPanic    = 0 // no panic, Hash == AppendHash(empty)
	lvlInvariant  = 1 // plus: the same result under every permutation
	lvlWellFormed = 2 // plus: equals the XEP-0115 §5.1 reference
)

// level classifies a model (see DESIGN.md C20 and NOTES.md).
//
//   - well-formed: identities distinct by (category, type, lang); every form
//     has exactly one FORM_TYPE field that is hidden (or carries no type
//     attribute) with exactly one value; FORM_TYPE values pairwise distinct;
//     field vars non-empty and distinct within a form.
//   - invariant: every collection that is sorted has pairwise distinct sort
//     keys, where a form without FORM_TYPE counts as key "" and a field
//     without var as key ""; a FORM_TYPE field that is present has exactly one
//     value and a single-valued textual type.
//   - otherwise only the no-panic / Hash==AppendHash clauses apply.
func level(m infoM) int {
	wf := true
	ids := map[[3]string]bool{}
	for _, id := range m.Idents {
		k := [3]string{id.Cat, id.Type, id.Lang}
		if ids[k] {
			return lvlNoPanic
		}
		ids[k] = true
	}
	keys := map[string]bool{}
	for _, f := range m.Forms {
		vars := map[string]bool{}
		for _, fd := range f.Fields {
			if vars[fd.Var] {
				return lvlNoPanic
			}
			vars[fd.Var] = true
			if fd.Var == "" {
				wf = false
			}
		}
		key := ""
		if ft, ok := f.formType(); ok {
			if len(ft.Vals) != 1 {
				return lvlNoPanic
			}
			switch ft.Typ {
			case "hidden", "":
			case "text-single", "text-private", "list-single":
				wf = false
			default:
				return lvlNoPanic
			}
			key = ft.Vals[0]
		} else {
			wf = false
		}
		if keys[key] {
			return lvlNoPanic
		}
		keys[key] = true
	}
	if wf {
		return lvlWellFormed
	}
	return lvlInvariant
}

// refString is S of XEP-0115 §5.1 steps 1-8 for a well-formed model.  All
// comparisons are octet-wise on the UTF-8 encoding (i;octet), which is what
// Go's string comparison does.
func refString(m infoM) string {
	var s strings.Builder

	// 2-3: identities sorted by category, then type, then xml:lang; each
	// rendered category/type/lang/name followed by '<'.
	ids := append([]identM(nil), m.Idents...)
	sort.SliceStable(ids, func(a, b int) bool {
		x, y := ids[a], ids[b]
		switch {
		case x.Cat != y.Cat:
			return x.Cat < y.Cat
		case x.Type != y.Type:
			return x.Type < y.Type
		default:
			return x.Lang < y.Lang
		}
	})
	for _, id := range ids {
		s.WriteString(id.Cat + "/" + id.Type + "/" + id.Lang + "/" + id.Name + "<")
	}

	// 4-5: features sorted.
	feats := append([]string(nil), m.Feats...)
	sort.Strings(feats)
	for _, f := range feats {
		s.WriteString(f + "<")
	}

	// 6-7: forms sorted by FORM_TYPE value.
	type rform struct {
		ft     string
		fields []fieldM
	}
	var forms []rform
	for _, f := range m.Forms {
		var rf rform
		for _, fd := range f.Fields {
			if fd.Var == formTypeVar {
				rf.ft = fd.Vals[0]
				continue
			}
			rf.fields = append(rf.fields, fd)
		}
		forms = append(forms, rf)
	}
	sort.SliceStable(forms, func(a, b int) bool { return forms[a].ft < forms[b].ft })
	for _, rf := range forms {
		s.WriteString(rf.ft + "<")
		sort.SliceStable(rf.fields, func(a, b int) bool { return rf.fields[a].Var < rf.fields[b].Var })
		for _, fd := range rf.fields {
			s.WriteString(fd.Var + "<")
			vals := append([]string(nil), fd.Vals...)
			sort.Strings(vals)
			for _, v := range vals {
				s.WriteString(v + "<")
			}
		}
	}
	return s.String()
}

// refVer is step 9: hash S, base64 (RFC 4648 §4, with padding).
func refVer(s string, h hash.Hash) string {
	h.Reset()
	h.Write([]byte(s))
	return base64.StdEncoding.EncodeToString(h.Sum(nil))
}

// concatOrderDiffers reports whether sorting the rendered identity strings
// would give another order than sorting by the three keys (class only).
func concatOrderDiffers(m infoM) bool {
	a := append([]identM(nil), m.Idents...)
	b := append([]identM(nil), m.Idents...)
	sort.SliceStable(a, func(i, j int) bool {
		x, y := a[i], a[j]
		if x.Cat != y.Cat {
			return x.Cat < y.Cat
		}
		if x.Type != y.Type {
			return x.Type < y.Type
		}
		return x.Lang < y.Lang
	})
	str := func(x identM) string { return x.Cat + "/" + x.Type + "/" + x.Lang + "/" + x.Name }
	sort.SliceStable(b, func(i, j int) bool { return str(b[i]) < str(b[j]) })
	for i := range a {
		if a[i] != b[i] {
			return true
		}
	}
	return false
}
