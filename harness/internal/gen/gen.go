// Package gen holds the shared rapid generators (text, XML trees, stanzas).
package gen

import (
	"encoding/xml"
	"fmt"
	"sort"
	"strings"

	"pgregory.net/rapid"

	"mellium.im/xmpp/verifharness/internal/xt"
)

var textPieces = []string{
	"a", "b", "xyz", "hello", " ", "  ", "\n", "\t", "<", ">", "&", "'", "\"", "&amp;", "]]>", "é", "ß", "日本", "😀", "ffi", "İ", "é",
	"0", "42", "-1", "true", "=", "/", "@", ":", "\\", "iq", "result",
	// (text that means something to a format string, a template or a shell)
	"%", "%s", "%20", "%!d", "{}", "$1", "`",
	// (text that Unicode normalisation, case or width folding would change)
	"e\u0301", "\u212b", "\u2126", "\uff21", "\u03c2", "EN", "en-US",
}

// Text draws a short string from an alphabet rich in XML-special, whitespace
// and non-ASCII characters (all representable in XML 1.0; no \r).
func Text(t *rapid.T, label string) string {
	n := rapid.IntRange(0, 4).Draw(t, label+"-n")
	var sb strings.Builder
	for i := 0; i < n; i++ {
		sb.WriteString(rapid.SampledFrom(textPieces).Draw(t, label))
	}
	return sb.String()
}

// NonEmptyText is Text that is never empty and never whitespace-only.
func NonEmptyText(t *rapid.T, label string) string {
	s := Text(t, label)
	if strings.TrimSpace(s) == "" {
		return s + "x"
	}
	return s
}

// Word draws an identifier-like string.
func Word(t *rapid.T, label string) string {
	return rapid.SampledFrom([]string{"a", "b", "c", "foo", "bar", "q1", "x-y", "z_9"}).Draw(t, label)
}

// Names / namespaces of the generic universe.
var (
	Locals = []string{"a", "b", "query", "x", "data", "iq", "message", "presence", "error", "body"}
	Spaces = []string{"urn:verif:x", "urn:verif:y", "jabber:client", "jabber:server", "urn:xmpp:ping"}
)

// Tree draws a random element.  ns is the namespace in scope (children
// usually inherit it).
func Tree(t *rapid.T, label string, depth int, ns string) *xt.Node {
	space := ns
	if rapid.IntRange(0, 3).Draw(t, label+"-newns") == 0 {
		space = rapid.SampledFrom(Spaces).Draw(t, label+"-ns")
	}
	n := &xt.Node{Name: xml.Name{Space: space, Local: rapid.SampledFrom(Locals).Draw(t, label+"-local")}}
	na := rapid.IntRange(0, 2).Draw(t, label+"-nattr")
	seen := map[string]bool{}
	for i := 0; i < na; i++ {
		name := rapid.SampledFrom([]string{"id", "type", "from", "to", "k", "v", "node"}).Draw(t, label+"-attr")
		if seen[name] {
			continue
		}
		seen[name] = true
		n.Attr = append(n.Attr, xt.A(name, Text(t, label+"-attrv")))
	}
	if depth <= 0 {
		if rapid.Bool().Draw(t, label+"-leaftext") {
			if s := Text(t, label+"-text"); s != "" {
				n.Children = append(n.Children, xt.Tx(s))
			}
		}
		return n
	}
	nc := rapid.IntRange(0, 3).Draw(t, label+"-nchild")
	lastText := false
	for i := 0; i < nc; i++ {
		if !lastText && rapid.IntRange(0, 2).Draw(t, label+"-istext") == 0 {
			if s := Text(t, label+"-text"); s != "" {
				n.Children = append(n.Children, xt.Tx(s))
				lastText = true
			}
			continue
		}
		n.Children = append(n.Children, Tree(t, label+"-c", depth-1, space))
		lastText = false
	}
	return n
}

// SpellText returns character content of an XML element that denotes exactly s
// in one of the spellings XML allows: the text is cut into one to three runs
// (at rune boundaries) and every run is written either as escaped text, as a
// CDATA section, or as numeric character references.  A decoder hands such
// content to its user as several character-data tokens.  (Characters that XML
// cannot carry at all must not occur in s.)
func SpellText(t *rapid.T, label, s string) string {
	runes := []rune(s)
	cuts := []int{0, len(runes)}
	if len(runes) > 1 {
		for k := rapid.IntRange(0, 2).Draw(t, label+"-cuts"); k > 0; k-- {
			cuts = append(cuts, rapid.IntRange(0, len(runes)).Draw(t, label+"-cut"))
		}
	}
	sort.Ints(cuts)
	var sb strings.Builder
	for i := 0; i+1 < len(cuts); i++ {
		run := string(runes[cuts[i]:cuts[i+1]])
		if run == "" && rapid.IntRange(0, 3).Draw(t, label+"-emptycdata") != 0 {
			continue
		}
		kind := rapid.IntRange(0, 3).Draw(t, label+"-spelling")
		if kind == 1 && strings.Contains(run, "]]>") {
			kind = 0
		}
		switch kind {
		case 1:
			sb.WriteString("<![CDATA[" + run + "]]>")
		case 2:
			for _, r := range run {
				if rapid.Bool().Draw(t, label+"-hex") {
					fmt.Fprintf(&sb, "&#x%X;", r)
				} else {
					fmt.Fprintf(&sb, "&#%d;", r)
				}
			}
		default:
			_ = xml.EscapeText(&sb, []byte(run))
		}
	}
	return sb.String()
}
