// Package ev collects what a check actually explored (evaluations, distinct
// non-trivial cases, class histogram, samples, excluded known findings,
// witness outcomes and violations) and dumps it as JSON for the driver
// (/verif/check.py), which merges shards and writes /verif/evidence/<id>.json.
package ev

import (
	"encoding/json"
	"flag"
	"fmt"
	"hash/fnv"
	"os"
	"path/filepath"
	"runtime/debug"
	"sort"
	"strconv"
	"strings"
	"sync"
	"testing"

	"pgregory.net/rapid"
)

// Violation is one failing check.
type Violation struct {
	Test    string `json:"test"`
	Message string `json:"message"`
	Record  string `json:"record"`
}

// KnownReport is the outcome of replaying the witness of a listed finding.
type KnownReport struct {
	Key        string `json:"key"`
	StillFails bool   `json:"still_fails"`
	Detail     string `json:"detail"`
}

type stats struct {
	Property    string           `json:"property"`
	Evaluations int64            `json:"evaluations"`
	Nontrivial  int64            `json:"nontrivial"`
	Hashes      []string         `json:"hashes"`
	Classes     map[string]int64 `json:"classes"`
	Samples     []string         `json:"samples"`
	Excluded    map[string]int64 `json:"excluded"`
	Known       []KnownReport    `json:"known"`
	Violations  []Violation      `json:"violations"`
	Notes       []string         `json:"notes"`
	Tests       []string         `json:"tests"`
}

var (
	mu       sync.Mutex
	st       = stats{Classes: map[string]int64{}, Excluded: map[string]int64{}}
	hashes   = map[uint64]struct{}{}
	known    = map[string]bool{}
	tier     = "quick"
	scale    = 1.0
	maxHash  = 2000000
	nSamples = 0
)

// Tier returns "quick" or "thorough".
func Tier() string { return tier }

// Thorough reports whether the thorough tier is running.
func Thorough() bool { return tier == "thorough" }

// Main is called from TestMain of every property package.
func Main(m *testing.M, property string) {
	st.Property = property
	if v := os.Getenv("VERIF_TIER"); v == "thorough" {
		tier = v
	}
	if v := os.Getenv("VERIF_SCALE"); v != "" {
		if f, err := strconv.ParseFloat(v, 64); err == nil && f > 0 {
			scale = f
		}
	}
	for _, k := range strings.Split(os.Getenv("VERIF_KNOWN"), ",") {
		k = strings.TrimSpace(k)
		if k != "" {
			known[k] = true
		}
	}
	flag.Parse()
	code := m.Run()
	dump()
	os.Exit(code)
}

func dump() {
	path := os.Getenv("VERIF_STATS")
	if path == "" {
		return
	}
	mu.Lock()
	defer mu.Unlock()
	st.Hashes = st.Hashes[:0]
	for h := range hashes {
		st.Hashes = append(st.Hashes, strconv.FormatUint(h, 36))
	}
	sort.Strings(st.Hashes)
	b, err := json.Marshal(&st)
	if err != nil {
		fmt.Fprintln(os.Stderr, "ev: marshal:", err)
		return
	}
	if err := os.WriteFile(path, b, 0o644); err != nil {
		fmt.Fprintln(os.Stderr, "ev: write:", err)
	}
}

// Flush writes the statistics now (used before a deliberate hard exit).
func Flush() { dump() }

// Checks sets the number of rapid cases for the next rapid.Check call
// according to the tier, and returns it.
func Checks(quick, thorough int) int {
	n := quick
	if tier == "thorough" {
		n = thorough
	}
	n = int(float64(n) * scale)
	if n < 1 {
		n = 1
	}
	_ = flag.Set("rapid.checks", strconv.Itoa(n))
	return n
}

// N picks a plain number by tier (for enumerations and loops).
func N(quick, thorough int) int {
	if tier == "thorough" {
		return thorough
	}
	return quick
}

// Check runs prop under rapid with the tier's number of cases.
func Check(t *testing.T, quick, thorough int, prop func(*rapid.T)) {
	t.Helper()
	Begin(t)
	Checks(quick, thorough)
	rapid.Check(t, prop)
}

var currentTest string

// Begin notes the running test (tests in one binary run sequentially).
func Begin(t *testing.T) {
	mu.Lock()
	currentTest = t.Name()
	st.Tests = append(st.Tests, t.Name())
	mu.Unlock()
}

// Case records one executed case.  canon is a canonical rendering of the case
// (used for the distinct count and for samples); classes label the case for the
// histogram.
func Case(nontrivial bool, canon string, classes ...string) {
	mu.Lock()
	defer mu.Unlock()
	st.Evaluations++
	for _, c := range classes {
		st.Classes[c]++
	}
	if !nontrivial {
		st.Classes["trivial"]++
		return
	}
	st.Nontrivial++
	if len(hashes) < maxHash {
		h := fnv.New64a()
		h.Write([]byte(canon))
		hashes[h.Sum64()] = struct{}{}
	}
	// Samples: the 1st, 2nd, 4th, 8th … non-trivial case, at most 16.
	n := st.Nontrivial
	if n&(n-1) == 0 && len(st.Samples) < 16 {
		s := canon
		if len(s) > 700 {
			s = s[:700] + "…(" + strconv.Itoa(len(canon)) + " bytes)"
		}
		st.Samples = append(st.Samples, s)
	}
}

// Class adds to the histogram without counting a case.
func Class(names ...string) {
	mu.Lock()
	for _, c := range names {
		st.Classes[c]++
	}
	mu.Unlock()
}

// Note records a free-text remark for the evidence file (deduplicated).
func Note(format string, args ...any) {
	s := fmt.Sprintf(format, args...)
	mu.Lock()
	defer mu.Unlock()
	for _, n := range st.Notes {
		if n == s {
			return
		}
	}
	if len(st.Notes) < 50 {
		st.Notes = append(st.Notes, s)
	}
}

// IsKnown reports whether key is listed as a known (unrepaired) finding; the
// generator then excludes exactly that trigger region and calls Excluded.
func IsKnown(key string) bool { return known[key] }

// Excluded counts a case (or part of one) that was skipped because it lies in
// the trigger region of a listed finding.
func Excluded(key string) {
	mu.Lock()
	st.Excluded[key]++
	mu.Unlock()
}

// Witness records the outcome of replaying a listed finding's witness.
func Witness(key string, stillFails bool, detail string) {
	mu.Lock()
	st.Known = append(st.Known, KnownReport{Key: key, StillFails: stillFails, Detail: detail})
	mu.Unlock()
}

type fataler interface {
	Helper()
	Fatalf(string, ...any)
}

func recordViolation(test, msg string) {
	v := Violation{Test: test, Message: msg}
	if dir := os.Getenv("VERIF_REPLAY_DIR"); dir != "" {
		name := strings.NewReplacer("/", "_", " ", "_").Replace(test) + ".txt"
		p := filepath.Join(dir, name)
		body := "property: " + st.Property + "\ntest: " + test + "\n\n" + msg + "\n"
		if err := os.WriteFile(p, []byte(body), 0o644); err == nil {
			v.Record = p
		}
	}
	mu.Lock()
	// Keep the last message per test (rapid re-runs the minimal case last).
	for i := range st.Violations {
		if st.Violations[i].Test == test {
			st.Violations[i] = v
			mu.Unlock()
			return
		}
	}
	st.Violations = append(st.Violations, v)
	mu.Unlock()
}

// Failf reports a violation of the property: the message (which should contain
// the complete case and the observed history) is stored as a human-readable
// replay record and the test fails.
func Failf(t fataler, format string, args ...any) {
	t.Helper()
	msg := fmt.Sprintf(format, args...)
	mu.Lock()
	test := currentTest
	mu.Unlock()
	recordViolation(test, msg)
	t.Fatalf("%s", msg)
}

// Guard runs f and converts a panic into a returned description (with stack).
func Guard(f func()) (panicked string) {
	defer func() {
		if r := recover(); r != nil {
			panicked = fmt.Sprintf("panic: %v\n%s", r, debug.Stack())
		}
	}()
	f()
	return ""
}
