package wire

// Reactive is the synchronous scripted peer for stream negotiation (which is
// strictly half-duplex): whenever the library wants to read and nothing is
// pending, Next is asked for the peer's next message given what the library has
// written since the last answer.  Returning nil ends the peer's stream (EOF).
// No goroutines are involved, so negotiations run deterministically.
type Reactive struct {
	*Conn
	Mark  int // length of the output already answered
	Steps int // number of answers given
	// Next returns the bytes to send next, or nil to end the input.
	Next func(r *Reactive, fresh []byte) []byte
}

// NewReactive builds a reactive peer.
func NewReactive(next func(r *Reactive, fresh []byte) []byte) *Reactive {
	r := &Reactive{Conn: NewConn(), Next: next}
	r.Conn.OnIdleRead = func() bool {
		out := r.Conn.Output()
		fresh := out[r.Mark:]
		reply := r.Next(r, fresh)
		if reply == nil {
			r.Conn.CloseInput()
			return true
		}
		r.Mark = len(out)
		r.Steps++
		r.Conn.Feed(reply)
		return true
	}
	return r
}
