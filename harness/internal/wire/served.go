package wire

import (
	"fmt"
	"runtime"
	"runtime/debug"
	"strings"
	"sync"
	"time"

	"mellium.im/xmpp"
	"mellium.im/xmpp/verifharness/internal/xt"
)

// Served is a ready-made session whose Serve loop runs in a goroutine owned by
// the harness; the harness is the peer on the other side of Conn.
type Served struct {
	Conn    *Conn
	Session *xmpp.Session
	Opts    SessionOpts

	mu       sync.Mutex
	done     chan struct{}
	serveErr error
	panicked string
}

// Serve creates the session over a fresh Conn (peer header already fed) and
// starts s.Serve(h) in a goroutine.  A panic of the serve goroutine is
// recovered and reported by Panic().
func Serve(o SessionOpts, h xmpp.Handler) (*Served, error) {
	c := NewConn()
	c.FeedString(o.Header())
	s, err := ReadySession(c, o)
	if err != nil {
		return nil, err
	}
	sv := &Served{Conn: c, Session: s, Opts: o, done: make(chan struct{})}
	sv.Start(h)
	return sv, nil
}

// NewServed is like Serve but does not start the serve loop (call Start).
func NewServed(o SessionOpts) (*Served, error) {
	c := NewConn()
	c.FeedString(o.Header())
	s, err := ReadySession(c, o)
	if err != nil {
		return nil, err
	}
	return &Served{Conn: c, Session: s, Opts: o, done: make(chan struct{})}, nil
}

// Start runs the serve loop in a new goroutine.
func (sv *Served) Start(h xmpp.Handler) {
	go func() {
		defer close(sv.done)
		defer func() {
			if r := recover(); r != nil {
				sv.mu.Lock()
				sv.panicked = fmt.Sprintf("panic in Serve goroutine: %v\n%s", r, debug.Stack())
				sv.mu.Unlock()
			}
		}()
		err := sv.Session.Serve(h)
		sv.mu.Lock()
		sv.serveErr = err
		sv.mu.Unlock()
	}()
}

// Feed sends bytes to the session as the peer.
func (sv *Served) Feed(s string) { sv.Conn.FeedString(s) }

// Done is closed when Serve has returned (or panicked).
func (sv *Served) Done() <-chan struct{} { return sv.done }

// Wait waits for Serve to return; false on timeout.
func (sv *Served) Wait(d time.Duration) bool {
	select {
	case <-sv.done:
		return true
	case <-time.After(d):
		return false
	}
}

// Err is Serve's return value (valid after Done).
func (sv *Served) Err() error {
	sv.mu.Lock()
	defer sv.mu.Unlock()
	return sv.serveErr
}

// Panic describes a recovered panic of the serve goroutine ("" if none).
func (sv *Served) Panic() string {
	sv.mu.Lock()
	defer sv.mu.Unlock()
	return sv.panicked
}

// Items parses everything the session has written so far.
func (sv *Served) Items() ([]Item, error) {
	items, _, err := ParseStream(sv.Conn.Output(), false, sv.Opts.NS())
	return items, err
}

// WaitElements waits until at least n complete top-level elements have been
// written (or the timeout passes) and returns all elements written so far.
func (sv *Served) WaitElements(n int, d time.Duration) []*xt.Node {
	sv.Conn.WaitOutput(func(b []byte) bool {
		items, _, _ := ParseStream(b, false, sv.Opts.NS())
		return len(Elements(items)) >= n
	}, d)
	items, _ := sv.Items()
	return Elements(items)
}

// WaitFor waits until pred holds for the elements written so far.
func (sv *Served) WaitFor(pred func([]*xt.Node) bool, d time.Duration) bool {
	return sv.Conn.WaitOutput(func(b []byte) bool {
		items, _, _ := ParseStream(b, false, sv.Opts.NS())
		return pred(Elements(items))
	}, d)
}

// Shutdown ends the session as the peer (closing tag, then EOF) and waits for
// Serve to return.
func (sv *Served) Shutdown(d time.Duration) bool {
	sv.Conn.FeedString("</stream:stream>")
	sv.Conn.CloseInput()
	return sv.Wait(d)
}

// Blocked returns the stacks of goroutines that are parked in a channel, select
// or mutex operation with a mellium.im/xmpp (non-harness) frame on the stack —
// the only basis on which a stall is ever reported (DESIGN §0.7).
func Blocked() []string { return BlockedMatching("") }

// BlockedMatching is Blocked restricted to goroutines whose stack contains
// the given substring (e.g. "handleInputStream" for the serve loop).
func BlockedMatching(substr string) []string {
	buf := make([]byte, 1<<20)
	n := runtime.Stack(buf, true)
	var out []string
	for _, g := range strings.Split(string(buf[:n]), "\n\n") {
		head := g
		if i := strings.Index(g, "\n"); i >= 0 {
			head = g[:i]
		}
		if !(strings.Contains(head, "chan send") || strings.Contains(head, "chan receive") ||
			strings.Contains(head, "select") || strings.Contains(head, "sync.Mutex.Lock") ||
			strings.Contains(head, "sync.RWMutex") || strings.Contains(head, "sync.Cond.Wait") || strings.Contains(head, "semacquire")) {
			continue
		}
		// a goroutine whose innermost frame (below runtime/sync) is the harness
		// transport is waiting for the peer's next bytes, not stuck in the library
		idle := false
		for _, line := range strings.Split(g, "\n")[1:] {
			if strings.HasPrefix(line, "\t") || strings.HasPrefix(line, "runtime.") || strings.HasPrefix(line, "sync.") || strings.HasPrefix(line, "internal/") || strings.HasPrefix(line, "time.") {
				continue
			}
			idle = strings.HasPrefix(line, "mellium.im/xmpp/verifharness/internal/wire.(*Conn).")
			break
		}
		if idle {
			continue
		}
		lib := false
		for _, line := range strings.Split(g, "\n") {
			if strings.HasPrefix(line, "mellium.im/xmpp") && !strings.HasPrefix(line, "mellium.im/xmpp/verifharness") {
				lib = true
				break
			}
		}
		if lib && (substr == "" || strings.Contains(g, substr)) {
			out = append(out, g)
		}
	}
	return out
}

// ServeIdle reports whether a serve loop (a goroutine with handleInputStream on
// its stack) is parked in the harness transport's Read, that is, waiting for
// the peer's next bytes.  Together with Conn.PendingInput() == 0 this means the
// library has consumed everything the peer sent.
func ServeIdle() bool {
	buf := make([]byte, 1<<20)
	n := runtime.Stack(buf, true)
	for _, g := range strings.Split(string(buf[:n]), "\n\n") {
		if !strings.Contains(g, "handleInputStream") {
			continue
		}
		for _, line := range strings.Split(g, "\n")[1:] {
			if strings.HasPrefix(line, "\t") || strings.HasPrefix(line, "runtime.") || strings.HasPrefix(line, "sync.") || strings.HasPrefix(line, "internal/") || strings.HasPrefix(line, "time.") {
				continue
			}
			if strings.HasPrefix(line, "mellium.im/xmpp/verifharness/internal/wire.(*Conn).Read") {
				return true
			}
			break
		}
	}
	return false
}
