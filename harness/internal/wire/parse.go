package wire

import (
	"bytes"
	"encoding/xml"
	"fmt"
	"io"
	"strings"
	"unicode/utf8"

	"mellium.im/xmpp/verifharness/internal/xt"
)

// Item is one top-level construct of a captured stream.
type Item struct {
	Kind  string   // "decl", "open", "element", "close", "text", "other"
	Node  *xt.Node // element (Kind element) or the start element (Kind open)
	Start int      // byte offset in the parsed buffer
	End   int
	Raw   []byte
}

// StreamNS is the namespace of stream-level elements.
const StreamNS = "http://etherx.jabber.org/streams"

// ParseStream parses captured output that begins at a stream boundary:
// optional XML declaration, a stream open tag (TCP framing; absent when
// haveOpen is false, in which case defaultNS and the stream prefix are taken
// as already in scope), then top-level elements, then possibly the closing
// tag.  Parsing stops without error at the first incomplete construct;
// rest is the offset of the unparsed tail.  An error means the bytes are not
// well-formed.
func ParseStream(b []byte, haveOpen bool, defaultNS string) (items []Item, rest int, err error) {
	prefix := ""
	if !haveOpen {
		prefix = `<stream:stream xmlns='` + defaultNS + `' xmlns:stream='` + StreamNS + `'>`
	}
	// output captured in the middle of a multi-byte character is incomplete,
	// not malformed
	for cut := 1; cut <= 3 && cut <= len(b); cut++ {
		if c := b[len(b)-cut]; c >= 0xC0 {
			if !utf8.FullRune(b[len(b)-cut:]) {
				b = b[:len(b)-cut]
			}
			break
		} else if c < 0x80 {
			break
		}
	}
	full := append([]byte(prefix), b...)
	d := xml.NewDecoder(bytes.NewReader(full))
	off := func() int { return int(d.InputOffset()) - len(prefix) }
	if !haveOpen {
		if _, err := d.Token(); err != nil {
			return nil, 0, err
		}
	}
	depth := 0
	if !haveOpen {
		depth = 1
	}
	rest = 0
	for {
		startOff := off()
		tok, terr := d.Token()
		if terr != nil {
			if terr == io.EOF {
				return items, rest, nil
			}
			if se, ok := terr.(*xml.SyntaxError); ok && strings.Contains(se.Msg, "unexpected EOF") {
				return items, rest, nil
			}
			return items, rest, terr
		}
		switch t := tok.(type) {
		case xml.ProcInst:
			items = append(items, Item{Kind: "decl", Start: startOff, End: off(), Raw: b[max0(startOff):off()]})
			rest = off()
		case xml.CharData:
			if len(bytes.TrimSpace(t)) != 0 {
				items = append(items, Item{Kind: "text", Start: startOff, End: off(), Raw: append([]byte(nil), t...)})
			}
			rest = off()
		case xml.StartElement:
			if depth == 0 {
				c := t.Copy()
				items = append(items, Item{Kind: "open", Node: &xt.Node{Name: c.Name, Attr: c.Attr}, Start: startOff, End: off(), Raw: b[max0(startOff):off()]})
				depth = 1
				rest = off()
				continue
			}
			c := t.Copy()
			n, ferr := xt.FromReader(d, &c)
			if ferr != nil {
				if ferr == io.EOF {
					return items, rest, nil
				}
				if se, ok := ferr.(*xml.SyntaxError); ok && strings.Contains(se.Msg, "unexpected EOF") {
					return items, rest, nil
				}
				return items, rest, ferr
			}
			items = append(items, Item{Kind: "element", Node: n, Start: startOff, End: off(), Raw: b[max0(startOff):off()]})
			rest = off()
		case xml.EndElement:
			items = append(items, Item{Kind: "close", Start: startOff, End: off(), Raw: b[max0(startOff):off()]})
			rest = off()
			depth--
			if depth == 0 {
				// anything after the closing tag is reported as one "other" item
				if rest < len(b) {
					items = append(items, Item{Kind: "other", Start: rest, End: len(b), Raw: b[rest:]})
				}
				return items, len(b), nil
			}
		default:
			items = append(items, Item{Kind: "other", Start: startOff, End: off(), Raw: b[max0(startOff):off()]})
			rest = off()
		}
	}
}

func max0(i int) int {
	if i < 0 {
		return 0
	}
	return i
}

// Elements returns the element nodes of items.
func Elements(items []Item) []*xt.Node {
	var out []*xt.Node
	for _, it := range items {
		if it.Kind == "element" {
			out = append(out, it.Node)
		}
	}
	return out
}

// Describe renders items compactly for failure messages.
func Describe(items []Item) string {
	var sb strings.Builder
	for i, it := range items {
		if i > 0 {
			sb.WriteString("\n")
		}
		switch it.Kind {
		case "element", "open":
			fmt.Fprintf(&sb, "  [%s] %s", it.Kind, it.Node.Canon())
		default:
			fmt.Fprintf(&sb, "  [%s] %q", it.Kind, it.Raw)
		}
	}
	return sb.String()
}
