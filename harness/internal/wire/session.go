package wire

import (
	"context"
	"encoding/xml"
	"fmt"
	"io"

	"mellium.im/xmpp"
	"mellium.im/xmpp/internal/wskey"
	"mellium.im/xmpp/jid"
	"mellium.im/xmpp/stanza"
	"mellium.im/xmpp/stream"
)

// SessionOpts describes a ready-made session (no feature negotiation runs).
type SessionOpts struct {
	State xmpp.SessionState // extra state bits (Received, S2S, Secure, Authn …)
	Local jid.JID           // our address (default test@example.net)
	// Origin, when set, is the address the session is created with; the harness
	// negotiator then changes the local address to Local with UpdateAddr, as
	// resource binding does when the server assigns an address
	Origin   jid.JID
	Remote   jid.JID // peer address (default example.net)
	WS       bool    // WebSocket framing
	NoHeader bool    // do not feed/consume a stream header
}

// Header returns the stream header the harness feeds as the peer for opts.
func (o SessionOpts) Header() string {
	ns := stanza.NSClient
	if o.State&xmpp.S2S != 0 {
		ns = stanza.NSServer
	}
	if o.WS {
		return `<open xmlns="urn:ietf:params:xml:ns:xmpp-framing" version="1.0" id="hdr1"/>`
	}
	return `<stream:stream xmlns="` + ns + `" xmlns:stream="` + StreamNS + `" version="1.0" id="hdr1">`
}

// NS returns the content namespace for opts.
func (o SessionOpts) NS() string {
	if o.State&xmpp.S2S != 0 {
		return stanza.NSServer
	}
	return stanza.NSClient
}

// ReadySession creates a session over rw whose negotiator only consumes the
// peer's stream header (which the caller must have fed already unless
// NoHeader) and marks the session ready.  Nothing is written to rw.
func ReadySession(rw io.ReadWriter, o SessionOpts) (*xmpp.Session, error) {
	if o.Local.Equal(jid.JID{}) {
		o.Local = jid.MustParse("test@example.net")
	}
	if o.Remote.Equal(jid.JID{}) {
		o.Remote = jid.MustParse("example.net")
	}
	ctx := context.Background()
	if o.WS {
		ctx = context.WithValue(ctx, wskey.Key{}, struct{}{})
	}
	neg := func(ctx context.Context, in, out *stream.Info, s *xmpp.Session, data interface{}) (xmpp.SessionState, io.ReadWriter, interface{}, error) {
		if !o.NoHeader {
			rc := s.TokenReader()
			tok, err := rc.Token()
			if err == nil && o.WS {
				// <open/> is a complete element: pop its end too
				_, err = rc.Token()
			}
			rc.Close()
			if err != nil {
				return 0, nil, nil, fmt.Errorf("harness: reading header: %w", err)
			}
			if se, ok := tok.(xml.StartElement); ok {
				in.Name = se.Name
				out.Name = se.Name
			}
		}
		if !o.Origin.Equal(jid.JID{}) {
			s.UpdateAddr(o.Local)
		}
		in.XMLNS = o.NS()
		out.XMLNS = o.NS()
		in.Version = stream.DefaultVersion
		out.Version = stream.DefaultVersion
		return o.State | xmpp.Ready, nil, nil, nil
	}
	created := o.Local
	if !o.Origin.Equal(jid.JID{}) {
		created = o.Origin
	}
	if o.State&xmpp.Received != 0 {
		// location/origin are stored swapped for received sessions by
		// negotiateSession: LocalAddr() = in.To = location
		return xmpp.NewSession(ctx, created, o.Remote, rw, o.State, neg)
	}
	return xmpp.NewSession(ctx, o.Remote, created, rw, o.State, neg)
}
