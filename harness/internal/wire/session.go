package wire

import (
	"context"
	"encoding/xml"
	"fmt"
	"io"
	"strings"

	"mellium.im/xmlstream"
	"mellium.im/xmpp"
	"mellium.im/xmpp/internal/wskey"
	"mellium.im/xmpp/jid"
	"mellium.im/xmpp/stanza"
	"mellium.im/xmpp/stream"
	"mellium.im/xmpp/websocket"
)

// SessionOpts describes a ready-made session (no feature negotiation runs).
type SessionOpts struct {
	State xmpp.SessionState // extra state bits (Received, S2S, Secure, Authn …)
	Local jid.JID           // our address (default test@example.net)
	// Origin, when set, is the address the session is created with; the harness
	// negotiator then changes the local address to Local with UpdateAddr, as
	// resource binding does when the server assigns an address
	Origin jid.JID
	Remote jid.JID // peer address (default example.net)
	WS     bool    // WebSocket framing
	// Negotiated, when "initiated" or "received", establishes the session through
	// the library's own default negotiator (xmpp.NewNegotiator) instead of a
	// ready-made one: the peer's header and features / feature selection are fed
	// by Header(), the only feature is a harness double that sets the ready bit,
	// and everything the library writes while negotiating is discarded from the
	// Conn's output afterwards.  The addresses are then learned the way real
	// sessions learn them (a received session takes its own address from the
	// "to" of the peer's header).  With WS the websocket package's negotiator
	// is used.
	Negotiated string
	NoHeader   bool // do not feed/consume a stream header
	// Layered: the ready-made negotiator first hands the library a plain
	// io.ReadWriter wrapped around the Conn (as a compression-like feature
	// would), so that the session runs over the library's own connection
	// wrapper on top of a net.Conn
	Layered bool
	// LayeredFinal: the single step of the ready-made negotiator both completes
	// the session and hands the library a plain io.ReadWriter around the
	// connection (a custom negotiator that wraps the connection and is done).
	LayeredFinal bool
	// ContentNS, when set, is the content namespace of the ready-made session
	// (e.g. jabber:component:accept, the namespace of external components)
	// instead of jabber:client / jabber:server.  Not combined with Negotiated.
	ContentNS string
	// TeeIn / TeeOut: the XML console of a Negotiated session
	// (StreamConfig.TeeIn / TeeOut)
	TeeIn, TeeOut io.Writer
}

// Header returns the stream header the harness feeds as the peer for opts.
func (o SessionOpts) Header() string {
	ns := o.NS()
	if o.WS && o.Negotiated == "" {
		return `<open xmlns="urn:ietf:params:xml:ns:xmpp-framing" version="1.0" id="hdr1"/>`
	}
	local, remote := o.Local, o.Remote
	if local.Equal(jid.JID{}) {
		local = jid.MustParse("test@example.net")
	}
	if remote.Equal(jid.JID{}) {
		remote = jid.MustParse("example.net")
	}
	esc := func(v string) string {
		var sb strings.Builder
		_ = xml.EscapeText(&sb, []byte(v))
		return sb.String()
	}
	if o.WS {
		switch o.Negotiated {
		case "received":
			return `<open xmlns="` + WSNS + `" version="1.0" to="` + esc(local.String()) + `"/>` + `<rdy xmlns="` + ReadyNS + `"/>`
		case "initiated":
			return `<open xmlns="` + WSNS + `" version="1.0" id="hdr1" from="` + esc(remote.String()) + `" to="` + esc(local.String()) + `"/>` +
				`<features xmlns="` + StreamNS + `"><rdy xmlns="` + ReadyNS + `"/></features>`
		}
	}
	switch o.Negotiated {
	case "received":
		// the initiating peer: header naming us, then the selection of the double
		return `<stream:stream xmlns="` + ns + `" xmlns:stream="` + StreamNS + `" version="1.0" to="` + esc(local.String()) + `">` + `<rdy xmlns="` + ReadyNS + `"/>`
	case "initiated":
		return `<stream:stream xmlns="` + ns + `" xmlns:stream="` + StreamNS + `" version="1.0" id="hdr1" from="` + esc(remote.String()) + `" to="` + esc(local.String()) + `">` +
			`<stream:features><rdy xmlns="` + ReadyNS + `"/></stream:features>`
	}
	return `<stream:stream xmlns="` + ns + `" xmlns:stream="` + StreamNS + `" version="1.0" id="hdr1">`
}

// NS returns the content namespace for opts.
func (o SessionOpts) NS() string {
	if o.ContentNS != "" {
		return o.ContentNS
	}
	if o.State&xmpp.S2S != 0 {
		return stanza.NSServer
	}
	return stanza.NSClient
}

// ReadyNS is the namespace of the harness feature that sets the ready bit in
// negotiated sessions.
const ReadyNS = "urn:verif:ready"

// WSNS is the WebSocket framing namespace (RFC 7395).
const WSNS = "urn:ietf:params:xml:ns:xmpp-framing"

func readyDouble() xmpp.StreamFeature {
	return xmpp.StreamFeature{
		Name: xml.Name{Space: ReadyNS, Local: "rdy"},
		List: func(ctx context.Context, e xmlstream.TokenWriter, start xml.StartElement) (bool, error) {
			if err := e.EncodeToken(start); err != nil {
				return true, err
			}
			return true, e.EncodeToken(start.End())
		},
		Parse: func(ctx context.Context, d *xml.Decoder, start *xml.StartElement) (bool, interface{}, error) {
			return true, nil, d.Skip()
		},
		Negotiate: func(ctx context.Context, s *xmpp.Session, data interface{}) (xmpp.SessionState, io.ReadWriter, error) {
			if s.State()&xmpp.Received != 0 {
				// consume the peer's selection
				r := s.TokenReader()
				d := xml.NewTokenDecoder(r)
				tok, err := d.Token()
				if err == nil {
					if _, ok := tok.(xml.StartElement); ok {
						err = d.Skip()
					}
				}
				r.Close()
				return xmpp.Ready, nil, err
			}
			_, err := fmt.Fprint(s.Conn(), `<rdy xmlns="`+ReadyNS+`"/>`)
			return xmpp.Ready, nil, err
		},
	}
}

func negotiatedSession(rw io.ReadWriter, o SessionOpts) (*xmpp.Session, error) {
	cfg := func(*xmpp.Session, *xmpp.StreamConfig) xmpp.StreamConfig {
		return xmpp.StreamConfig{Features: []xmpp.StreamFeature{readyDouble()}, TeeIn: o.TeeIn, TeeOut: o.TeeOut}
	}
	neg := xmpp.NewNegotiator(cfg)
	if o.WS {
		neg = websocket.Negotiator(cfg)
	}
	var s *xmpp.Session
	var err error
	// (the context given to the constructor bounds the negotiation; it ends as
	// soon as the constructor has returned, as with the usual
	// "ctx, cancel := context.WithTimeout(...); defer cancel()")
	nctx, ncancel := context.WithCancel(context.Background())
	if o.Negotiated == "received" {
		s, err = xmpp.ReceiveSession(nctx, rw, o.State, neg)
	} else {
		s, err = xmpp.NewSession(nctx, o.Remote, o.Local, rw, o.State, neg)
	}
	ncancel()
	if err != nil {
		return nil, fmt.Errorf("harness: negotiating (%s): %w", o.Negotiated, err)
	}
	if c, ok := rw.(*Conn); ok {
		c.DiscardOutput()
	}
	return s, nil
}

// ReadySession creates a session over rw whose negotiator only consumes the
// peer's stream header (which the caller must have fed already unless
// NoHeader) and marks the session ready.  Nothing is written to rw.
func ReadySession(rw io.ReadWriter, o SessionOpts) (*xmpp.Session, error) {
	if o.Local.Equal(jid.JID{}) {
		o.Local = jid.MustParse("test@example.net")
	}
	if o.Remote.Equal(jid.JID{}) {
		o.Remote = jid.MustParse("example.net")
	}
	if o.Negotiated != "" {
		return negotiatedSession(rw, o)
	}
	// the context bounds the negotiation only: it has ended by the time the
	// caller gets the session
	ctx, cancelNegotiation := context.WithCancel(context.Background())
	defer cancelNegotiation()
	if o.WS {
		ctx = context.WithValue(ctx, wskey.Key{}, struct{}{})
	}
	negCalls := 0
	neg := func(ctx context.Context, in, out *stream.Info, s *xmpp.Session, data interface{}) (xmpp.SessionState, io.ReadWriter, interface{}, error) {
		negCalls++
		if c, ok := rw.(*Conn); ok && o.Layered && negCalls == 1 {
			return 0, RW{C: c}, nil, nil
		}
		if !o.NoHeader {
			rc := s.TokenReader()
			tok, err := rc.Token()
			if err == nil && o.WS {
				// <open/> is a complete element: pop its end too
				_, err = rc.Token()
			}
			rc.Close()
			if err != nil {
				return 0, nil, nil, fmt.Errorf("harness: reading header: %w", err)
			}
			if se, ok := tok.(xml.StartElement); ok {
				in.Name = se.Name
				out.Name = se.Name
			}
		}
		if !o.Origin.Equal(jid.JID{}) {
			s.UpdateAddr(o.Local)
		}
		in.XMLNS = o.NS()
		out.XMLNS = o.NS()
		in.Version = stream.DefaultVersion
		out.Version = stream.DefaultVersion
		if c, ok := rw.(*Conn); ok && o.LayeredFinal {
			return o.State | xmpp.Ready, RW{C: c}, nil, nil
		}
		return o.State | xmpp.Ready, nil, nil, nil
	}
	created := o.Local
	if !o.Origin.Equal(jid.JID{}) {
		created = o.Origin
	}
	if o.State&xmpp.Received != 0 {
		// location/origin are stored swapped for received sessions by
		// negotiateSession: LocalAddr() = in.To = location
		return xmpp.NewSession(ctx, created, o.Remote, rw, o.State, neg)
	}
	return xmpp.NewSession(ctx, o.Remote, created, rw, o.State, neg)
}
