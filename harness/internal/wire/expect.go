package wire

import (
	"encoding/xml"

	"mellium.im/xmpp/verifharness/internal/xt"
)

// AnyID is the placeholder used when the library must generate a stanza id.
const AnyID = "\x00generated-id\x00"

func isStanzaName(n xml.Name) bool {
	if n.Local != "iq" && n.Local != "message" && n.Local != "presence" {
		return false
	}
	return n.Space == "" || n.Space == "jabber:client" || n.Space == "jabber:server"
}

// ExpectTopLevel is the reference for what a transmitted element must look
// like on the wire (property C05): nothing is altered except that top-level
// stanzas get the stream's content namespace when they have none, a non-empty
// id (AnyID when one must be generated), and on server-to-server streams
// (s2sFrom != "") a from address when none was given.  Empty id/from
// attributes count as absent.  The argument is not modified.
func ExpectTopLevel(n *xt.Node, contentNS, s2sFrom string) *xt.Node {
	e := n.Clone()
	if !isStanzaName(e.Name) {
		inheritNS(e, contentNS)
		return e
	}
	if e.Name.Space == "" {
		e.Name.Space = contentNS
	}
	var attrs []xml.Attr
	hasID, hasFrom := false, false
	for _, a := range e.Attr {
		switch {
		case a.Name.Space != "":
			// an attribute in some namespace (x:id, x:from) is not the stanza's
			// own id or sender: kept as it is
		case a.Name.Local == "id":
			if a.Value == "" {
				continue
			}
			hasID = true
		case a.Name.Local == "from":
			if a.Value == "" {
				continue
			}
			hasFrom = true
		}
		attrs = append(attrs, a)
	}
	if !hasFrom && s2sFrom != "" {
		attrs = append(attrs, xt.A("from", s2sFrom))
	}
	if !hasID {
		attrs = append(attrs, xt.A("id", AnyID))
	}
	e.Attr = attrs
	inheritNS(e, contentNS)
	return e
}

// inheritNS resolves elements written without a namespace: the encoder
// serialises them without an xmlns declaration, so on the wire they are in the
// namespace in scope (the parent's; the stream's content namespace at top
// level).
func inheritNS(n *xt.Node, scope string) {
	if n.IsText() {
		return
	}
	if n.Name.Space == "" {
		n.Name.Space = scope
		// an explicit declaration on the element itself wins
		for _, a := range n.Attr {
			if a.Name.Space == "" && a.Name.Local == "xmlns" {
				n.Name.Space = a.Value
			}
		}
	}
	for _, c := range n.Children {
		inheritNS(c, n.Name.Space)
	}
}

// SameElement compares an observed element with an expectation that may
// contain the AnyID placeholder.
func SameElement(got, want *xt.Node) bool {
	w := want
	if id, ok := want.Get("id"); ok && id == AnyID {
		gid, gok := got.Get("id")
		if !gok || gid == "" {
			return false
		}
		w = want.Clone()
		for i := range w.Attr {
			if w.Attr[i].Name.Local == "id" && w.Attr[i].Name.Space == "" {
				w.Attr[i].Value = gid
			}
		}
	}
	return got.Canon() == w.Canon()
}
