// Package wire contains the transports and peers the harness puts under a
// session: every byte the library reads or writes passes through harness code.
package wire

import (
	"errors"
	"io"
	"net"
	"os"
	"sync"
	"time"
)

// Conn is an in-memory net.Conn whose far end is the harness.  Bytes written
// by the library are captured; bytes for the library are fed explicitly.  It
// supports deadlines like net.Pipe and can fail or hold individual operations.
type Conn struct {
	mu   sync.Mutex
	cond *sync.Cond

	in       []byte
	inEOF    bool
	inErr    error
	out      []byte
	writeEnd []int // cumulative output length after each Write call
	closed   bool
	writeErr error

	rdl, wdl time.Time

	nWdl         int // SetWriteDeadline calls
	wExpired     int // SetWriteDeadline calls with a time that has already passed
	rtimer       *time.Timer
	wtimer       *time.Timer
	nRead, nWrit int

	// BeforeWrite, when set, is called (without the lock) before the bytes of
	// a Write are appended; returning an error fails the write.  It may block
	// to hold the writer inside Write.
	BeforeWrite func(n int, p []byte) error
	// AfterWrite runs once the bytes of Write number n have been handed on (the
	// peer sees them); a non-nil result is returned by that Write together with
	// the full length.  It is called with the lock held and must not call Conn
	// methods.
	AfterWrite func(n int, p []byte) error
	// StallWritesFrom, when >= 0, makes write operation number n >= that value
	// block like a connection whose peer has stopped reading (full send
	// window): until the write deadline passes (timeout error) or the
	// connection is closed.  Nothing of such a write reaches the peer.
	StallWritesFrom int
	// HoldAfterWrite, when set, is called (without the lock) once the bytes of
	// Write number n are visible to the peer and before Write returns; it may
	// block (the writer is held inside Write while the peer already reacts to
	// what was written) and a non-nil result is returned by that Write together
	// with the full length.
	HoldAfterWrite func(n int, p []byte) error
	// BeforeRead, when set, is called (without the lock) at entry of each Read
	// with the index of the operation; returning an error fails the read.
	BeforeRead func(n int) error
	// OnIdleRead is called (without the lock) when a Read finds no input; it
	// may Feed more.  Returning false means "nothing more to say right now".
	OnIdleRead func() bool
	// WithData, when set, is called (with the lock held; it must not call back)
	// when read operation number n is about to deliver k > 0 bytes; a non-nil
	// result is returned together with the data (io.Reader allows both at once).
	WithData func(n, k int) error
}

// NewConn returns an open connection with no input.
func NewConn() *Conn {
	c := &Conn{StallWritesFrom: -1}
	c.cond = sync.NewCond(&c.mu)
	return c
}

type timeoutErr struct{}

func (timeoutErr) Error() string   { return "i/o timeout" }
func (timeoutErr) Timeout() bool   { return true }
func (timeoutErr) Temporary() bool { return true }
func (timeoutErr) Unwrap() error   { return os.ErrDeadlineExceeded }

// Feed makes b available to the library's reads.
func (c *Conn) Feed(b []byte) {
	c.mu.Lock()
	c.in = append(c.in, b...)
	c.mu.Unlock()
	c.cond.Broadcast()
}

// FeedString is Feed for strings.
func (c *Conn) FeedString(s string) { c.Feed([]byte(s)) }

// CloseInput makes reads return io.EOF once the fed bytes are drained.
func (c *Conn) CloseInput() {
	c.mu.Lock()
	c.inEOF = true
	c.mu.Unlock()
	c.cond.Broadcast()
}

// FailInput makes reads return err once the fed bytes are drained.
func (c *Conn) FailInput(err error) {
	c.mu.Lock()
	c.inErr = err
	c.mu.Unlock()
	c.cond.Broadcast()
}

// PendingInput is the number of fed bytes not yet read.
func (c *Conn) PendingInput() int {
	c.mu.Lock()
	defer c.mu.Unlock()
	return len(c.in)
}

// Output returns a copy of everything written so far.
func (c *Conn) Output() []byte {
	c.mu.Lock()
	defer c.mu.Unlock()
	return append([]byte(nil), c.out...)
}

// DiscardOutput forgets everything written so far (used to drop what a
// negotiation wrote before the part of the session under test begins).
func (c *Conn) DiscardOutput() {
	c.mu.Lock()
	c.out = nil
	c.writeEnd = nil
	c.mu.Unlock()
}

// OutputLen is len(Output()).
func (c *Conn) OutputLen() int {
	c.mu.Lock()
	defer c.mu.Unlock()
	return len(c.out)
}

// WriteEnds returns the cumulative output length after each Write call.
func (c *Conn) WriteEnds() []int {
	c.mu.Lock()
	defer c.mu.Unlock()
	return append([]int(nil), c.writeEnd...)
}

// Ops returns the number of Read and Write calls so far.
func (c *Conn) Ops() (reads, writes int) {
	c.mu.Lock()
	defer c.mu.Unlock()
	return c.nRead, c.nWrit
}

// waitFor blocks until pred (evaluated with the lock held) is true, the
// timeout passes or stop is closed.
func (c *Conn) waitFor(pred func() bool, timeout time.Duration, stop <-chan struct{}) bool {
	deadline := time.Now().Add(timeout)
	quit := make(chan struct{})
	defer close(quit)
	go func() {
		t := time.NewTicker(2 * time.Millisecond)
		defer t.Stop()
		for {
			select {
			case <-t.C:
				c.cond.Broadcast()
			case <-quit:
				return
			}
		}
	}()
	c.mu.Lock()
	defer c.mu.Unlock()
	for {
		if pred() {
			return true
		}
		if !time.Now().Before(deadline) || c.closed {
			return false
		}
		if stop != nil {
			select {
			case <-stop:
				return pred()
			default:
			}
		}
		c.cond.Wait()
	}
}

// WaitOutput blocks until pred(output) holds or the timeout passes.
func (c *Conn) WaitOutput(pred func([]byte) bool, timeout time.Duration) bool {
	return c.waitFor(func() bool { return pred(c.out) }, timeout, nil)
}

// WaitDrained blocks until all fed input has been read (or timeout).
func (c *Conn) WaitDrained(timeout time.Duration) bool {
	return c.waitFor(func() bool { return len(c.in) == 0 }, timeout, nil)
}

// WaitDrainedOr is WaitDrained that also gives up when stop is closed.
func (c *Conn) WaitDrainedOr(stop <-chan struct{}, timeout time.Duration) bool {
	return c.waitFor(func() bool { return len(c.in) == 0 }, timeout, stop)
}

func (c *Conn) Read(p []byte) (int, error) {
	c.mu.Lock()
	n := c.nRead
	c.nRead++
	br := c.BeforeRead
	c.mu.Unlock()
	if br != nil {
		if err := br(n); err != nil {
			return 0, err
		}
	}
	if len(p) == 0 {
		return 0, nil
	}
	c.mu.Lock()
	defer c.mu.Unlock()
	for {
		if c.closed {
			return 0, io.ErrClosedPipe
		}
		// like a net.Conn: an expired deadline fails the operation even if data
		// is available
		if !c.rdl.IsZero() && !time.Now().Before(c.rdl) {
			return 0, timeoutErr{}
		}
		if len(c.in) > 0 {
			k := copy(p, c.in)
			c.in = c.in[k:]
			c.cond.Broadcast()
			if wd := c.WithData; wd != nil {
				return k, wd(n, k)
			}
			return k, nil
		}
		if c.inErr != nil {
			return 0, c.inErr
		}
		if c.inEOF {
			return 0, io.EOF
		}
		if !c.rdl.IsZero() && !time.Now().Before(c.rdl) {
			return 0, timeoutErr{}
		}
		if idle := c.OnIdleRead; idle != nil {
			c.mu.Unlock()
			more := idle()
			c.mu.Lock()
			if more {
				continue
			}
			if len(c.in) > 0 || c.inEOF || c.inErr != nil || c.closed {
				continue
			}
		}
		c.cond.Wait()
	}
}

func (c *Conn) Write(p []byte) (int, error) {
	c.mu.Lock()
	n := c.nWrit
	c.nWrit++
	bw := c.BeforeWrite
	c.mu.Unlock()
	if bw != nil {
		if err := bw(n, p); err != nil {
			return 0, err
		}
	}
	k, err := c.write(n, p)
	if err == nil {
		c.mu.Lock()
		hw := c.HoldAfterWrite
		c.mu.Unlock()
		if hw != nil {
			err = hw(n, p)
		}
	}
	return k, err
}

func (c *Conn) write(n int, p []byte) (int, error) {
	c.mu.Lock()
	defer c.mu.Unlock()
	// (a blocked write is woken by a write deadline that expires while it
	// waits, however briefly that deadline stays in force - as on a socket)
	for gen := c.wExpired; c.StallWritesFrom >= 0 && n >= c.StallWritesFrom; {
		if c.closed {
			return 0, io.ErrClosedPipe
		}
		if c.wExpired != gen || (!c.wdl.IsZero() && !time.Now().Before(c.wdl)) {
			return 0, timeoutErr{}
		}
		c.cond.Wait()
	}
	if c.closed {
		return 0, io.ErrClosedPipe
	}
	if c.writeErr != nil {
		return 0, c.writeErr
	}
	if !c.wdl.IsZero() && !time.Now().Before(c.wdl) {
		return 0, timeoutErr{}
	}
	c.out = append(c.out, p...)
	c.writeEnd = append(c.writeEnd, len(c.out))
	c.cond.Broadcast()
	if aw := c.AfterWrite; aw != nil {
		// a transport that hands the bytes on and reports a failure all the same
		if err := aw(n, p); err != nil {
			return len(p), err
		}
	}
	return len(p), nil
}

// Close closes both directions.
func (c *Conn) Close() error {
	c.mu.Lock()
	c.closed = true
	c.mu.Unlock()
	c.cond.Broadcast()
	return nil
}

// Closed reports whether Close was called.
func (c *Conn) Closed() bool {
	c.mu.Lock()
	defer c.mu.Unlock()
	return c.closed
}

type addr struct{}

func (addr) Network() string { return "verif" }
func (addr) String() string  { return "verif" }

func (c *Conn) LocalAddr() net.Addr  { return addr{} }
func (c *Conn) RemoteAddr() net.Addr { return addr{} }

func (c *Conn) SetDeadline(t time.Time) error {
	_ = c.SetReadDeadline(t)
	return c.SetWriteDeadline(t)
}

func (c *Conn) SetReadDeadline(t time.Time) error {
	c.mu.Lock()
	defer c.mu.Unlock()
	c.rdl = t
	if c.rtimer != nil {
		c.rtimer.Stop()
		c.rtimer = nil
	}
	if !t.IsZero() {
		d := time.Until(t)
		if d < 0 {
			d = 0
		}
		c.rtimer = time.AfterFunc(d, func() { c.cond.Broadcast() })
	}
	c.cond.Broadcast()
	return nil
}

func (c *Conn) SetWriteDeadline(t time.Time) error {
	c.mu.Lock()
	defer c.mu.Unlock()
	c.wdl = t
	c.nWdl++
	if !t.IsZero() && !time.Now().Before(t) {
		c.wExpired++
	}
	if c.wtimer != nil {
		c.wtimer.Stop()
		c.wtimer = nil
	}
	if !t.IsZero() {
		d := time.Until(t)
		if d < 0 {
			d = 0
		}
		c.wtimer = time.AfterFunc(d, func() { c.cond.Broadcast() })
	}
	c.cond.Broadcast()
	return nil
}

// StallFrom makes write number n and every later one block (the peer has
// stopped reading) until a write deadline expires, the connection is closed
// or Unstall is called.
func (c *Conn) StallFrom(n int) {
	c.mu.Lock()
	c.StallWritesFrom = n
	c.mu.Unlock()
}

// Unstall: the peer reads again; blocked writes complete.
func (c *Conn) Unstall() {
	c.mu.Lock()
	c.StallWritesFrom = -1
	c.mu.Unlock()
	c.cond.Broadcast()
}

// FailWrites makes every later Write fail with err (a connection whose
// sending direction broke: peer reset, half-closed socket).
func (c *Conn) FailWrites(err error) {
	c.mu.Lock()
	c.writeErr = err
	c.mu.Unlock()
}

// WriteDeadlineCalls is the number of SetWriteDeadline calls so far (SetDeadline
// counts as one).
func (c *Conn) WriteDeadlineCalls() int {
	c.mu.Lock()
	defer c.mu.Unlock()
	return c.nWdl
}

// DeadlineSet reports whether a read or write deadline is currently set.
func (c *Conn) DeadlineSet() bool {
	c.mu.Lock()
	defer c.mu.Unlock()
	return !c.rdl.IsZero() || !c.wdl.IsZero()
}

// ErrTimeout is an injected fault that looks like an expired deadline
// (a net.Error whose Timeout method reports true).
var ErrTimeout error = timeoutErr{}

// ErrInjected is the error used for injected faults.
var ErrInjected = errors.New("verif: injected transport fault")

// RW hides the net.Conn methods of a Conn, leaving a plain io.ReadWriter
// (a transport without deadline support).
type RW struct{ C *Conn }

func (r RW) Read(p []byte) (int, error)  { return r.C.Read(p) }
func (r RW) Write(p []byte) (int, error) { return r.C.Write(p) }
