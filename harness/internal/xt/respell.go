package xt

import (
	"bytes"
	"encoding/xml"
	"fmt"
	"hash/fnv"
	"io"
	"strings"
)

// Respell returns a document that denotes the same XML information as the
// well-formed document (or sequence of elements) b, with its character data
// written in other spellings XML allows: a run of text is cut in two, and each
// half becomes escaped text, a CDATA section or numeric character references,
// so that a decoder delivers several character-data tokens where the original
// gave one.  Which runs are touched and how is a pure function of b and salt.
// Text outside elements (between top-level elements) and everything that is
// not character data is copied byte for byte.  If b does not parse, it is
// returned unchanged.
func Respell(b []byte, salt uint32) []byte {
	d := xml.NewDecoder(bytes.NewReader(b))
	d.Strict = true
	var out bytes.Buffer
	prev := int64(0)
	depth := 0
	n := 0
	for {
		tok, err := d.RawToken()
		if err == io.EOF {
			break
		}
		if err != nil {
			return b
		}
		end := d.InputOffset()
		raw := b[prev:end]
		prev = end
		switch t := tok.(type) {
		case xml.StartElement:
			depth++
		case xml.EndElement:
			depth--
		case xml.CharData:
			n++
			h := fnv.New32a()
			_, _ = h.Write(b)
			_, _ = fmt.Fprintf(h, "|%d|%d", salt, n)
			x := h.Sum32()
			if depth > 0 && x%3 != 0 {
				out.WriteString(spellRun(string(t), x/3))
				continue
			}
		}
		out.Write(raw)
	}
	return out.Bytes()
}

func spellRun(s string, x uint32) string {
	runes := []rune(s)
	at := 0
	if len(runes) > 0 {
		at = int(x % uint32(len(runes)+1))
	}
	x /= 7
	var sb strings.Builder
	for i, run := range []string{string(runes[:at]), string(runes[at:])} {
		kind := x % 3
		x /= 3
		if i == 1 {
			kind = x % 3
		}
		if kind == 1 && strings.Contains(run, "]]>") {
			kind = 0
		}
		switch kind {
		case 1:
			sb.WriteString("<![CDATA[" + run + "]]>")
		case 2:
			for _, r := range run {
				fmt.Fprintf(&sb, "&#x%X;", r)
			}
		default:
			_ = xml.EscapeText(&sb, []byte(run))
		}
	}
	return sb.String()
}
