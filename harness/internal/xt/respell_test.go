package xt

import (
	"bytes"
	"testing"
)

func TestRespell(t *testing.T) {
	docs := []string{
		`<a xmlns="urn:x">hello &amp; <b>wor]]&gt;ld</b> tail</a>`,
		`<iq type="get"> <q xmlns="y"><![CDATA[<x>]]></q>
</iq><m>é日本</m>`,
	}
	changed := 0
	for _, d := range docs {
		want, err := Parse([]byte("<r>" + d + "</r>"))
		if err != nil {
			t.Fatal(err)
		}
		for salt := uint32(0); salt < 50; salt++ {
			r := Respell([]byte(d), salt)
			got, err := Parse([]byte("<r>" + string(r) + "</r>"))
			if err != nil {
				t.Fatalf("%q: %v", r, err)
			}
			if got.Canon() != want.Canon() {
				t.Fatalf("respelled %q differs:\n%s\n%s", r, got.Canon(), want.Canon())
			}
			if !bytes.Equal(r, []byte(d)) {
				changed++
			}
		}
	}
	if changed < 50 {
		t.Fatalf("only %d of 100 respellings changed anything", changed)
	}
}
