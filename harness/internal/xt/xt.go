// Package xt is a tiny XML tree with a canonical rendering used as the
// harness's independent view of "which element is this": names are
// namespace-resolved, attributes sorted, namespace declarations dropped,
// adjacent character data merged.
package xt

import (
	"hash/fnv"
	"bytes"
	"encoding/xml"
	"fmt"
	"io"
	"sort"
	"strings"
)

// Node is an element (Name.Local != "") or character data (Text).
type Node struct {
	Name     xml.Name
	Attr     []xml.Attr
	Children []*Node
	Text     string
	// DupAttr is set by FromReader when a start element carried the same
	// attribute name twice (encoding/xml does not reject that itself).
	DupAttr bool
}

// IsText reports whether n is character data.
func (n *Node) IsText() bool { return n.Name.Local == "" }

// El builds an element.
func El(space, local string, attrs []xml.Attr, children ...*Node) *Node {
	return &Node{Name: xml.Name{Space: space, Local: local}, Attr: attrs, Children: children}
}

// Tx builds character data.
func Tx(s string) *Node { return &Node{Text: s} }

// A builds an attribute without namespace.
func A(local, value string) xml.Attr { return xml.Attr{Name: xml.Name{Local: local}, Value: value} }

func isNSDecl(a xml.Attr) bool {
	return a.Name.Space == "xmlns" || (a.Name.Space == "" && a.Name.Local == "xmlns")
}

// Canon renders the canonical form.
func (n *Node) Canon() string {
	var b strings.Builder
	n.canon(&b)
	return b.String()
}

func (n *Node) canon(b *strings.Builder) {
	if n.IsText() {
		b.WriteString(fmt.Sprintf("%q", n.Text))
		return
	}
	fmt.Fprintf(b, "<{%s}%s", n.Name.Space, n.Name.Local)
	var as []string
	for _, a := range n.Attr {
		if isNSDecl(a) {
			continue
		}
		as = append(as, fmt.Sprintf(" {%s}%s=%q", a.Name.Space, a.Name.Local, a.Value))
	}
	sort.Strings(as)
	for _, a := range as {
		b.WriteString(a)
	}
	b.WriteString(">")
	// merge adjacent text, drop empty text
	var pend string
	flush := func() {
		if pend != "" {
			fmt.Fprintf(b, "%q", pend)
			pend = ""
		}
	}
	for _, c := range n.Children {
		if c.IsText() {
			pend += c.Text
			continue
		}
		flush()
		c.canon(b)
	}
	flush()
	b.WriteString("</>")
}

// Get returns the value of the attribute with the given local name (no
// namespace) and whether it is present.
func (n *Node) Get(local string) (string, bool) {
	for _, a := range n.Attr {
		if a.Name.Space == "" && a.Name.Local == local {
			return a.Value, true
		}
	}
	return "", false
}

// Find returns the first child element with the given local name.
func (n *Node) Find(local string) *Node {
	for _, c := range n.Children {
		if !c.IsText() && c.Name.Local == local {
			return c
		}
	}
	return nil
}

// InnerText concatenates the direct character data children.
func (n *Node) InnerText() string {
	var s string
	for _, c := range n.Children {
		if c.IsText() {
			s += c.Text
		}
	}
	return s
}

// Clone deep-copies n.
func (n *Node) Clone() *Node {
	c := &Node{Name: n.Name, Text: n.Text}
	c.Attr = append([]xml.Attr(nil), n.Attr...)
	for _, ch := range n.Children {
		c.Children = append(c.Children, ch.Clone())
	}
	return c
}

// Tokens flattens n into xml tokens (attributes copied).
func (n *Node) Tokens() []xml.Token {
	var out []xml.Token
	n.tokens(&out)
	return out
}

func (n *Node) tokens(out *[]xml.Token) {
	if n.IsText() {
		*out = append(*out, xml.CharData(n.Text))
		return
	}
	start := xml.StartElement{Name: n.Name, Attr: append([]xml.Attr(nil), n.Attr...)}
	*out = append(*out, start)
	for _, c := range n.Children {
		c.tokens(out)
	}
	*out = append(*out, xml.EndElement{Name: n.Name})
}

type sliceReader struct {
	toks     []xml.Token
	i        int
	volatile bool
	last     []byte
}

// Token returns a copy of the next token.  When the reader is volatile the
// bytes of a character-data token are only valid until the next call, as with
// an *xml.Decoder (they are overwritten then): code that keeps tokens must copy
// them.
func (r *sliceReader) Token() (xml.Token, error) {
	for k := range r.last {
		r.last[k] = '#'
	}
	r.last = nil
	if r.i >= len(r.toks) {
		return nil, io.EOF
	}
	t := r.toks[r.i]
	r.i++
	if cd, ok := t.(xml.CharData); ok && r.volatile {
		r.last = append([]byte(nil), cd...)
		return xml.CharData(r.last), nil
	}
	return xml.CopyToken(t), nil
}

// volatileFor decides from the tokens themselves (so that a case is
// reproducible) whether their reader gets a decoder's buffer discipline:
// about one in two.
func volatileFor(toks []xml.Token) bool {
	h := fnv.New32a()
	for _, t := range toks {
		fmt.Fprintf(h, "%v|", t)
	}
	return h.Sum32()%2 == 0
}

// rawReader hands out the stored tokens themselves (no copies), as a reader an
// application writes over tokens it keeps does.
type rawReader struct {
	toks []xml.Token
	i    int
}

func (r *rawReader) Token() (xml.Token, error) {
	if r.i >= len(r.toks) {
		return nil, io.EOF
	}
	r.i++
	return r.toks[r.i-1], nil
}

// RawTokenReader returns a reader that yields the tokens of t as they are: the
// attribute slices of the start elements it returns are the ones in t.
func RawTokenReader(t []xml.Token) xml.TokenReader { return &rawReader{toks: t} }

// Reader returns a fresh xml.TokenReader over the element.
func (n *Node) Reader() xml.TokenReader {
	t := n.Tokens()
	return &sliceReader{toks: t, volatile: volatileFor(t)}
}

// InnerReader returns a token reader over the children only.
func (n *Node) InnerReader() xml.TokenReader {
	t := n.Tokens()
	if len(t) >= 2 {
		t = t[1 : len(t)-1]
	}
	return &sliceReader{toks: t, volatile: volatileFor(t)}
}

// TokenSliceReader reads from a token slice.
func TokenSliceReader(t []xml.Token) xml.TokenReader {
	return &sliceReader{toks: t, volatile: volatileFor(t)}
}

// Bytes serialises n with explicit namespace declarations on every element
// whose namespace differs from its parent's (parentNS is the namespace in
// scope).  Attribute namespaces other than "xml" are not supported.
func (n *Node) Bytes(parentNS string) []byte {
	var b bytes.Buffer
	n.write(&b, parentNS)
	return b.Bytes()
}

// Raw builds a node that serialises as the given bytes verbatim (used to
// embed stream-level constructs or malformed XML inside generated input).
func Raw(s string) *Node { return &Node{Name: xml.Name{Space: "#", Local: "raw"}, Text: s} }

// IsRaw reports whether n is a Raw node.
func (n *Node) IsRaw() bool { return n.Name.Space == "#" && n.Name.Local == "raw" }

// TokensBeforeRaw returns the tokens of n in document order up to the first
// Raw node (exclusive) and whether a Raw node was found.
func (n *Node) TokensBeforeRaw() ([]xml.Token, bool) {
	var out []xml.Token
	found := n.tokensBeforeRaw(&out)
	return out, found
}

func (n *Node) tokensBeforeRaw(out *[]xml.Token) bool {
	if n.IsRaw() {
		return true
	}
	if n.IsText() {
		*out = append(*out, xml.CharData(n.Text))
		return false
	}
	*out = append(*out, xml.StartElement{Name: n.Name, Attr: append([]xml.Attr(nil), n.Attr...)})
	for _, c := range n.Children {
		if c.tokensBeforeRaw(out) {
			return true
		}
	}
	*out = append(*out, xml.EndElement{Name: n.Name})
	return false
}

func (n *Node) write(b *bytes.Buffer, parentNS string) {
	if n.IsRaw() {
		b.WriteString(n.Text)
		return
	}
	if n.IsText() {
		_ = xml.EscapeText(b, []byte(n.Text))
		return
	}
	b.WriteString("<" + n.Name.Local)
	if n.Name.Space != parentNS {
		b.WriteString(` xmlns="`)
		_ = xml.EscapeText(b, []byte(n.Name.Space))
		b.WriteString(`"`)
	}
	for i, a := range n.Attr {
		if isNSDecl(a) {
			continue
		}
		name := a.Name.Local
		if a.Name.Space == "xml" || a.Name.Space == "http://www.w3.org/XML/1998/namespace" {
			name = "xml:" + name
		} else if a.Name.Space != "" {
			// an attribute in some other namespace: declare a prefix for it
			pfx := fmt.Sprintf("xa%d", i)
			b.WriteString(" xmlns:" + pfx + `="`)
			_ = xml.EscapeText(b, []byte(a.Name.Space))
			b.WriteString(`"`)
			name = pfx + ":" + name
		}
		b.WriteString(" " + name + `="`)
		_ = xml.EscapeText(b, []byte(a.Value))
		b.WriteString(`"`)
	}
	if len(n.Children) == 0 {
		b.WriteString("/>")
		return
	}
	b.WriteString(">")
	for _, c := range n.Children {
		c.write(b, n.Name.Space)
	}
	b.WriteString("</" + n.Name.Local + ">")
}

// FromReader builds the tree of the next element read from r (start is the
// already-consumed start element when non-nil).
func FromReader(r xml.TokenReader, start *xml.StartElement) (*Node, error) {
	if start == nil {
		for {
			tok, err := r.Token()
			if err != nil {
				return nil, err
			}
			if s, ok := tok.(xml.StartElement); ok {
				s = s.Copy()
				start = &s
				break
			}
		}
	}
	n := &Node{Name: start.Name, Attr: append([]xml.Attr(nil), start.Attr...)}
	seenAttr := map[xml.Name]bool{}
	for _, a := range start.Attr {
		if seenAttr[a.Name] {
			n.DupAttr = true
		}
		seenAttr[a.Name] = true
	}
	for {
		tok, err := r.Token()
		if err != nil {
			return n, err
		}
		switch t := tok.(type) {
		case xml.StartElement:
			t = t.Copy()
			c, err := FromReader(r, &t)
			n.Children = append(n.Children, c)
			if c != nil && c.DupAttr {
				n.DupAttr = true
			}
			if err != nil {
				return n, err
			}
		case xml.EndElement:
			return n, nil
		case xml.CharData:
			n.Children = append(n.Children, Tx(string(t)))
		case xml.Comment:
			n.Children = append(n.Children, &Node{Name: xml.Name{Space: "#", Local: "comment"}, Text: string(t)})
		case xml.ProcInst:
			n.Children = append(n.Children, &Node{Name: xml.Name{Space: "#", Local: "procinst"}, Text: t.Target})
		case xml.Directive:
			n.Children = append(n.Children, &Node{Name: xml.Name{Space: "#", Local: "directive"}, Text: string(t)})
		}
	}
}

// Parse parses one complete element from b.
func Parse(b []byte) (*Node, error) {
	d := xml.NewDecoder(bytes.NewReader(b))
	return FromReader(d, nil)
}

// CanonTokens renders a token slice canonically (used to compare what a
// handler could read with a reference token list).
func CanonTokens(toks []xml.Token) string {
	var b strings.Builder
	var pend string
	flush := func() {
		if pend != "" {
			fmt.Fprintf(&b, "%q", pend)
			pend = ""
		}
	}
	for _, tok := range toks {
		switch t := tok.(type) {
		case xml.StartElement:
			flush()
			n := Node{Name: t.Name, Attr: t.Attr}
			var sb strings.Builder
			n.canon(&sb)
			b.WriteString(strings.TrimSuffix(sb.String(), "</>"))
		case xml.EndElement:
			flush()
			b.WriteString("</>")
		case xml.CharData:
			pend += string(t)
		default:
			flush()
			fmt.Fprintf(&b, "[%T]", tok)
		}
	}
	flush()
	return b.String()
}
