package c18

// The engine: one served library session with a muc.Client, the harness as the
// scripted MUC service on the other side of wire.Conn, and the reference
// membership model.  Both the rapid property and the regression scenarios
// drive it through the same methods; every assertion lives here.

import (
	"context"
	"encoding/xml"
	"errors"
	"fmt"
	"runtime"
	"strconv"
	"strings"
	"sync"
	"time"

	"mellium.im/xmpp/jid"
	"mellium.im/xmpp/muc"
	"mellium.im/xmpp/mux"
	"mellium.im/xmpp/stanza"
	"mellium.im/xmpp/verifharness/internal/ev"
	"mellium.im/xmpp/verifharness/internal/wire"
	"mellium.im/xmpp/verifharness/internal/xt"
)

const (
	nsClient  = "jabber:client"
	nsStanzas = "urn:ietf:params:xml:ns:xmpp-stanzas"

	// probeWait: how long a call/sentinel may take before the goroutine dump is
	// consulted; inconclusiveWait: after that the case is abandoned as
	// inconclusive (never a failure).
	probeWait        = 1500 * time.Millisecond
	inconclusiveWait = 8 * time.Second

	localFull = "test@example.net/r"
)

type fataler interface {
	Helper()
	Fatalf(string, ...any)
}

type result struct {
	ch    *muc.Channel
	err   error
	panic string
}

type roomSt struct {
	idx  int
	bare jid.JID

	ch *muc.Channel // channel object the application currently holds

	// reference membership model
	joined     bool    // a join succeeded and the occupant's unavailable presence was not processed since
	unknown    bool    // a Leave was answered with an error: membership not determined (see assumptions)
	me         jid.JID // occupant address of the last successful join
	lastReq    jid.JID // occupant address of the last join request
	chAddr     jid.JID // what a plain rejoin on ch requests (address ch was created for / last joined as)
	addrAmbig  bool    // a join with a Nick option failed: what a plain rejoin requests is not determined
	everJoined bool
	everAsked  bool
	former     []jid.JID // occupant addresses ch was joined under before a nickname change

	pend *call

	// history bias (generator only, not part of the model): a Leave was
	// abandoned (its context ended before the room answered); the late
	// confirmation, a rejoin and another Leave are then made likely, because
	// leftovers of the abandoned attempt only show in that sequence
	abandonedLeave bool
	lateConfirmed  bool

	queried []bool // Joined() answers that were checked, in order

	// channel objects of this room that the application has replaced by a new
	// Client.Join; each was not joined when it was replaced and no call has been
	// made on it since, so it stays not joined whatever its successor does
	replaced []*muc.Channel
}

type call struct {
	n          int
	kind       string // join | leave
	how        string
	room       *roomSt
	req        jid.JID // join: requested occupant address; leave: occupant address being left
	nickOpt    bool
	explicitID string
	id         string // id seen on the wire
	wireTo     string
	startIdx   int
	sent       bool
	cancel     context.CancelFunc
	cancelled  bool
	decided    string // "", self, error, unavail
	wantErr    stanza.Error
	done       chan result
	finished   bool
	// leave on a channel that is not (or no longer) an occupant: clean-up after
	// a refused join, a second leave, a leave after a kick.  The presence is
	// sent all the same and only an error reply (or the context) ends the call:
	// the room has nobody to report as departed.
	notJoined bool
}

type env struct {
	garbledLobby bool // the never-joined room has sent a presence with an undecodable payload
	t            fataler
	sv           *wire.Served
	client       *muc.Client

	mu       sync.Mutex
	invites  []muc.Invitation
	userPres []string

	rooms   []*roomSt
	lobby   jid.JID
	calls   []*call
	claimed map[int]bool
	nSync   int
	nID     int

	wantInvites int
	seenUser    int

	hist    []string // detailed history (failure messages)
	canon   []string // abstract history (distinct count)
	classes map[string]bool
	foreign bool // a non-decisive presence was fed while a call was pending
	dead    bool // inconclusive: stop the case
	failed  bool
}

var roomNames = []string{"room0@conf.example.org", "r1@conf.example.org", "lounge@muc.example.com"}

func newEnv(t fataler, nRooms int) *env {
	e := &env{t: t, claimed: map[int]bool{}, classes: map[string]bool{}}
	handleInvite := func(i muc.Invitation) {
		e.mu.Lock()
		e.invites = append(e.invites, i)
		e.mu.Unlock()
	}
	handleUserPresence := func(p stanza.Presence, _ muc.Item) {
		e.mu.Lock()
		e.userPres = append(e.userPres, p.From.String())
		e.mu.Unlock()
	}
	// the callbacks are exported fields: the application may install them before
	// or after it builds its multiplexer (they often need the session or the
	// client itself), as long as that happens before serving
	lateCallbacks := nRooms%2 == 0
	e.client = &muc.Client{}
	if !lateCallbacks {
		e.client.HandleInvite, e.client.HandleUserPresence = handleInvite, handleUserPresence
	}
	var opts []mux.Option
	opts = append(opts, muc.HandleClient(e.client))
	var h *mux.ServeMux
	if p := ev.Guard(func() { h = mux.New(nsClient, opts...) }); p != "" {
		t.Fatalf("harness: mux.New: %s", p)
	}
	if lateCallbacks {
		e.client.HandleInvite, e.client.HandleUserPresence = handleInvite, handleUserPresence
		e.class("callbacks-installed-after-the-multiplexer-was-built")
	}
	sv, err := wire.Serve(wire.SessionOpts{}, h)
	if err != nil {
		t.Fatalf("harness: cannot create served session: %v", err)
	}
	e.sv = sv
	for i := 0; i < nRooms; i++ {
		e.rooms = append(e.rooms, &roomSt{idx: i, bare: jid.MustParse(roomNames[i])})
	}
	e.lobby = jid.MustParse("lobby@conf.example.org")
	return e
}

// ------------------------------------------------------------------ plumbing

func (e *env) logf(format string, args ...any) {
	e.hist = append(e.hist, fmt.Sprintf(format, args...))
}

func (e *env) can(format string, args ...any) {
	e.canon = append(e.canon, fmt.Sprintf(format, args...))
}

func (e *env) class(c string) { e.classes[c] = true }

func (e *env) history() string {
	var sb strings.Builder
	for i, h := range e.hist {
		fmt.Fprintf(&sb, "  %2d. %s\n", i+1, h)
	}
	sb.WriteString("  wire (library output):\n")
	items, _ := e.sv.Items()
	for _, n := range wire.Elements(items) {
		sb.WriteString("      " + n.Canon() + "\n")
	}
	return sb.String()
}

func (e *env) failf(format string, args ...any) {
	e.t.Helper()
	e.failed = true
	msg := fmt.Sprintf(format, args...)
	ev.Failf(e.t, "%s\nhistory (harness = scripted MUC service; library session %s):\n%s", msg, localFull, e.history())
}

func (e *env) inconclusive(why string) {
	if !e.dead {
		ev.Class("inconclusive-timeout")
		ev.Note("inconclusive: %s", why)
	}
	e.dead = true
}

func (e *env) elements() []*xt.Node {
	items, _ := e.sv.Items()
	return wire.Elements(items)
}

// serveState inspects the serve goroutine after a wait ran out.  It fails for
// a panic, a Serve loop that ended, or a Serve goroutine parked inside library
// code (not in the transport read); otherwise the case is inconclusive.
func (e *env) serveTrouble(why string) {
	if p := e.sv.Panic(); p != "" {
		e.failf("%s: %s", why, p)
	}
	select {
	case <-e.sv.Done():
		err := e.sv.Err()
		if err != nil && strings.Contains(err.Error(), "i/o timeout") {
			e.inconclusive(why + ": session ended by a transport timeout")
			return
		}
		if e.garbledLobby {
			e.failf("%s: Serve returned (%v) although the peer never closed the stream; it sent well-formed MUC traffic and, from a room that was never joined (whose presences are to be ignored), presences with a muc#user payload the library cannot decode", why, err)
		}
		e.failf("%s: Serve returned (%v) although the peer only sent well-formed MUC traffic and never closed the stream", why, err)
	default:
	}
	stuck := func() string {
		for _, g := range wire.Blocked() {
			if strings.Contains(g, "xmpp.(*Session).Serve(") && !strings.Contains(g, "wire.(*Conn).Read") {
				return g
			}
		}
		return ""
	}
	if a := stuck(); a != "" {
		time.Sleep(300 * time.Millisecond)
		if b := stuck(); b != "" && frames(a) == frames(b) {
			e.failf("%s: the Serve goroutine is parked inside library code after all input was delivered:\n%s", why, b)
		}
	}
	e.inconclusive(why)
}

// sync feeds a sentinel IQ and waits for the library's default reply: every
// stanza fed before has then been processed by the serve loop.
func (e *env) sync() bool {
	if e.dead {
		return false
	}
	e.nSync++
	id := "sn" + strconv.Itoa(e.nSync)
	e.sv.Feed(`<iq type="get" id="` + id + `" from="example.net"><q xmlns="urn:verif:sentinel"/></iq>`)
	pred := func(els []*xt.Node) bool {
		for i := len(els) - 1; i >= 0; i-- {
			n := els[i]
			if n.Name.Local == "iq" {
				if v, _ := n.Get("id"); v == id {
					return true
				}
			}
		}
		return false
	}
	deadline := time.Now().Add(probeWait + inconclusiveWait)
	for {
		if e.sv.WaitFor(pred, 100*time.Millisecond) {
			return true
		}
		if p := e.sv.Panic(); p != "" {
			e.failf("panic in the serve goroutine: %s", p)
		}
		ended := false
		select {
		case <-e.sv.Done():
			ended = true
		default:
		}
		if ended || time.Now().After(deadline) {
			if e.sv.WaitFor(pred, 0) {
				return true
			}
			e.serveTrouble("sentinel " + id + " was not answered")
			return false
		}
	}
}

// parkedOnce returns the stack of c's goroutine if it is parked in a channel
// or mutex operation inside the muc package.
func parkedOnce(c *call) string {
	tag := fmt.Sprintf("c18.tag%d(", c.room.idx)
	for _, g := range wire.Blocked() {
		if strings.Contains(g, tag) && strings.Contains(g, "xmpp/muc.(*Channel).") {
			return g
		}
	}
	return ""
}

// hasSender reports whether the goroutine whose dump is g has started the
// goroutine that writes the request (JoinPresence and LeavePresence send from a
// goroutine of their own).
func hasSender(g string) bool {
	var id int
	if _, err := fmt.Sscanf(g, "goroutine %d ", &id); err != nil {
		return true // cannot tell: do not claim anything
	}
	buf := make([]byte, 4<<20)
	n := runtime.Stack(buf, true)
	all := string(buf[:n])
	return strings.Contains(all, fmt.Sprintf("Presence in goroutine %d\n", id)) ||
		n == len(buf)
}

// frames strips the header line (state, waiting time) of a goroutine dump.
func frames(g string) string {
	if i := strings.Index(g, "\n"); i >= 0 {
		return g[i+1:]
	}
	return g
}

// parked reports a goroutine only if two dumps 300 ms apart show it parked at
// the same place (a momentary wait for a mutex is not a stall).
func parked(c *call) string {
	a := parkedOnce(c)
	if a == "" {
		return ""
	}
	time.Sleep(300 * time.Millisecond)
	b := parkedOnce(c)
	if b == "" || frames(a) != frames(b) {
		return ""
	}
	return b
}

//go:noinline
func tag0(f func()) { f() }

//go:noinline
func tag1(f func()) { f() }

//go:noinline
func tag2(f func()) { f() }

var tags = []func(func()){tag0, tag1, tag2}

// awaitReturn waits for a call that must return now (its deciding stanza was
// processed, or its context was cancelled).
func (e *env) awaitReturn(c *call, why string) (result, bool) {
	select {
	case res := <-c.done:
		return res, true
	case <-time.After(probeWait):
	}
	if st := parked(c); st != "" {
		e.failf("stalled %s on %s: %s, but the call is still parked inside the library:\n%s", c.how, c.room.bare, why, st)
	}
	select {
	case res := <-c.done:
		return res, true
	case <-time.After(inconclusiveWait):
	}
	if st := parked(c); st != "" {
		e.failf("stalled %s on %s: %s, but the call is still parked inside the library:\n%s", c.how, c.room.bare, why, st)
	}
	e.inconclusive(c.how + " did not return in time (" + why + ")")
	return result{}, false
}

// poll collects calls that have returned.
func (e *env) poll() {
	for _, r := range e.rooms {
		if c := r.pend; c != nil {
			select {
			case res := <-c.done:
				e.finish(c, res)
			default:
			}
		}
	}
}

// ------------------------------------------------------------------ calls

type joinSpec struct {
	how        string // client-join client-joinpresence chan-join chan-joinpresence
	addr       jid.JID
	nick       string // Nick option ("" = none)
	password   string
	history    int // 0 none, 1 MaxHistory(0), 2 MaxBytes(1000)
	explicitID bool
	preCancel  bool
}

func (e *env) nextID(prefix string) string {
	e.nID++
	return prefix + strconv.Itoa(e.nID)
}

func (e *env) startCall(c *call, fn func(ctx context.Context) (*muc.Channel, error), preCancel bool) {
	ctx, cancel := context.WithCancel(context.Background())
	c.cancel = cancel
	c.done = make(chan result, 1)
	c.startIdx = len(e.elements())
	c.n = len(e.calls)
	e.calls = append(e.calls, c)
	c.room.pend = c
	if preCancel {
		c.cancelled = true
		cancel()
	}
	tag := tags[c.room.idx]
	go func() {
		var res result
		res.panic = ev.Guard(func() { tag(func() { res.ch, res.err = fn(ctx) }) })
		c.done <- res
	}()
}

// findSent looks for the presence c wrote.
func (e *env) findSent(els []*xt.Node, c *call) int {
	wantType := ""
	if c.kind == "leave" {
		wantType = "unavailable"
	}
	for i := c.startIdx; i < len(els); i++ {
		n := els[i]
		if n.Name.Local != "presence" || e.claimed[i] {
			continue
		}
		if typ, _ := n.Get("type"); typ != wantType {
			continue
		}
		to, _ := n.Get("to")
		tj, err := jid.Parse(to)
		if err != nil || !tj.Bare().Equal(c.room.bare) {
			continue
		}
		id, _ := n.Get("id")
		if c.explicitID != "" {
			if id != c.explicitID {
				continue
			}
		} else if strings.HasPrefix(id, "hx-") {
			continue // a late presence of an earlier call that carried a harness id
		}
		return i
	}
	return -1
}

// waitSent waits until the call's presence is on the wire or the call has
// returned.  false: neither happened (the case is over or the call is parked
// before sending).
func (e *env) waitSent(c *call) bool {
	deadline := time.Now().Add(probeWait + inconclusiveWait)
	probed := false
	for {
		ok := e.sv.WaitFor(func(els []*xt.Node) bool { return e.findSent(els, c) >= 0 }, 20*time.Millisecond)
		if ok {
			els := e.elements()
			i := e.findSent(els, c)
			if i < 0 {
				continue
			}
			e.claimed[i] = true
			c.sent = true
			c.id, _ = els[i].Get("id")
			c.wireTo, _ = els[i].Get("to")
			e.logf("   wire: %s presence #%d to=%q id=%q", c.kind, c.n, c.wireTo, c.id)
			if c.id == "" {
				e.failf("%s wrote a presence without id; the room cannot answer the request with an error", c.how)
			}
			if tj, err := jid.Parse(c.wireTo); err != nil || !tj.Equal(c.req) {
				if c.kind == "join" {
					e.failf("%s: the application requested the occupant address %q, the join presence asks the room for %q", c.how, c.req, c.wireTo)
				}
				e.failf("%s: the channel is joined as %q, the leave presence is addressed to %q", c.how, c.req, c.wireTo)
			}
			return true
		}
		select {
		case res := <-c.done:
			e.finish(c, res)
			return false
		default:
		}
		if p := e.sv.Panic(); p != "" {
			e.failf("panic in the serve goroutine: %s", p)
		}
		if !probed && time.Now().After(deadline.Add(-inconclusiveWait)) {
			probed = true
			if st := parked(c); st != "" && !c.cancelled && !hasSender(st) {
				// Parked inside the library without having started to write the
				// request (the goroutine that sends it does not exist): there is no
				// request the room could answer, whatever it does the call can only
				// end with its context.
				e.failf("stalled %s on %s: the call is parked inside the library before writing its presence; no request reaches the room, so no answer can ever complete it:\n%s", c.how, c.room.bare, st)
			}
		}
		if time.Now().After(deadline) {
			e.inconclusive(c.how + ": presence did not reach the wire")
			return false
		}
	}
}

func (e *env) opts(s joinSpec) []muc.Option {
	var o []muc.Option
	if s.nick != "" {
		o = append(o, muc.Nick(s.nick))
	}
	if s.password != "" {
		o = append(o, muc.Password(s.password))
	}
	switch s.history {
	case 1:
		o = append(o, muc.MaxHistory(0))
	case 2:
		o = append(o, muc.MaxBytes(1000))
	}
	return o
}

// join starts a join and waits until its presence is on the wire (or it
// returned).  Returns false when the case cannot continue.
func (e *env) join(r *roomSt, s joinSpec) bool {
	if e.dead {
		return false
	}
	e.poll()
	c := &call{kind: "join", how: s.how, room: r, nickOpt: s.nick != ""}
	client := strings.HasPrefix(s.how, "client-")
	base := s.addr
	if !client {
		// what a plain rejoin requests: the address of the last successful join,
		// else the address the channel was created for
		base = r.chAddr
		if r.addrAmbig && s.nick == "" {
			e.t.Fatalf("harness: plain rejoin generated although the channel address is ambiguous")
		}
	}
	c.req = base
	if s.nick != "" {
		var err error
		c.req, err = base.WithResource(s.nick)
		if err != nil {
			e.t.Fatalf("harness: bad nick %q: %v", s.nick, err)
		}
	}
	if s.explicitID || s.preCancel {
		c.explicitID = e.nextID("hx-")
	}
	e.logf("%s #%d room=%s addr=%q nick-option=%q password=%q history=%d id=%q pre-cancelled=%v  => requested occupant address %q",
		s.how, len(e.calls), r.bare, s.addr, s.nick, s.password, s.history, c.explicitID, s.preCancel, c.req)
	e.can("%s r%d addr=%s nick=%q pw=%q h=%d xid=%v pre=%v", s.how, r.idx, s.addr, s.nick, s.password, s.history, c.explicitID != "", s.preCancel)
	e.class(s.how)
	if s.nick != "" {
		e.class("nick-option")
	}
	if s.preCancel {
		e.class("pre-cancelled")
	}
	o := e.opts(s)
	sess := e.sv.Session
	var fn func(ctx context.Context) (*muc.Channel, error)
	ch := r.ch
	switch s.how {
	case "client-join":
		if c.explicitID != "" {
			e.t.Fatalf("harness: Client.Join cannot carry an id")
		}
		fn = func(ctx context.Context) (*muc.Channel, error) { return e.client.Join(ctx, s.addr, sess, o...) }
	case "client-joinpresence":
		fn = func(ctx context.Context) (*muc.Channel, error) {
			return e.client.JoinPresence(ctx, stanza.Presence{To: s.addr, ID: c.explicitID}, sess, o...)
		}
	case "chan-join":
		if c.explicitID != "" {
			e.t.Fatalf("harness: Channel.Join cannot carry an id")
		}
		fn = func(ctx context.Context) (*muc.Channel, error) { return nil, ch.Join(ctx, o...) }
	case "chan-joinpresence":
		fn = func(ctx context.Context) (*muc.Channel, error) {
			return nil, ch.JoinPresence(ctx, stanza.Presence{ID: c.explicitID}, o...)
		}
	default:
		e.t.Fatalf("harness: unknown join form %q", s.how)
	}
	if client {
		// the application drops the old channel object (a channel whose Leave
		// was answered with an error is in an undetermined state and not kept)
		if r.ch != nil && !r.unknown && !r.joined {
			r.replaced = append(r.replaced, r.ch)
		}
		r.ch = nil
		r.unknown = false
		r.joined = false
		r.addrAmbig = false
		r.queried = nil
		r.former = nil
		r.chAddr = s.addr
	}
	r.lastReq = c.req
	r.everAsked = true
	e.startCall(c, fn, s.preCancel)
	if s.preCancel {
		res, ok := e.awaitReturn(c, "its context was cancelled before the call")
		if !ok {
			return false
		}
		e.finish(c, res)
		return !e.dead
	}
	if !e.waitSent(c) {
		if e.dead {
			return false
		}
		if c.finished {
			return true
		}
		// parked before sending: the only thing left to do is cancelling it
		return e.cancelCall(r)
	}
	return e.settle()
}

func (e *env) leave(r *roomSt, status string, explicit bool) bool {
	if e.dead {
		return false
	}
	e.poll()
	c := &call{kind: "leave", how: "leave", room: r, req: r.me}
	if !r.joined {
		c.notJoined = true
		c.req = r.chAddr
		e.class("leave-on-a-channel-that-is-not-joined")
	}
	if explicit {
		c.how = "leavepresence"
		c.explicitID = e.nextID("hx-")
	}
	e.logf("%s #%d room=%s status=%q id=%q (occupant address %q)", c.how, len(e.calls), r.bare, status, c.explicitID, r.me)
	e.can("%s r%d status=%q", c.how, r.idx, status)
	e.class(c.how)
	ch := r.ch
	fn := func(ctx context.Context) (*muc.Channel, error) { return nil, ch.Leave(ctx, status) }
	if explicit {
		fn = func(ctx context.Context) (*muc.Channel, error) {
			return nil, ch.LeavePresence(ctx, status, stanza.Presence{ID: c.explicitID})
		}
	}
	e.startCall(c, fn, false)
	if !e.waitSent(c) {
		if e.dead {
			return false
		}
		if c.finished {
			return true
		}
		return e.cancelCall(r)
	}
	return e.settle()
}

func (e *env) cancelCall(r *roomSt) bool {
	if e.dead {
		return false
	}
	e.poll()
	c := r.pend
	if c == nil {
		return true
	}
	e.logf("cancel %s #%d (room %s)", c.how, c.n, r.bare)
	e.can("cancel r%d", r.idx)
	e.class("cancel-" + c.kind)
	c.cancelled = true
	c.cancel()
	res, ok := e.awaitReturn(c, "its context was cancelled")
	if !ok {
		return false
	}
	e.finish(c, res)
	return e.settle()
}

func isTimeout(err error) bool {
	var te interface{ Timeout() bool }
	return err != nil && errors.As(err, &te) && te.Timeout() && !isCtxErr(err)
}

func isCtxErr(err error) bool {
	return errors.Is(err, context.Canceled) || errors.Is(err, context.DeadlineExceeded)
}

// finish applies the oracle to a returned call.
func (e *env) finish(c *call, res result) {
	c.finished = true
	r := c.room
	r.pend = nil
	e.logf("   %s #%d returned err=%v (%T)", c.how, c.n, res.err, res.err)
	if res.panic != "" {
		e.failf("%s panicked: %s", c.how, res.panic)
	}
	if strings.HasPrefix(c.how, "client-") {
		r.ch = res.ch
		if res.ch == nil && res.err == nil {
			e.failf("%s returned a nil channel and a nil error", c.how)
		}
	}
	var se stanza.Error
	isSE := errors.As(res.err, &se)
	if isTimeout(res.err) && !c.cancelled {
		// The session could not write: an earlier send whose context was
		// cancelled had its write interrupted through the connection's write
		// deadline, and the session's encoder keeps returning that error.  That
		// is the session's business (C05/C10), not a statement about membership.
		e.inconclusive(c.how + " failed with a transport timeout left behind by an earlier cancelled send")
		ev.Class("session-output-poisoned")
		return
	}
	if strings.HasSuffix(c.decided, "|cancel") {
		// the deciding stanza and the cancellation were issued together: either
		// may win, the answer must be one of the two
		first := strings.TrimSuffix(c.decided, "|cancel")
		if isCtxErr(res.err) {
			c.decided = ""
			e.class("race-" + first + "-lost")
		} else {
			c.decided = first
			e.class("race-" + first + "-won")
		}
	}
	if c.kind == "join" {
		if res.err == nil {
			if c.decided != "self" {
				e.failf("%s (requested occupant address %q, join presence sent to %q: %v) returned nil, but no self-presence from %q was delivered after the join presence was sent (decisive stanza delivered: %q)",
					c.how, c.req, c.wireTo, c.sent, c.req, c.decided)
			}
			if r.everJoined && !strings.HasPrefix(c.how, "client-") && !r.me.Equal(c.req) {
				r.former = append(r.former, r.me)
			}
			r.joined, r.me, r.everJoined, r.addrAmbig, r.chAddr = true, c.req, true, false, c.req
			e.class("join-ok")
			var me, addr jid.JID
			if p := ev.Guard(func() { me, addr = r.ch.Me(), r.ch.Addr() }); p != "" {
				e.failf("Me/Addr panicked: %s", p)
			}
			if !me.Equal(c.req) || !addr.Equal(r.bare) {
				e.failf("after the successful %s for %q: Me() = %q, Addr() = %q; want %q and %q", c.how, c.req, me, addr, c.req, r.bare)
			}
			return
		}
		if c.nickOpt && strings.HasPrefix(c.how, "client-") {
			// (a failed change of nickname on an existing channel changes nothing:
			// the channel's own address only changes once the room has confirmed
			// it, and that address is what a plain rejoin asks for)
			r.addrAmbig = true
		}
	} else if res.err == nil {
		if c.decided != "unavail" {
			e.failf("%s of %q returned nil, but no unavailable presence from that occupant address was delivered after the leave presence was sent (decisive stanza delivered: %q)", c.how, c.req, c.decided)
		}
		e.class("leave-ok")
		return
	}
	// the call failed
	switch c.decided {
	case "error":
		if !isSE || se.Condition != c.wantErr.Condition || se.Type != c.wantErr.Type {
			e.failf("%s: the room answered request id %q with error {type %q, condition %q}; the call returned %v (%T)", c.how, c.id, c.wantErr.Type, c.wantErr.Condition, res.err, res.err)
		}
		e.class(c.kind + "-error")
		if c.kind == "leave" {
			r.unknown = true
		}
	case "self":
		e.failf("%s: the self-presence from the requested occupant address %q was delivered after the join presence was sent, no error was, and the context was alive; the call returned %v", c.how, c.req, res.err)
	case "unavail":
		e.failf("%s: the unavailable presence from %q was delivered after the leave presence was sent; the call returned %v", c.how, c.req, res.err)
	default:
		if isSE {
			e.failf("%s returned the stanza error %v although the room never answered request id %q with an error", c.how, res.err, c.id)
		}
		if !c.cancelled {
			e.failf("%s returned %v (%T) although nothing answered the request and its context is alive", c.how, res.err, res.err)
		}
		if isTimeout(res.err) {
			// the cancellation reached the call through the transport's write
			// deadline (that is how the session interrupts a write)
			e.class("ctx-error-as-write-timeout")
		} else if !isCtxErr(res.err) {
			e.failf("%s returned %v (%T) after its context was cancelled; want the context's error", c.how, res.err, res.err)
		}
		e.class(c.kind + "-ctx-error")
	}
}

// ------------------------------------------------------------------ model checks

// settle is run after every step: no call may have returned without a
// deciding stanza, membership answers must follow the model, callbacks must
// have fired exactly as often as the model says.
func (e *env) settle() bool {
	if e.dead {
		return false
	}
	e.poll()
	if p := e.sv.Panic(); p != "" {
		e.failf("panic in the serve goroutine: %s", p)
	}
	for _, r := range e.rooms {
		for i, old := range r.replaced {
			var got bool
			if p := ev.Guard(func() { got = old.Joined() }); p != "" {
				e.failf("Joined() panicked: %s", p)
			}
			if got {
				e.failf("room %s: channel object number %d of this room, which was not joined when the application replaced it by a new Client.Join and has not been used since, reports Joined() = true", r.bare, i)
			}
		}
		if len(r.replaced) > 0 {
			ev.Class("replaced-channel-object-queried")
		}
		if r.ch == nil || r.unknown {
			continue
		}
		if r.pend != nil && !r.pend.sent {
			continue
		}
		var got bool
		ch := r.ch
		if p := ev.Guard(func() { got = ch.Joined() }); p != "" {
			e.failf("Joined() panicked: %s", p)
		}
		r.queried = append(r.queried, r.joined)
		if got != r.joined {
			why := "no join on this channel has succeeded"
			if r.joined {
				why = fmt.Sprintf("the join as %q succeeded and no unavailable presence from that address has been delivered since", r.me)
			} else if r.everJoined {
				why = fmt.Sprintf("the unavailable presence from %q was processed and no join succeeded since", r.me)
			}
			e.failf("room %s: Channel.Joined() = %v, want %v (%s)", r.bare, got, r.joined, why)
		}
	}
	e.mu.Lock()
	ninv := len(e.invites)
	e.mu.Unlock()
	if ninv != e.wantInvites {
		e.failf("HandleInvite was called %d times in total, %d mediated invitations were delivered", ninv, e.wantInvites)
	}
	return true
}

func (r *roomSt) bothSides() bool {
	for i := 1; i < len(r.queried); i++ {
		if r.queried[i] != r.queried[i-1] {
			return true
		}
	}
	return false
}

// ------------------------------------------------------------------ room events

type presOpts struct {
	codes   []int  // status codes inside <x muc#user>
	layout  int    // where the other children go
	id      string // optional id attribute
	aff     string
	role    string
	realJID bool
	// garble (presences of the never-joined room only): the muc#user payload
	// carries something this library's decoder refuses: "aff" an unknown
	// affiliation, "role" an unknown role, "code" a status code that is not a
	// number, "jid" a real JID that is not an address
	garble string
}

func (e *env) userX(o presOpts, nick string) *xt.Node {
	aff, role := o.aff, o.role
	if aff == "" {
		aff = "member"
	}
	if role == "" {
		role = "participant"
	}
	switch o.garble {
	case "aff":
		aff = "superadmin"
	case "role":
		role = "ghost"
	}
	attrs := []xml.Attr{xt.A("affiliation", aff), xt.A("role", role)}
	if o.realJID {
		attrs = append(attrs, xt.A("jid", "someone@example.com/phone"))
	}
	if o.garble == "jid" {
		attrs = append(attrs, xt.A("jid", "@@/"))
	}
	x := xt.El(muc.NSUser, "x", nil, xt.El(muc.NSUser, "item", attrs))
	for _, c := range o.codes {
		x.Children = append(x.Children, xt.El(muc.NSUser, "status", []xml.Attr{xt.A("code", strconv.Itoa(c))}))
	}
	if o.garble == "code" {
		x.Children = append(x.Children, xt.El(muc.NSUser, "status", []xml.Attr{xt.A("code", "one-ten")}))
	}
	return x
}

func (e *env) presence(from jid.JID, typ string, o presOpts, x *xt.Node) *xt.Node {
	attrs := []xml.Attr{xt.A("from", from.String()), xt.A("to", localFull)}
	if typ != "" {
		attrs = append(attrs, xt.A("type", typ))
	}
	if o.id != "" {
		attrs = append(attrs, xt.A("id", o.id))
	}
	caps := xt.El("http://jabber.org/protocol/caps", "c", []xml.Attr{xt.A("hash", "sha-1"), xt.A("node", "urn:verif"), xt.A("ver", "q07IKJEyjvHSyhy//CH0CxmKi8w=")})
	vcard := xt.El("vcard-temp:x:update", "x", nil, xt.El("vcard-temp:x:update", "photo", nil))
	show := xt.El(nsClient, "show", nil, xt.Tx("away"))
	var kids []*xt.Node
	switch o.layout {
	case 0:
		kids = []*xt.Node{x}
	case 1:
		kids = []*xt.Node{caps, x}
	case 2:
		kids = []*xt.Node{x, show, caps}
	case 3:
		kids = []*xt.Node{vcard, x}
	default:
		kids = []*xt.Node{show, x, vcard}
	}
	return xt.El(nsClient, "presence", attrs, kids...)
}

func (e *env) feed(n *xt.Node) {
	e.sv.Feed(string(n.Bytes(nsClient)))
}

func (e *env) userPresCount() int {
	e.mu.Lock()
	defer e.mu.Unlock()
	return len(e.userPres)
}

// afterEvent: sentinel, then either wait for the decided call or check that
// nothing returned.
func (e *env) afterEvent(decided *call, why string, neverJoinedRoom string) bool {
	before := e.seenUser
	if !e.sync() {
		return false
	}
	if decided != nil {
		res, ok := e.awaitReturn(decided, why)
		if !ok {
			return false
		}
		e.finish(decided, res)
	}
	now := e.userPresCount()
	e.seenUser = now
	if neverJoinedRoom != "" && now != before {
		e.mu.Lock()
		last := e.userPres[len(e.userPres)-1]
		e.mu.Unlock()
		e.failf("presence for room %s, which was never joined (no join succeeded, none pending), was not ignored: HandleUserPresence was called for %q", neverJoinedRoom, last)
	}
	return e.settle()
}

func (e *env) anyPending() bool {
	for _, r := range e.rooms {
		if r.pend != nil {
			return true
		}
	}
	return false
}

func (r *roomSt) neverJoined() string {
	if !r.everJoined && (r.pend == nil || r.pend.kind != "join") {
		return r.bare.String()
	}
	return ""
}

// available feeds an available presence from `from` (an occupant address of
// room r).  self: carries status 110.
func (e *env) available(r *roomSt, from jid.JID, self bool, o presOpts) bool {
	if e.dead {
		return false
	}
	e.poll()
	if self {
		o.codes = append([]int{110}, o.codes...)
	}
	var decided *call
	why := ""
	if c := r.pend; c != nil && c.kind == "join" && c.sent && self && from.Equal(c.req) && c.decided == "" {
		c.decided = "self"
		decided = c
		why = fmt.Sprintf("the self-presence from the requested occupant address %q was processed (sentinel answered)", c.req)
		e.class("ev-self-requested")
	} else {
		if self {
			e.class("ev-self-not-requested")
		} else {
			e.class("ev-occupant")
		}
		if e.anyPending() {
			e.foreign = true
		}
	}
	never := r.neverJoined()
	e.logf("room sends: available presence from %q self(110)=%v codes=%v layout=%d", from, self, o.codes, o.layout)
	e.can("avail r%d from=%s self=%v codes=%v l=%d", r.idx, from.Resourcepart(), self, o.codes, o.layout)
	e.feed(e.presence(from, "", o, e.userX(o, from.Resourcepart())))
	return e.afterEvent(decided, why, never)
}

// unavailable feeds an unavailable presence from an occupant address of r.
func (e *env) unavailable(r *roomSt, from jid.JID, self bool, o presOpts) bool {
	if e.dead {
		return false
	}
	e.poll()
	if self {
		o.codes = append([]int{110}, o.codes...)
	}
	o.role = "none"
	var decided *call
	why := ""
	own := r.joined && from.Equal(r.me)
	never := r.neverJoined()
	if own && self {
		r.joined = false
		e.class("ev-unavailable-self")
		if c := r.pend; c != nil && c.kind == "leave" && c.sent && c.decided == "" {
			c.decided = "unavail"
			decided = c
			why = fmt.Sprintf("the unavailable presence from %q was processed (sentinel answered)", from)
		} else if r.pend != nil {
			e.foreign = true
		}
	} else {
		e.class("ev-unavailable-other")
		if e.anyPending() {
			e.foreign = true
		}
	}
	e.logf("room sends: unavailable presence from %q self(110)=%v codes=%v layout=%d", from, self, o.codes, o.layout)
	e.can("unavail r%d from=%s self=%v codes=%v l=%d", r.idx, from.Resourcepart(), self, o.codes, o.layout)
	e.feed(e.presence(from, "unavailable", o, e.userX(o, from.Resourcepart())))
	return e.afterEvent(decided, why, never)
}

// errorPresence feeds an error presence from room r with the given id.
func (e *env) errorPresence(r *roomSt, from jid.JID, id string, se stanza.Error, echoX bool) bool {
	if e.dead {
		return false
	}
	e.poll()
	var decided *call
	why := ""
	for _, rr := range e.rooms {
		if c := rr.pend; c != nil && c.sent && c.id == id && c.decided == "" {
			c.decided = "error"
			c.wantErr = se
			decided = c
			why = fmt.Sprintf("the error presence answering request id %q was processed (sentinel answered)", id)
		}
	}
	if decided != nil {
		e.class("ev-error-matching")
	} else {
		e.class("ev-error-foreign-id")
		if e.anyPending() {
			e.foreign = true
		}
	}
	e.logf("room sends: error presence from %q id=%q {type %q, condition %q} echo-x=%v", from, id, se.Type, se.Condition, echoX)
	e.can("error r%d matching=%v cond=%s x=%v", r.idx, decided != nil, se.Condition, echoX)
	attrs := []xml.Attr{xt.A("from", from.String()), xt.A("to", localFull), xt.A("type", "error"), xt.A("id", id)}
	var kids []*xt.Node
	if echoX {
		kids = append(kids, xt.El(muc.NS, "x", nil))
	}
	kids = append(kids, xt.El(nsClient, "error", []xml.Attr{xt.A("type", string(se.Type))},
		xt.El(nsStanzas, string(se.Condition), nil)))
	e.feed(xt.El(nsClient, "presence", attrs, kids...))
	return e.afterEvent(decided, why, "")
}

// lobbyPresence feeds a presence from a room no join was ever requested for.
func (e *env) lobbyPresence(nick string, unavailable, self bool, o presOpts) bool {
	if e.dead {
		return false
	}
	e.poll()
	from, err := e.lobby.WithResource(nick)
	if err != nil {
		e.t.Fatalf("harness: %v", err)
	}
	if self {
		o.codes = append([]int{110}, o.codes...)
	}
	typ := ""
	if unavailable {
		typ = "unavailable"
	}
	if e.anyPending() {
		e.foreign = true
	}
	e.class("ev-never-joined-room")
	if o.garble != "" {
		e.class("ev-never-joined-room-undecodable-payload")
		e.garbledLobby = true
	}
	e.logf("never-joined room sends: presence type=%q from %q self(110)=%v; muc#user payload this library cannot decode: %q", typ, from, self, o.garble)
	e.can("lobby nick=%s unavail=%v self=%v l=%d g=%s", nick, unavailable, self, o.layout, o.garble)
	e.feed(e.presence(from, typ, o, e.userX(o, nick)))
	return e.afterEvent(nil, "", e.lobby.String())
}

type inviteSpec struct {
	from     jid.JID // the room
	to       string  // invite/@to ("" = attribute absent)
	inviter  string  // invite/@from ("" = absent)
	reason   string
	password string
	// an empty reason / password is sent as an empty element instead of being
	// left out (the room relays what the inviter's client sent)
	emptyEls bool
	cont     bool
	thread   string
	typeAttr string // "", "normal"
	layout   int
	idKind   int // 0 a fresh message id, 1 the same id for all such invitations, 2 no id
}

// invite feeds one mediated invitation.
func (e *env) invite(s inviteSpec) bool {
	if e.dead {
		return false
	}
	e.poll()
	var iattrs []xml.Attr
	if s.to != "" {
		iattrs = append(iattrs, xt.A("to", s.to))
	}
	if s.inviter != "" {
		iattrs = append(iattrs, xt.A("from", s.inviter))
	}
	inv := xt.El(muc.NSUser, "invite", iattrs)
	if s.reason != "" {
		inv.Children = append(inv.Children, xt.El(muc.NSUser, "reason", nil, xt.Tx(s.reason)))
	} else if s.emptyEls {
		inv.Children = append(inv.Children, xt.El(muc.NSUser, "reason", nil))
	}
	if s.cont {
		var ca []xml.Attr
		if s.thread != "" {
			ca = append(ca, xt.A("thread", s.thread))
		}
		inv.Children = append(inv.Children, xt.El(muc.NSUser, "continue", ca))
	}
	x := xt.El(muc.NSUser, "x", nil, inv)
	if s.password != "" {
		x.Children = append(x.Children, xt.El(muc.NSUser, "password", nil, xt.Tx(s.password)))
	} else if s.emptyEls {
		x.Children = append(x.Children, xt.El(muc.NSUser, "password", nil))
	}
	body := xt.El(nsClient, "body", nil, xt.Tx("You have been invited"))
	legacy := xt.El(muc.NSConf, "x", []xml.Attr{xt.A("jid", s.from.String())})
	other := xt.El("urn:verif:other", "note", nil, xt.El("urn:verif:other", "x", nil))
	var kids []*xt.Node
	switch s.layout {
	case 0:
		kids = []*xt.Node{x}
	case 1:
		kids = []*xt.Node{body, x}
	case 2:
		kids = []*xt.Node{x, legacy}
	case 3:
		kids = []*xt.Node{other, x, body}
	default:
		kids = []*xt.Node{body, legacy, x, other}
	}
	// (ids are only unique per sender, and a room may reuse one: an invitation
	// with the id of an earlier one is an invitation all the same)
	id := e.nextID("inv")
	switch s.idKind {
	case 1:
		id = "invitation"
	case 2:
		id = ""
	}
	attrs := []xml.Attr{xt.A("from", s.from.String()), xt.A("to", localFull)}
	if id != "" {
		attrs = append(attrs, xt.A("id", id))
	}
	if s.idKind == 1 {
		e.class("ev-invite-with-an-id-seen-before")
	}
	if s.typeAttr != "" {
		attrs = append(attrs, xt.A("type", s.typeAttr))
	}
	e.class("ev-invite")
	if e.anyPending() {
		e.class("ev-invite-during-call")
	}
	e.logf("room %s sends: mediated invitation to=%q inviter=%q reason=%q password=%q continue=%v thread=%q type=%q layout=%d",
		s.from, s.to, s.inviter, s.reason, s.password, s.cont, s.thread, s.typeAttr, s.layout)
	e.can("invite from=%s to=%q inviter=%q reason=%q pw=%q cont=%v thread=%q type=%q l=%d id=%d", s.from, s.to, s.inviter, s.reason, s.password, s.cont, s.thread, s.typeAttr, s.layout, s.idKind)
	if s.emptyEls {
		e.can("empty-elements")
	}
	e.feed(xt.El(nsClient, "message", attrs, kids...))
	e.wantInvites++
	if !e.sync() {
		return false
	}
	e.mu.Lock()
	got := append([]muc.Invitation(nil), e.invites...)
	e.mu.Unlock()
	if len(got) != e.wantInvites {
		e.failf("mediated invitation delivered %d times to HandleInvite (calls so far %d, invitations so far %d)", len(got)-(e.wantInvites-1), len(got), e.wantInvites)
	}
	g := got[len(got)-1]
	wantJID := jid.JID{}
	if s.to != "" {
		wantJID = jid.MustParse(s.to)
	}
	thread := ""
	if s.cont {
		thread = s.thread
	}
	if g.XMLName.Space != muc.NSUser || g.XMLName.Local != "x" || g.Reason != s.reason || g.Password != s.password ||
		g.Continue != s.cont || g.Thread != thread || (s.to != "" && !g.JID.Equal(wantJID)) {
		e.failf("HandleInvite received %+v; sent to=%q reason=%q password=%q continue=%v thread=%q", g, s.to, s.reason, s.password, s.cont, thread)
	}
	return e.settle()
}

// unrelated feeds a stanza that has nothing to do with any room request.
func (e *env) unrelated(kind int, r *roomSt) bool {
	if e.dead {
		return false
	}
	e.poll()
	pendingID := "none"
	for _, rr := range e.rooms {
		if rr.pend != nil && rr.pend.sent {
			pendingID = rr.pend.id
		}
	}
	other, _ := r.bare.WithResource("someone")
	var raw string
	esc := func(s string) string {
		var sb strings.Builder
		_ = xml.EscapeText(&sb, []byte(s))
		return sb.String()
	}
	switch kind {
	case 0:
		raw = `<message type="chat" from="friend@example.com/x" to="` + localFull + `"><body>hi</body></message>`
	case 1:
		raw = `<message type="groupchat" from="` + esc(other.String()) + `" to="` + localFull + `" id="g1"><body>hello room</body></message>`
	case 2:
		raw = `<message type="groupchat" from="` + esc(r.bare.String()) + `" to="` + localFull + `"><subject>topic</subject></message>`
	case 3:
		raw = `<presence from="friend@example.com/x" to="` + localFull + `"><show>away</show></presence>`
	case 4:
		raw = `<iq type="result" id="` + e.nextID("unk") + `" from="` + esc(r.bare.String()) + `"/>`
	case 5:
		raw = `<iq type="error" id="` + esc(pendingID) + `" from="friend@example.com/x"><error type="cancel"><item-not-found xmlns="` + nsStanzas + `"/></error></iq>`
	case 6:
		raw = `<message type="error" id="` + esc(pendingID) + `" from="friend@example.com/x"><error type="cancel"><item-not-found xmlns="` + nsStanzas + `"/></error></message>`
	case 7:
		raw = " \n"
	default:
		raw = `<presence from="friend@example.com/x" to="` + localFull + `" type="unavailable"/>`
	}
	e.class("ev-unrelated")
	e.logf("peer sends unrelated: %s", raw)
	e.can("unrelated %d r%d", kind, r.idx)
	e.sv.Feed(raw)
	return e.afterEvent(nil, "", "")
}

// race issues the stanza that decides r's pending call and the cancellation
// of that call together (order and number of yields in between are drawn by
// the caller).  Whatever wins, the call must return the matching answer and
// the membership must agree with it.
func (e *env) race(r *roomSt, kind string, cancelFirst bool, yields int, se stanza.Error) bool {
	if e.dead {
		return false
	}
	e.poll()
	c := r.pend
	if c == nil || !c.sent || c.decided != "" {
		return true
	}
	e.class("race-" + kind + "-cancel")
	e.logf("race: %s for %s #%d and cancellation of the call together (cancel first: %v, yields %d)", kind, c.how, c.n, cancelFirst, yields)
	e.can("race r%d %s cancelfirst=%v y=%d", r.idx, kind, cancelFirst, yields)
	var n *xt.Node
	switch kind {
	case "self":
		n = e.presence(c.req, "", presOpts{}, e.userX(presOpts{codes: []int{110}}, c.req.Resourcepart()))
	case "unavail":
		n = e.presence(c.req, "unavailable", presOpts{}, e.userX(presOpts{codes: []int{110}, role: "none"}, c.req.Resourcepart()))
	case "error":
		c.wantErr = se
		n = xt.El(nsClient, "presence", []xml.Attr{xt.A("from", c.req.String()), xt.A("to", localFull), xt.A("type", "error"), xt.A("id", c.id)},
			xt.El(nsClient, "error", []xml.Attr{xt.A("type", string(se.Type))}, xt.El(nsStanzas, string(se.Condition), nil)))
	}
	c.decided = kind + "|cancel"
	c.cancelled = true
	wasJoined := r.joined
	if cancelFirst {
		c.cancel()
	}
	for i := 0; i < yields; i++ {
		runtime.Gosched()
	}
	e.feed(n)
	for i := 0; i < yields; i++ {
		runtime.Gosched()
	}
	if !cancelFirst {
		c.cancel()
	}
	if !e.sync() {
		return false
	}
	res, ok := e.awaitReturn(c, "its context was cancelled and its deciding stanza was processed")
	if !ok {
		return false
	}
	e.seenUser = e.userPresCount()
	if kind == "unavail" && wasJoined {
		r.joined = false // the unavailable presence was processed whatever Leave returned
	}
	e.finish(c, res)
	return e.settle()
}

// ------------------------------------------------------------------ teardown

func (e *env) tdWait() time.Duration {
	if e.failed {
		return 200 * time.Millisecond
	}
	return probeWait
}

// teardown cancels everything, shuts the session down and checks that every
// goroutine returned.
func (e *env) teardown() {
	for _, c := range e.calls {
		c.cancel()
	}
	for _, c := range e.calls {
		if c.finished {
			continue
		}
		c.cancelled = true
		select {
		case res := <-c.done:
			c.finished = true
			if !e.failed && !e.dead {
				e.finish(c, res)
			}
		case <-time.After(e.tdWait()):
			if e.failed {
				continue
			}
			if st := parked(c); st != "" {
				e.sv.Shutdown(time.Second)
				e.failf("%s on %s did not return after its context was cancelled; parked inside the library:\n%s", c.how, c.room.bare, st)
			}
			select {
			case <-c.done:
				c.finished = true
			case <-time.After(inconclusiveWait):
				e.inconclusive("a cancelled call did not return during teardown")
			}
		}
	}
	if !e.sv.Shutdown(e.tdWait()) {
		if e.failed {
			e.sv.Conn.Close()
			return
		}
		if p := e.sv.Panic(); p != "" {
			e.failf("panic in the serve goroutine: %s", p)
		}
		if !e.sv.Wait(inconclusiveWait) {
			e.serveTrouble("Serve did not return after the peer closed the stream")
		}
	}
	if p := e.sv.Panic(); p != "" && !e.failed {
		e.failf("panic in the serve goroutine: %s", p)
	}
}
