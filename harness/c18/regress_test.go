package c18

import (
	"strings"
	"testing"

	"mellium.im/xmpp/jid"
	"mellium.im/xmpp/stanza"
	"mellium.im/xmpp/verifharness/internal/ev"
)

// TestC18Regress replays concrete histories: the witnesses of every finding
// made with this check (they keep running after the repair) and hand-picked
// corners of the statement.  Every history is its own sub-test so that one
// failing witness does not hide the others.
func TestC18Regress(t *testing.T) {
	sub := func(name string, nRooms int, f func(e *env)) {
		t.Run(name, func(st *testing.T) {
			ev.Begin(st)
			e := newEnv(st, nRooms)
			defer func() {
				ev.Case(!e.dead, "regress|"+name+"|"+strings.Join(e.canon, "\n"), "regress")
			}()
			defer e.teardown()
			f(e)
		})
	}
	conflict := stanza.Error{Type: stanza.Cancel, Condition: stanza.Conflict}
	notAuth := stanza.Error{Type: stanza.Auth, Condition: stanza.NotAuthorized}
	plain := presOpts{}
	at := func(r *roomSt, nick string) jid.JID { return withNick(r.bare, nick) }
	joinAs := func(e *env, r *roomSt, nick string) bool {
		return e.join(r, joinSpec{how: "client-join", addr: at(r, nick)}) &&
			e.available(r, at(r, nick), true, plain)
	}

	pid := func(r *roomSt) string {
		if r.pend == nil {
			return "no-pending-request"
		}
		return r.pend.id
	}

	// finding 1: Joined() looked the channel up under the bare room address
	sub("joined-true-after-join", 1, func(e *env) {
		r := e.rooms[0]
		_ = joinAs(e, r, "me") && e.unrelated(0, r)
	})
	sub("joined-until-unavailable", 1, func(e *env) {
		r := e.rooms[0]
		_ = joinAs(e, r, "me") &&
			e.unavailable(r, at(r, "alice"), false, plain) &&
			e.available(r, at(r, "n2"), true, presOpts{codes: []int{210}}) &&
			e.unavailable(r, at(r, "me"), true, presOpts{codes: []int{307}}) &&
			e.available(r, at(r, "me"), true, plain)
	})

	// finding 2: a failed join stayed registered
	sub("failed-join-error-leaves-nothing", 1, func(e *env) {
		r := e.rooms[0]
		_ = e.join(r, joinSpec{how: "client-join", addr: at(r, "me")}) &&
			e.errorPresence(r, at(r, "me"), pid(r), conflict, true) &&
			e.available(r, at(r, "me"), true, plain) && // room never joined: must be ignored
			e.join(r, joinSpec{how: "chan-join"}) && // the next attempt must reach the room
			e.available(r, at(r, "me"), true, plain)
	})
	sub("cancelled-join-leaves-nothing", 1, func(e *env) {
		r := e.rooms[0]
		_ = e.join(r, joinSpec{how: "client-join", addr: at(r, "me")}) &&
			e.cancelCall(r) &&
			e.available(r, at(r, "me"), true, plain) &&
			e.join(r, joinSpec{how: "chan-joinpresence", explicitID: true}) &&
			e.available(r, at(r, "me"), true, plain) &&
			e.unavailable(r, at(r, "me"), true, plain)
	})
	sub("pre-cancelled-join-leaves-nothing", 1, func(e *env) {
		r := e.rooms[0]
		_ = e.join(r, joinSpec{how: "client-joinpresence", addr: at(r, "me"), preCancel: true}) &&
			e.available(r, at(r, "me"), true, plain) &&
			e.join(r, joinSpec{how: "chan-join"}) &&
			e.available(r, at(r, "me"), true, plain)
	})
	sub("failed-rejoin-keeps-membership", 1, func(e *env) {
		r := e.rooms[0]
		_ = joinAs(e, r, "me") &&
			e.join(r, joinSpec{how: "chan-join", nick: "n2"}) &&
			e.errorPresence(r, r.bare, pid(r), conflict, false) &&
			e.join(r, joinSpec{how: "chan-join", nick: "me"}) &&
			e.cancelCall(r) &&
			e.unavailable(r, at(r, "me"), true, plain)
	})

	// finding 3: only Client.JoinPresence registered the channel, under the
	// address it was given
	sub("rejoin-after-leave", 1, func(e *env) {
		r := e.rooms[0]
		_ = joinAs(e, r, "me") &&
			e.leave(r, "bye", false) &&
			e.unavailable(r, at(r, "me"), true, plain) &&
			e.join(r, joinSpec{how: "chan-join"}) &&
			e.available(r, at(r, "me"), true, plain)
	})
	sub("rejoin-after-kick", 1, func(e *env) {
		r := e.rooms[0]
		_ = joinAs(e, r, "me") &&
			e.unavailable(r, at(r, "me"), true, presOpts{codes: []int{307}}) &&
			e.join(r, joinSpec{how: "chan-joinpresence"}) &&
			e.available(r, at(r, "me"), true, plain)
	})
	sub("nick-option-on-bare-room-address", 1, func(e *env) {
		r := e.rooms[0]
		_ = e.join(r, joinSpec{how: "client-join", addr: r.bare, nick: "me"}) &&
			e.available(r, at(r, "me"), true, plain)
	})
	sub("nick-option-overrides-resource", 1, func(e *env) {
		r := e.rooms[0]
		_ = e.join(r, joinSpec{how: "client-joinpresence", addr: at(r, "me"), nick: "n2"}) &&
			e.available(r, at(r, "me"), true, plain) && // not the requested address
			e.available(r, at(r, "n2"), true, plain)
	})
	sub("rejoin-with-new-nick", 1, func(e *env) {
		r := e.rooms[0]
		_ = joinAs(e, r, "me") &&
			e.join(r, joinSpec{how: "chan-join", nick: "n2"}) &&
			e.available(r, at(r, "me"), true, plain) && // still the old address: join must stay pending
			e.unavailable(r, at(r, "me"), true, presOpts{codes: []int{303}}) &&
			e.available(r, at(r, "n2"), true, plain) &&
			e.unavailable(r, at(r, "me"), true, plain) && // not ours anymore
			e.unavailable(r, at(r, "n2"), true, plain)
	})
	sub("former-address-after-nick-change", 1, func(e *env) {
		r := e.rooms[0]
		_ = joinAs(e, r, "me") &&
			e.join(r, joinSpec{how: "chan-join", nick: "n2"}) &&
			e.available(r, at(r, "n2"), true, plain) &&
			e.leave(r, "", false) &&
			e.unavailable(r, at(r, "me"), true, plain) && // the former address: Leave must keep waiting
			e.unavailable(r, at(r, "n2"), true, plain)
	})
	sub("unavailable-while-join-pending", 1, func(e *env) {
		r := e.rooms[0]
		_ = e.join(r, joinSpec{how: "client-join", addr: at(r, "me")}) &&
			e.unavailable(r, at(r, "me"), true, plain) &&
			e.available(r, at(r, "me"), true, plain)
	})
	sub("unavailable-while-rejoin-pending", 1, func(e *env) {
		r := e.rooms[0]
		_ = joinAs(e, r, "me") &&
			e.join(r, joinSpec{how: "chan-join"}) &&
			e.unavailable(r, at(r, "me"), true, plain) &&
			e.available(r, at(r, "me"), true, plain)
	})

	// corners of the statement
	sub("foreign-presence-during-join", 2, func(e *env) {
		r, r1 := e.rooms[0], e.rooms[1]
		_ = e.join(r, joinSpec{how: "client-join", addr: at(r, "me"), password: "pw", history: 1}) &&
			e.available(r, at(r, "alice"), false, presOpts{layout: 2}) &&
			e.available(r, at(r, "n2"), true, presOpts{codes: []int{210}}) &&
			e.available(r1, at(r1, "me"), true, plain) &&
			e.lobbyPresence("me", false, true, plain) &&
			e.errorPresence(r, at(r, "me"), "zz-1", notAuth, true) &&
			e.unrelated(5, r) && e.unrelated(6, r) && e.unrelated(7, r) &&
			e.available(r, at(r, "me"), true, presOpts{layout: 4, codes: []int{201}})
	})
	sub("two-rooms-interleaved", 2, func(e *env) {
		r, r1 := e.rooms[0], e.rooms[1]
		_ = e.join(r, joinSpec{how: "client-join", addr: at(r, "me")}) &&
			e.join(r1, joinSpec{how: "client-joinpresence", addr: at(r1, "me"), explicitID: true}) &&
			e.errorPresence(r1, at(r1, "me"), pid(r1), notAuth, true) &&
			e.available(r, at(r, "me"), true, plain) &&
			e.unavailable(r1, at(r1, "me"), true, plain)
	})
	sub("leave-error-and-cancel", 1, func(e *env) {
		r := e.rooms[0]
		_ = joinAs(e, r, "me") &&
			e.leave(r, "", true) &&
			e.cancelCall(r) && // still joined
			e.leave(r, "x", false) &&
			e.errorPresence(r, at(r, "me"), pid(r), notAuth, false) &&
			joinAs(e, r, "n2")
	})
	sub("invitations", 1, func(e *env) {
		r := e.rooms[0]
		_ = e.invite(inviteSpec{from: e.lobby, to: "test@example.net", inviter: "crone1@shakespeare.lit/desktop", reason: "Hey <&> you", password: "cauldron burn", cont: true, thread: "e0ffe42b", layout: 4}) &&
			e.invite(inviteSpec{from: r.bare, typeAttr: "normal", layout: 0}) &&
			e.join(r, joinSpec{how: "client-join", addr: at(r, "me")}) &&
			e.invite(inviteSpec{from: r.bare, to: "hecate@shakespeare.lit/broom", reason: " ", layout: 2}) &&
			e.available(r, at(r, "me"), true, plain) &&
			e.invite(inviteSpec{from: r.bare, to: "test@example.net", password: "p", layout: 3})
	})
}
