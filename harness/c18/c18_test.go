// C18 — MUC membership follows the room's presence exactly.
//
// One library session served with mux.New(ns, muc.HandleClient(client)); the
// harness is the scripted MUC service on the other side of wire.Conn.  A
// generated history of Join / JoinPresence / Channel.Join / Leave / cancel calls
// on 1-3 rooms is interleaved with generated room traffic; every stanza fed is
// followed by a sentinel IQ so that "processed" is observable.  Oracle: the
// reference membership model in engine_test.go.
package c18

import (
	"strings"
	"testing"

	"pgregory.net/rapid"

	"mellium.im/xmpp/jid"
	"mellium.im/xmpp/stanza"
	"mellium.im/xmpp/verifharness/internal/ev"
	"mellium.im/xmpp/verifharness/internal/gen"
)

func TestMain(m *testing.M) { ev.Main(m, "C18") }

var (
	ourNicks = []string{"me", "n2", "Al ice", `x&y<z>'"`, "ünï"}
	// (other occupants, some of whose nicknames differ from ours only in the
	// case of letters: resourceparts are compared exactly)
	otherNicks = []string{"alice", "Bob B", "gh&st", "Me", "ME", "N2", "al ice", "ÜNÏ"}
	errConds   = []stanza.Error{
		{Type: stanza.Cancel, Condition: stanza.Conflict},
		{Type: stanza.Auth, Condition: stanza.NotAuthorized},
		{Type: stanza.Auth, Condition: stanza.Forbidden},
		{Type: stanza.Auth, Condition: stanza.RegistrationRequired},
		{Type: stanza.Wait, Condition: stanza.ServiceUnavailable},
		{Type: stanza.Cancel, Condition: stanza.ItemNotFound},
		{Type: stanza.Modify, Condition: stanza.NotAcceptable},
		{Type: stanza.Modify, Condition: stanza.JIDMalformed},
	}
)

func withNick(b jid.JID, nick string) jid.JID {
	j, err := b.WithResource(nick)
	if err != nil {
		panic("harness: bad nick " + nick + ": " + err.Error())
	}
	return j
}

func genPresOpts(rt *rapid.T) presOpts {
	o := presOpts{layout: rapid.IntRange(0, 4).Draw(rt, "layout")}
	switch rapid.IntRange(0, 5).Draw(rt, "codes") {
	case 0:
		o.codes = []int{210}
	case 1:
		o.codes = []int{100, 170}
	case 2:
		o.codes = []int{201}
	}
	o.aff = rapid.SampledFrom([]string{"", "owner", "admin", "none"}).Draw(rt, "aff")
	o.role = rapid.SampledFrom([]string{"", "moderator", "visitor"}).Draw(rt, "role")
	o.realJID = rapid.Bool().Draw(rt, "realjid")
	if rapid.IntRange(0, 3).Draw(rt, "presid") == 0 {
		o.id = "p" + rapid.SampledFrom([]string{"1", "2", "3"}).Draw(rt, "pid")
	}
	return o
}

// ownAddr: the occupant address the room would use for us right now.
func ownAddr(r *roomSt) jid.JID {
	switch {
	case r.pend != nil && r.pend.kind == "join":
		return r.pend.req
	case r.joined:
		return r.me
	case !r.lastReq.Equal(jid.JID{}):
		return r.lastReq
	}
	return withNick(r.bare, "me")
}

type action struct {
	w    int
	name string
}

func step(rt *rapid.T, e *env) bool {
	r := e.rooms[rapid.IntRange(0, len(e.rooms)-1).Draw(rt, "room")]
	var acts []action
	add := func(w int, name string) {
		if w > 0 {
			acts = append(acts, action{w, name})
		}
	}
	if r.pend != nil && r.pend.notJoined {
		// a leave on a channel that is not joined is outstanding: the room answers
		// it with an error, or the application gives up
		switch rapid.IntRange(0, 9).Draw(rt, "notJoinedLeaveNext") {
		case 0, 1, 2:
			return e.cancelCall(r)
		case 3:
			return e.available(r, withNick(r.bare, rapid.SampledFrom(otherNicks).Draw(rt, "occ")), false, genPresOpts(rt))
		default:
			if !r.pend.sent {
				return e.cancelCall(r)
			}
			return e.errorPresence(r, r.bare, r.pend.id, rapid.SampledFrom(errConds).Draw(rt, "cond"), rapid.Bool().Draw(rt, "echox"))
		}
	}
	pendJoin := r.pend != nil && r.pend.kind == "join" && r.pend.sent
	pendLeave := r.pend != nil && r.pend.kind == "leave" && r.pend.sent
	if r.pend == nil {
		if !r.joined || r.unknown {
			if r.ch == nil {
				add(6, "client-join")
			} else {
				add(2, "client-join")
			}
		}
		if r.ch != nil && !r.unknown {
			add(4, "rejoin")
			if r.lateConfirmed && !r.joined {
				add(14, "rejoin")
			}
		}
		if r.ch != nil && !r.joined && !r.unknown && !r.addrAmbig && !r.chAddr.Equal(jid.JID{}) {
			add(2, "leave")
		}
		if r.ch != nil && r.joined && !r.unknown {
			add(6, "leave")
			if r.lateConfirmed {
				add(14, "leave")
			}
		}
	} else {
		add(2, "cancel")
		if pendLeave {
			add(3, "cancel")
		}
	}
	if pendJoin {
		add(12, "self-own")
		add(2, "race-self")
	} else {
		add(1, "self-own")
	}
	if pendLeave {
		add(2, "race-unavail")
	}
	if pendJoin || pendLeave {
		add(1, "race-error")
	}
	add(2, "self-other")
	add(2, "occupant")
	if pendJoin || pendLeave {
		add(3, "error-matching")
	}
	add(1, "error-foreign")
	if pendLeave {
		add(10, "unavail-own")
	} else if r.joined && r.abandonedLeave && r.pend == nil {
		add(16, "unavail-own")
	} else if r.joined {
		add(3, "unavail-own")
	} else {
		add(1, "unavail-own")
	}
	add(1, "unavail-other")
	if len(r.former) > 0 {
		add(3, "former")
	}
	add(1, "lobby")
	add(2, "invite")
	add(1, "unrelated")
	total := 0
	for _, a := range acts {
		total += a.w
	}
	k := rapid.IntRange(0, total-1).Draw(rt, "action")
	name := ""
	for _, a := range acts {
		if k < a.w {
			name = a.name
			break
		}
		k -= a.w
	}
	switch name {
	case "client-join":
		s := joinSpec{how: rapid.SampledFrom([]string{"client-join", "client-joinpresence"}).Draw(rt, "how")}
		nickA := rapid.SampledFrom(ourNicks).Draw(rt, "nick")
		switch rapid.IntRange(0, 4).Draw(rt, "nickform") {
		case 0: // bare room address + Nick option (the documented use of Nick)
			s.addr = r.bare
			s.nick = nickA
		case 1: // full address + overriding Nick option
			s.addr = withNick(r.bare, nickA)
			s.nick = rapid.SampledFrom(ourNicks).Draw(rt, "nick2")
		default:
			s.addr = withNick(r.bare, nickA)
		}
		s.password = rapid.SampledFrom([]string{"", "", "s3cr&t<"}).Draw(rt, "pw")
		s.history = rapid.IntRange(0, 2).Draw(rt, "hist")
		if rapid.IntRange(0, 7).Draw(rt, "precancel") == 0 {
			s.how = "client-joinpresence"
			s.preCancel = true
		} else if s.how == "client-joinpresence" {
			s.explicitID = rapid.Bool().Draw(rt, "xid")
		}
		return e.join(r, s)
	case "rejoin":
		s := joinSpec{how: rapid.SampledFrom([]string{"chan-join", "chan-joinpresence"}).Draw(rt, "how")}
		if r.addrAmbig || rapid.IntRange(0, 2).Draw(rt, "renick") == 0 {
			s.nick = rapid.SampledFrom(ourNicks).Draw(rt, "nick")
		}
		s.password = rapid.SampledFrom([]string{"", "", "pw"}).Draw(rt, "pw")
		if rapid.IntRange(0, 7).Draw(rt, "precancel") == 0 {
			s.how = "chan-joinpresence"
			s.preCancel = true
		} else if s.how == "chan-joinpresence" {
			s.explicitID = rapid.Bool().Draw(rt, "xid")
		}
		return e.join(r, s)
	case "leave":
		return e.leave(r, rapid.SampledFrom([]string{"", "bye", "gone <&> fishing"}).Draw(rt, "status"), rapid.Bool().Draw(rt, "xid"))
	case "cancel":
		if pendLeave {
			r.abandonedLeave = true
		}
		return e.cancelCall(r)
	case "race-self", "race-unavail", "race-error":
		return e.race(r, strings.TrimPrefix(name, "race-"), rapid.Bool().Draw(rt, "cancelfirst"), rapid.IntRange(0, 3).Draw(rt, "yields"),
			rapid.SampledFrom(errConds).Draw(rt, "cond"))
	case "self-own":
		return e.available(r, ownAddr(r), true, genPresOpts(rt))
	case "self-other":
		own := ownAddr(r)
		var from jid.JID
		if r.joined && !r.me.Equal(own) && rapid.Bool().Draw(rt, "fromjoined") {
			from = r.me // joined as X, join for Y pending: the room speaks as X
		} else {
			var cands []string
			for _, n := range ourNicks {
				if n != own.Resourcepart() {
					cands = append(cands, n)
				}
			}
			from = withNick(r.bare, rapid.SampledFrom(cands).Draw(rt, "othernick"))
		}
		return e.available(r, from, true, genPresOpts(rt))
	case "occupant":
		return e.available(r, withNick(r.bare, rapid.SampledFrom(otherNicks).Draw(rt, "occ")), false, genPresOpts(rt))
	case "error-matching":
		from := r.pend.req
		if rapid.Bool().Draw(rt, "frombare") {
			from = r.bare
		}
		return e.errorPresence(r, from, r.pend.id, rapid.SampledFrom(errConds).Draw(rt, "cond"), rapid.Bool().Draw(rt, "echox"))
	case "error-foreign":
		id := "zz-" + rapid.SampledFrom([]string{"1", "2"}).Draw(rt, "fid")
		if rapid.Bool().Draw(rt, "oldid") {
			for _, c := range e.calls {
				if c.finished && c.id != "" {
					id = c.id // id of a request that is over
				}
			}
		}
		return e.errorPresence(r, ownAddr(r), id, rapid.SampledFrom(errConds).Draw(rt, "cond"), rapid.Bool().Draw(rt, "echox"))
	case "unavail-own":
		from := ownAddr(r)
		if r.joined {
			from = r.me
		}
		o := genPresOpts(rt)
		o.codes = nil
		switch rapid.IntRange(0, 3).Draw(rt, "ucode") {
		case 0:
			o.codes = []int{307}
		case 1:
			o.codes = []int{303}
		}
		if r.joined && r.abandonedLeave && r.pend == nil {
			r.abandonedLeave = false
			r.lateConfirmed = true
		}
		return e.unavailable(r, from, true, o)
	case "unavail-other":
		var from jid.JID
		if r.pend != nil && r.pend.kind == "join" && !(r.joined && r.pend.req.Equal(r.me)) && rapid.Bool().Draw(rt, "fromreq") {
			from = r.pend.req // requested, not (yet) joined address
			return e.unavailable(r, from, true, genPresOpts(rt))
		}
		from = withNick(r.bare, rapid.SampledFrom(otherNicks).Draw(rt, "occ"))
		return e.unavailable(r, from, false, genPresOpts(rt))
	case "former":
		// a presence from an occupant address we used before a nickname change
		from := r.former[rapid.IntRange(0, len(r.former)-1).Draw(rt, "which")]
		if from.Equal(ownAddr(r)) || (r.joined && from.Equal(r.me)) {
			return true // we are (or ask to be) back under that address
		}
		if rapid.IntRange(0, 2).Draw(rt, "favail") == 0 {
			return e.available(r, from, true, genPresOpts(rt))
		}
		return e.unavailable(r, from, true, genPresOpts(rt))
	case "lobby":
		nick := rapid.SampledFrom(append([]string{"me"}, otherNicks...)).Draw(rt, "lnick")
		o := genPresOpts(rt)
		if rapid.IntRange(0, 2).Draw(rt, "lgarble") == 0 {
			o.garble = rapid.SampledFrom([]string{"aff", "role", "code", "jid"}).Draw(rt, "lgarblekind")
		}
		return e.lobbyPresence(nick, rapid.Bool().Draw(rt, "lunavail"), rapid.Bool().Draw(rt, "lself"), o)
	case "invite":
		s := inviteSpec{}
		switch rapid.IntRange(0, 3).Draw(rt, "invfrom") {
		case 0:
			s.from = r.bare
		case 1:
			s.from = e.lobby
		default:
			s.from = jid.MustParse("coven@chat.shakespeare.lit")
		}
		s.to = rapid.SampledFrom([]string{"", "test@example.net", "hecate@shakespeare.lit/broom"}).Draw(rt, "invto")
		s.inviter = rapid.SampledFrom([]string{"", "crone1@shakespeare.lit/desktop"}).Draw(rt, "inviter")
		s.reason = gen.Text(rt, "reason")
		s.password = gen.Text(rt, "invpw")
		if rapid.IntRange(0, 2).Draw(rt, "shortInvite") == 0 {
			// nothing to say: reason and / or password empty, as empty elements or left out
			if rapid.Bool().Draw(rt, "noReason") {
				s.reason = ""
			}
			if rapid.Bool().Draw(rt, "noPassword") {
				s.password = ""
			}
			s.emptyEls = rapid.Bool().Draw(rt, "emptyEls")
		}
		s.cont = rapid.Bool().Draw(rt, "cont")
		if s.cont {
			s.thread = rapid.SampledFrom([]string{"", "e0ffe42b28561960c6b12b944a092794b9683a38", "t<&>"}).Draw(rt, "thread")
		}
		s.typeAttr = rapid.SampledFrom([]string{"", "normal"}).Draw(rt, "mtype")
		s.layout = rapid.IntRange(0, 4).Draw(rt, "ilayout")
		s.idKind = rapid.SampledFrom([]int{0, 1, 1, 2}).Draw(rt, "iid")
		return e.invite(s)
	default:
		return e.unrelated(rapid.IntRange(0, 8).Draw(rt, "ukind"), r)
	}
}

func runCase(rt *rapid.T) {
	nRooms := rapid.IntRange(1, 3).Draw(rt, "rooms")
	e := newEnv(rt, nRooms)
	defer func() {
		nontrivial := e.foreign
		for _, r := range e.rooms {
			if r.bothSides() {
				nontrivial = true
				e.class("joined-queried-on-both-sides")
			}
		}
		if e.foreign {
			e.class("foreign-presence-during-call")
		}
		var cl []string
		for c := range e.classes {
			cl = append(cl, c)
		}
		ev.Case(nontrivial && !e.dead, strings.Join(e.canon, "\n"), cl...)
	}()
	defer e.teardown()
	steps := rapid.IntRange(2, 16).Draw(rt, "steps")
	for i := 0; i < steps; i++ {
		if !step(rt, e) {
			break
		}
	}
}

func TestC18Membership(t *testing.T) {
	ev.Check(t, 4000, 15000, runCase)
}
