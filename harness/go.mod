module mellium.im/xmpp/verifharness

go 1.23

toolchain go1.23.5

require (
	golang.org/x/text v0.21.0
	mellium.im/xmpp v0.0.0
	pgregory.net/rapid v1.3.0
)

require (
	golang.org/x/net v0.33.0 // indirect
	mellium.im/reader v0.1.0 // indirect
	mellium.im/xmlstream v0.15.4 // indirect
)

replace mellium.im/xmpp => /repo
