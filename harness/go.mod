module mellium.im/xmpp/verifharness

go 1.23

toolchain go1.23.5

require (
	golang.org/x/crypto v0.31.0
	golang.org/x/image v0.23.0
	golang.org/x/mod v0.22.0
	golang.org/x/net v0.33.0
	golang.org/x/sync v0.10.0
	golang.org/x/sys v0.28.0
	golang.org/x/text v0.21.0
	golang.org/x/tools v0.28.0
	mellium.im/reader v0.1.0
	mellium.im/sasl v0.3.2
	mellium.im/xmlstream v0.15.4
	mellium.im/xmpp v0.0.0
	pgregory.net/rapid v1.3.0
)

replace mellium.im/xmpp => /repo
