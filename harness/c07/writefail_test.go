package c07

import (
	"bytes"
	"encoding/xml"
	"fmt"
	"strings"
	"testing"
	"time"

	"mellium.im/xmlstream"
	"mellium.im/xmpp"
	"mellium.im/xmpp/verifharness/internal/ev"
	"mellium.im/xmpp/verifharness/internal/wire"
	"mellium.im/xmpp/verifharness/internal/xt"
	"pgregory.net/rapid"
)

// TestC07ReplyWriteFails: the write that carries the reply to one request
// fails (once; the transport is otherwise healthy).  That request then has
// neither a reply nor a stream error on the wire, which the statement allows
// for no served request: the serve loop must not carry on as if nothing had
// happened and report a clean end.  (Observed at the bytes written and the
// value returned by Serve.)
func TestC07ReplyWriteFails(t *testing.T) {
	ev.Check(t, 1200, 8000, func(rt *rapid.T) {
		s2s := rapid.Bool().Draw(rt, "s2s")
		opts := wire.SessionOpts{}
		if s2s {
			opts.State |= xmpp.S2S
		}
		ns := opts.NS()
		type el struct {
			kind, typ, id string
			replies       bool // the handler writes the reply itself
		}
		n := rapid.IntRange(1, 5).Draw(rt, "n")
		var els []el
		var reqs []int
		for i := 0; i < n; i++ {
			k := rapid.SampledFrom([]string{"iq-get", "iq-set", "iq-get", "iq-result", "message", "presence"}).Draw(rt, "kind")
			e := el{kind: strings.SplitN(k, "-", 2)[0], id: fmt.Sprintf("q%d", i)}
			if e.kind == "iq" {
				e.typ = strings.SplitN(k, "-", 2)[1]
				e.replies = rapid.Bool().Draw(rt, "handlerReplies")
				if e.typ == "get" || e.typ == "set" {
					reqs = append(reqs, i)
				}
			}
			els = append(els, e)
		}
		if len(reqs) == 0 {
			els[0] = el{kind: "iq", typ: "get", id: "q0"}
			reqs = []int{0}
		}
		failFor := reqs[rapid.IntRange(0, len(reqs)-1).Draw(rt, "failFor")]
		errKind := rapid.SampledFrom([]string{"injected", "timeout"}).Draw(rt, "errKind")
		desc := fmt.Sprintf("reply-write-fails s2s=%v elements=%v the write carrying the reply to %s fails once with %s", s2s, els, els[failFor].id, errKind)
		ev.Case(true, desc, "reply-write-fails", "reply-write-fails-"+errKind, fmt.Sprintf("requests-after-the-failure-%v", failFor != reqs[len(reqs)-1]))

		conn := wire.NewConn()
		conn.FeedString(opts.Header())
		for _, e := range els {
			attrs := []xml.Attr{xt.A("id", e.id)}
			if e.typ != "" {
				attrs = append(attrs, xt.A("type", e.typ))
			}
			conn.Feed(xt.El(ns, e.kind, attrs, xt.El("urn:verif:c07w", "q", nil)).Bytes(ns))
		}
		conn.FeedString("</stream:stream>")
		conn.CloseInput()
		failed := false
		marker := []byte(`"` + els[failFor].id + `"`)
		conn.BeforeWrite = func(_ int, p []byte) error {
			if !failed && bytes.Contains(p, marker) {
				failed = true
				if errKind == "timeout" {
					return wire.ErrTimeout
				}
				return wire.ErrInjected
			}
			return nil
		}
		s, err := wire.ReadySession(conn, opts)
		if err != nil {
			rt.Fatalf("harness: %v", err)
		}
		byID := map[string]el{}
		for _, e := range els {
			byID[e.id] = e
		}
		h := xmpp.HandlerFunc(func(t xmlstream.TokenReadEncoder, start *xml.StartElement) error {
			id := ""
			for _, a := range start.Attr {
				if a.Name.Local == "id" {
					id = a.Value
				}
			}
			e := byID[id]
			if e.kind == "iq" && (e.typ == "get" || e.typ == "set") && e.replies {
				_, err := xmlstream.Copy(t, xt.El(ns, "iq", []xml.Attr{xt.A("type", "result"), xt.A("id", id)}).Reader())
				return err
			}
			return nil
		})
		var serveErr error
		served := make(chan string, 1)
		go func() { served <- ev.Guard(func() { serveErr = s.Serve(h) }) }()
		select {
		case p := <-served:
			if p != "" {
				ev.Failf(rt, "%s\nServe panicked: %s", desc, p)
			}
		case <-time.After(10 * time.Second):
			if b := wire.BlockedMatching("(*Session).Serve("); len(b) > 0 {
				time.Sleep(300 * time.Millisecond)
				if b2 := wire.BlockedMatching("(*Session).Serve("); len(b2) > 0 {
					conn.Close()
					ev.Failf(rt, "%s\nServe has not returned 10 s after the input (ending in end of file) was complete\n%s", desc, strings.Join(b2, "\n\n"))
				}
			}
			conn.Close()
			ev.Class("inconclusive-timeout")
			return
		}
		if !failed {
			// (the reply never reached the transport: nothing to judge here)
			return
		}
		out := conn.Output()
		items, _, _ := wire.ParseStream(out, false, ns)
		answered := map[string]bool{}
		streamErr := false
		for _, it := range items {
			if it.Kind != "element" {
				continue
			}
			if it.Node.Name.Space == wire.StreamNS && it.Node.Name.Local == "error" {
				streamErr = true
			}
			if it.Node.Name.Local == "iq" {
				id, _ := it.Node.Get("id")
				if typ, _ := it.Node.Get("type"); typ == "result" || typ == "error" {
					answered[id] = true
				}
			}
		}
		if streamErr {
			return
		}
		for _, i := range reqs {
			if !answered[els[i].id] && serveErr == nil {
				ev.Failf(rt, "%s\nthe request %s has neither a reply nor a stream error on the wire (the write carrying its reply failed), yet Serve carried on and returned nil\noutput: %q", desc, els[i].id, out)
			}
		}
	})
}
