package c07

// What one session leaves behind must not reach the next: before a generated
// case is served, ANOTHER session of the same process is ended the hard way —
// its handler starts a reply (one to three open elements), never finishes it
// and returns an error.  That session's own output is not judged (an unfinished
// element is the handler's doing); the generated case that follows is judged
// in full by the regular oracle.

import (
	"encoding/xml"
	"errors"
	"fmt"
	"testing"

	"mellium.im/xmlstream"
	"mellium.im/xmpp"
	"mellium.im/xmpp/jid"
	"mellium.im/xmpp/verifharness/internal/ev"
	"mellium.im/xmpp/verifharness/internal/wire"
	"pgregory.net/rapid"
)

func endSessionMidReply(depth int, s2s bool, failWith string) (panicked string) {
	opts := wire.SessionOpts{Local: jid.MustParse("test@example.net")}
	if s2s {
		opts.State |= xmpp.S2S
	}
	ns := opts.NS()
	conn := wire.NewConn()
	conn.FeedString(opts.Header())
	conn.FeedString(`<iq xmlns="` + ns + `" type="get" id="poison1" from="a@example.org/r"><q xmlns="urn:verif:q"/></iq>`)
	conn.CloseInput()
	s, err := wire.ReadySession(conn, opts)
	if err != nil {
		return "harness: " + err.Error()
	}
	return ev.Guard(func() {
		_ = s.Serve(xmpp.HandlerFunc(func(t xmlstream.TokenReadEncoder, start *xml.StartElement) error {
			_ = t.EncodeToken(xml.StartElement{Name: xml.Name{Local: "iq"}, Attr: []xml.Attr{{Name: xml.Name{Local: "type"}, Value: "result"}, {Name: xml.Name{Local: "id"}, Value: "poison1"}}})
			for i := 1; i < depth; i++ {
				_ = t.EncodeToken(xml.StartElement{Name: xml.Name{Space: "urn:verif:q", Local: fmt.Sprintf("open%d", i)}})
			}
			if failWith == "panic-free-nil" {
				return nil
			}
			return errors.New("verif: handler gave up in the middle of its reply")
		}))
	})
}

func TestC07AfterAbandonedReply(t *testing.T) {
	ev.Check(t, 1500, 8000, func(rt *rapid.T) {
		depth := rapid.IntRange(1, 3).Draw(rt, "openDepth")
		n := rapid.IntRange(1, 3).Draw(rt, "abandonedSessions")
		for i := 0; i < n; i++ {
			if p := endSessionMidReply(depth, rapid.Bool().Draw(rt, "s2sBefore"), "error"); p != "" {
				ev.Failf(rt, "a session whose handler abandoned its reply %d element(s) deep and returned an error: %s", depth, p)
			}
		}
		tc := genCase(rt)
		nt, classes := classify(tc)
		ev.Case(nt, fmt.Sprintf("after %d session(s) ended in the middle of a handler's reply (%d deep): %s", n, depth, tc.String()), append(classes, "after-abandoned-reply")...)
		check(rt, tc)
	})
}
