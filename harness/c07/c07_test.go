// C07 — Every incoming get/set IQ is answered exactly once; replies are never answered.
package c07

import (
	"bytes"
	"context"
	"encoding/xml"
	"errors"
	"fmt"
	"io"
	"strings"
	"sync"
	"testing"
	"time"

	"pgregory.net/rapid"

	"mellium.im/xmlstream"
	"mellium.im/xmpp"
	"mellium.im/xmpp/jid"
	"mellium.im/xmpp/mux"
	"mellium.im/xmpp/stanza"
	"mellium.im/xmpp/stream"
	"mellium.im/xmpp/verifharness/internal/ev"
	"mellium.im/xmpp/verifharness/internal/gen"
	"mellium.im/xmpp/verifharness/internal/wire"
	"mellium.im/xmpp/verifharness/internal/xt"
)

func TestMain(m *testing.M) { ev.Main(m, "C07") }

const stanzaErrNS = "urn:ietf:params:xml:ns:xmpp-stanzas"

// outstandingID is the id of the application's own pending request.
const outstandingID = "out-1"

const midWriterID = "mid-writer-element"

// ---------------------------------------------------------------- case model

type write struct {
	kind string
	node *xt.Node
	// how the handler writes it: "" token by token, "encode" t.Encode(value),
	// "encodeelement" t.EncodeElement(payload value, the stanza's start element)
	via string
}

// nodeValue marshals as the element it holds (a Go value a handler passes to
// Encode).
type nodeValue struct{ n *xt.Node }

func (v nodeValue) MarshalXML(e *xml.Encoder, _ xml.StartElement) error {
	for _, tok := range v.n.Tokens() {
		if err := e.EncodeToken(tok); err != nil {
			return err
		}
	}
	return e.Flush()
}

// innerValue marshals as the children of the element it holds.
type innerValue struct{ n *xt.Node }

func (v innerValue) MarshalXML(e *xml.Encoder, start xml.StartElement) error {
	if err := e.EncodeToken(start); err != nil {
		return err
	}
	for _, c := range v.n.Children {
		for _, tok := range c.Tokens() {
			if err := e.EncodeToken(tok); err != nil {
				return err
			}
		}
	}
	if err := e.EncodeToken(start.End()); err != nil {
		return err
	}
	return e.Flush()
}

type prog struct {
	read   string // none some all
	k      int
	writes []write
	ret    string // "" plain stream
	// what the handler does, in place, to the start element it was handed a
	// pointer to (after reading and writing): "" nothing, "rename" (into a
	// message, to pass the payload on), "clearns", "dropattrs", "scribble"
	// (overwrites every attribute value)
	mutate string
	// the handler also writes a token that the XML encoder refuses (a comment
	// containing "-->", a second XML declaration, an unbalanced directive) and
	// ignores the error: nothing of it reaches the wire and nothing else changes
	rejected string
}

type elem struct {
	node    *xt.Node
	kind    string // iq message presence other decoy
	typ     string
	id      string
	hasID   bool
	from    string
	hasFrom bool
	badFrom bool
	payload xml.Name
	hasPay  bool
	// character data (not white space) stands where the payload element should
	// be: the first child of the IQ is text
	textFirst bool
	prog      prog
	// the start element also carries type/id/from attributes in a foreign namespace
	foreignAttrs bool
}

type tcase struct {
	// the application has a request of its own outstanding (SendIQ waiting for
	// its answer) whose id some incoming stanzas reuse: ids are only unique per
	// sender, so an incoming get/set with that id is still a request to answer
	outstanding bool
	// the peer answers that request: the answer stands in the input before the
	// element with this index (-1: never answered); the waiting caller reads
	// ownRespRead of it ("none", "some", "all": to its very end) and closes it.
	// What follows it is served like everything else.
	ownRespAt   int
	ownRespRead string
	// how the application made that request ("" SendIQ, "IterIQ", "UnmarshalIQ")
	// and what the answer holds ("" a payload, "empty" <iq .../>, "emptytags"
	// <iq ...></iq>)
	ownVia, ownRespShape string
	s2s                  bool
	useMux               bool
	// the session was created for the address example.org and was assigned
	// test@example.net during negotiation (as resource binding does): stanzas
	// from example.org are then from somebody else
	addrChanged bool
	// while the input is served another goroutine of the application is in the
	// middle of writing an element of its own (it holds a token writer open)
	midWriter bool
	// the session was negotiated by the websocket package's negotiator
	// (WebSocket framing: the stream header's namespace is the framing
	// namespace, every stanza declares its own); "" | "initiated" | "received"
	ws      string
	reg     map[string]bool // "type|space|local" registered in the mux
	elems   []elem
	closeIt bool
}

func key(typ string, n xml.Name) string { return typ + "|" + n.Space + "|" + n.Local }

var payloadNames = []xml.Name{
	{Space: "urn:verif:x", Local: "query"},
	{Space: "urn:verif:y", Local: "query"},
	{Space: "urn:xmpp:ping", Local: "ping"},
	{Space: "urn:verif:x", Local: "iq"},
}

func genWrites(t *rapid.T, e elem, ns string) []write {
	n := rapid.SampledFrom([]int{0, 0, 1, 1, 1, 2, 3}).Draw(t, "nwrites")
	var ws []write
	otherID := e.id + "x"
	for i := 0; i < n; i++ {
		k := rapid.SampledFrom([]string{"reply-result", "reply-error", "reply-emptyns", "otherid", "get-sameid", "set-sameid", "nested", "foreign-iq", "message", "other"}).Draw(t, "wkind")
		iqns := ns
		var node *xt.Node
		body := func() []*xt.Node {
			if rapid.Bool().Draw(t, "wbody") {
				return []*xt.Node{gen.Tree(t, "wb", 1, "urn:verif:x")}
			}
			return nil
		}
		switch k {
		case "reply-result":
			node = xt.El(iqns, "iq", []xml.Attr{xt.A("type", "result"), xt.A("id", e.id)}, body()...)
		case "reply-error":
			node = xt.El(iqns, "iq", []xml.Attr{xt.A("id", e.id), xt.A("type", "error")},
				xt.El(iqns, "error", []xml.Attr{xt.A("type", "cancel")}, xt.El(stanzaErrNS, "item-not-found", nil)))
		case "reply-emptyns":
			node = xt.El("", "iq", []xml.Attr{xt.A("type", "result"), xt.A("id", e.id)}, body()...)
		case "otherid":
			node = xt.El(iqns, "iq", []xml.Attr{xt.A("type", "result"), xt.A("id", otherID)}, body()...)
		case "get-sameid":
			node = xt.El(iqns, "iq", []xml.Attr{xt.A("type", "get"), xt.A("id", e.id)}, xt.El("urn:xmpp:ping", "ping", nil))
		case "set-sameid":
			node = xt.El("", "iq", []xml.Attr{xt.A("type", "set"), xt.A("id", e.id)}, xt.El("urn:xmpp:ping", "ping", nil))
		case "nested":
			inner := xt.El(iqns, "iq", []xml.Attr{xt.A("type", "result"), xt.A("id", e.id)})
			node = xt.El("urn:verif:wrap", "wrap", []xml.Attr{xt.A("id", e.id), xt.A("type", "result")}, inner)
			if rapid.Bool().Draw(t, "msgwrap") {
				node = xt.El(iqns, "message", []xml.Attr{xt.A("id", e.id), xt.A("type", "result")}, inner)
			}
		case "foreign-iq":
			node = xt.El("urn:verif:x", "iq", []xml.Attr{xt.A("type", "result"), xt.A("id", e.id)})
		case "message":
			node = xt.El(iqns, "message", []xml.Attr{xt.A("id", "m1"), xt.A("type", "chat")}, xt.El(iqns, "body", nil, xt.Tx(gen.Text(t, "mbody"))))
		default:
			node = gen.Tree(t, "ow", 1, "urn:verif:y")
			node.Name = xml.Name{Space: "urn:verif:y", Local: "note"}
		}
		if e.id == "" && k != "message" && k != "other" {
			// replies to requests without an id are outside the positive clause;
			// keep ids non-empty so that nothing has to be generated
			for j := range node.Attr {
				if node.Attr[j].Name.Local == "id" && node.Attr[j].Value == "" {
					node.Attr[j].Value = "noid"
				}
			}
		}
		if (k == "reply-result" || k == "reply-error" || k == "otherid" || k == "message") && rapid.IntRange(0, 2).Draw(t, "addressed") == 0 {
			// a fully addressed stanza: from, to and a language tag besides id and
			// type, in any attribute order
			node.Attr = append(node.Attr, xt.A("from", "test@example.net/r"), xt.A("to", "juliet@example.com/balcony"),
				xml.Attr{Name: xml.Name{Space: "http://www.w3.org/XML/1998/namespace", Local: "lang"}, Value: "en"})
			node.Attr = rapid.Permutation(node.Attr).Draw(t, "wattrorder")
		}
		w := write{kind: k, node: node}
		if (k == "reply-result" || k == "reply-error" || k == "otherid" || k == "message") && rapid.IntRange(0, 2).Draw(t, "wvia") == 0 {
			// a Go value marshaled by the handler instead of tokens
			w.via = rapid.SampledFrom([]string{"encode", "encodeelement"}).Draw(t, "wviakind")
		}
		ws = append(ws, w)
	}
	return ws
}

func genCase(t *rapid.T) tcase {
	tc := tcase{s2s: rapid.Bool().Draw(t, "s2s"), useMux: rapid.Bool().Draw(t, "mux"), reg: map[string]bool{}}
	tc.addrChanged = rapid.IntRange(0, 2).Draw(t, "addrChanged") == 0
	tc.midWriter = rapid.IntRange(0, 7).Draw(t, "midWriter") == 0
	if rapid.IntRange(0, 3).Draw(t, "ws") == 0 {
		tc.ws = rapid.SampledFrom([]string{"initiated", "received"}).Draw(t, "wsRole")
		tc.s2s, tc.addrChanged = false, false
	}
	ns := stanza.NSClient
	if tc.s2s {
		ns = stanza.NSServer
	}
	if tc.useMux {
		for _, typ := range []string{"get", "set", "result", "error"} {
			for _, p := range payloadNames[:3] {
				if rapid.IntRange(0, 3).Draw(t, "reg") == 0 {
					tc.reg[key(typ, p)] = true
				}
			}
		}
	}
	tc.outstanding = rapid.IntRange(0, 3).Draw(t, "outstanding") == 0
	tc.ownRespAt = -1
	collided := false
	n := rapid.IntRange(1, 5).Draw(t, "nelems")
	for i := 0; i < n; i++ {
		var e elem
		e.kind = rapid.SampledFrom([]string{"iq", "iq", "iq", "iq", "message", "presence", "other", "decoy"}).Draw(t, "ekind")
		e.id = fmt.Sprintf("id%d", i)
		e.hasID = true
		var attrs []xml.Attr
		switch e.kind {
		case "iq", "decoy":
			e.typ = rapid.SampledFrom([]string{"get", "set", "get", "set", "result", "error"}).Draw(t, "iqtype")
		case "message":
			e.typ = rapid.SampledFrom([]string{"chat", "normal", "error", "get"}).Draw(t, "mtype")
		case "presence":
			e.typ = rapid.SampledFrom([]string{"", "unavailable", "error", "set"}).Draw(t, "ptype")
		}
		switch rapid.IntRange(0, 9).Draw(t, "idkind") {
		case 0:
			e.hasID = false
			e.id = ""
		case 1:
			e.id = ""
		case 2:
			e.id = gen.NonEmptyText(t, "idtext")
		case 3:
			if tc.outstanding && (e.typ == "get" || e.typ == "set") && !collided {
				e.id = outstandingID
				collided = true
			}
		}
		if e.hasID {
			attrs = append(attrs, xt.A("id", e.id))
		}
		if e.typ != "" {
			attrs = append(attrs, xt.A("type", e.typ))
		}
		switch rapid.IntRange(0, 5).Draw(t, "fromkind") {
		case 0, 1:
			e.hasFrom, e.from = true, "juliet@example.com/balcony"
		case 2:
			e.hasFrom, e.from = true, "example.org"
		case 3:
			e.hasFrom, e.from = true, "test@example.net" // own bare address
			if tc.ws != "" {
				// (with WebSocket framing the serve loop compares stanza names with
				// the header's namespace and normalizes nothing: C08 is stated for
				// the client and server stream namespaces)
				e.from = "test@example.net/other"
			}
		case 4:
			if rapid.Bool().Draw(t, "badfrom") {
				e.hasFrom, e.from, e.badFrom = true, "@@bad/", true
			}
		}
		if e.hasFrom {
			attrs = append(attrs, xt.A("from", e.from))
		}
		if rapid.Bool().Draw(t, "hasto") {
			// (whom the request is addressed to makes no difference to whether it
			// is answered: our full or bare address, our server, somebody else,
			// something that is not an address)
			tos := []string{"test@example.net/r", "test@example.net/r", "test@example.net", "example.net", "other@example.net/x", "conference.example.org"}
			if !tc.useMux {
				// (the multiplexer cannot represent a stanza whose to is not an
				// address and ends the stream)
				tos = append(tos, "@@")
			}
			if e.hasFrom && !e.badFrom {
				// addressed to its own sender (a client asking its own address)
				tos = append(tos, e.from, e.from)
			}
			attrs = append(attrs, xt.A("to", rapid.SampledFrom(tos).Draw(t, "toaddr")))
		}
		if rapid.IntRange(0, 5).Draw(t, "foreignAttrs") == 0 {
			// attributes with the same local names in a foreign namespace are not
			// the stanza's type, id or sender
			fa := []xml.Attr{
				{Name: xml.Name{Space: "urn:verif:ext", Local: "type"}, Value: rapid.SampledFrom([]string{"result", "error", "get", "set"}).Draw(t, "xtype")},
				{Name: xml.Name{Space: "urn:verif:ext", Local: "id"}, Value: "foreign-id"},
				{Name: xml.Name{Space: "urn:verif:ext", Local: "from"}, Value: "nobody@example.org/x"},
			}
			k := rapid.IntRange(1, 3).Draw(t, "nforeign")
			if rapid.Bool().Draw(t, "foreignFirst") {
				attrs = append(append([]xml.Attr{}, fa[:k]...), attrs...)
			} else {
				attrs = append(attrs, fa[:k]...)
			}
			e.foreignAttrs = true
		}
		name := xml.Name{Space: ns, Local: e.kind}
		switch e.kind {
		case "other":
			name = xml.Name{Space: "urn:verif:x", Local: rapid.SampledFrom([]string{"foo", "query"}).Draw(t, "oname")}
		case "decoy":
			name = xml.Name{Space: "urn:verif:x", Local: "iq"}
		}
		node := &xt.Node{Name: name, Attr: attrs}
		// (an error IQ without payload through the multiplexer is outside the
		// statement: it needs no reply and what else happens is unspecified)
		if rapid.IntRange(0, 5).Draw(t, "haspayload") > 0 || (tc.useMux && e.kind == "iq" && e.typ == "error") {
			e.payload = rapid.SampledFrom(payloadNames).Draw(t, "payload")
			e.hasPay = true
			p := gen.Tree(t, "pay", rapid.IntRange(0, 2).Draw(t, "pdepth"), e.payload.Space)
			p.Name = e.payload
			p.Attr = nil
			node.Children = append(node.Children, p)
			if rapid.IntRange(0, 3).Draw(t, "second") == 0 {
				node.Children = append(node.Children, gen.Tree(t, "pay2", 1, "urn:verif:y"))
			}
		}
		if e.kind == "iq" && rapid.IntRange(0, 9).Draw(t, "textfirst") == 0 {
			e.textFirst = true
			node.Children = append([]*xt.Node{xt.Tx(rapid.SampledFrom([]string{"not found", "x", " . ", "&<"}).Draw(t, "leadingtext"))}, node.Children...)
		}
		e.node = node
		e.prog.read = rapid.SampledFrom([]string{"none", "some", "all"}).Draw(t, "read")
		if e.prog.read == "some" {
			e.prog.k = rapid.IntRange(1, 4).Draw(t, "k")
		}
		e.prog.writes = genWrites(t, e, ns)
		if rapid.IntRange(0, 7).Draw(t, "ret") == 0 {
			e.prog.ret = rapid.SampledFrom([]string{"plain", "stream", "wrapeof", "eof", "wrapunexpected", "stanza", "wrapstanza"}).Draw(t, "retkind")
		}
		if !tc.midWriter && rapid.IntRange(0, 5).Draw(t, "rejectedToken") == 0 {
			e.prog.rejected = rapid.SampledFrom([]string{"comment", "procinst", "directive"}).Draw(t, "rejected")
		}
		if !tc.useMux && rapid.IntRange(0, 4).Draw(t, "mutates") == 0 {
			e.prog.mutate = rapid.SampledFrom([]string{"rename", "clearns", "dropattrs", "scribble"}).Draw(t, "mutate")
		}
		tc.elems = append(tc.elems, e)
	}
	tc.closeIt = rapid.IntRange(0, 3).Draw(t, "close") > 0
	if tc.outstanding && tc.ws == "" && rapid.Bool().Draw(t, "ownAnswered") {
		tc.ownRespAt = rapid.IntRange(0, len(tc.elems)).Draw(t, "ownRespAt")
		tc.ownRespRead = rapid.SampledFrom([]string{"none", "some", "all", "all"}).Draw(t, "ownRespRead")
		tc.ownVia = rapid.SampledFrom([]string{"", "", "IterIQ", "UnmarshalIQ"}).Draw(t, "ownVia")
		tc.ownRespShape = rapid.SampledFrom([]string{"", "", "empty", "emptytags"}).Draw(t, "ownRespShape")
	}
	return tc
}

func (tc tcase) ns() string {
	if tc.s2s {
		return stanza.NSServer
	}
	return stanza.NSClient
}

func (tc tcase) String() string {
	var sb strings.Builder
	fmt.Fprintf(&sb, "s2s=%v mux=%v own-request-%q-outstanding=%v (made through %q, answered before element %d with a %q answer, the caller reads %q of it) address-assigned-during-negotiation(created as example.org)=%v websocket-session=%q another-goroutine-mid-element-while-handlers-reply=%v", tc.s2s, tc.useMux, outstandingID, tc.outstanding, tc.ownVia, tc.ownRespAt, tc.ownRespShape, tc.ownRespRead, tc.addrChanged, tc.ws, tc.midWriter)
	if tc.useMux {
		var ks []string
		for k := range tc.reg {
			ks = append(ks, k)
		}
		sortStrings(ks)
		fmt.Fprintf(&sb, " registered=%v", ks)
	}
	for i, e := range tc.elems {
		fmt.Fprintf(&sb, "\n  in[%d] %s\n     handler: read=%s/%d ret=%q changes-the-start-element-in-place=%q also-writes-a-token-the-encoder-refuses=%q writes:", i, e.node.Bytes(tc.ns()), e.prog.read, e.prog.k, e.prog.ret, e.prog.mutate, e.prog.rejected)
		for _, w := range e.prog.writes {
			fmt.Fprintf(&sb, " [%s%s %s]", w.kind, map[string]string{"": "", "encode": " via Encode(value)", "encodeelement": " via EncodeElement(value, start)"}[w.via], w.node.Bytes(tc.ns()))
		}
	}
	fmt.Fprintf(&sb, "\n  peer closes=%v", tc.closeIt)
	return sb.String()
}

func sortStrings(s []string) {
	for i := 1; i < len(s); i++ {
		for j := i; j > 0 && s[j] < s[j-1]; j-- {
			s[j], s[j-1] = s[j-1], s[j]
		}
	}
}

// ---------------------------------------------------------------- handler

type runner struct {
	tc    *tcase
	calls []int // index of the element each invocation served
	next  int
	// aboutToWrite, when set, is called before a handler's first write (the
	// harness then lets a concurrent writer that is in the middle of an element
	// finish)
	aboutToWrite func()
}

func (r *runner) run(p prog, t xmlstream.TokenReadEncoder) error {
	switch p.read {
	case "some", "all":
		for n := 0; p.read == "all" || n < p.k; n++ {
			_, err := t.Token()
			if err == io.EOF {
				break
			}
			if err != nil {
				return err
			}
		}
	}
	switch p.rejected {
	case "comment":
		_ = t.EncodeToken(xml.Comment("-->"))
	case "procinst":
		_ = t.EncodeToken(xml.ProcInst{Target: "xml", Inst: []byte(`version="1.0"`)})
	case "directive":
		_ = t.EncodeToken(xml.Directive("<"))
	}
	if len(p.writes) > 0 && r.aboutToWrite != nil {
		r.aboutToWrite()
	}
	for _, w := range p.writes {
		var err error
		switch w.via {
		case "encode":
			err = t.Encode(nodeValue{w.node})
		case "encodeelement":
			err = t.EncodeElement(innerValue{w.node}, xml.StartElement{Name: w.node.Name, Attr: append([]xml.Attr(nil), w.node.Attr...)})
		default:
			_, err = xmlstream.Copy(t, w.node.Reader())
		}
		if err != nil {
			return err
		}
	}
	switch p.ret {
	case "plain":
		return errors.New("verif: handler failed")
	case "stream":
		return stream.PolicyViolation
	case "wrapeof":
		// (what a handler gets from reading an empty payload to its end, wrapped)
		return fmt.Errorf("verif: no payload: %w", io.EOF)
	case "eof":
		return io.EOF
	case "wrapunexpected":
		return fmt.Errorf("verif: short payload: %w", io.ErrUnexpectedEOF)
	case "stanza":
		// a stanza error as the handler's result (not written as a reply)
		return stanza.Error{Type: stanza.Modify, Condition: stanza.BadRequest}
	case "wrapstanza":
		return fmt.Errorf("verif: cannot handle this: %w", stanza.Error{Type: stanza.Cancel, Condition: stanza.FeatureNotImplemented})
	}
	return nil
}

// elemFor identifies which generated element an invocation belongs to: the
// harness marks every top-level element with a unique id-like attribute? No —
// elements are served strictly in order, so invocations are matched by order
// against the elements that are expected to reach a handler at all.
func (r *runner) HandleXMPP(t xmlstream.TokenReadEncoder, start *xml.StartElement) error {
	i := r.next
	r.next++
	r.calls = append(r.calls, i)
	if i >= len(r.tc.elems) {
		return nil
	}
	err := r.run(r.tc.elems[i].prog, t)
	switch r.tc.elems[i].prog.mutate {
	case "rename":
		start.Name.Local = "message"
	case "clearns":
		start.Name.Space = ""
	case "dropattrs":
		start.Attr = start.Attr[:0]
	case "scribble":
		for j := range start.Attr {
			start.Attr[j].Value = "scribbled@example.org"
		}
	}
	return err
}

// ---------------------------------------------------------------- model

type expect struct {
	node    *xt.Node // exact element (already normalised), or nil for a default reply
	defID   string
	defTo   string
	defHas  bool
	anyID   bool // request carried no id: a default reply (with whatever id) may or may not appear
	comment string
}

func isReply(w *xt.Node, id string) bool {
	if w.Name.Local != "iq" || !(w.Name.Space == "" || w.Name.Space == stanza.NSClient || w.Name.Space == stanza.NSServer) {
		return false
	}
	wid, _ := w.Get("id")
	typ, _ := w.Get("type")
	return wid == id && (typ == "result" || typ == "error")
}

// model returns the expected output elements, whether the stream must end with
// a stream error, and whether the expectation is exact for the element at
// which the stream is terminated.
func model(tc tcase) (out []expect, streamErr bool) {
	ns := tc.ns()
	// a from equal to the session's own bare address is presented (and
	// answered) as "no sender named" (C08)
	elems := make([]elem, len(tc.elems))
	copy(elems, tc.elems)
	for i := range elems {
		if elems[i].from == "test@example.net" {
			elems[i].from, elems[i].hasFrom = "", false
		}
	}
	tc.elems = elems
	s2sFrom := ""
	if tc.s2s {
		s2sFrom = "test@example.net"
	}
	for _, e := range tc.elems {
		isIQ := e.kind == "iq"
		needs := isIQ && (e.typ == "get" || e.typ == "set")
		var p *prog
		fallback := false
		if !tc.useMux {
			p = &e.prog
		} else {
			switch {
			case isIQ:
				if e.badFrom {
					// the multiplexer cannot represent the stanza: stream error
					return out, true
				}
				if e.textFirst {
					// the content of the IQ does not begin with a payload element: not
					// routable; the stream is ended (and a reply is never answered)
					return out, true
				}
				if !e.hasPay && e.typ != "result" {
					// an IQ without payload other than a result is not routable;
					// what the multiplexer does with it is not specified here
					return out, true
				}
				if e.hasPay && tc.reg[key(e.typ, e.payload)] {
					p = &e.prog
				} else {
					fallback = needs
				}
			case e.kind == "message" || e.kind == "presence":
				if e.badFrom {
					// the multiplexer cannot represent the stanza: stream error
					return out, true
				}
				// no message/presence/top-level handlers are registered
			}
		}
		answered := false
		if p != nil {
			for _, w := range p.writes {
				out = append(out, expect{node: wire.ExpectTopLevel(w.node, ns, s2sFrom), comment: w.kind})
				if needs && isReply(w.node, e.id) {
					answered = true
				}
			}
			if p.ret != "" {
				return out, true
			}
		}
		if fallback {
			out = append(out, expect{defID: e.id, defTo: e.from, defHas: e.hasFrom, anyID: e.id == "", comment: "mux fallback"})
			answered = true
		}
		if needs && !answered {
			if e.badFrom {
				return out, true
			}
			out = append(out, expect{defID: e.id, defTo: e.from, defHas: e.hasFrom, anyID: e.id == "", comment: "session default"})
		}
	}
	return out, false
}

func isDefaultReply(n *xt.Node, ns string, ex expect) string {
	if n.Name.Local != "iq" || n.Name.Space != ns {
		return "not an iq in the content namespace"
	}
	if typ, _ := n.Get("type"); typ != "error" {
		return "type is not error"
	}
	if id, _ := n.Get("id"); id != ex.defID && !ex.anyID {
		return fmt.Sprintf("id %q, expected %q", id, ex.defID)
	}
	to, hasTo := n.Get("to")
	if ex.defHas && ex.defTo != "" {
		if to != ex.defTo {
			return fmt.Sprintf("addressed to %q, expected the request's sender %q", to, ex.defTo)
		}
	} else if hasTo && to != "" {
		return fmt.Sprintf("addressed to %q although the request named no sender", to)
	}
	er := n.Find("error")
	if er == nil {
		return "no error child"
	}
	if er.Find("service-unavailable") == nil || er.Find("service-unavailable").Name.Space != stanzaErrNS {
		return "error is not service-unavailable"
	}
	return ""
}

// ---------------------------------------------------------------- property

func check(t interface {
	Helper()
	Fatalf(string, ...any)
}, tc tcase) {
	t.Helper()
	fail := func(format string, args ...any) {
		t.Helper()
		ev.Failf(t, "%s\n%s", tc.String(), fmt.Sprintf(format, args...))
	}
	opts := wire.SessionOpts{}
	if tc.s2s {
		opts.State |= xmpp.S2S
	}
	if tc.addrChanged {
		opts.Local = jid.MustParse("test@example.net")
		opts.Origin = jid.MustParse("example.org")
	}
	if tc.ws != "" {
		opts.WS, opts.Negotiated = true, tc.ws
	}
	ns := tc.ns()
	conn := wire.NewConn()
	conn.FeedString(opts.Header())
	ownResp := `<iq xmlns="` + ns + `" type="result" id="` + outstandingID + `"><query xmlns="urn:verif:own"><item n="1"/>text</query></iq>`
	switch tc.ownRespShape {
	case "empty":
		ownResp = `<iq xmlns="` + ns + `" type="result" id="` + outstandingID + `"/>`
	case "emptytags":
		ownResp = `<iq xmlns="` + ns + `" type="result" id="` + outstandingID + `"></iq>`
	}
	for i, e := range tc.elems {
		if i == tc.ownRespAt {
			conn.FeedString(ownResp)
		}
		if tc.ws != "" {
			conn.Feed(e.node.Bytes("")) // every element declares its namespace
		} else {
			conn.Feed(e.node.Bytes(ns))
		}
	}
	if tc.ownRespAt == len(tc.elems) {
		conn.FeedString(ownResp)
	}
	if tc.closeIt {
		if tc.ws != "" {
			conn.FeedString(`<close xmlns="` + wire.WSNS + `"/>`)
		} else {
			conn.FeedString("</stream:stream>")
		}
	}
	conn.CloseInput()
	s, err := wire.ReadySession(conn, opts)
	if err != nil {
		t.Fatalf("harness: %v", err)
	}

	run := &runner{tc: &tc}
	var h xmpp.Handler = run
	if tc.useMux {
		var mopts []mux.Option
		// which generated element a registered handler is serving is decided
		// by order of arrival
		order := []int{}
		for i, e := range tc.elems {
			if e.kind == "iq" && e.hasPay && tc.reg[key(e.typ, e.payload)] && !e.badFrom {
				order = append(order, i)
			}
		}
		pos := 0
		seen := map[string]bool{}
		for _, e := range tc.elems {
			if e.kind != "iq" || !e.hasPay {
				continue
			}
			k := key(e.typ, e.payload)
			if !tc.reg[k] || seen[k] {
				continue
			}
			seen[k] = true
			mopts = append(mopts, mux.IQFunc(stanza.IQType(e.typ), e.payload, func(iq stanza.IQ, t xmlstream.TokenReadEncoder, start *xml.StartElement) error {
				if pos >= len(order) {
					return nil
				}
				i := order[pos]
				pos++
				run.calls = append(run.calls, i)
				return run.run(tc.elems[i].prog, t)
			}))
		}
		// registrations for payloads that never arrive
		for k := range tc.reg {
			if !seen[k] {
				parts := strings.SplitN(k, "|", 3)
				mopts = append(mopts, mux.IQFunc(stanza.IQType(parts[0]), xml.Name{Space: parts[1], Local: parts[2]}, func(stanza.IQ, xmlstream.TokenReadEncoder, *xml.StartElement) error { return nil }))
			}
		}
		h = mux.New(ns, mopts...)
	}
	octx, ocancel := context.WithCancel(context.Background())
	defer ocancel()
	odone := make(chan struct{})
	if tc.outstanding {
		go func() {
			defer close(odone)
			req := xt.El(ns, "iq", []xml.Attr{xt.A("type", "get"), xt.A("id", outstandingID)}, xt.El("urn:xmpp:ping", "ping", nil)).Reader()
			switch tc.ownVia {
			case "IterIQ":
				iter, _, err := s.IterIQ(octx, req)
				if err != nil || iter == nil {
					return
				}
				if tc.ownRespRead != "none" {
					for iter.Next() {
						if tc.ownRespRead == "some" {
							break
						}
					}
				}
				_ = iter.Close()
				return
			case "UnmarshalIQ":
				var v struct {
					XMLName xml.Name
				}
				_ = s.UnmarshalIQ(octx, req, &v)
				return
			}
			resp, _ := s.SendIQ(octx, req)
			if resp != nil {
				switch tc.ownRespRead {
				case "some":
					_, _ = resp.Token()
					_, _ = resp.Token()
				case "all":
					for {
						if _, err := resp.Token(); err != nil {
							break
						}
					}
				}
				_ = resp.Close()
			}
		}()
		// the request must be registered and on the wire before input is served
		conn.WaitOutput(func(b []byte) bool {
			return bytes.Contains(b, []byte(outstandingID)) && bytes.HasSuffix(bytes.TrimSpace(b), []byte("</iq>"))
		}, 5*time.Second)
	} else {
		close(odone)
	}
	mdone := make(chan struct{})
	if tc.midWriter {
		started := make(chan struct{})
		release := make(chan struct{})
		var once sync.Once
		run.aboutToWrite = func() {
			once.Do(func() { close(release) })
			// give the other goroutine no head start: it finishes its element while
			// the handler's first token is already on its way
		}
		go func() {
			defer close(mdone)
			w := s.TokenWriter()
			st := xml.StartElement{Name: xml.Name{Space: ns, Local: "message"}, Attr: []xml.Attr{xt.A("id", midWriterID), xt.A("type", "chat")}}
			_ = w.EncodeToken(st)
			close(started)
			select {
			case <-release:
				time.Sleep(500 * time.Microsecond)
			case <-time.After(2 * time.Millisecond):
			}
			_ = w.EncodeToken(st.End())
			_ = w.Close()
		}()
		<-started
	} else {
		close(mdone)
	}
	var serveErr error
	served := make(chan string, 1)
	go func() { served <- ev.Guard(func() { serveErr = s.Serve(h) }) }()
	select {
	case p := <-served:
		if p != "" {
			fail("Serve panicked: %s", p)
		}
	case <-time.After(10 * time.Second):
		// all the input (ending in EOF) was available from the start
		if b := wire.BlockedMatching("(*Session).Serve("); len(b) > 0 {
			time.Sleep(300 * time.Millisecond)
			if b2 := wire.BlockedMatching("(*Session).Serve("); len(b2) > 0 {
				conn.Close()
				fail("Serve has not returned 10 s after the peer's input (ending in end of file) was complete: it is parked inside the library\noutput so far: %q\n%s", conn.Output(), strings.Join(b2, "\n\n"))
			}
		}
		conn.Close()
		ev.Class("inconclusive-timeout")
		return
	}
	select {
	case <-mdone:
	case <-time.After(10 * time.Second):
		fail("the application's own token writer did not finish")
	}
	ocancel()
	select {
	case <-odone:
	case <-time.After(10 * time.Second):
		fail("the application's own SendIQ did not return after its context was cancelled")
	}

	want, wantStreamErr := model(tc)
	out := conn.Output()
	items, _, perr := wire.ParseStream(out, false, ns)
	if perr != nil {
		fail("output is not well-formed: %v\noutput: %q", perr, out)
	}
	var got []*xt.Node
	skippedOwn := false
	sawStreamErr := false
	closes := 0
	for _, it := range items {
		switch it.Kind {
		case "element":
			if it.Node.Name.Space == wire.WSNS && it.Node.Name.Local == "close" {
				closes++
				continue
			}
			if it.Node.Name.Space == wire.StreamNS && it.Node.Name.Local == "error" {
				sawStreamErr = true
				continue
			}
			if sawStreamErr {
				fail("element after the stream error: %s\noutput: %q", it.Node.Canon(), out)
			}
			if id, _ := it.Node.Get("id"); id == midWriterID {
				continue // the element the other goroutine was writing
			}
			if id, _ := it.Node.Get("id"); tc.outstanding && !skippedOwn && id == outstandingID {
				if typ, _ := it.Node.Get("type"); typ == "get" && it.Node.Find("ping") != nil {
					skippedOwn = true // the application's own request
					continue
				}
			}
			got = append(got, it.Node)
		case "close":
			closes++
		case "text", "other":
			fail("unexpected %s in output: %q\noutput: %q", it.Kind, it.Raw, out)
		}
	}
	desc := func() string {
		var sb strings.Builder
		sb.WriteString("expected:")
		for _, w := range want {
			if w.node != nil {
				fmt.Fprintf(&sb, "\n    %s (%s)", w.node.Canon(), w.comment)
			} else {
				fmt.Fprintf(&sb, "\n    service-unavailable error iq id=%q to=%q (%s)", w.defID, w.defTo, w.comment)
			}
		}
		if wantStreamErr {
			sb.WriteString("\n    then a stream error")
		}
		fmt.Fprintf(&sb, "\noutput: %q\nServe returned: %v", out, serveErr)
		return sb.String()
	}
	// Match the output against the expectation in order; a default reply to a
	// request without id is optional.
	gi := 0
	for wi, w := range want {
		if w.node == nil && w.anyID {
			if gi < len(got) && isDefaultReply(got[gi], ns, w) == "" {
				gi++
			}
			continue
		}
		if gi >= len(got) {
			fail("output ends after %d elements; expectation %d is missing\n%s", len(got), wi, desc())
		}
		if w.node != nil {
			if !wire.SameElement(got[gi], w.node) {
				fail("output element %d is %s, expectation %d differs\n%s", gi, got[gi].Canon(), wi, desc())
			}
		} else if why := isDefaultReply(got[gi], ns, w); why != "" {
			fail("output element %d (%s) is not the expected service-unavailable reply: %s\n%s", gi, got[gi].Canon(), why, desc())
		}
		gi++
	}
	if wantStreamErr {
		// the element at which the stream is terminated may or may not have
		// produced output of its own before; nothing may follow from later elements,
		// which is implied by the handler invocation count below
		if serveErr == nil {
			fail("Serve returned nil although the stream had to be terminated by an error\n%s", desc())
		}
	} else {
		if sawStreamErr {
			fail("unexpected stream error\n%s", desc())
		}
		if gi != len(got) {
			fail("%d elements written, only %d expected (extra: %s)\n%s", len(got), gi, got[gi].Canon(), desc())
		}
	}
	// replies are never answered, whatever else happens
	for _, e := range tc.elems {
		if e.kind != "iq" || (e.typ != "result" && e.typ != "error") || e.id == "" {
			continue
		}
		expected := false
		for _, w := range want {
			if w.node != nil {
				if id, _ := w.node.Get("id"); id == e.id {
					expected = true
				}
			} else if w.defID == e.id || w.anyID {
				expected = true
			}
		}
		for _, o := range tc.elems {
			if o.id == e.id && (o.typ == "get" || o.typ == "set") {
				expected = true // a request with the same id: its reply looks the same
			}
		}
		if expected {
			continue
		}
		for _, g := range got {
			id, _ := g.Get("id")
			typ, _ := g.Get("type")
			if g.Name.Local == "iq" && id == e.id && (typ == "error" || typ == "result") && g.Find("error") != nil {
				fail("the incoming IQ of type %s with id %q is a reply; it was answered with %s\n%s", e.typ, e.id, g.Canon(), desc())
			}
		}
	}
	if closes > 1 {
		fail("closing tag written %d times\n%s", closes, desc())
	}
}

func classify(tc tcase) (bool, []string) {
	var classes []string
	nt := false
	for _, e := range tc.elems {
		if e.kind == "iq" {
			classes = append(classes, "iq-"+e.typ)
			if e.prog.mutate != "" {
				classes = append(classes, "handler-changes-start-element-in-place-"+e.prog.mutate)
			}
			if e.prog.rejected != "" {
				classes = append(classes, "handler-writes-a-refused-token")
			}
			needs := e.typ == "get" || e.typ == "set"
			if needs && len(e.prog.writes) > 0 && (!tc.useMux || tc.reg[key(e.typ, e.payload)]) {
				nt = true
			}
			if needs && tc.useMux && e.hasPay && !tc.reg[key(e.typ, e.payload)] {
				nt = true
				classes = append(classes, "mux-fallback")
			}
			for _, w := range e.prog.writes {
				classes = append(classes, "write-"+w.kind)
				if w.via != "" {
					classes = append(classes, "write-via-"+w.via)
				}
			}
			if !e.hasID || e.id == "" {
				classes = append(classes, "iq-no-id")
			}
		} else {
			classes = append(classes, "in-"+e.kind)
		}
		if e.prog.ret != "" {
			classes = append(classes, "handler-error")
		}
	}
	if tc.useMux {
		classes = append(classes, "mux")
	} else {
		classes = append(classes, "bare")
	}
	if tc.s2s {
		classes = append(classes, "s2s")
	}
	if tc.ws != "" {
		classes = append(classes, "websocket-session-"+tc.ws)
	}
	if tc.midWriter {
		classes = append(classes, "concurrent-writer-mid-element")
	}
	if tc.addrChanged {
		classes = append(classes, "address-assigned-during-negotiation")
	}
	if tc.outstanding {
		classes = append(classes, "own-request-outstanding")
		if tc.ownRespAt >= 0 {
			classes = append(classes, "own-request-answered-among-the-input", "own-answer-read-"+tc.ownRespRead)
		}
		for _, e := range tc.elems {
			if e.id == outstandingID {
				classes = append(classes, "incoming-request-reuses-own-id")
			}
		}
	}
	return nt, classes
}

func TestC07Replies(t *testing.T) {
	ev.Check(t, 40000, 150000, func(rt *rapid.T) {
		tc := genCase(rt)
		nt, classes := classify(tc)
		ev.Case(nt, tc.String(), classes...)
		check(rt, tc)
	})
}

// TestC07Regress replays the concrete witnesses of every finding.
func TestC07Regress(t *testing.T) {
	ev.Begin(t)
	ns := stanza.NSClient
	mk := func(s string) *xt.Node {
		n, err := xt.Parse([]byte(s))
		if err != nil {
			t.Fatalf("harness: %v", err)
		}
		return n
	}
	// empty set IQ through the multiplexer: was neither answered nor refused
	// (Serve returned nil because the router's io.EOF was taken for end of stream)
	for _, typ := range []string{"get", "set"} {
		tc := tcase{useMux: true, reg: map[string]bool{}, closeIt: true}
		tc.elems = []elem{{
			node: mk(`<iq xmlns="` + ns + `" id="id4" type="` + typ + `" from="juliet@example.com/balcony"/>`),
			kind: "iq", typ: typ, id: "id4", hasID: true, from: "juliet@example.com/balcony", hasFrom: true,
			prog: prog{read: "all"},
		}, {
			node: mk(`<iq xmlns="` + ns + `" id="id5" type="get" from="juliet@example.com/balcony"><ping xmlns="urn:xmpp:ping"/></iq>`),
			kind: "iq", typ: "get", id: "id5", hasID: true, from: "juliet@example.com/balcony", hasFrom: true,
			payload: xml.Name{Space: "urn:xmpp:ping", Local: "ping"}, hasPay: true, prog: prog{read: "none"},
		}}
		ev.Case(true, tc.String(), "regress")
		check(t, tc)
	}
}
