package c09

import (
	"fmt"
	"strings"
	"testing"

	"mellium.im/xmpp/verifharness/internal/ev"
)

// Concrete inputs of every finding (fixed or not).  Each witness runs as its
// own subtest so that all of them are reported in one run.

type aWitness struct {
	name string
	c    acase
}

// Witnesses whose defect sits in a goroutine started by the library itself
// (history.Handler.Fetch, muc's Join/Leave) cannot be recovered: on a tree
// without the fix they take the test process down.  They run last
// (zz_crash_test.go), after the statistics have been flushed.
func crashWitness(name string) bool {
	switch name {
	case "history-query-answered-with-text", "history-query-error-with-text", "muc-join-error-with-text",
		"history-fetch-text-only-result", "muc-join-error-text-first":
		return true
	}
	return false
}

func rawSteps(inputs ...string) []step {
	var out []step
	for _, in := range inputs {
		out = append(out, step{kind: "raw", name: "witness", input: in})
	}
	return out
}

const openS1 = `<iq type="set" id="o1" from="` + peerFull + `" to="` + localAddr + `"><open xmlns="http://jabber.org/protocol/ibb" block-size="4096" sid="s1" stanza="iq"/></iq>`

var serveWitnesses = []aWitness{
	{"receipts-chardata-before-received", acase{steps: rawSteps(`<message type="chat">text<received xmlns="urn:xmpp:receipts" id="r1"/></message>`)}},
	{"receipts-chardata-before-request", acase{steps: rawSteps(`<message id="m1" from="` + peerFull + `">text<request xmlns="urn:xmpp:receipts"/></message>`)}},
	{"carbons-chardata-before-received", acase{steps: rawSteps(`<message type="chat">text<received xmlns="urn:xmpp:carbons:2">` + forwardedMsg + `</received></message>`)}},
	{"history-chardata-before-result", acase{steps: rawSteps(`<message>text<result xmlns="urn:xmpp:mam:2" queryid="q1"/></message>`)}},
	{"history-chardata-before-result-tracked", acase{hist: true, steps: rawSteps(`<message>text<result xmlns="urn:xmpp:mam:2" queryid="q1"/></message>`)}},
	{"blocklist-block-text", acase{steps: rawSteps(`<iq type="set" id="b1"><block xmlns="urn:xmpp:blocking">text</block></iq>`)}},
	{"blocklist-unblock-item-without-attributes", acase{steps: rawSteps(`<iq type="set" id="b1"><unblock xmlns="urn:xmpp:blocking"><item/></unblock></iq>`)}},
	{"blocklist-block-invalid-jid", acase{steps: rawSteps(`<iq type="set" id="b1"><block xmlns="urn:xmpp:blocking"><item jid="@"/></block></iq>`)}},
	{"blocklist-block-jid-not-first-attribute", acase{steps: rawSteps(`<iq type="set" id="b1"><block xmlns="urn:xmpp:blocking"><item name="x y" jid="romeo@montague.net"/></block></iq>`)}},
	{"history-query-answered-with-text", acase{hist: true, steps: rawSteps(`<iq type="result" id="hq1">text</iq>`)}},
	{"history-query-error-with-text", acase{hist: true, steps: rawSteps(`<iq type="error" id="hq1">text` + errCancel + `</iq>`)}},
	{"muc-join-error-with-text", acase{join: true, steps: rawSteps(`<presence type="error" id="mj1" from="` + roomMe + `">text` + errCancel + `</presence>`)}},
	{"ibb-open-after-abandoned-expect", acase{expect: true, steps: rawSteps(`<iq type="set" id="o1" from="`+peerFull+`" to="`+localAddr+`"><open xmlns="http://jabber.org/protocol/ibb" block-size="4096" sid="es1" stanza="iq"/></iq>`, `<iq type="get" id="p1"><ping xmlns="urn:xmpp:ping"/></iq>`)}},
	{"ibb-data-after-local-close", acase{connModes: []string{"closenow"}, steps: []step{
		{kind: "raw", name: "witness", input: openS1},
		{kind: "reply", name: "witness", which: 0, waitReq: true, forms: map[string]string{"iq": `<iq type="result" id="$ID" from="` + peerFull + `"/>`}},
		{kind: "raw", name: "witness", input: `<iq type="set" id="d1" from="` + peerFull + `" to="` + localAddr + `"><data xmlns="http://jabber.org/protocol/ibb" seq="0" sid="s1">aGVsbG8=</data></iq>`},
	}}},
	{"ibb-open-data-close", acase{connModes: []string{"drain"}, steps: rawSteps(openS1,
		`<iq type="set" id="d1" from="`+peerFull+`" to="`+localAddr+`"><data xmlns="http://jabber.org/protocol/ibb" seq="0" sid="s1">aGVsbG8=</data></iq>`,
		`<iq type="set" id="d2" from="`+peerFull+`" to="`+localAddr+`"><data xmlns="http://jabber.org/protocol/ibb" seq="7" sid="s1">aGVsbG8=</data></iq>`,
		`<message from="`+peerFull+`"><data xmlns="http://jabber.org/protocol/ibb" seq="1" sid="s1">!!!!</data></message>`,
		`<iq type="set" id="c1" from="`+peerFull+`" to="`+localAddr+`"><close xmlns="http://jabber.org/protocol/ibb" sid="s1"/></iq>`,
		`<iq type="set" id="d3" from="`+peerFull+`" to="`+localAddr+`"><data xmlns="http://jabber.org/protocol/ibb" seq="1" sid="s1">aGVsbG8=</data></iq>`)}},
	{"ibb-data-for-stream-nobody-reads", acase{connModes: []string{"closenow"}, steps: rawSteps(openS1,
		`<iq type="set" id="d1" from="`+peerFull+`" to="`+localAddr+`"><data xmlns="http://jabber.org/protocol/ibb" seq="0" sid="s1">aGVsbG8=</data></iq>`,
		`<iq type="set" id="d2" from="`+peerFull+`" to="`+localAddr+`"><data xmlns="http://jabber.org/protocol/ibb" seq="1" sid="s1">aGVsbG8=</data></iq>`,
		`<message from="`+peerFull+`"><data xmlns="http://jabber.org/protocol/ibb" seq="2" sid="s1">aGVsbG8=</data></message>`,
		`<iq type="get" id="p1"><ping xmlns="urn:xmpp:ping"/></iq>`)}},
	{"muc-presence-after-failed-join", acase{join: true, steps: []step{
		{kind: "reply", name: "witness", which: 0, waitReq: true, forms: map[string]string{"presence": `<presence type="error" id="$ID" from="` + roomMe + `">` + errCancel + `</presence>`}},
		{kind: "raw", name: "witness", input: canonSelf},
		{kind: "raw", name: "witness", input: `<iq type="get" id="p1"><ping xmlns="urn:xmpp:ping"/></iq>`},
	}}},
	{"deep-nesting", acase{steps: rawSteps(`<iq type="get" id="deep">`+strings.Repeat(`<a>`, 5000)+strings.Repeat(`</a>`, 5000)+`</iq>`, `<message>`+strings.Repeat(`<x xmlns="jabber:x:data">`, 2000)+strings.Repeat(`</x>`, 2000)+`</message>`)}},
	{"empty-and-odd-stanzas", acase{hist: true, join: true, rcpt: true, open: true, steps: rawSteps(`<iq/>`, `<message/>`, `<presence/>`, `<iq type="result"/>`, `<iq type="result" id="hq1"/>`, `<presence type="error" id="mj1"/>`, `<message type="error" id="r1"/>`, `<iq type="error" id="ib1"/>`)}},
}

type bWitness struct {
	name    string
	helper  string
	replies []string
}

var replyWitnesses = []bWitness{
	{"xtime-text-only-result", "xtime.Get", []string{`<iq type="result" id="$ID">text</iq>`}},
	{"version-text-only-result", "version.Get", []string{`<iq type="result" id="$ID">text</iq>`}},
	{"history-fetch-text-only-result", "history.Handler.Fetch", []string{`<iq type="result" id="$ID">text</iq>`}},
	{"ping-error-text-first", "ping.Send", []string{`<iq type="error" id="$ID">text` + errCancel + `</iq>`}},
	{"roster-fetch-error-text-first", "roster.Fetch", []string{`<iq type="error" id="$ID">text` + errCancel + `</iq>`}},
	{"muc-join-error-text-first", "muc.Client.Join", []string{`<presence type="error" id="$ID" from="` + roomMe + `">text` + errCancel + `</presence>`}},
	{"disco-items-next-page-fails", "disco.FetchItems", []string{`<iq type="result" id="$ID">` + canonItemsPg + `</iq>`, `<iq type="error" id="$ID">` + errCancel + `</iq>`}},
	{"commands-fetch-next-page-fails", "commands.Fetch", []string{`<iq type="result" id="$ID">` + canonItemsPg + `</iq>`, `<iq type="error" id="$ID">` + errCancel + `</iq>`}},
	{"commands-execute-error-reply", "commands.Execute", []string{`<iq type="error" id="$ID">` + errCancel + `</iq>`}},
	{"commands-execute-wrong-payload", "commands.Execute", []string{`<iq type="result" id="$ID">` + canonVersion + `</iq>`}},
	{"commands-execute-empty-result", "commands.Execute", []string{`<iq type="result" id="$ID"/>`}},
	{"commands-execute-text-only-result", "commands.Execute", []string{`<iq type="result" id="$ID">text</iq>`}},
	{"commands-foreach-callback-error", "commands.ForEach", []string{`<iq type="result" id="$ID"><command xmlns="http://jabber.org/protocol/commands" node="config" sessionid="s" status="executing"><x xmlns="jabber:x:data" type="form"><bogus/></x></command></iq>`}},
	{"commands-foreach-three-steps", "commands.ForEach", []string{`<iq type="result" id="$ID">` + canonCmdExec + `</iq>`, `<iq type="result" id="$ID">` + canonCmdExec + `</iq>`, `<iq type="result" id="$ID">` + canonCmdDone + `</iq>`}},
	{"roster-fetch-comment-in-reply", "roster.Fetch", []string{`<iq type="result" id="$ID"><query xmlns="jabber:iq:roster"><item jid="a@b.example"/><!-- c --><item jid="c@d.example"/></query></iq>`}},
	{"roster-fetch-connection-drops-mid-reply", "roster.Fetch", []string{`<iq type="result" id="$ID"><query xmlns="jabber:iq:roster"><item jid="a@b.example"/>`}},
	{"disco-items-malformed-reply", "disco.FetchItems", []string{`<iq type="result" id="$ID"><query xmlns="http://jabber.org/protocol/disco#items"><item jid="a.example"/><a></b></query></iq>`}},
	{"version-unterminated-reply", "version.Get", []string{`<iq type="result" id="$ID"><query xmlns="jabber:iq:version"><name>Exodus</name><version>0.7.0.4<?version><os>Windows-XP 5.01.2600</os></query></iq>`}},
	{"muc-getconfig-empty-form", "muc.GetConfig", []string{`<iq type="result" id="$ID"><query xmlns="http://jabber.org/protocol/muc#owner"><x xmlns="jabber:x:data"/></query></iq>`}},
	{"upload-bad-urls", "upload.GetSlot", []string{`<iq type="result" id="$ID"><slot xmlns="urn:xmpp:http:upload:0"><put url="http://[::1"><header name="">x</header></put><get url="%zz"/></slot></iq>`}},
	{"bob-bad-base64", "bin.Get", []string{`<iq type="result" id="$ID"><data xmlns="urn:xmpp:bob" max-age="-1">!!!=</data></iq>`}},
}

func TestC09Regress(t *testing.T) { runWitnesses(t, false) }

func runWitnesses(t *testing.T, crash bool) {
	for i := range serveWitnesses {
		w := &serveWitnesses[i]
		if crashWitness(w.name) != crash {
			continue
		}
		t.Run("serve/"+w.name, func(t *testing.T) {
			ev.Begin(t)
			if crash {
				ev.Flush()
			}
			reportLate(t)
			c := w.c // copy: steps are resolved in place
			c.steps = append([]step(nil), w.c.steps...)
			if len(c.connModes) == 0 {
				c.connModes = []string{"drain", "drain", "drain"}
			}
			res, inconclusive := runACase(&c, func(format string, args ...any) { ev.Failf(t, format, args...) })
			if inconclusive {
				ev.Class("A:inconclusive-timeout")
				t.Skip("inconclusive: timeout without a confirmed blocked state")
			}
			ev.Case(res.dispatched > 0, "A-regress|"+w.name+"|"+c.String(), "A:regress")
		})
	}
	byName := map[string]*helper{}
	for i := range helpers {
		byName[helpers[i].name] = &helpers[i]
	}
	for i := range replyWitnesses {
		w := &replyWitnesses[i]
		if crashWitness(w.name) != crash {
			continue
		}
		t.Run("reply/"+w.name, func(t *testing.T) {
			ev.Begin(t)
			if crash {
				ev.Flush()
			}
			reportLate(t)
			h := byName[w.helper]
			if h == nil {
				t.Fatalf("harness: unknown helper %q", w.helper)
			}
			c := &bcase{h: h}
			for _, r := range w.replies {
				c.replies = append(c.replies, breply{kind: "witness", stanza: r})
			}
			res, inconclusive := runBCase(c, func(format string, args ...any) { ev.Failf(t, format, args...) })
			if inconclusive {
				ev.Class("B:inconclusive-timeout")
				t.Skip("inconclusive: timeout without a confirmed blocked state")
			}
			ev.Case(res.reached, "B-regress|"+w.name+"|"+c.String(), "B:regress", fmt.Sprintf("B:regress-requests=%d", res.requests))
		})
	}
}
