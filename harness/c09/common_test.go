// C09 — No peer input can panic or wedge the library.
//
// Domain A (serve_test.go): a session served by a mux.ServeMux that carries
// every handler the library ships, fed with generated and mutated stanza
// sequences; Domain B (reply_test.go): every exported request helper that
// parses a reply, called against the harness acting as scripted peer.
package c09

import (
	"encoding/xml"
	"fmt"
	"strings"
	"testing"
	"time"

	"pgregory.net/rapid"

	"mellium.im/xmpp/verifharness/internal/ev"
	"mellium.im/xmpp/verifharness/internal/gen"
	"mellium.im/xmpp/verifharness/internal/wire"
	"mellium.im/xmpp/verifharness/internal/xt"
)

func TestMain(m *testing.M) { ev.Main(m, "C09") }

const (
	nsClient = "jabber:client"
	nsStanza = "urn:ietf:params:xml:ns:xmpp-stanzas"

	localAddr  = "test@example.net" // address of the served session (wire default)
	remoteAddr = "example.net"
	peerFull   = "juliet@example.com/balcony"
	roomBare   = "room@conference.example.net"
	roomMe     = "room@conference.example.net/me"
)

// Generous waits: the machine may be heavily loaded.  None of them decides a
// verdict: a timeout alone is always "inconclusive".
var (
	stepWait     = 4 * time.Second  // one synchronous step (feed → Serve idle again)
	shutdownWait = 10 * time.Second // Serve must return after the input ended
	helperWait   = 8 * time.Second  // context timeout given to request helpers
	// IBB connections wait for the peer's acknowledgements without any
	// context; the only bound is their deadline.  Kept short because it is
	// paid in full whenever the session ended before the acknowledgement.
	ibbWait = 1500 * time.Millisecond
	// how long a finished case waits for its consumer goroutines so that a
	// panic in one of them is attributed to the right case
	consumerWait = 300 * time.Millisecond
)

// ------------------------------------------------------------------ dictionary
//
// Harvested from the NS constants, struct tags and test literals of the
// extension packages.

var dictNS = []string{
	"urn:xmpp:ping", "urn:xmpp:time", "jabber:iq:version",
	"http://jabber.org/protocol/disco#info", "http://jabber.org/protocol/disco#items", "http://jabber.org/protocol/caps",
	"jabber:iq:roster", "urn:xmpp:blocking", "urn:xmpp:reporting:1", "urn:xmpp:sid:0",
	"urn:xmpp:carbons:2", "urn:xmpp:forward:0", "urn:xmpp:delay", "urn:xmpp:receipts",
	"urn:xmpp:mam:2", "http://jabber.org/protocol/rsm", "jabber:x:data",
	"http://jabber.org/protocol/muc", "http://jabber.org/protocol/muc#user", "http://jabber.org/protocol/muc#owner", "http://jabber.org/protocol/muc#admin", "jabber:x:conference",
	"http://jabber.org/protocol/ibb", "urn:xmpp:bob", "http://jabber.org/protocol/commands",
	"http://jabber.org/protocol/pubsub", "http://jabber.org/protocol/pubsub#owner", "urn:xmpp:bookmarks:1",
	"urn:xmpp:http:upload:0", nsStanza, nsClient, "jabber:server", "", "urn:verif:unknown",
}

var dictLocal = []string{
	"ping", "time", "tzo", "utc", "query", "name", "version", "os", "identity", "feature", "item", "c",
	"group", "blocklist", "block", "unblock", "report", "stanza-id", "text",
	"received", "sent", "forwarded", "delay", "request", "result", "fin", "set", "first", "last", "count", "max", "after", "before",
	"x", "field", "value", "option", "title", "instructions", "required", "desc", "reported",
	"invite", "decline", "password", "reason", "continue", "status", "actor", "destroy", "history",
	"open", "data", "close", "command", "note", "actions",
	"pubsub", "items", "publish", "retract", "create", "configure", "default", "conference", "nick", "extensions",
	"slot", "put", "get", "header", "enable", "disable", "private",
	"iq", "message", "presence", "error", "body", "subject", "thread", "show", "priority",
	"item-not-found", "service-unavailable", "bad-request", "feature-not-implemented",
}

var dictAttr = []string{
	"id", "type", "from", "to", "xml:lang", "node", "jid", "name", "subscription", "ask", "ver", "hash", "category", "var", "label",
	"reason", "by", "stamp", "queryid", "complete", "stable", "index", "affiliation", "role", "nick", "code", "thread", "password", "continue",
	"sid", "seq", "block-size", "stanza", "cid", "max-age", "action", "sessionid", "status", "execute", "autojoin",
	"filename", "size", "content-type", "url", "max_items", "notify",
}

// hostile values for attributes and character data.
var hostile = []string{
	"", " ", "0", "-1", "1", "65535", "65536", "4294967296", "18446744073709551616", "99999999999999999999999999",
	"-99999999999999999999", "1e9", "NaN", "true", "false", "maybe",
	"@", "@@", "a@", "@b", "a@b/", "/", "a@b@c", "a/b/c", "x@y.example/" + strings.Repeat("r", 1100), strings.Repeat("d", 1100) + ".example",
	"test@example.net", "example.net", "room@conference.example.net/me", "room@conference.example.net",
	"\uff52\uff4f\uff4d\uff45\uff4f@example.net/orchard", "rene\u0301@example.net", "\uff2a\uff35\uff2c\uff29\uff25\uff34@EXAMPLE.com/Balcony", "\u212aelvin@example.net/x", "e\u0301e\u0301e\u0301e\u0301@example.net/r", "\uff52@example.net",
	"====", "AAAA", "A", "AA=A", "!!!!", "aGVsbG8=", "aGVsbG8", strings.Repeat("QUFB", 400),
	"2006-01-02T15:04:05Z", "20060102T15:04:05", "0000-00-00T00:00:00Z", "2006-01-02T15:04:05+99:99", "+25:00", "Z", "-00:60",
	"sha-1", "sha-256", "md5", "sha-1024", "cid:sha1+8f35fef110ffc5df08d579a50083ff9308fb6242@bob.xmpp.org", "cid:",
	"http://[::1", "https://example.org/\x7f", "%zz", "://", "mailto:a",
	"get", "set", "result", "error", "chat", "normal", "groupchat", "headline", "unavailable", "subscribe", "probe",
	"iq", "message", "form", "submit", "cancel", "executing", "completed",
	"q1", "hq1", "r1", "mj1", "ib1", "os1", "s1", "s2", "es1", "unknown-id",
	"\t\n", "&<>\"'", "é日本😀", "‮", strings.Repeat("x", 5000),
}

func drawHostile(t *rapid.T, label string) string {
	if rapid.IntRange(0, 5).Draw(t, label+"-kind") == 0 {
		return gen.Text(t, label+"-text")
	}
	return rapid.SampledFrom(hostile).Draw(t, label)
}

// ------------------------------------------------------------------ literals

// lit parses an XML literal whose default namespace is jabber:client into a
// tree ($-placeholders are replaced first: pairs of old, new).
func lit(s string, repl ...string) *xt.Node {
	if len(repl) > 0 {
		s = strings.NewReplacer(repl...).Replace(s)
	}
	n, err := xt.Parse([]byte(`<wrap xmlns="` + nsClient + `">` + s + `</wrap>`))
	if err != nil {
		panic("c09: bad literal " + s + ": " + err.Error())
	}
	for _, c := range n.Children {
		if !c.IsText() {
			stripNS(c)
			return c
		}
	}
	panic("c09: literal without element: " + s)
}

// lits parses a literal holding several sibling nodes (elements and text).
func lits(s string, repl ...string) []*xt.Node {
	if len(repl) > 0 {
		s = strings.NewReplacer(repl...).Replace(s)
	}
	n, err := xt.Parse([]byte(`<wrap xmlns="` + nsClient + `">` + s + `</wrap>`))
	if err != nil {
		panic("c09: bad literal " + s + ": " + err.Error())
	}
	for _, c := range n.Children {
		stripNS(c)
	}
	return n.Children
}

func stripNS(n *xt.Node) {
	if n.IsText() {
		return
	}
	var keep []xml.Attr
	for _, a := range n.Attr {
		if a.Name.Space == "xmlns" || (a.Name.Space == "" && a.Name.Local == "xmlns") {
			continue
		}
		keep = append(keep, a)
	}
	n.Attr = keep
	for _, c := range n.Children {
		stripNS(c)
	}
}

func render(n *xt.Node) string { return string(n.Bytes(nsClient)) }

func setAttr(n *xt.Node, local, value string) {
	for i, a := range n.Attr {
		if a.Name.Space == "" && a.Name.Local == local {
			n.Attr[i].Value = value
			return
		}
	}
	n.Attr = append(n.Attr, xt.A(local, value))
}

func delAttr(n *xt.Node, local string) {
	var keep []xml.Attr
	for _, a := range n.Attr {
		if a.Name.Space == "" && a.Name.Local == local {
			continue
		}
		keep = append(keep, a)
	}
	n.Attr = keep
}

// ------------------------------------------------------------------ mutations

type nodeRef struct {
	n      *xt.Node
	parent *xt.Node
	idx    int
	depth  int
}

func collect(n *xt.Node, parent *xt.Node, idx, depth int, out *[]nodeRef) {
	if n.IsText() || n.IsRaw() {
		return
	}
	*out = append(*out, nodeRef{n, parent, idx, depth})
	for i, c := range n.Children {
		collect(c, n, i, depth+1, out)
	}
}

func insertChild(p *xt.Node, pos int, c *xt.Node) {
	kids := append([]*xt.Node{}, p.Children[:pos]...)
	kids = append(kids, c)
	kids = append(kids, p.Children[pos:]...)
	p.Children = kids
}

var mutationKinds = []string{
	"text-first", "text-replace", "text-only", "attr-drop", "attr-dup", "attr-hostile", "attr-add", "type-change",
	"ns-change", "rename", "child-drop", "child-dup", "child-swap", "children-clear", "deep-nest", "graft-tree",
	"graft-dict", "chardata-hostile", "comment", "id-change",
}

// mutate applies one random mutation somewhere in the tree and returns its
// name.  root itself is never replaced (its name may change).
func mutate(t *rapid.T, root *xt.Node) string {
	var refs []nodeRef
	collect(root, nil, 0, 0, &refs)
	// the stanza itself and its payload are where handlers look first: prefer them
	var r nodeRef
	switch k := rapid.IntRange(0, 9).Draw(t, "mut-where"); {
	case k <= 2:
		r = refs[0]
	case k <= 4 && len(refs) > 1:
		r = refs[1]
	default:
		r = refs[rapid.IntRange(0, len(refs)-1).Draw(t, "mut-node")]
	}
	n := r.n
	kind := rapid.SampledFrom(mutationKinds).Draw(t, "mut-kind")
	switch kind {
	case "text-first": // character data before the first child
		insertChild(n, 0, xt.Tx(rapid.SampledFrom([]string{"text", " x ", "0", "&"}).Draw(t, "mut-text")))
	case "text-replace": // a child element becomes text
		if r.parent == nil {
			insertChild(n, 0, xt.Tx("text"))
		} else {
			r.parent.Children[r.idx] = xt.Tx(rapid.SampledFrom([]string{"text", "1", " "}).Draw(t, "mut-text"))
		}
	case "text-only":
		n.Children = []*xt.Node{xt.Tx(drawHostile(t, "mut-textonly") + "t")}
	case "attr-drop":
		if len(n.Attr) > 0 {
			i := rapid.IntRange(0, len(n.Attr)-1).Draw(t, "mut-attr")
			n.Attr = append(append([]xml.Attr{}, n.Attr[:i]...), n.Attr[i+1:]...)
		} else {
			kind = "attr-drop-none"
		}
	case "attr-dup":
		if len(n.Attr) > 0 {
			i := rapid.IntRange(0, len(n.Attr)-1).Draw(t, "mut-attr")
			a := n.Attr[i]
			if rapid.Bool().Draw(t, "mut-dupother") {
				a.Value = drawHostile(t, "mut-dupval")
			}
			if rapid.Bool().Draw(t, "mut-dupfront") {
				n.Attr = append([]xml.Attr{a}, n.Attr...)
			} else {
				n.Attr = append(n.Attr, a)
			}
		} else {
			kind = "attr-dup-none"
		}
	case "attr-hostile":
		if len(n.Attr) > 0 {
			i := rapid.IntRange(0, len(n.Attr)-1).Draw(t, "mut-attr")
			n.Attr[i].Value = drawHostile(t, "mut-attrval")
		} else {
			kind = "attr-hostile-none"
		}
	case "attr-add":
		name := rapid.SampledFrom(dictAttr).Draw(t, "mut-attrname")
		a := xt.A(name, drawHostile(t, "mut-attrval"))
		if name == "xml:lang" {
			a = xml.Attr{Name: xml.Name{Space: "xml", Local: "lang"}, Value: a.Value}
		}
		if rapid.Bool().Draw(t, "mut-addfront") {
			n.Attr = append([]xml.Attr{a}, n.Attr...)
		} else {
			n.Attr = append(n.Attr, a)
		}
	case "type-change":
		setAttr(root, "type", rapid.SampledFrom([]string{"get", "set", "result", "error", "chat", "normal", "groupchat", "headline", "unavailable", "subscribe", "", "bogus"}).Draw(t, "mut-type"))
	case "ns-change":
		n.Name.Space = rapid.SampledFrom(dictNS).Draw(t, "mut-ns")
	case "rename":
		n.Name.Local = rapid.SampledFrom(dictLocal).Draw(t, "mut-local")
	case "child-drop":
		if r.parent != nil {
			p := r.parent
			p.Children = append(append([]*xt.Node{}, p.Children[:r.idx]...), p.Children[r.idx+1:]...)
		} else {
			n.Children = nil
		}
	case "child-dup":
		if r.parent != nil {
			insertChild(r.parent, r.idx, n.Clone())
		} else if len(n.Children) > 0 {
			insertChild(n, 0, n.Children[0].Clone())
		}
	case "child-swap":
		if len(n.Children) >= 2 {
			i := rapid.IntRange(0, len(n.Children)-2).Draw(t, "mut-swap")
			n.Children[i], n.Children[i+1] = n.Children[i+1], n.Children[i]
		} else {
			kind = "child-swap-none"
		}
	case "children-clear":
		n.Children = nil
	case "deep-nest":
		depth := rapid.SampledFrom([]int{2, 10, 100, 1000}).Draw(t, "mut-depth")
		inner := n.Children
		cur := n
		for i := 0; i < depth; i++ {
			c := &xt.Node{Name: n.Name}
			if i%2 == 1 {
				c.Attr = append([]xml.Attr{}, n.Attr...)
			}
			cur.Children = []*xt.Node{c}
			cur = c
		}
		cur.Children = inner
	case "graft-tree":
		pos := rapid.IntRange(0, len(n.Children)).Draw(t, "mut-pos")
		insertChild(n, pos, gen.Tree(t, "mut-graft", rapid.IntRange(0, 3).Draw(t, "mut-gdepth"), n.Name.Space))
	case "graft-dict":
		c := dictTree(t, "mut-dict", rapid.IntRange(0, 2).Draw(t, "mut-ddepth"), n.Name.Space)
		pos := rapid.IntRange(0, len(n.Children)).Draw(t, "mut-pos")
		insertChild(n, pos, c)
	case "chardata-hostile":
		done := false
		for _, c := range n.Children {
			if c.IsText() {
				c.Text = drawHostile(t, "mut-chardata")
				done = true
				break
			}
		}
		if !done {
			n.Children = append(n.Children, xt.Tx(drawHostile(t, "mut-chardata")))
		}
	case "comment":
		// a comment inside a stanza is refused by the stream reader; the
		// session ends with an error (never with a panic)
		insertChild(n, rapid.IntRange(0, len(n.Children)).Draw(t, "mut-pos"), xt.Raw("<!-- c -->"))
	case "id-change":
		setAttr(root, "id", rapid.SampledFrom([]string{"hq1", "mj1", "ib1", "r1", "ml1", "unknown-id", "", "x1"}).Draw(t, "mut-id"))
	}
	return kind
}

// dictTree draws an element whose names come from the extension dictionary.
func dictTree(t *rapid.T, label string, depth int, ns string) *xt.Node {
	space := ns
	if rapid.IntRange(0, 2).Draw(t, label+"-newns") == 0 {
		space = rapid.SampledFrom(dictNS).Draw(t, label+"-ns")
	}
	n := &xt.Node{Name: xml.Name{Space: space, Local: rapid.SampledFrom(dictLocal).Draw(t, label+"-local")}}
	na := rapid.IntRange(0, 3).Draw(t, label+"-nattr")
	for i := 0; i < na; i++ {
		name := rapid.SampledFrom(dictAttr).Draw(t, label+"-attr")
		if name == "xml:lang" {
			n.Attr = append(n.Attr, xml.Attr{Name: xml.Name{Space: "xml", Local: "lang"}, Value: "en"})
			continue
		}
		n.Attr = append(n.Attr, xt.A(name, drawHostile(t, label+"-attrv")))
	}
	if depth <= 0 {
		if rapid.Bool().Draw(t, label+"-leaftext") {
			n.Children = append(n.Children, xt.Tx(drawHostile(t, label+"-text")))
		}
		return n
	}
	nc := rapid.IntRange(0, 3).Draw(t, label+"-nchild")
	for i := 0; i < nc; i++ {
		if rapid.IntRange(0, 3).Draw(t, label+"-istext") == 0 {
			n.Children = append(n.Children, xt.Tx(drawHostile(t, label+"-text")))
			continue
		}
		n.Children = append(n.Children, dictTree(t, label+"-c", depth-1, space))
	}
	return n
}

// ------------------------------------------------------------------ wedge detection

// libParked reports whether the goroutine dump g (one entry of wire.Blocked)
// is parked in a channel/mutex operation whose innermost non-runtime frame is
// library code (not harness code, not transport I/O).
func libParked(g string) bool {
	lines := strings.Split(g, "\n")
	for _, line := range lines[1:] {
		if strings.HasPrefix(line, "\t") || line == "" {
			continue
		}
		if strings.HasPrefix(line, "runtime.") || strings.HasPrefix(line, "sync.") || strings.HasPrefix(line, "internal/") {
			continue
		}
		// first user frame
		return strings.HasPrefix(line, "mellium.im/xmpp") && !strings.HasPrefix(line, "mellium.im/xmpp/verifharness")
	}
	return false
}

// serveWedged looks for the Serve goroutine of sv parked inside library code.
func serveWedged(sv *wire.Served) string {
	key := fmt.Sprintf("(*Session).Serve(%p", sv.Session)
	for _, g := range wire.Blocked() {
		if strings.Contains(g, key) && libParked(g) {
			return g
		}
	}
	return ""
}

// frameWedged looks for a goroutine running under mark (see markFrame) that is
// parked inside library code.
func frameWedged(m *marker) string {
	key := fmt.Sprintf("c09.markFrame(%p", m)
	for _, g := range wire.Blocked() {
		if strings.Contains(g, key) && libParked(g) {
			return g
		}
	}
	return ""
}

type marker struct{ _ int }

//go:noinline
func markFrame(m *marker, f func()) {
	f()
	if m == nil { // keeps m alive and the frame distinct
		panic("unreachable")
	}
}

func short(s string, n int) string {
	if len(s) <= n {
		return s
	}
	return s[:n] + fmt.Sprintf("…(%d bytes)", len(s))
}
