package c09

import (
	"context"
	"encoding/xml"
	"fmt"
	"io"
	"strings"
	"sync"
	"sync/atomic"
	"time"

	"mellium.im/xmlstream"
	"mellium.im/xmpp"
	"mellium.im/xmpp/bin"
	"mellium.im/xmpp/blocklist"
	"mellium.im/xmpp/carbons"
	"mellium.im/xmpp/disco"
	"mellium.im/xmpp/history"
	"mellium.im/xmpp/ibb"
	"mellium.im/xmpp/jid"
	"mellium.im/xmpp/muc"
	"mellium.im/xmpp/mux"
	"mellium.im/xmpp/ping"
	"mellium.im/xmpp/receipts"
	"mellium.im/xmpp/roster"
	"mellium.im/xmpp/stanza"
	"mellium.im/xmpp/version"
	"mellium.im/xmpp/xtime"

	"mellium.im/xmpp/verifharness/internal/ev"
	"mellium.im/xmpp/verifharness/internal/wire"
	"mellium.im/xmpp/verifharness/internal/xt"
)

// env is one served session whose multiplexer carries every handler the
// library ships, plus the application-side consumers those handlers
// rendezvous with.  The harness is the peer.
type env struct {
	sv  *wire.Served
	mux *mux.ServeMux
	ibb *ibb.Handler
	lst *ibb.Listener
	// the application has closed the listener
	lstClosed bool
	hist      *history.Handler
	rcpt      *receipts.Handler
	muc       *muc.Client

	ctx    context.Context
	cancel context.CancelFunc

	dispatched atomic.Int64 // elements that reached the multiplexer
	idle       chan struct{}

	mu        sync.Mutex
	panics    []string
	connModes []string // behaviour of the consumer of the k-th IBB connection
	nconn     int
	answered  map[string]bool // ids of library requests the peer has answered
	notes     []string
	ch        *muc.Channel // room joined by the application, if any

	wg      sync.WaitGroup // harness-owned consumer goroutines
	active  atomic.Int64   // consumer goroutines still running
	parked  atomic.Int64   // of those: inside an IBB Read, which only a close of the stream ends
	done    atomic.Bool    // the case is over: panics are reported as late
	caseStr func() string  // rendering of the case for late reports
}

// latePanics collects panics of consumer goroutines that outlived their case.
var (
	lateMu     sync.Mutex
	latePanics []string
)

func takeLatePanics() []string {
	lateMu.Lock()
	defer lateMu.Unlock()
	p := latePanics
	latePanics = nil
	return p
}

// guardGo runs f in a harness goroutine; a panic (in library code called by
// the consumer) is recorded.
func (e *env) guardGo(what string, f func()) {
	e.wg.Add(1)
	e.active.Add(1)
	go func() {
		defer e.wg.Done()
		defer e.active.Add(-1)
		if p := ev.Guard(f); p != "" {
			if e.done.Load() {
				desc := ""
				if e.caseStr != nil {
					desc = e.caseStr()
				}
				lateMu.Lock()
				latePanics = append(latePanics, "panic in "+what+" after its case had been evaluated\n"+desc+"\n"+p)
				lateMu.Unlock()
				return
			}
			e.mu.Lock()
			e.panics = append(e.panics, what+": "+p)
			e.mu.Unlock()
		}
	}()
}

func (e *env) note(format string, args ...any) {
	e.mu.Lock()
	e.notes = append(e.notes, fmt.Sprintf(format, args...))
	e.mu.Unlock()
}

func (e *env) takePanics() []string {
	e.mu.Lock()
	defer e.mu.Unlock()
	p := e.panics
	if s := e.sv.Panic(); s != "" {
		p = append([]string{s}, p...)
	}
	return p
}

func newEnv(connModes []string, bare ...bool) (*env, error) {
	e := &env{connModes: connModes, answered: map[string]bool{}, idle: make(chan struct{}, 1)}
	e.ctx, e.cancel = context.WithCancel(context.Background())
	e.ibb = &ibb.Handler{}
	e.hist = history.NewHandler(mux.MessageHandlerFunc(func(stanza.Message, xmlstream.TokenReadEncoder) error { return nil }))
	e.rcpt = &receipts.Handler{Unhandled: func(string) {}}
	e.muc = &muc.Client{
		HandleInvite:       func(muc.Invitation) {},
		HandleUserPresence: func(stanza.Presence, muc.Item) {},
	}
	blh := blocklist.Handler{
		Block:      func(blocklist.Item) {},
		Unblock:    func(jid.JID) {},
		UnblockAll: func() {},
		List: func(c chan<- jid.JID) {
			c <- jid.MustParse("romeo@montague.example")
			c <- jid.MustParse("capulet.example")
		},
	}
	if len(bare) > 0 && bare[0] {
		// the zero values: the optional callbacks are not set
		e.rcpt = &receipts.Handler{}
		e.muc = &muc.Client{}
		blh = blocklist.Handler{}
	}
	e.mux = mux.New(nsClient,
		ping.Handle(),
		xtime.Handle(xtime.Handler{TimeFunc: func() time.Time { return time.Unix(1136214245, 0).UTC() }}),
		version.Handle(version.Query{Name: "verif", Version: "1", OS: "none"}),
		disco.Handle(),
		disco.HandleCaps(func(stanza.Presence, disco.Caps) {}),
		roster.Handle(roster.Handler{Push: func(ver string, item roster.Item) error {
			if item.Name == "refuse" {
				return stanza.Error{Type: stanza.Cancel, Condition: stanza.Forbidden}
			}
			return nil
		}}),
		blocklist.Handle(blh),
		carbons.Handle(carbons.Handler{F: func(_ stanza.Message, _ bool, inner xml.TokenReader) error {
			_, err := xmlstream.Copy(xmlstream.Discard(), inner)
			return err
		}}),
		receipts.Handle(e.rcpt),
		history.Handle(e.hist),
		muc.HandleClient(e.muc),
		muc.HandleInvite(func(muc.Invitation) {}),
		ibb.Handle(e.ibb),
		bin.Handle(bin.Handler{Get: func(cid string) (*bin.Data, error) {
			if cid == "" || strings.Contains(cid, "missing") {
				return nil, stanza.Error{Type: stanza.Cancel, Condition: stanza.ItemNotFound}
			}
			return &bin.Data{CID: cid, Type: "text/plain", Data: []byte("hello")}, nil
		}}),
	)
	sv, err := wire.NewServed(wire.SessionOpts{})
	if err != nil {
		return nil, err
	}
	e.sv = sv
	sv.Conn.OnIdleRead = func() bool {
		select {
		case e.idle <- struct{}{}:
		default:
		}
		return false
	}
	e.lst = e.ibb.Listen(sv.Session)
	sv.Start(xmpp.HandlerFunc(func(t xmlstream.TokenReadEncoder, start *xml.StartElement) error {
		e.dispatched.Add(1)
		return e.mux.HandleXMPP(t, start)
	}))
	// the accept loop: every connection gets a consumer
	e.guardGo("ibb accept loop", func() {
		for {
			c, err := e.lst.Accept()
			if err != nil {
				return
			}
			e.consume(c.(*ibb.Conn))
		}
	})
	return e, nil
}

// consume starts the application-side consumer of an IBB connection.
func (e *env) consume(c *ibb.Conn) {
	e.mu.Lock()
	mode := "drain"
	if e.nconn < len(e.connModes) {
		mode = e.connModes[e.nconn]
	}
	e.nconn++
	e.mu.Unlock()
	e.guardGo("ibb consumer ("+mode+")", func() {
		// Close and Write wait for the peer's acknowledgement: bound them
		// (except for the consumer that writes without any deadline: its write
		// ends when the peer acknowledges, refuses or closes the stream).
		if mode != "writeblock" {
			_ = c.SetDeadline(time.Now().Add(ibbWait))
		}
		_ = c.SID()
		_ = c.Stanza()
		_ = c.RemoteAddr()
		switch mode {
		case "drain":
			e.parked.Add(1)
			_, _ = io.Copy(io.Discard, c)
			e.parked.Add(-1)
			_ = c.Close()
		case "read1close":
			buf := make([]byte, 16)
			e.parked.Add(1)
			_, _ = c.Read(buf)
			e.parked.Add(-1)
			_ = c.Close()
		case "closenow":
			_ = c.Close()
		case "writeblock":
			e.parked.Add(1)
			_, _ = c.Write([]byte("hello from the application, which waits for the acknowledgement as long as it takes"))
			_ = c.Flush()
			_ = c.SetDeadline(time.Now().Add(ibbWait))
			_, _ = io.Copy(io.Discard, c)
			e.parked.Add(-1)
			_ = c.Close()
		case "write":
			_, _ = c.Write([]byte("hello from the application"))
			_ = c.Flush()
			e.parked.Add(1)
			_, _ = io.Copy(io.Discard, c)
			e.parked.Add(-1)
			_ = c.Close()
		}
	})
}

// feedSync feeds s and waits until the Serve goroutine has consumed all input
// and is waiting for more ("idle"), Serve has returned ("done"), or the step
// budget is exhausted ("timeout": inconclusive on its own).
func (e *env) feedSync(s string) string {
	select {
	case <-e.idle:
	default:
	}
	e.sv.Feed(s)
	deadline := time.NewTimer(stepWait)
	defer deadline.Stop()
	for {
		select {
		case <-e.idle:
			if e.sv.Conn.PendingInput() == 0 {
				return "idle"
			}
		case <-e.sv.Done():
			return "done"
		case <-deadline.C:
			return "timeout"
		}
	}
}

// request is an element the library sent that asks the peer for a reply.
type request struct {
	kind string // iq, presence, message
	id   string
	node *xt.Node
}

// outstanding lists requests written by the library that the peer has not
// answered yet.
func (e *env) outstanding() []request { return e.outstandingIn(e.sv.Conn.Output()) }

// outstandingIn is outstanding over captured output b (it does not touch the
// connection: usable inside Conn.WaitOutput).
func (e *env) outstandingIn(b []byte) []request {
	items, _, _ := wire.ParseStream(b, false, nsClient)
	var out []request
	for _, n := range wire.Elements(items) {
		id, _ := n.Get("id")
		typ, _ := n.Get("type")
		if id == "" || n.Name.Space != nsClient {
			continue
		}
		e.mu.Lock()
		done := e.answered[id]
		e.mu.Unlock()
		if done {
			continue
		}
		switch n.Name.Local {
		case "iq":
			if typ == "get" || typ == "set" {
				out = append(out, request{"iq", id, n})
			}
		case "presence":
			if typ != "error" {
				out = append(out, request{"presence", id, n})
			}
		case "message":
			if n.Find("request") != nil {
				out = append(out, request{"message", id, n})
			}
		}
	}
	return out
}

func (e *env) markAnswered(id string) {
	e.mu.Lock()
	e.answered[id] = true
	e.mu.Unlock()
}

// waitRequest waits until the library has written a request with the id.
func (e *env) waitRequest(id string, d time.Duration) bool {
	return e.sv.WaitFor(func(els []*xt.Node) bool {
		for _, n := range els {
			if v, _ := n.Get("id"); v == id {
				return true
			}
		}
		return false
	}, d)
}

// finish answers what is still outstanding, closes the IBB streams as the
// peer, ends the application requests and the stream, and waits for Serve.
// It returns "" (Serve returned), "wedge" with the dump of the parked Serve
// goroutine, or "inconclusive".
func (e *env) finish(sids []string) (verdict, dump string) {
	select {
	case <-e.sv.Done():
	default:
		for round := 0; round < 3; round++ {
			reqs := e.outstanding()
			if len(reqs) == 0 && round > 0 {
				break
			}
			var sb strings.Builder
			for _, r := range reqs {
				e.markAnswered(r.id)
				switch r.kind {
				case "iq":
					sb.WriteString(`<iq type="error" id="` + xmlEsc(r.id) + `"><error type="cancel"><item-not-found xmlns="` + nsStanza + `"/></error></iq>`)
				case "presence":
					sb.WriteString(`<presence type="error" id="` + xmlEsc(r.id) + `" from="` + roomMe + `"><error type="cancel"><item-not-found xmlns="` + nsStanza + `"/></error></presence>`)
				}
			}
			if round == 0 {
				for i, sid := range sids {
					sb.WriteString(fmt.Sprintf(`<iq type="set" id="fin-close-%d" from="%s" to="%s"><close xmlns="http://jabber.org/protocol/ibb" sid="%s"/></iq>`, i, peerFull, localAddr, xmlEsc(sid)))
				}
			}
			if sb.Len() == 0 {
				break
			}
			if st := e.feedSync(sb.String()); st != "idle" {
				break
			}
		}
	}
	e.cancel()
	if e.sv.Shutdown(shutdownWait) {
		return "", ""
	}
	if g := serveWedged(e.sv); g != "" {
		return "wedge", g
	}
	return "inconclusive", ""
}

// waitConsumers gives the harness-owned goroutines a moment to finish so that
// a panic in one of them is attributed to this case.  Consumers that stay
// parked in an IBB Read whose stream is never closed are left behind at once;
// whatever else is still running after d is left behind too (a panic there is
// reported as a late panic by the next case).
func (e *env) waitConsumers(d time.Duration) bool {
	deadline := time.Now().Add(d)
	for {
		a, p := e.active.Load(), e.parked.Load()
		if a == 0 {
			return true
		}
		if a <= p || !time.Now().Before(deadline) {
			e.done.Store(true)
			return false
		}
		time.Sleep(200 * time.Microsecond)
	}
}

func xmlEsc(s string) string {
	var sb strings.Builder
	_ = xml.EscapeText(&sb, []byte(s))
	return sb.String()
}
