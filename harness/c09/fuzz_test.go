package c09

import (
	"strings"
	"sync"
	"testing"
	"time"

	"pgregory.net/rapid"

	"mellium.im/xmpp/verifharness/internal/ev"
)

// fullApp is the application side used by the byte-level targets: every
// consumer is present and uses fixed ids (hq1, mj1, r1, ib1 / sid os1, query
// q1), so that raw input can refer to them.
func fullApp(input string) *acase {
	return &acase{
		hist: true, join: true, rcpt: true, open: true, expect: true,
		connModes: []string{"drain", "read1close", "write"},
		steps:     []step{{kind: "raw", name: "bytes", input: input}},
	}
}

// hostile byte strings and stanzas taken from the repository's tests / XEP
// examples used as seeds.
var serveSeeds = []string{
	``, ` `, `<`, `<<`, `</stream:stream>`, `<a/>`, `text`, "\x00", "\xff\xfe", `<!-- c -->`, `<?xml version="1.0"?>`,
	`<iq type="result" id="hq1">text</iq>`,
	`<iq type="result" id="hq1"/>`,
	`<iq type="error" id="hq1">text<error/></iq>`,
	`<iq type="result" id="ib1"/><iq type="set" id="1" from="` + peerFull + `"><data xmlns="http://jabber.org/protocol/ibb" seq="0" sid="os1">aGVsbG8=</data></iq>`,
	`<iq type="result" id="hq1"><fin xmlns="urn:xmpp:mam:2" complete="true"><set xmlns="http://jabber.org/protocol/rsm"><first index="0">a</first><last>b</last><count>2</count></set></fin></iq>`,
	`<message>text<result xmlns="urn:xmpp:mam:2" queryid="q1"/></message>`,
	`<message><result xmlns="urn:xmpp:mam:2" queryid="q1" id="1">` + forwardedMsg + `</result></message>`,
	`<message type="chat">text<received xmlns="urn:xmpp:carbons:2">` + forwardedMsg + `</received></message>`,
	`<message type="chat" from="romeo@montague.example"><sent xmlns="urn:xmpp:carbons:2">` + forwardedMsg + `</sent></message>`,
	`<message>text<request xmlns="urn:xmpp:receipts"/></message>`,
	`<message from="` + peerFull + `"><received xmlns="urn:xmpp:receipts" id="r1"/></message>`,
	`<message from="` + peerFull + `" id="m1"><body>hi</body><request xmlns="urn:xmpp:receipts"/></message>`,
	`<iq type="set" id="b1"><block xmlns="urn:xmpp:blocking">text</block></iq>`,
	`<iq type="set" id="b1"><unblock xmlns="urn:xmpp:blocking"><item/></unblock></iq>`,
	`<iq type="set" id="b1"><block xmlns="urn:xmpp:blocking"><item jid="@"/></block></iq>`,
	`<iq type="get" id="b2"><blocklist xmlns="urn:xmpp:blocking"/></iq>`,
	`<iq type="set" id="o1" from="` + peerFull + `" to="` + localAddr + `"><open xmlns="http://jabber.org/protocol/ibb" block-size="4096" sid="es1" stanza="iq"/></iq>`,
	`<iq type="set" id="o1" from="` + peerFull + `" to="` + localAddr + `"><open xmlns="http://jabber.org/protocol/ibb" block-size="4096" sid="s1"/></iq><iq type="set" id="d1" from="` + peerFull + `"><data xmlns="http://jabber.org/protocol/ibb" seq="0" sid="s1">aGVsbG8=</data></iq><iq type="set" id="c1" from="` + peerFull + `"><close xmlns="http://jabber.org/protocol/ibb" sid="s1"/></iq>`,
	`<message from="` + peerFull + `"><data xmlns="http://jabber.org/protocol/ibb" seq="65535" sid="s1">!!!!</data></message>`,
	`<presence from="` + roomMe + `"><x xmlns="http://jabber.org/protocol/muc#user"><item affiliation="member" role="participant"/><status code="110"/></x></presence>`,
	`<presence type="error" id="mj1" from="` + roomMe + `">text<error type="cancel"><conflict xmlns="urn:ietf:params:xml:ns:xmpp-stanzas"/></error></presence>`,
	`<presence type="unavailable" from="` + roomMe + `"><x xmlns="http://jabber.org/protocol/muc#user"><status code="x"/></x></presence>`,
	`<message><x xmlns="http://jabber.org/protocol/muc#user"><invite to="@"><reason>r</reason></invite></x></message>`,
	`<message><x xmlns="jabber:x:conference" jid="darkcave@macbeth.shakespeare.lit" continue="maybe"/></message>`,
	`<presence><c xmlns="http://jabber.org/protocol/caps" hash="sha-1024" node="n" ver="v"/></presence>`,
	`<iq type="set" id="r1"><query xmlns="jabber:iq:roster" ver="v"><item jid="a@b@c"/></query></iq>`,
	`<iq type="get" id="v1"><query xmlns="jabber:iq:version"/></iq><iq type="get" id="t1"><time xmlns="urn:xmpp:time"/></iq><iq type="get" id="p1"><ping xmlns="urn:xmpp:ping"/></iq>`,
	`<iq type="get" id="d1"><query xmlns="http://jabber.org/protocol/disco#info" node="x"/></iq><iq type="get" id="d2"><query xmlns="http://jabber.org/protocol/disco#items"/></iq>`,
	`<iq type="get" id="bob1"><data xmlns="urn:xmpp:bob" cid="cid:x" max-age="99999999999999999999"/></iq>`,
	`<stream:error><bad-format xmlns="urn:ietf:params:xml:ns:xmpp-streams"/>text</stream:error>`,
	`<stream:error>text</stream:error>`,
	`<iq type="get" id="deep">` + strings.Repeat(`<a>`, 3000) + strings.Repeat(`</a>`, 3000) + `</iq>`,
	`<iq id="` + strings.Repeat("i", 70000) + `" type="get"><ping xmlns="urn:xmpp:ping"/></iq>`,
}

// fuzzWaits shortens the waits for the byte-level targets: the fuzzing engine
// gives up on an input after 10 s, and a verdict must be reached before that.
func fuzzWaits() {
	stepWait = 2 * time.Second
	shutdownWait = 5 * time.Second
	helperWait = 3 * time.Second
}

var (
	fuzzBegunMu sync.Mutex
	fuzzBegun   = map[string]bool{}
)

// beginFuzz makes violations found by a byte-level target (also when only its
// seed corpus runs, as in the quick tier) carry the target's name.
func beginFuzz(target string, t *testing.T) {
	fuzzBegunMu.Lock()
	defer fuzzBegunMu.Unlock()
	if !fuzzBegun[target] {
		for k := range fuzzBegun {
			delete(fuzzBegun, k)
		}
		fuzzBegun[target] = true
		ev.Begin(t)
	}
}

func FuzzC09Serve(f *testing.F) {
	for _, s := range serveSeeds {
		f.Add([]byte(s))
	}
	// generated sequences as further seeds
	seq := rapid.Custom(func(t *rapid.T) string {
		c := genACase(t)
		var sb strings.Builder
		for _, s := range c.steps {
			if s.kind == "reply" {
				sb.WriteString(strings.ReplaceAll(s.forms["iq"], "$ID", "hq1"))
				continue
			}
			sb.WriteString(s.input)
		}
		return sb.String()
	})
	for i := 0; i < 40; i++ {
		f.Add([]byte(seq.Example(i)))
	}
	f.Fuzz(func(t *testing.T, data []byte) {
		if len(data) > 1<<20 {
			t.Skip()
		}
		fuzzWaits()
		beginFuzz("FuzzC09Serve", t)
		reportLate(t)
		c := fullApp(string(data))
		res, inconclusive := runACase(c, func(format string, args ...any) { ev.Failf(t, format, args...) })
		if inconclusive {
			ev.Class("A:fuzz-inconclusive-timeout")
			t.Skip()
		}
		ev.Class("A:fuzz-exec")
		if res.dispatched > 0 {
			ev.Class("A:fuzz-dispatched")
		}
	})
}

func FuzzC09Reply(f *testing.F) {
	for h := range helpers {
		for _, c := range helpers[h].canon {
			f.Add(uint8(h), uint8(0), []byte(c))
		}
		f.Add(uint8(h), uint8(0), []byte("text"))
		f.Add(uint8(h), uint8(0), []byte(""))
		f.Add(uint8(h), uint8(1), []byte("text"+errCancel))
		f.Add(uint8(h), uint8(1), []byte(errText))
		f.Add(uint8(h), uint8(2), []byte(`<iq type="result" id="$ID">`+strings.Repeat("<a>", 500)+strings.Repeat("</a>", 500)+`</iq>`))
		f.Add(uint8(h), uint8(2), []byte(canonSelf))
		f.Add(uint8(h), uint8(2), []byte(strings.ReplaceAll(canonMamMsg, "$QID", "bq1")+`<iq type="result" id="$ID">`+canonFin+`</iq>`))
	}
	f.Fuzz(func(t *testing.T, hidx uint8, mode uint8, data []byte) {
		if len(data) > 1<<20 {
			t.Skip()
		}
		fuzzWaits()
		beginFuzz("FuzzC09Reply", t)
		reportLate(t)
		h := &helpers[int(hidx)%len(helpers)]
		kind := h.kind
		if kind == "" {
			kind = "iq"
		}
		var st string
		switch mode % 3 {
		case 0:
			st = wrapReply(kind, "result", remoteAddr, string(data))
		case 1:
			st = wrapReply(kind, "error", remoteAddr, string(data))
		default:
			st = string(data)
		}
		c := &bcase{h: h, replies: []breply{{kind: "fuzz", stanza: st}, {kind: "fuzz", stanza: st}}}
		_, inconclusive := runBCase(c, func(format string, args ...any) { ev.Failf(t, format, args...) })
		if inconclusive {
			ev.Class("B:fuzz-inconclusive-timeout")
			t.Skip()
		}
		ev.Class("B:fuzz-exec", "B:fuzz-helper="+h.name)
	})
}
