package c09

import (
	"context"
	"encoding/xml"
	"flag"
	"fmt"
	"hash/fnv"
	"io"
	"os"
	"strconv"
	"strings"
	"sync/atomic"
	"testing"
	"time"

	"pgregory.net/rapid"

	"mellium.im/xmlstream"
	"mellium.im/xmpp/bin"
	"mellium.im/xmpp/blocklist"
	"mellium.im/xmpp/bookmarks"
	"mellium.im/xmpp/carbons"
	"mellium.im/xmpp/commands"
	"mellium.im/xmpp/disco"
	"mellium.im/xmpp/disco/items"
	"mellium.im/xmpp/form"
	"mellium.im/xmpp/history"
	"mellium.im/xmpp/jid"
	"mellium.im/xmpp/muc"
	"mellium.im/xmpp/ping"
	"mellium.im/xmpp/pubsub"
	"mellium.im/xmpp/roster"
	"mellium.im/xmpp/stanza"
	"mellium.im/xmpp/upload"
	"mellium.im/xmpp/version"
	"mellium.im/xmpp/xtime"

	"mellium.im/xmpp/verifharness/internal/ev"
	"mellium.im/xmpp/verifharness/internal/wire"
	"mellium.im/xmpp/verifharness/internal/xt"
)

// ------------------------------------------------------------------ canonical payloads

const (
	rsmSet       = `<set xmlns="http://jabber.org/protocol/rsm"><first index="0">stpeter@jabber.org</first><last>peterpan@neverland.lit</last><count>800</count></set>`
	canonTime    = `<time xmlns="urn:xmpp:time"><tzo>-06:00</tzo><utc>2006-12-19T17:58:35Z</utc></time>`
	canonVersion = `<query xmlns="jabber:iq:version"><name>Exodus</name><version>0.7.0.4</version><os>Windows-XP 5.01.2600</os></query>`
	canonForm    = `<x xmlns="jabber:x:data" type="form"><title>Configuration</title><instructions>Complete this form</instructions><field var="FORM_TYPE" type="hidden"><value>http://jabber.org/protocol/muc#roomconfig</value></field><field label="Natural-Language Room Name" type="text-single" var="muc#roomconfig_roomname"><value>A Dark Cave</value></field><field label="Make Room Persistent?" type="boolean" var="muc#roomconfig_persistentroom"><value>0</value></field><field type="list-single" var="muc#roomconfig_whois"><value>moderators</value><option label="Moderators Only"><value>moderators</value></option><option label="Anyone"><value>anyone</value></option></field><field type="text-multi" var="desc"><value>a</value><value>b</value></field><field type="jid-multi" var="admins"><value>wiccarocks@shakespeare.lit</value><value>hecate@shakespeare.lit</value></field><field type="fixed"><value>Section</value></field></x>`
	canonInfo    = `<query xmlns="http://jabber.org/protocol/disco#info" node="n"><identity category="conference" type="text" name="Play-Specific Chatrooms" xml:lang="en"/><identity category="directory" type="chatroom"/><feature var="http://jabber.org/protocol/disco#info"/><feature var="http://jabber.org/protocol/muc"/><x xmlns="jabber:x:data" type="result"><field var="FORM_TYPE" type="hidden"><value>urn:xmpp:dataforms:softwareinfo</value></field><field var="ip_version" type="text-multi"><value>ipv4</value><value>ipv6</value></field></x></query>`
	canonItems   = `<query xmlns="http://jabber.org/protocol/disco#items"><item jid="people.shakespeare.lit" name="Directory of Characters"/><item jid="plays.shakespeare.lit" node="n2" name="Play-Specific Chatrooms"/></query>`
	canonItemsPg = `<query xmlns="http://jabber.org/protocol/disco#items"><item jid="people.shakespeare.lit" name="Directory of Characters"/>` + rsmSet + `</query>`
	canonCmds    = `<query xmlns="http://jabber.org/protocol/disco#items" node="http://jabber.org/protocol/commands"><item jid="responder@domain" node="list" name="List Service Configurations"/><item jid="responder@domain" node="config" name="Configure Service"/></query>`
	canonRoster  = `<query xmlns="jabber:iq:roster" ver="ver11"><item jid="romeo@example.net" name="Romeo" subscription="both"><group>Friends</group></item><item jid="mercutio@example.com" name="Mercutio" subscription="from"/></query>`
	canonBlock   = `<blocklist xmlns="urn:xmpp:blocking"><item jid="romeo@montague.net"/><item jid="iago@shakespeare.lit"/></blocklist>`
	canonPubsub  = `<pubsub xmlns="http://jabber.org/protocol/pubsub"><items node="princely_musings"><item id="368866411b877c30064a5f62b917cffe"><entry xmlns="http://www.w3.org/2005/Atom"><title>Soliloquy</title></entry></item><item id="x2"/>` + rsmSet + `</items></pubsub>`
	canonBookm   = `<pubsub xmlns="http://jabber.org/protocol/pubsub"><items node="urn:xmpp:bookmarks:1"><item id="theplay@conference.shakespeare.lit"><conference xmlns="urn:xmpp:bookmarks:1" name="The Play&apos;s the Thing" autojoin="true"><nick>JC</nick><password>p</password><extensions><state xmlns="http://myclient.example/bookmark/state" minimized="true"/></extensions></conference></item><item id="orchard@conference.shakespeare.lit"><conference xmlns="urn:xmpp:bookmarks:1" autojoin="1"/></item></items></pubsub>`
	canonPublish = `<pubsub xmlns="http://jabber.org/protocol/pubsub"><publish node="princely_musings"><item id="ae890ac52d0df67ed7cfdf51b644e901"/></publish></pubsub>`
	canonPSConf  = `<pubsub xmlns="http://jabber.org/protocol/pubsub#owner"><configure node="princely_musings">` + canonForm + `</configure></pubsub>`
	canonPSDef   = `<pubsub xmlns="http://jabber.org/protocol/pubsub#owner"><default>` + canonForm + `</default></pubsub>`
	canonFin     = `<fin xmlns="urn:xmpp:mam:2" complete="true" stable="false">` + rsmSet + `</fin>`
	canonSlot    = `<slot xmlns="urn:xmpp:http:upload:0"><put url="https://upload.montague.tld/4a771ac1/tres-drole.jpg"><header name="Authorization">Basic Base64String==</header><header name="Cookie">foo=bar; user=romeo</header><header name="X-Other">y</header></put><get url="https://download.montague.tld/4a771ac1/tres-drole.jpg"/></slot>`
	canonBob     = `<data xmlns="urn:xmpp:bob" cid="sha1+8f35fef110ffc5df08d579a50083ff9308fb6242@bob.xmpp.org" max-age="86400" type="image/png">iVBORw0KGgoAAAANSUhEUgAAAAoAAAAKCAYAAACNMs+9AAAABGdBTUEAALGPC/xhBQ==</data>`
	canonMucConf = `<query xmlns="http://jabber.org/protocol/muc#owner">` + canonForm + `</query>`
	canonCmdExec = `<command xmlns="http://jabber.org/protocol/commands" sessionid="config:20020923T213616Z-700" node="config" status="executing"><actions execute="next"><next/></actions>` + canonForm + `</command>`
	canonCmdDone = `<command xmlns="http://jabber.org/protocol/commands" sessionid="config:20020923T213616Z-700" node="config" status="completed"><note type="info">Service has been configured.</note></command>`
	canonMamMsg  = `<message from="` + remoteAddr + `" to="` + localAddr + `"><result xmlns="urn:xmpp:mam:2" queryid="$QID" id="28482-98726-73623">` + forwardedMsg + `</result></message>`
	canonSelf    = `<presence from="` + roomMe + `" to="` + localAddr + `"><x xmlns="http://jabber.org/protocol/muc#user"><item affiliation="member" role="participant"/><status code="110"/></x></presence>`
)

// result-set-management sets in the shapes XEP-0059 allows (index, count, first
// and last are all optional)
var rsmShapes = []string{
	`<set xmlns="http://jabber.org/protocol/rsm"><first>a</first><last>b</last><count>5</count></set>`,
	`<set xmlns="http://jabber.org/protocol/rsm"><last>b</last><count>5</count></set>`,
	`<set xmlns="http://jabber.org/protocol/rsm"><first index="3">a</first><last>b</last></set>`,
	`<set xmlns="http://jabber.org/protocol/rsm"><count>0</count></set>`,
	`<set xmlns="http://jabber.org/protocol/rsm"><first index="">a</first><last/><count/></set>`,
	`<set xmlns="http://jabber.org/protocol/rsm"><first index="18446744073709551615">a</first><last>b</last><count>18446744073709551615</count></set>`,
	`<set xmlns="http://jabber.org/protocol/rsm"/>`,
}

func pagedCanon(open, close string) []string {
	var out []string
	for _, r := range rsmShapes {
		out = append(out, open+r+close)
	}
	return out
}

var (
	canonItemsPgs = pagedCanon(`<query xmlns="http://jabber.org/protocol/disco#items"><item jid="people.shakespeare.lit" name="Directory of Characters"/>`, `</query>`)
	canonCmdsPgs  = pagedCanon(`<query xmlns="http://jabber.org/protocol/disco#items" node="http://jabber.org/protocol/commands"><item jid="responder@domain" node="list" name="List"/>`, `</query>`)
	canonPubsubPg = pagedCanon(`<pubsub xmlns="http://jabber.org/protocol/pubsub"><items node="princely_musings"><item id="x2"/>`, `</items></pubsub>`)
	canonFinPgs   = pagedCanon(`<fin xmlns="urn:xmpp:mam:2" complete="true">`, `</fin>`)
)

var allCanon = []string{canonTime, canonVersion, canonForm, canonInfo, canonItems, canonItemsPg, canonCmds, canonRoster, canonBlock, canonPubsub, canonBookm, canonPublish, canonPSConf, canonPSDef, canonFin, canonSlot, canonBob, canonMucConf, canonCmdExec, canonCmdDone}

// ------------------------------------------------------------------ helpers under test

type helper struct {
	name  string
	kind  string   // kind of request the helper sends: iq (default), presence, message
	canon []string // canonical result payloads ("" = empty result)
	// pre holds complete stanzas the canonical peer sends before the reply ($QID, $ID resolved)
	pre  []string
	call func(ctx context.Context, e *env)
}

var (
	jTo   = jid.MustParse(remoteAddr)
	jPeer = jid.MustParse(peerFull)
	jRoom = jid.MustParse(roomMe)
)

func drainTokens(r xml.TokenReader) {
	if r == nil {
		return
	}
	for i := 0; i < 100000; i++ {
		if _, err := r.Token(); err != nil {
			return
		}
	}
}

var helpers = []helper{
	{name: "ping.Send", canon: []string{""}, call: func(ctx context.Context, e *env) { _ = ping.Send(ctx, e.sv.Session, jTo) }},
	{name: "xtime.Get", canon: []string{canonTime}, call: func(ctx context.Context, e *env) { _, _ = xtime.Get(ctx, e.sv.Session, jTo) }},
	{name: "version.Get", canon: []string{canonVersion}, call: func(ctx context.Context, e *env) { _, _ = version.Get(ctx, e.sv.Session, jTo) }},
	{name: "disco.GetInfo", canon: []string{canonInfo}, call: func(ctx context.Context, e *env) {
		info, err := disco.GetInfo(ctx, "n", jTo, e.sv.Session)
		if err == nil {
			_ = info.TokenReader()
		}
	}},
	{name: "disco.FetchItems", canon: append([]string{canonItems, canonItemsPg}, canonItemsPgs...), call: func(ctx context.Context, e *env) {
		it := disco.FetchItems(ctx, items.Item{JID: jTo}, e.sv.Session)
		for n := 0; it.Next() && n < 50; n++ {
			_ = it.Item()
		}
		_ = it.Err()
		_ = it.Close()
	}},
	{name: "disco.WalkItem", canon: append([]string{canonItems, canonItemsPg}, canonItemsPgs...), call: func(ctx context.Context, e *env) {
		n := 0
		_ = disco.WalkItem(ctx, items.Item{JID: jTo}, e.sv.Session, func(level int, item items.Item, err error) error {
			n++
			if n > 12 || level > 2 {
				return disco.ErrSkipItem
			}
			return nil
		})
	}},
	{name: "roster.Fetch", canon: []string{canonRoster}, call: func(ctx context.Context, e *env) {
		it := roster.Fetch(ctx, e.sv.Session)
		for n := 0; it.Next() && n < 50; n++ {
			_ = it.Item()
		}
		_ = it.Version()
		_ = it.Err()
		_ = it.Close()
	}},
	{name: "roster.Set", canon: []string{""}, call: func(ctx context.Context, e *env) {
		_ = roster.Set(ctx, e.sv.Session, roster.Item{JID: jPeer.Bare(), Name: "J", Group: []string{"g"}})
	}},
	{name: "roster.Delete", canon: []string{""}, call: func(ctx context.Context, e *env) { _ = roster.Delete(ctx, e.sv.Session, jPeer.Bare()) }},
	{name: "blocklist.Fetch", canon: []string{canonBlock}, call: func(ctx context.Context, e *env) {
		it := blocklist.Fetch(ctx, e.sv.Session)
		for n := 0; it.Next() && n < 50; n++ {
			_ = it.JID()
		}
		_ = it.Err()
		_ = it.Close()
	}},
	{name: "blocklist.Add", canon: []string{""}, call: func(ctx context.Context, e *env) { _ = blocklist.Add(ctx, e.sv.Session, jPeer) }},
	{name: "blocklist.Remove", canon: []string{""}, call: func(ctx context.Context, e *env) { _ = blocklist.Remove(ctx, e.sv.Session, jPeer) }},
	{name: "blocklist.Report", canon: []string{""}, call: func(ctx context.Context, e *env) {
		_ = blocklist.Report(ctx, e.sv.Session, blocklist.Item{JID: jPeer, Reason: blocklist.ReasonSpam, Text: "t"})
	}},
	{name: "bookmarks.Fetch", canon: []string{canonBookm}, call: func(ctx context.Context, e *env) {
		it := bookmarks.Fetch(ctx, e.sv.Session)
		for n := 0; it.Next() && n < 50; n++ {
			_ = it.Bookmark()
		}
		_ = it.Err()
		_ = it.Close()
	}},
	{name: "bookmarks.Publish", canon: []string{canonPublish, ""}, call: func(ctx context.Context, e *env) {
		_ = bookmarks.Publish(ctx, e.sv.Session, bookmarks.Channel{JID: jid.MustParse(roomBare), Name: "n", Nick: "me", Autojoin: true})
	}},
	{name: "bookmarks.Delete", canon: []string{""}, call: func(ctx context.Context, e *env) {
		_ = bookmarks.Delete(ctx, e.sv.Session, jid.MustParse(roomBare))
	}},
	{name: "pubsub.Fetch", canon: append([]string{canonPubsub}, canonPubsubPg...), call: func(ctx context.Context, e *env) {
		it := pubsub.Fetch(ctx, e.sv.Session, pubsub.Query{Node: "princely_musings", MaxItems: 3})
		for n := 0; it.Next() && n < 50; n++ {
			_, r := it.Item()
			drainTokens(r)
		}
		_ = it.Err()
		_ = it.Close()
	}},
	{name: "pubsub.Publish", canon: []string{canonPublish, ""}, call: func(ctx context.Context, e *env) {
		_, _ = pubsub.Publish(ctx, e.sv.Session, "princely_musings", "", xmlstream.Wrap(nil, xml.StartElement{Name: xml.Name{Space: "urn:verif:x", Local: "entry"}}))
	}},
	{name: "pubsub.Delete", canon: []string{""}, call: func(ctx context.Context, e *env) {
		_ = pubsub.Delete(ctx, e.sv.Session, "princely_musings", "id1", true)
	}},
	{name: "pubsub.CreateNode", canon: []string{"", `<pubsub xmlns="http://jabber.org/protocol/pubsub"><create node="n"/></pubsub>`}, call: func(ctx context.Context, e *env) {
		_ = pubsub.CreateNode(ctx, e.sv.Session, "n", nil)
	}},
	{name: "pubsub.GetConfig", canon: []string{canonPSConf}, call: func(ctx context.Context, e *env) {
		f, err := pubsub.GetConfig(ctx, e.sv.Session, "princely_musings")
		useForm(f, err)
	}},
	{name: "pubsub.GetDefaultConfig", canon: []string{canonPSDef}, call: func(ctx context.Context, e *env) {
		f, err := pubsub.GetDefaultConfig(ctx, e.sv.Session)
		useForm(f, err)
	}},
	{name: "pubsub.SetConfig", canon: []string{""}, call: func(ctx context.Context, e *env) {
		_ = pubsub.SetConfig(ctx, e.sv.Session, "n", form.New(form.Text("pubsub#title", form.Value("t"))))
	}},
	{name: "history.Fetch", canon: append([]string{canonFin}, canonFinPgs...), pre: []string{canonMamMsg}, call: func(ctx context.Context, e *env) {
		_, _ = history.Fetch(ctx, history.Query{ID: "bq1", Limit: 2}, jTo, e.sv.Session)
	}},
	{name: "upload.GetSlot", canon: []string{canonSlot}, call: func(ctx context.Context, e *env) {
		slot, err := upload.GetSlot(ctx, upload.File{Name: "tres-drole.jpg", Size: 23456, Type: "image/jpeg"}, jTo, e.sv.Session)
		if err == nil && slot.PutURL != nil {
			_, _ = slot.Put(ctx, strings.NewReader("x"))
		}
	}},
	{name: "bin.Get", canon: []string{canonBob}, call: func(ctx context.Context, e *env) {
		_, _ = bin.Get(ctx, e.sv.Session, jTo, "sha1+8f35fef110ffc5df08d579a50083ff9308fb6242@bob.xmpp.org")
	}},
	{name: "carbons.Enable", canon: []string{""}, call: func(ctx context.Context, e *env) { _ = carbons.Enable(ctx, e.sv.Session) }},
	{name: "carbons.Disable", canon: []string{""}, call: func(ctx context.Context, e *env) { _ = carbons.Disable(ctx, e.sv.Session) }},
	{name: "muc.GetConfig", canon: []string{canonMucConf}, call: func(ctx context.Context, e *env) {
		f, err := muc.GetConfig(ctx, jid.MustParse(roomBare), e.sv.Session)
		useForm(f, err)
	}},
	{name: "muc.SetConfig", canon: []string{""}, call: func(ctx context.Context, e *env) {
		_ = muc.SetConfig(ctx, jid.MustParse(roomBare), form.New(form.Boolean("muc#roomconfig_persistentroom", form.Value("1"))), e.sv.Session)
	}},
	{name: "muc.Channel.SetAffiliation", canon: []string{""}, call: func(ctx context.Context, e *env) {
		dead, cancel := context.WithCancel(ctx)
		cancel()
		ch, _ := e.muc.Join(dead, jRoom, e.sv.Session)
		if ch != nil {
			_ = ch.SetAffiliation(ctx, muc.AffiliationMember, jPeer, "nick", "reason")
		}
	}},
	{name: "commands.Fetch", canon: append([]string{canonCmds}, canonCmdsPgs...), call: func(ctx context.Context, e *env) {
		it := commands.Fetch(ctx, jTo, e.sv.Session)
		for n := 0; it.Next() && n < 50; n++ {
			_ = it.Command()
		}
		_ = it.Err()
		_ = it.Close()
	}},
	{name: "commands.Execute", canon: []string{canonCmdExec, canonCmdDone}, call: func(ctx context.Context, e *env) {
		resp, r, err := commands.Command{JID: jTo, Node: "config"}.Execute(ctx, nil, e.sv.Session)
		if err == nil {
			_ = resp.Next()
			drainTokens(r)
			_ = r.Close()
		}
	}},
	{name: "commands.ForEach", canon: []string{canonCmdExec, canonCmdDone}, call: func(ctx context.Context, e *env) {
		n := 0
		_ = commands.Command{JID: jTo, Node: "config"}.ForEach(ctx, nil, e.sv.Session, func(resp commands.Response, r xml.TokenReader) (commands.Command, xml.TokenReader, error) {
			n++
			// a real consumer checks the status and parses the payload (a form,
			// notes) and reports what it cannot use
			switch resp.Status {
			case "executing", "completed", "canceled":
			default:
				return commands.Command{}, nil, fmt.Errorf("unknown command status %q", resp.Status)
			}
			d := xml.NewTokenDecoder(r)
			for {
				tok, err := d.Token()
				if err == io.EOF {
					break
				}
				if err != nil {
					return commands.Command{}, nil, err
				}
				if se, ok := tok.(xml.StartElement); ok && se.Name.Local == "x" {
					f := form.Data{}
					if err := d.DecodeElement(&f, &se); err != nil {
						return commands.Command{}, nil, err
					}
				}
			}
			if n >= 3 {
				return resp.Cancel(), nil, nil
			}
			return resp.Next(), nil, nil
		})
	}},
	{name: "ibb.Open+Write+Close", canon: []string{""}, call: func(ctx context.Context, e *env) {
		conn, err := e.ibb.OpenIQ(ctx, stanza.IQ{To: jPeer}, e.sv.Session, true, 16, "bs1")
		if conn != nil {
			_ = conn.SetDeadline(time.Now().Add(ibbWait))
			if err == nil {
				_, _ = conn.Write([]byte("0123456789abcdef0123456789abcdef"))
				_ = conn.Flush()
			}
			_ = conn.Close()
		}
	}},
	{name: "ibb.Open(message)", canon: []string{""}, call: func(ctx context.Context, e *env) {
		conn, _ := e.ibb.OpenIQ(ctx, stanza.IQ{To: jPeer}, e.sv.Session, false, 0, "bs2")
		if conn != nil {
			_ = conn.SetDeadline(time.Now().Add(ibbWait))
			_, _ = conn.Write([]byte("hello"))
			_ = conn.Close()
		}
	}},
	{name: "receipts.SendMessage", kind: "message", canon: []string{""}, call: func(ctx context.Context, e *env) {
		_ = e.rcpt.SendMessageElement(ctx, e.sv.Session, nil, stanza.Message{To: jPeer, Type: stanza.ChatMessage})
	}},
	{name: "Session.UnmarshalIQ", canon: allCanon, call: func(ctx context.Context, e *env) {
		var v struct {
			XMLName xml.Name
			Inner   []byte `xml:",innerxml"`
		}
		_ = e.sv.Session.UnmarshalIQ(ctx, stanza.IQ{Type: stanza.GetIQ, To: jTo}.Wrap(xmlstream.Wrap(nil, xml.StartElement{Name: xml.Name{Space: "urn:verif:x", Local: "q"}})), &v)
	}},
	{name: "Session.UnmarshalIQElement", canon: allCanon, call: func(ctx context.Context, e *env) {
		var v struct {
			XMLName xml.Name
			Attr    []xml.Attr `xml:",any,attr"`
		}
		_ = e.sv.Session.UnmarshalIQElement(ctx, xmlstream.Wrap(nil, xml.StartElement{Name: xml.Name{Space: "urn:verif:x", Local: "q"}}), stanza.IQ{Type: stanza.SetIQ, To: jTo}, &v)
	}},
	{name: "Session.IterIQ", canon: allCanon, call: func(ctx context.Context, e *env) {
		it, start, err := e.sv.Session.IterIQ(ctx, stanza.IQ{Type: stanza.GetIQ, To: jTo}.Wrap(xmlstream.Wrap(nil, xml.StartElement{Name: xml.Name{Space: "urn:verif:x", Local: "q"}})))
		if err != nil {
			return
		}
		_ = start.Name
		for n := 0; it.Next() && n < 50; n++ {
			_, r := it.Current()
			drainTokens(r)
		}
		_ = it.Err()
		_ = it.Close()
	}},
	{name: "Session.IterIQElement", canon: allCanon, call: func(ctx context.Context, e *env) {
		it, _, err := e.sv.Session.IterIQElement(ctx, xmlstream.Wrap(nil, xml.StartElement{Name: xml.Name{Space: "urn:verif:x", Local: "q"}}), stanza.IQ{Type: stanza.GetIQ, To: jTo})
		if err != nil {
			return
		}
		for n := 0; it.Next() && n < 50; n++ {
		}
		_ = it.Close()
	}},
	{name: "Session.SendIQ", canon: allCanon, call: func(ctx context.Context, e *env) {
		r, err := e.sv.Session.SendIQ(ctx, stanza.IQ{Type: stanza.GetIQ, To: jTo}.Wrap(xmlstream.Wrap(nil, xml.StartElement{Name: xml.Name{Space: "urn:verif:x", Local: "q"}})))
		if err == nil && r != nil {
			drainTokens(r)
			_ = r.Close()
		}
	}},
	{name: "Session.EncodeIQElement", canon: allCanon, call: func(ctx context.Context, e *env) {
		r, err := e.sv.Session.EncodeIQElement(ctx, struct {
			XMLName xml.Name `xml:"urn:verif:x q"`
		}{}, stanza.IQ{Type: stanza.SetIQ, To: jTo})
		if err == nil && r != nil {
			d := xml.NewTokenDecoder(r)
			var iq struct {
				stanza.IQ
				Err *stanza.Error `xml:"error"`
			}
			_ = d.Decode(&iq)
			_ = r.Close()
		}
	}},
	{name: "history.Handler.Fetch", canon: []string{canonFin}, pre: []string{canonMamMsg, canonMamMsg}, call: func(ctx context.Context, e *env) {
		it := e.hist.Fetch(ctx, history.Query{ID: "bq1"}, jTo, e.sv.Session)
		for n := 0; it.Next() && n < 50; n++ {
			_ = it.Current()
		}
		_ = it.Err()
		_ = it.Result()
		_ = it.Close()
	}},
	{name: "muc.Client.Join", kind: "presence", canon: []string{canonSelf}, call: func(ctx context.Context, e *env) {
		ch, err := e.muc.Join(ctx, jRoom, e.sv.Session, muc.Nick("me"))
		if ch != nil {
			_ = ch.Joined()
			if err == nil {
				lctx, cancel := context.WithTimeout(ctx, 200*time.Millisecond)
				_ = ch.Leave(lctx, "bye")
				cancel()
			}
		}
	}},
}

func useForm(f *form.Data, err error) {
	if f == nil {
		return
	}
	_ = f.Len()
	_ = f.Title()
	_ = f.Instructions()
	f.ForFields(func(fd form.FieldData) {
		_, _ = f.Get(fd.Var)
		_, _ = f.Raw(fd.Var)
	})
}

// ------------------------------------------------------------------ replies

// breply is one generated answer: complete stanzas with $ID standing for the
// id of the request it answers and $QID for the MAM query id.
type breply struct {
	kind   string
	stanza string
	muts   []string
}

const (
	errCancel = `<error type="cancel"><item-not-found xmlns="` + nsStanza + `"/></error>`
	errText   = `<error type="modify" by="example.net"><bad-request xmlns="` + nsStanza + `"/><text xmlns="` + nsStanza + `" xml:lang="en">bad</text><x xmlns="urn:verif:app"/></error>`
)

var replyKinds = []string{
	"canon", "canon", "canon-mutated", "canon-mutated", "canon-mutated", "canon-recased", "canon-repeated", "empty-result", "text-only-result", "text-then-canon", "canon-then-text",
	"error", "error-text-first", "error-empty", "error-no-payload", "error-garbage", "error-echo",
	"wrong-payload", "wrong-namespace", "nested-garbage", "two-payloads", "type-get", "no-type", "pre-only",
	"broken-xml", "broken-xml", "truncated",
}

// brokenPieces are inserted verbatim somewhere inside an otherwise canonical
// answer: constructs the stream reader refuses and XML that is not well-formed.
var brokenPieces = []string{`<!-- c -->`, `<?pi x?>`, `<!DOCTYPE x>`, `<![CDATA[x]]>`, `<a></b>`, `&nosuch;`, `</zz>`, "\x01", `<a b=c/>`, `<stream:error><bad-format xmlns="urn:ietf:params:xml:ns:xmpp-streams"/></stream:error>`}

func wrapReply(kind, typ, from, inner string) string {
	ta := ""
	if typ != "" {
		ta = ` type="` + typ + `"`
	}
	fa := ""
	if from != "" {
		fa = ` from="` + from + `"`
	}
	switch kind {
	case "presence":
		return `<presence` + ta + ` id="$ID"` + fa + `>` + inner + `</presence>`
	case "message":
		if typ == "error" {
			return `<message type="error" id="$ID"` + fa + `>` + inner + `</message>`
		}
		return `<message` + fa + `><received xmlns="urn:xmpp:receipts" id="$ID"/>` + inner + `</message>`
	}
	return `<iq` + ta + ` id="$ID"` + fa + `>` + inner + `</iq>`
}

func genReply(t *rapid.T, h *helper) breply {
	kind := h.kind
	if kind == "" {
		kind = "iq"
	}
	rk := rapid.SampledFrom(replyKinds).Draw(t, "replykind")
	from := rapid.SampledFrom([]string{"", remoteAddr, roomMe, peerFull, "@@bad", localAddr, remoteAddr, peerFull,
		"\uff52\uff4f\uff4d\uff45\uff4f@example.net/orchard", "rene\u0301@example.net", "\u212aelvin@example.net/x", "\uff52@example.net"}).Draw(t, "replyfrom")
	if kind == "presence" && rapid.IntRange(0, 3).Draw(t, "presfrom") > 0 {
		from = roomMe
	}
	canon := rapid.SampledFrom(h.canon).Draw(t, "canon")
	pre := strings.Join(h.pre, "")
	r := breply{kind: rk}
	switch rk {
	case "canon":
		if kind == "presence" {
			// the canonical answer to a join is the self-presence, routed through the handler
			r.stanza = canon
		} else {
			r.stanza = pre + wrapReply(kind, "result", from, canon)
		}
	case "canon-mutated":
		var n *xt.Node
		if kind == "presence" && rapid.Bool().Draw(t, "selfpres") {
			n = lit(canon)
		} else {
			n = lit(wrapReply(kind, "result", from, canon))
		}
		for i, k := 0, rapid.IntRange(1, 3).Draw(t, "nmut"); i < k; i++ {
			r.muts = append(r.muts, mutate(t, n))
		}
		if pre != "" && rapid.Bool().Draw(t, "premut") {
			p := lit(h.pre[0])
			r.muts = append(r.muts, "pre:"+mutate(t, p))
			pre = render(p)
		}
		r.stanza = pre + render(n)
	case "canon-recased":
		// the canonical answer from an implementation that spells tokens its own
		// way: every attribute value and text of the payload in lower case,
		// upper case or with the case of each letter swapped
		n := lit(wrapReply(kind, "result", from, canon))
		how := rapid.SampledFrom([]string{"lower", "upper", "swap"}).Draw(t, "recase")
		re := func(v string) string {
			switch how {
			case "lower":
				return strings.ToLower(v)
			case "upper":
				return strings.ToUpper(v)
			}
			return strings.Map(func(c rune) rune {
				switch {
				case c >= 'a' && c <= 'z':
					return c - 32
				case c >= 'A' && c <= 'Z':
					return c + 32
				}
				return c
			}, v)
		}
		var walk func(x *xt.Node)
		walk = func(x *xt.Node) {
			for _, c := range x.Children {
				if c.IsText() {
					c.Text = re(c.Text)
					continue
				}
				for i := range c.Attr {
					if c.Attr[i].Name.Local != "xmlns" && c.Attr[i].Name.Space != "xmlns" {
						c.Attr[i].Value = re(c.Attr[i].Value)
					}
				}
				walk(c)
			}
		}
		walk(n)
		r.muts = append(r.muts, "recased-"+how)
		r.stanza = pre + render(n)
	case "canon-repeated":
		// the canonical answer from an implementation that says things twice:
		// in every element of the payload with two or more child elements the
		// list of children is repeated (a b -> a b a b) or every child doubled
		// (a b -> a a b b)
		n := lit(wrapReply(kind, "result", from, canon))
		how := rapid.SampledFrom([]string{"abab", "aabb", "leaves-abab", "leaves-aabb"}).Draw(t, "repeat")
		var walk func(x *xt.Node, depth int)
		walk = func(x *xt.Node, depth int) {
			els, grand := 0, false
			for _, c := range x.Children {
				if !c.IsText() {
					els++
					walk(c, depth+1)
					for _, g := range c.Children {
						grand = grand || !g.IsText()
					}
				}
			}
			if depth == 0 || els < 2 || (strings.HasPrefix(how, "leaves-") && grand) {
				return
			}
			var kids []*xt.Node
			if strings.HasSuffix(how, "abab") {
				kids = append(kids, x.Children...)
				for _, c := range x.Children {
					kids = append(kids, c.Clone())
				}
			} else {
				for _, c := range x.Children {
					kids = append(kids, c, c.Clone())
				}
			}
			x.Children = kids
		}
		walk(n, 0)
		r.muts = append(r.muts, "repeated-"+how)
		r.stanza = pre + render(n)
	case "empty-result":
		r.stanza = wrapReply(kind, "result", from, "")
	case "text-only-result":
		r.stanza = wrapReply(kind, "result", from, rapid.SampledFrom([]string{"text", " ", "0", "&amp;"}).Draw(t, "text"))
	case "text-then-canon":
		r.stanza = wrapReply(kind, "result", from, "text"+canon)
	case "canon-then-text":
		r.stanza = wrapReply(kind, "result", from, canon+"text")
	case "error":
		r.stanza = wrapReply(kind, "error", from, rapid.SampledFrom([]string{errCancel, errText, `<error type="cancel"><service-unavailable xmlns="` + nsStanza + `"/></error>`, `<error type="cancel"><feature-not-implemented xmlns="` + nsStanza + `"/></error>`}).Draw(t, "err"))
	case "error-text-first":
		r.stanza = wrapReply(kind, "error", from, "text"+errCancel)
	case "error-empty":
		r.stanza = wrapReply(kind, "error", from, rapid.SampledFrom([]string{`<error/>`, `<error>text</error>`, `<error type="bogus"><x/></error>`, `<error xmlns="urn:verif:x"/>`}).Draw(t, "err"))
	case "error-no-payload":
		r.stanza = wrapReply(kind, "error", from, rapid.SampledFrom([]string{``, `text`, canon}).Draw(t, "err"))
	case "error-garbage":
		n := lit(wrapReply(kind, "error", from, canon+errText))
		for i, k := 0, rapid.IntRange(1, 3).Draw(t, "nmut"); i < k; i++ {
			r.muts = append(r.muts, mutate(t, n))
		}
		r.stanza = render(n)
	case "error-echo":
		r.stanza = wrapReply(kind, "error", from, `<q xmlns="urn:verif:x"/>`+errCancel)
	case "wrong-payload":
		r.stanza = wrapReply(kind, "result", from, rapid.SampledFrom(allCanon).Draw(t, "other"))
	case "wrong-namespace":
		if canon == "" {
			canon = canonForm
		}
		n := lit(canon)
		n.Name.Space = rapid.SampledFrom(dictNS).Draw(t, "ns")
		r.stanza = pre + wrapReply(kind, "result", from, render(n))
	case "nested-garbage":
		n := dictTree(t, "garbage", rapid.IntRange(1, 3).Draw(t, "gdepth"), nsClient)
		if rapid.Bool().Draw(t, "nest") {
			r.muts = append(r.muts, "deep-nest")
			inner := n
			for i, d := 0, rapid.SampledFrom([]int{10, 200, 2000}).Draw(t, "depth"); i < d; i++ {
				inner = &xt.Node{Name: n.Name, Children: []*xt.Node{inner}}
			}
			n = inner
		}
		r.stanza = wrapReply(kind, "result", from, render(n))
	case "two-payloads":
		r.stanza = wrapReply(kind, "result", from, canon+rapid.SampledFrom(allCanon).Draw(t, "other"))
	case "type-get":
		r.stanza = wrapReply(kind, rapid.SampledFrom([]string{"get", "set"}).Draw(t, "rtype"), from, canon)
	case "no-type":
		r.stanza = wrapReply(kind, rapid.SampledFrom([]string{"", "bogus"}).Draw(t, "rtype"), from, canon)
	case "broken-xml":
		n := lit(wrapReply(kind, rapid.SampledFrom([]string{"result", "result", "error"}).Draw(t, "rtype"), from, canon+rapid.SampledFrom([]string{"", "", errCancel}).Draw(t, "witherr")))
		var refs []nodeRef
		collect(n, nil, 0, 0, &refs)
		ref := refs[rapid.IntRange(0, len(refs)-1).Draw(t, "broken-node")]
		insertChild(ref.n, rapid.IntRange(0, len(ref.n.Children)).Draw(t, "broken-pos"), xt.Raw(rapid.SampledFrom(brokenPieces).Draw(t, "broken-piece")))
		r.stanza = pre + render(n)
	case "truncated":
		full := pre + wrapReply(kind, "result", from, canon)
		r.stanza = full[:rapid.IntRange(1, len(full)-1).Draw(t, "cut")]
	case "pre-only":
		if pre == "" {
			pre = strings.ReplaceAll(canonMamMsg, "$QID", "other")
		}
		r.stanza = pre
	}
	if rk != "truncated" && rk != "broken-xml" && rapid.IntRange(0, 4).Draw(t, "respell") == 0 {
		// the same answer with its character data in other XML spellings (CDATA
		// sections, character references, several runs where there was one)
		if b := xt.Respell([]byte(r.stanza), uint32(len(r.stanza))); string(b) != r.stanza {
			r.stanza = string(b)
			r.muts = append(r.muts, "text-respelled")
		}
	}
	return r
}

// terminator is a plain error answer that ends a request whose generated
// answer could not be matched to it (another id or type).
func terminator(kind, id string) string {
	id = xmlEsc(id)
	switch kind {
	case "presence":
		return `<presence type="error" id="` + id + `" from="` + roomMe + `">` + errCancel + `</presence>`
	case "message":
		return `<message from="` + peerFull + `"><received xmlns="urn:xmpp:receipts" id="` + id + `"/></message>`
	}
	return `<iq type="error" id="` + id + `" from="` + remoteAddr + `">` + errCancel + `</iq>`
}

type bcase struct {
	h       *helper
	replies []breply
}

func (c *bcase) String() string {
	var sb strings.Builder
	fmt.Fprintf(&sb, "helper: %s\n", c.h.name)
	for i, r := range c.replies {
		fmt.Fprintf(&sb, "reply to request %d [%s %v] ($ID = id of the request, $QID = query id; followed by a plain error with the same id): %s\n", i, r.kind, r.muts, short(r.stanza, 4000))
	}
	sb.WriteString("further requests are answered with a plain item-not-found error\n")
	return sb.String()
}

func genBCase(t *rapid.T, h *helper) *bcase {
	c := &bcase{h: h}
	n := rapid.IntRange(1, 3).Draw(t, "nreplies")
	for i := 0; i < n; i++ {
		c.replies = append(c.replies, genReply(t, h))
	}
	return c
}

type bresult struct {
	reached  bool // a reply that matches the request's id and type was delivered while the helper waited
	requests int
	history  []string
}

// hasClosingTag reports whether the library has closed its output stream.
func hasClosingTag(b []byte) bool {
	return strings.Contains(string(b[max(0, len(b)-64):]), "</stream:stream>")
}

func resolve(s, id string) string {
	return strings.NewReplacer("$ID", xmlEsc(id), "$QID", "bq1").Replace(s)
}

// runBCase calls the helper against the scripted peer.
func runBCase(c *bcase, fail func(format string, args ...any)) (res bresult, inconclusive bool) {
	e, err := newEnv(nil)
	if err != nil {
		panic("harness: " + err.Error())
	}
	logf := func(format string, args ...any) { res.history = append(res.history, fmt.Sprintf(format, args...)) }
	e.caseStr = c.String
	kind := c.h.kind
	if kind == "" {
		kind = "iq"
	}
	ctx, cancel := context.WithTimeout(e.ctx, helperWait)
	defer cancel()
	var done atomic.Bool
	result := make(chan string, 1)
	mk := &marker{}
	go func() {
		p := ev.Guard(func() { markFrame(mk, func() { c.h.call(ctx, e) }) })
		result <- p
		done.Store(true)
		e.sv.Conn.Feed(nil) // wake the peer loop
	}()

	sessionEnded := false
	deadline := time.Now().Add(helperWait + helperWait/4)
loop:
	for !done.Load() {
		var reqs []request
		e.sv.Conn.WaitOutput(func(b []byte) bool {
			if done.Load() || hasClosingTag(b) {
				return true
			}
			reqs = e.outstandingIn(b)
			return len(reqs) > 0
		}, minDur(time.Until(deadline), 1500*time.Millisecond))
		switch {
		case done.Load():
			break loop
		case len(reqs) == 0 && !hasClosingTag(e.sv.Conn.Output()) && time.Now().Before(deadline):
			// nothing new on the wire for a while.  If the helper and this session's
			// serve loop are both parked in channel operations inside the library
			// although every request on the wire has been answered, they wait for
			// each other: only the context's time limit would end this (and nothing
			// would with a context that does not end)
			if hg := frameWedged(mk); hg != "" && len(e.outstanding()) == 0 && res.requests > 0 {
				if sg := serveWedged(e.sv); sg != "" {
					time.Sleep(300 * time.Millisecond)
					if hg2, sg2 := frameWedged(mk), serveWedged(e.sv); hg2 != "" && sg2 != "" && !done.Load() && len(e.outstanding()) == 0 {
						fail("the request helper and the serve loop wait for each other: every request the helper put on the wire (%d) has been answered, and both are parked in channel/mutex operations inside the library; the call would never return with a context that does not end\n%s\nhistory:\n  %s\n\nhelper goroutine:\n%s\n\nserve goroutine:\n%s", res.requests, c.String(), strings.Join(res.history, "\n  "), hg2, sg2)
					}
				}
			}
			continue loop
		case len(reqs) > 0:
			var sb strings.Builder
			for _, r := range reqs {
				e.markAnswered(r.id)
				if r.kind != kind {
					sb.WriteString(terminator(r.kind, r.id))
					continue
				}
				if res.requests < len(c.replies) {
					st := resolve(c.replies[res.requests].stanza, r.id)
					sb.WriteString(st)
					if routable(st, r) {
						res.reached = true
					}
				}
				res.requests++
				sb.WriteString(terminator(r.kind, r.id))
			}
			logf("request(s) %v answered", ids(reqs))
			e.sv.Feed(sb.String())
			if !wellFormed(sb.String()) {
				// a peer that sends something that is not XML can only hang up
				// afterwards; whoever reads the reply sees the end of the input
				logf("the answer is not well-formed: the peer ends its stream (EOF)")
				e.sv.Conn.CloseInput()
			}
		case hasClosingTag(e.sv.Conn.Output()):
			// the session ended (the reply was refused at stream level): the
			// request can only end through its context
			sessionEnded = true
			logf("the library closed the stream: %v", e.sv.Err())
			cancel()
			break loop
		default:
			logf("peer loop timed out: the peer ends its stream (EOF)")
			e.sv.Conn.CloseInput()
			cancel()
			break loop
		}
	}

	var panicked string
	select {
	case panicked = <-result:
	case <-time.After(shutdownWait):
		if g := frameWedged(mk); g != "" {
			fail("request helper is wedged: %v after its context ended it is parked in a channel/mutex operation inside the library\n%s\nhistory:\n  %s\n\ngoroutine:\n%s", shutdownWait, c.String(), strings.Join(res.history, "\n  "), g)
		}
		return res, true
	}
	logf("helper returned (session ended: %v)", sessionEnded)
	if panicked != "" {
		fail("request helper panicked on the peer's reply\n%s\nhistory:\n  %s\n\n%s", c.String(), strings.Join(res.history, "\n  "), panicked)
	}
	verdict, dump := e.finish(nil)
	if verdict == "" {
		_ = e.lst.Close()
		e.waitConsumers(consumerWait)
	}
	if ps := e.takePanics(); len(ps) > 0 {
		fail("panic in the served session while a request helper ran\n%s\nhistory:\n  %s\n\n%s", c.String(), strings.Join(res.history, "\n  "), strings.Join(ps, "\n---\n"))
	}
	switch verdict {
	case "wedge":
		fail("Serve is wedged after the request helper returned: the input ended (closing tag + EOF) and %v later the Serve goroutine is parked in a channel/mutex operation inside the library (the reply was never released)\n%s\nhistory:\n  %s\n\ngoroutine:\n%s", shutdownWait, c.String(), strings.Join(res.history, "\n  "), dump)
	case "inconclusive":
		return res, true
	}
	return res, false
}

func minDur(a, b time.Duration) time.Duration {
	if a < b {
		return a
	}
	return b
}

// wellFormed reports whether s is a sequence of complete, well-formed elements.
func wellFormed(s string) bool {
	d := xml.NewDecoder(strings.NewReader(`<wrap xmlns="` + nsClient + `" xmlns:stream="` + wire.StreamNS + `">` + s + `</wrap>`))
	depth := 0
	for {
		tok, err := d.Token()
		if err == io.EOF {
			return depth == 0
		}
		if err != nil {
			return false
		}
		switch tok.(type) {
		case xml.StartElement:
			depth++
		case xml.EndElement:
			depth--
			if depth == 0 {
				// the wrapper must be the last thing closed
				if _, err := d.Token(); err != io.EOF {
					return false
				}
				return true
			}
		}
	}
}

func ids(reqs []request) []string {
	var out []string
	for _, r := range reqs {
		out = append(out, r.kind+":"+r.id)
	}
	return out
}

// routable reports whether the first stanza of st is matched to request r by
// the session (same element name, same id, type result or error), or — for
// requests answered through a handler — is addressed to it.
func routable(st string, r request) bool {
	n, err := xt.Parse([]byte(`<wrap xmlns="` + nsClient + `">` + st + `</wrap>`))
	if err != nil {
		return false
	}
	for _, c := range n.Children {
		if c.IsText() || c.Name.Space != nsClient {
			continue
		}
		id, _ := c.Get("id")
		typ, _ := c.Get("type")
		switch r.kind {
		case "iq":
			if c.Name.Local == "iq" && id == r.id && (typ == "result" || typ == "error") {
				return true
			}
		case "presence":
			if c.Name.Local == "presence" && ((id == r.id && typ == "error") || c.Find("x") != nil) {
				return true
			}
		case "message":
			if rc := c.Find("received"); c.Name.Local == "message" && rc != nil {
				if v, _ := rc.Get("id"); v == r.id {
					return true
				}
			}
		}
	}
	return false
}

func TestC09Reply(t *testing.T) {
	for i := range helpers {
		h := &helpers[i]
		t.Run(h.name, func(t *testing.T) {
			ev.Flush()
			// every helper gets its own stream of random choices (derived from
			// the run's seed), otherwise all helpers would see the same replies
			defer perHelperSeed(h.name)()
			ev.Check(t, 70, 1500, func(rt *rapid.T) {
				reportLate(rt)
				c := genBCase(rt, h)
				t0 := time.Now()
				res, inconclusive := runBCase(c, func(format string, args ...any) { ev.Failf(rt, format, args...) })
				if d := time.Since(t0); d > 2*time.Second && debugSlow {
					t.Logf("SLOW %v\n%s\n%s", d, c.String(), strings.Join(res.history, "\n"))
				}
				if inconclusive {
					ev.Class("B:inconclusive-timeout")
					ev.Note("domain B: a case timed out without a confirmed blocked state (skipped)")
					return
				}
				classes := []string{"B:case", "B:helper=" + h.name, fmt.Sprintf("B:requests=%d", min(res.requests, 4))}
				for i, r := range c.replies {
					if i < res.requests {
						classes = append(classes, "B:reply="+r.kind)
						for _, m := range r.muts {
							classes = append(classes, "B:mut="+m)
						}
					}
				}
				ev.Case(res.reached, "B|"+c.String(), classes...)
			})
		})
	}
}

// perHelperSeed derives rapid's seed for one helper from the seed of the run
// (when one is pinned) and returns a function that restores it.
func perHelperSeed(name string) func() {
	fl := flag.Lookup("rapid.seed")
	if fl == nil {
		return func() {}
	}
	old := fl.Value.String()
	base, err := strconv.ParseUint(old, 10, 64)
	if err != nil || base == 0 {
		return func() {}
	}
	h := fnv.New64a()
	h.Write([]byte(name))
	seed := (base*1000003 + h.Sum64()) & 0x7fffffffffffffff
	if seed == 0 {
		seed = 1
	}
	_ = flag.Set("rapid.seed", strconv.FormatUint(seed, 10))
	return func() { _ = flag.Set("rapid.seed", old) }
}

var _ = wire.StreamNS

var debugSlow = os.Getenv("C09_DEBUG_SLOW") != ""
