package c09

import (
	"fmt"
	"go/ast"
	"go/parser"
	"go/token"
	"io/fs"
	"path/filepath"
	"reflect"
	"runtime"
	"sort"
	"strings"
	"testing"

	"mellium.im/xmpp"

	"mellium.im/xmpp/verifharness/internal/ev"
)

// TestC09Scan is the static side of the property's "observe_at": it lists
// every single-value type assertion on an xml token type in the non-test
// sources of the library (x.(xml.StartElement) outside a comma-ok form or a
// type switch).  Not every such site is fed with peer data (some read what
// the application passes in), so the list is evidence, not a verdict: it is
// recorded in the evidence file and never fails the check.
func TestC09Scan(t *testing.T) {
	ev.Begin(t)
	file, _ := runtime.FuncForPC(reflect.ValueOf(xmpp.NewSession).Pointer()).FileLine(0)
	root := filepath.Dir(file)
	if root == "" || root == "." {
		t.Skip("source directory of mellium.im/xmpp not found")
	}
	var sites []string
	fset := token.NewFileSet()
	_ = filepath.WalkDir(root, func(path string, d fs.DirEntry, err error) error {
		if err != nil {
			return nil
		}
		if d.IsDir() {
			switch d.Name() {
			case "examples", "design", "docs", "testdata", ".git":
				return filepath.SkipDir
			}
			return nil
		}
		if !strings.HasSuffix(path, ".go") || strings.HasSuffix(path, "_test.go") {
			return nil
		}
		f, err := parser.ParseFile(fset, path, nil, parser.SkipObjectResolution)
		if err != nil {
			return nil
		}
		checked := map[*ast.TypeAssertExpr]bool{}
		ast.Inspect(f, func(n ast.Node) bool {
			switch s := n.(type) {
			case *ast.AssignStmt:
				if len(s.Lhs) == 2 && len(s.Rhs) == 1 {
					if ta, ok := s.Rhs[0].(*ast.TypeAssertExpr); ok {
						checked[ta] = true
					}
				}
			case *ast.ValueSpec:
				if len(s.Names) == 2 && len(s.Values) == 1 {
					if ta, ok := s.Values[0].(*ast.TypeAssertExpr); ok {
						checked[ta] = true
					}
				}
			}
			return true
		})
		ast.Inspect(f, func(n ast.Node) bool {
			ta, ok := n.(*ast.TypeAssertExpr)
			if !ok || ta.Type == nil || checked[ta] {
				return true
			}
			sel, ok := ta.Type.(*ast.SelectorExpr)
			if !ok {
				return true
			}
			pkg, _ := sel.X.(*ast.Ident)
			if pkg == nil || pkg.Name != "xml" {
				return true
			}
			switch sel.Sel.Name {
			case "StartElement", "EndElement", "CharData":
				rel, _ := filepath.Rel(root, path)
				sites = append(sites, fmt.Sprintf("%s:%d .(xml.%s)", rel, fset.Position(ta.Pos()).Line, sel.Sel.Name))
			}
			return true
		})
		return nil
	})
	sort.Strings(sites)
	for _, s := range sites {
		ev.Class("scan:unchecked-xml-token-assertion")
		ev.Note("unchecked assertion on an xml token: %s", s)
	}
	ev.Class("scan:run")
	t.Logf("%d single-value assertions on xml token types:\n  %s", len(sites), strings.Join(sites, "\n  "))
}
