package c09

import (
	"context"
	"fmt"
	"os"
	"strings"
	"testing"
	"time"

	"pgregory.net/rapid"

	"mellium.im/xmpp/history"
	"mellium.im/xmpp/jid"
	"mellium.im/xmpp/stanza"

	"mellium.im/xmpp/verifharness/internal/ev"
	"mellium.im/xmpp/verifharness/internal/gen"
	"mellium.im/xmpp/verifharness/internal/wire"
	"mellium.im/xmpp/verifharness/internal/xt"
)

// ------------------------------------------------------------------ grammar

var (
	sidUniverse = []string{"s1", "s2", "os1", "es1", "nosuch"}
	seqUniverse = []string{"0", "1", "2", "65535", "65536", "-1", "x"}
	b64Universe = []string{"aGVsbG8=", "aGVsbG8gd29ybGQ=", "", "AAAA", "!!!!", "aGVsbG8", "QQ==", strings.Repeat("QUFB", 700),
		"====", "=", "A===", "==QQ", "QUJDQUJD========", "QQ======", "QUJD=", " QUJD ", "QUJD\nQUJD"}
	fromUniverse = []string{peerFull, "juliet@example.com", remoteAddr, roomMe, roomBare, roomBare + "/other", localAddr, localAddr + "/res", "",
		// valid addresses that are not in canonical form: parts that get shorter
		// (fullwidth, decomposed, KELVIN SIGN) or change case under normalisation
		"\uff52\uff4f\uff4d\uff45\uff4f@example.net/orchard", "rene\u0301@example.net", "\uff2a\uff35\uff2c\uff29\uff25\uff34@EXAMPLE.com/Balcony", "\u212aelvin@example.net/x",
		"e\u0301e\u0301e\u0301e\u0301@example.net/r", "romeo@\uff45\uff58\uff41\uff4d\uff50\uff4c\uff45.net/e\u0301", "\uff52@example.net"}
	msgTypes = []string{"", "normal", "chat", "chat", "normal", "groupchat", "headline", "error"}
	queryIDs = []string{"q1", "q1", "q2", ""}
	rcptIDs  = []string{"r1", "r1", "r2", ""}
)

const forwardedMsg = `<forwarded xmlns="urn:xmpp:forward:0"><delay xmlns="urn:xmpp:delay" stamp="2010-07-10T23:08:25Z">d</delay><message xmlns="jabber:client" from="juliet@capulet.example/balcony" to="romeo@montague.example/garden" type="chat"><body>What man art thou</body><thread>0e3141cd</thread></message></forwarded>`

// gstate is what the generator remembers about the streams it has opened so
// that most data and close stanzas refer to a live stream with the expected
// sequence number (the rest is drawn from the full universes).
type gstate struct {
	open []string       // sids opened so far (peer side), plus os1 when the application opens one
	seq  map[string]int // next sequence number per sid
}

var gs *gstate // generator state of the case being drawn (cases are drawn one at a time)

func drawSID(t *rapid.T) string {
	if gs != nil && len(gs.open) > 0 && rapid.IntRange(0, 4).Draw(t, "sid-live") > 0 {
		return rapid.SampledFrom(gs.open).Draw(t, "sid")
	}
	return pick(t, "sid", sidUniverse)
}

func drawSeq(t *rapid.T, sid string) string {
	if gs != nil && rapid.IntRange(0, 4).Draw(t, "seq-live") > 0 {
		if n, ok := gs.seq[sid]; ok {
			gs.seq[sid] = n + 1
			return fmt.Sprint(n)
		}
	}
	return pick(t, "seq", seqUniverse)
}

// a template draws one canonical stanza for a handler.
type template struct {
	name string
	draw func(t *rapid.T, id string) string
}

func pick(t *rapid.T, label string, from []string) string {
	return rapid.SampledFrom(from).Draw(t, label)
}

func fromAttr(t *rapid.T) string {
	f := pick(t, "from", fromUniverse)
	if f == "" {
		return ""
	}
	return ` from="` + f + `"`
}

var templates = []template{
	{"ping", func(t *rapid.T, id string) string {
		return `<iq type="get" id="` + id + `"` + fromAttr(t) + `><ping xmlns="urn:xmpp:ping"/></iq>`
	}},
	{"time", func(t *rapid.T, id string) string {
		return `<iq type="get" id="` + id + `"` + fromAttr(t) + `><time xmlns="urn:xmpp:time"/></iq>`
	}},
	{"version", func(t *rapid.T, id string) string {
		return `<iq type="get" id="` + id + `"` + fromAttr(t) + `><query xmlns="jabber:iq:version"/></iq>`
	}},
	{"disco-info", func(t *rapid.T, id string) string {
		node := pick(t, "node", []string{"", "", ` node="http://jabber.org/protocol/commands"`, ` node="x"`})
		return `<iq type="get" id="` + id + `"` + fromAttr(t) + `><query xmlns="http://jabber.org/protocol/disco#info"` + node + `/></iq>`
	}},
	{"disco-items", func(t *rapid.T, id string) string {
		node := pick(t, "node", []string{"", ` node="http://jabber.org/protocol/commands"`, ` node="x"`})
		return `<iq type="get" id="` + id + `"` + fromAttr(t) + `><query xmlns="http://jabber.org/protocol/disco#items"` + node + `/></iq>`
	}},
	{"caps", func(t *rapid.T, id string) string {
		hash := pick(t, "hash", []string{"sha-1", "sha-256", "md5", ""})
		return `<presence id="` + id + `"` + fromAttr(t) + `><c xmlns="http://jabber.org/protocol/caps" hash="` + hash + `" node="http://code.google.com/p/exodus" ver="QgayPKawpkPSDYmwT/WM94uAlu0="/></presence>`
	}},
	{"roster-push", func(t *rapid.T, id string) string {
		name := pick(t, "name", []string{"Romeo", "refuse", ""})
		return `<iq type="set" id="` + id + `"` + fromAttr(t) + `><query xmlns="jabber:iq:roster" ver="ver14"><item jid="romeo@example.net" name="` + name + `" subscription="both"><group>Friends</group><group>Lovers</group></item></query></iq>`
	}},
	{"blocklist-get", func(t *rapid.T, id string) string {
		return `<iq type="get" id="` + id + `"` + fromAttr(t) + `><blocklist xmlns="urn:xmpp:blocking"/></iq>`
	}},
	{"blocklist-block", func(t *rapid.T, id string) string {
		report := pick(t, "report", []string{"", `<report xmlns="urn:xmpp:reporting:1" reason="urn:xmpp:reporting:spam"><stanza-id xmlns="urn:xmpp:sid:0" by="romeo@example.net" id="28482-98726-73623"/><text>Never came trouble to my house like this.</text></report>`})
		second := pick(t, "second", []string{"", `<item jid="capulet.example"/>`})
		return `<iq type="set" id="` + id + `"` + fromAttr(t) + `><block xmlns="urn:xmpp:blocking"><item jid="romeo@montague.net">` + report + `</item>` + second + `</block></iq>`
	}},
	{"blocklist-unblock", func(t *rapid.T, id string) string {
		items := pick(t, "items", []string{"", `<item jid="romeo@montague.net"/>`, `<item jid="romeo@montague.net"/><item jid="capulet.example"/>`})
		return `<iq type="set" id="` + id + `"` + fromAttr(t) + `><unblock xmlns="urn:xmpp:blocking">` + items + `</unblock></iq>`
	}},
	{"carbons", func(t *rapid.T, id string) string {
		dir := pick(t, "dir", []string{"received", "sent"})
		typ := pick(t, "mtype", msgTypes)
		return `<message id="` + id + `" type="` + typ + `"` + fromAttr(t) + `><` + dir + ` xmlns="urn:xmpp:carbons:2">` + forwardedMsg + `</` + dir + `></message>`
	}},
	{"receipt-request", func(t *rapid.T, id string) string {
		typ := pick(t, "mtype", msgTypes)
		return `<message id="` + id + `" type="` + typ + `"` + fromAttr(t) + ` to="` + localAddr + `"><body>My lord, dispatch; read o'er these articles.</body><request xmlns="urn:xmpp:receipts"/></message>`
	}},
	{"receipt-received", func(t *rapid.T, id string) string {
		typ := pick(t, "mtype", msgTypes)
		return `<message id="` + id + `" type="` + typ + `"` + fromAttr(t) + `><received xmlns="urn:xmpp:receipts" id="` + pick(t, "rid", rcptIDs) + `"/></message>`
	}},
	{"history-result", func(t *rapid.T, id string) string {
		return `<message id="` + id + `"` + fromAttr(t) + `><result xmlns="urn:xmpp:mam:2" queryid="` + pick(t, "qid", queryIDs) + `" id="28482-98726-73623">` + forwardedMsg + `</result></message>`
	}},
	{"muc-presence", func(t *rapid.T, id string) string {
		typ := pick(t, "ptype", []string{"", "", "unavailable"})
		ta := ""
		if typ != "" {
			ta = ` type="` + typ + `"`
		}
		from := pick(t, "pfrom", []string{roomMe, roomMe, roomBare + "/other", roomBare, peerFull})
		status := pick(t, "status", []string{"", `<status code="110"/>`, `<status code="110"/><status code="210"/>`, `<status code="x"/>`})
		return `<presence id="` + id + `"` + ta + ` from="` + from + `"><x xmlns="http://jabber.org/protocol/muc#user"><item affiliation="member" role="participant" jid="hag66@shakespeare.lit/pda"><reason>r</reason></item>` + status + `</x></presence>`
	}},
	{"muc-invite", func(t *rapid.T, id string) string {
		return `<message id="` + id + `"` + fromAttr(t) + `><x xmlns="http://jabber.org/protocol/muc#user"><invite to="hecate@shakespeare.lit"><reason>Hey Hecate</reason><continue thread="e0ffe42b"/></invite><password>cauldronburn</password></x></message>`
	}},
	{"muc-direct-invite", func(t *rapid.T, id string) string {
		return `<message id="` + id + `"` + fromAttr(t) + `><x xmlns="jabber:x:conference" jid="darkcave@macbeth.shakespeare.lit" password="cauldronburn" reason="Hey Hecate" continue="true" thread="e0ffe42b"/></message>`
	}},
	{"ibb-open", func(t *rapid.T, id string) string {
		to := pick(t, "to", []string{` to="` + localAddr + `"`, ` to="` + localAddr + `"`, "", ` to="other@example.net"`})
		st := pick(t, "stanza", []string{"", ` stanza="iq"`, ` stanza="message"`, ` stanza="x"`})
		bs := pick(t, "bs", []string{"4096", "4096", "0", "65535", "65536", "-1", "x", "1"})
		from := pick(t, "ofrom", []string{peerFull, peerFull, remoteAddr})
		sid := pick(t, "sid", sidUniverse)
		if gs != nil {
			gs.open = append(gs.open, sid)
			gs.seq[sid] = 0
		}
		return `<iq type="set" id="` + id + `" from="` + from + `"` + to + `><open xmlns="http://jabber.org/protocol/ibb" block-size="` + bs + `" sid="` + sid + `"` + st + `/></iq>`
	}},
	{"ibb-data-iq", func(t *rapid.T, id string) string {
		sid := drawSID(t)
		return `<iq type="set" id="` + id + `" from="` + peerFull + `" to="` + localAddr + `"><data xmlns="http://jabber.org/protocol/ibb" seq="` + drawSeq(t, sid) + `" sid="` + sid + `">` + pick(t, "b64", b64Universe) + `</data></iq>`
	}},
	{"ibb-data-msg", func(t *rapid.T, id string) string {
		sid := drawSID(t)
		return `<message id="` + id + `" from="` + peerFull + `" to="` + localAddr + `"><data xmlns="http://jabber.org/protocol/ibb" seq="` + drawSeq(t, sid) + `" sid="` + sid + `">` + pick(t, "b64", b64Universe) + `</data></message>`
	}},
	{"ibb-close", func(t *rapid.T, id string) string {
		return `<iq type="set" id="` + id + `" from="` + peerFull + `" to="` + localAddr + `"><close xmlns="http://jabber.org/protocol/ibb" sid="` + drawSID(t) + `"/></iq>`
	}},
	{"bob", func(t *rapid.T, id string) string {
		cid := pick(t, "cid", []string{"sha1+8f35fef110ffc5df08d579a50083ff9308fb6242@bob.xmpp.org", "", "missing", "cid:x"})
		return `<iq type="get" id="` + id + `"` + fromAttr(t) + `><data xmlns="urn:xmpp:bob" cid="` + cid + `"/></iq>`
	}},
	{"unknown-iq", func(t *rapid.T, id string) string {
		typ := pick(t, "itype", []string{"get", "set", "result", "error"})
		n := dictTree(t, "unk", rapid.IntRange(0, 2).Draw(t, "unkdepth"), nsClient)
		return `<iq type="` + typ + `" id="` + id + `"` + fromAttr(t) + `>` + render(n) + `</iq>`
	}},
	{"unknown-message", func(t *rapid.T, id string) string {
		n := dictTree(t, "unk", rapid.IntRange(0, 2).Draw(t, "unkdepth"), nsClient)
		return `<message type="` + pick(t, "mtype", msgTypes) + `" id="` + id + `"` + fromAttr(t) + `><body>hi</body>` + render(n) + `</message>`
	}},
	{"unknown-presence", func(t *rapid.T, id string) string {
		n := dictTree(t, "unk", rapid.IntRange(0, 2).Draw(t, "unkdepth"), nsClient)
		return `<presence id="` + id + `"` + fromAttr(t) + `><show>away</show>` + render(n) + `</presence>`
	}},
	{"empty-stanza", func(t *rapid.T, id string) string {
		return `<` + pick(t, "st", []string{"message", "presence", "iq"}) + ` id="` + id + `" type="` + pick(t, "etype", []string{"result", "error", "chat", "unavailable", "normal"}) + `"/>`
	}},
	// coherent multi-stanza scenarios: they put the handler tables into deeper states
	{"scenario-ibb-session", func(t *rapid.T, id string) string {
		sid := pick(t, "sid", []string{"s1", "s2", "es1"})
		if gs != nil {
			gs.open = append(gs.open, sid)
		}
		st := pick(t, "stanza", []string{"", ` stanza="iq"`, ` stanza="message"`})
		var sb strings.Builder
		sb.WriteString(`<iq type="set" id="` + id + `o" from="` + peerFull + `" to="` + localAddr + `"><open xmlns="http://jabber.org/protocol/ibb" block-size="4096" sid="` + sid + `"` + st + `/></iq>`)
		n := rapid.IntRange(1, 4).Draw(t, "ndata")
		for k := 0; k < n; k++ {
			// mostly well-formed data; sometimes data that is in sequence for an
			// open stream but not base64 (bad alphabet, truncated groups, runs of
			// padding): it has to be refused, not crash the serve loop
			data := pick(t, "b64", []string{"aGVsbG8=", "aGVsbG8gd29ybGQ=", "QQ==", "", "aGVsbG8=", "QQ=="})
			if rapid.IntRange(0, 3).Draw(t, "hostile-b64") == 0 {
				data = pick(t, "hb64", b64Universe)
			}
			if rapid.IntRange(0, 3).Draw(t, "asmsg") == 0 {
				sb.WriteString(fmt.Sprintf(`<message id="%sd%d" from="%s" to="%s"><data xmlns="http://jabber.org/protocol/ibb" seq="%d" sid="%s">%s</data></message>`, id, k, peerFull, localAddr, k, sid, data))
			} else {
				sb.WriteString(fmt.Sprintf(`<iq type="set" id="%sd%d" from="%s" to="%s"><data xmlns="http://jabber.org/protocol/ibb" seq="%d" sid="%s">%s</data></iq>`, id, k, peerFull, localAddr, k, sid, data))
			}
		}
		if gs != nil {
			gs.seq[sid] = n
		}
		if rapid.Bool().Draw(t, "close") {
			sb.WriteString(`<iq type="set" id="` + id + `c" from="` + peerFull + `" to="` + localAddr + `"><close xmlns="http://jabber.org/protocol/ibb" sid="` + sid + `"/></iq>`)
		}
		return sb.String()
	}},
	{"scenario-muc-room", func(t *rapid.T, id string) string {
		var sb strings.Builder
		if rapid.Bool().Draw(t, "joinerr") {
			sb.WriteString(`<presence type="error" id="mj1" from="` + roomMe + `">` + errCancel + `</presence>`)
		}
		n := rapid.IntRange(1, 3).Draw(t, "npres")
		for k := 0; k < n; k++ {
			from := pick(t, "pfrom", []string{roomMe, roomMe, roomBare + "/other"})
			typ := pick(t, "ptype", []string{"", "", ` type="unavailable"`})
			status := pick(t, "status", []string{`<status code="110"/>`, ``, `<status code="110"/><status code="201"/>`})
			sb.WriteString(fmt.Sprintf(`<presence id="%sp%d" from="%s"%s><x xmlns="http://jabber.org/protocol/muc#user"><item affiliation="owner" role="moderator"/>%s</x></presence>`, id, k, from, typ, status))
		}
		return sb.String()
	}},
	{"scenario-mam-page", func(t *rapid.T, id string) string {
		var sb strings.Builder
		n := rapid.IntRange(1, 3).Draw(t, "nmsg")
		for k := 0; k < n; k++ {
			sb.WriteString(fmt.Sprintf(`<message id="%sm%d" from="%s"><result xmlns="urn:xmpp:mam:2" queryid="q1" id="a%d">%s</result></message>`, id, k, remoteAddr, k, forwardedMsg))
		}
		if rapid.Bool().Draw(t, "fin") {
			sb.WriteString(`<iq type="result" id="hq1" from="` + remoteAddr + `"><fin xmlns="urn:xmpp:mam:2" complete="true"><set xmlns="http://jabber.org/protocol/rsm"><first index="0">a0</first><last>a2</last><count>3</count></set></fin></iq>`)
		}
		return sb.String()
	}},
	{"other-element", func(t *rapid.T, id string) string {
		n := gen.Tree(t, "other", rapid.IntRange(0, 3).Draw(t, "odepth"), nsClient)
		if n.Name.Space == "http://etherx.jabber.org/streams" {
			n.Name.Space = "urn:verif:x"
		}
		return render(n)
	}},
}

// replyPayloads are payloads a peer may put into the answer to one of the
// library's own requests (history query, IBB close / data / open).
var replyPayloads = []string{
	``,
	`<fin xmlns="urn:xmpp:mam:2" complete="true"><set xmlns="http://jabber.org/protocol/rsm"><first index="0">28482-98726-73623</first><last>09af3-cc343-b409f</last><count>20</count></set></fin>`,
	`<fin xmlns="urn:xmpp:mam:2"/>`,
	`text`,
	`<error type="cancel"><item-not-found xmlns="` + nsStanza + `"/></error>`,
	`text<error type="cancel"><item-not-found xmlns="` + nsStanza + `"/></error>`,
	`<error/>`,
	`<query xmlns="jabber:iq:roster"/>`,
	`<x xmlns="http://jabber.org/protocol/muc#user"><item affiliation="member" role="participant"/><status code="110"/></x>`,
	`<fin xmlns="urn:xmpp:mam:2" complete="true"><!-- c --></fin>`,
	`<fin xmlns="urn:xmpp:mam:2"><a></b></fin>`,
	`<error type="cancel"><?pi x?><item-not-found xmlns="` + nsStanza + `"/></error>`,
}

// ------------------------------------------------------------------ case

type step struct {
	kind  string // stanza, reply, leave, raw
	name  string // template name / reply kind
	input string // bytes fed for this step ("" when resolved at run time)
	muts  []string
	// reply steps: which outstanding request (index modulo), reply type, payload
	which   int
	rtype   string
	payload string
	forms   map[string]string // per request kind, with $ID standing for the request's id
	waitReq bool              // witnesses: wait for the request to appear
}

type acase struct {
	hist, join, rcpt, open, expect bool
	connModes                      []string
	steps                          []step
	// the muc client and the receipts handler are zero values (their optional
	// callbacks HandleInvite, HandleUserPresence, Unhandled are not set)
	bare bool
}

func (c *acase) String() string {
	var sb strings.Builder
	fmt.Fprintf(&sb, "app: history-query=%v muc-join=%v receipt-wait=%v ibb-open=%v ibb-expect-cancelled=%v ibb-consumers=%v zero-value-muc-client-and-receipts-handler=%v\n", c.hist, c.join, c.rcpt, c.open, c.expect, c.connModes, c.bare)
	for i, s := range c.steps {
		fmt.Fprintf(&sb, "step %d [%s %s %v]: %s\n", i, s.kind, s.name, s.muts, short(s.input, 3000))
	}
	return sb.String()
}

// drawStanza draws one (possibly mutated) stanza.
func drawStanza(t *rapid.T, i int) step {
	tpl := templates[rapid.IntRange(0, len(templates)-1).Draw(t, "template")]
	id := fmt.Sprintf("p%d", i)
	s := step{kind: "stanza", name: tpl.name}
	raw := tpl.draw(t, id)
	nmut := 0
	switch k := rapid.IntRange(0, 9).Draw(t, "nmut"); {
	case k <= 4:
		nmut = 0
	case k <= 7:
		nmut = 1
	case k == 8:
		nmut = 2
	default:
		nmut = 4
	}
	respell := rapid.IntRange(0, 5).Draw(t, "respell") == 0
	if nmut == 0 {
		s.input = raw
		if respell {
			// the same stanza with its character data in other XML spellings
			s.input = string(xt.Respell([]byte(raw), uint32(i)))
			s.muts = append(s.muts, "text-respelled")
		}
		return s
	}
	var elems []*xt.Node
	for _, n := range lits(raw) {
		if !n.IsText() {
			elems = append(elems, n)
		}
	}
	for j := 0; j < nmut; j++ {
		n := elems[0]
		if len(elems) > 1 {
			n = elems[rapid.IntRange(0, len(elems)-1).Draw(t, "mut-stanza")]
		}
		s.muts = append(s.muts, mutate(t, n))
	}
	var sb strings.Builder
	for _, n := range elems {
		sb.WriteString(render(n))
	}
	s.input = sb.String()
	if respell {
		s.input = string(xt.Respell([]byte(s.input), uint32(i)))
		s.muts = append(s.muts, "text-respelled")
	}
	return s
}

var rawPieces = []string{
	`<a></b>`, `<<`, `<a b=c/>`, `<a b="1" b="2"`, `&nosuch;`, "\x01", `</zz>`, `<?pi x?>`, `<!DOCTYPE x>`, `<![CDATA[x]]>`,
	`<stream:error><bad-format xmlns="urn:ietf:params:xml:ns:xmpp-streams"/></stream:error>`,
	`<stream:error>text</stream:error>`, `<stream:error/>`, `<stream:features/>`,
	`<stream:stream xmlns="jabber:client" xmlns:stream="http://etherx.jabber.org/streams" version="1.0">`,
	`</stream:stream>`, `x`, ` `, "\n", `<iq`, `<iq type="get" id="trunc"><ping xmlns="urn:xmpp:ping">`,
	`<message><data xmlns="http://jabber.org/protocol/ibb" seq="0" sid="s1">`,
}

func genACase(t *rapid.T) *acase {
	c := &acase{
		hist:   rapid.IntRange(0, 2).Draw(t, "hist") > 0,
		join:   rapid.IntRange(0, 2).Draw(t, "join") > 0,
		rcpt:   rapid.IntRange(0, 2).Draw(t, "rcpt") > 0,
		open:   rapid.IntRange(0, 2).Draw(t, "open") > 0,
		expect: rapid.IntRange(0, 3).Draw(t, "expect") == 0,
		bare:   rapid.IntRange(0, 3).Draw(t, "bare") == 0,
	}
	gs = &gstate{seq: map[string]int{}}
	defer func() { gs = nil }()
	if c.open {
		gs.open = append(gs.open, "os1")
		gs.seq["os1"] = 0
	}
	for i := 0; i < 3; i++ {
		c.connModes = append(c.connModes, rapid.SampledFrom([]string{"drain", "drain", "read1close", "closenow", "write", "writeblock"}).Draw(t, "connmode"))
	}
	n := rapid.IntRange(1, 20).Draw(t, "nsteps")
	for i := 0; i < n; i++ {
		switch k := rapid.IntRange(0, 20).Draw(t, "stepkind"); {
		case k <= 13:
			c.steps = append(c.steps, drawStanza(t, i))
		case k <= 17:
			s := step{kind: "reply", which: rapid.IntRange(0, 5).Draw(t, "which")}
			s.rtype = rapid.SampledFrom([]string{"result", "result", "error", "error", "get", ""}).Draw(t, "rtype")
			s.payload = rapid.SampledFrom(replyPayloads).Draw(t, "rpayload")
			ta := ""
			if s.rtype != "" {
				ta = ` type="` + s.rtype + `"`
			}
			s.forms = map[string]string{
				"iq":       `<iq` + ta + ` id="$ID" from="` + peerFull + `">` + s.payload + `</iq>`,
				"presence": `<presence` + ta + ` id="$ID" from="` + roomMe + `">` + s.payload + `</presence>`,
				"message":  `<message from="` + peerFull + `"><received xmlns="urn:xmpp:receipts" id="$ID"/>` + s.payload + `</message>`,
			}
			if rapid.IntRange(0, 3).Draw(t, "rmut") == 0 && wellFormed(s.payload) && !strings.Contains(s.payload, "<!--") && !strings.Contains(s.payload, "<?") {
				for _, k := range []string{"iq", "presence", "message"} {
					n := lit(s.forms[k])
					s.muts = append(s.muts, mutate(t, n))
					s.forms[k] = render(n)
				}
			}
			c.steps = append(c.steps, s)
		case k == 18 && rapid.Bool().Draw(t, "muccycle"):
			// a coherent stretch of MUC history: the room confirms the join in
			// progress, removes the occupant without being asked (kick), the
			// application joins again on the same channel object, ... n times
			c.steps = append(c.steps, step{kind: "muccycle", which: rapid.IntRange(1, 3).Draw(t, "cycles")})
		case k == 18:
			c.steps = append(c.steps, step{kind: "leave"})
		case k == 19:
			// the sending direction stops working while the peer keeps talking:
			// the application closes its output stream, or writes start to fail
			c.steps = append(c.steps, step{kind: rapid.SampledFrom([]string{"appclose", "writefail", "lstclose", "lstclose"}).Draw(t, "outfault")})
		default:
			c.steps = append(c.steps, step{kind: "raw", name: "raw", input: rapid.SampledFrom(rawPieces).Draw(t, "raw")})
		}
	}
	return c
}

// classify predicts, through the multiplexer's own lookup functions, which
// registered handler a stanza is routed to.
func (e *env) classify(input string) []string {
	n, err := xt.Parse([]byte(`<wrap xmlns="` + nsClient + `">` + input + `</wrap>`))
	if err != nil || len(n.Children) == 0 {
		return []string{"A:route=unparsable"}
	}
	var out []string
	for _, c := range n.Children {
		if !c.IsText() {
			out = append(out, e.classifyStanza(c)...)
		}
	}
	return out
}

func (e *env) classifyStanza(st *xt.Node) []string {
	if st.Name.Space != nsClient {
		return []string{"A:route=not-a-stanza"}
	}
	typ, _ := st.Get("type")
	var out []string
	switch st.Name.Local {
	case "iq":
		var first *xt.Node
		for _, c := range st.Children {
			if c.IsText() {
				if strings.TrimSpace(c.Text) != "" {
					break
				}
				continue
			}
			first = c
			break
		}
		if first == nil {
			return []string{"A:route=iq-no-payload"}
		}
		h, ok := e.mux.IQHandler(stanza.IQType(typ), first.Name)
		if ok {
			out = append(out, fmt.Sprintf("A:handler=%T", h))
		} else {
			out = append(out, "A:route=iq-fallback")
		}
	case "message":
		if typ == "" {
			typ = "normal"
		}
		for _, c := range st.Children {
			if c.IsText() {
				continue
			}
			if h, ok := e.mux.MessageHandler(stanza.MessageType(typ), c.Name); ok {
				out = append(out, fmt.Sprintf("A:handler=%T", h))
			}
		}
		if len(out) == 0 {
			out = append(out, "A:route=message-unhandled")
		}
	case "presence":
		for _, c := range st.Children {
			if c.IsText() {
				continue
			}
			if h, ok := e.mux.PresenceHandler(stanza.PresenceType(typ), c.Name); ok {
				name := fmt.Sprintf("%T", h)
				if name == "mux.PresenceHandlerFunc" {
					name = "disco.HandleCaps"
				}
				out = append(out, "A:handler="+name)
			}
		}
		if len(out) == 0 {
			out = append(out, "A:route=presence-unhandled")
		}
	default:
		out = append(out, "A:route=not-a-stanza")
	}
	return out
}

// ------------------------------------------------------------------ execution

type aresult struct {
	classes    []string
	handled    int // stanzas that reached a registered library handler
	dispatched int64
	history    []string
}

// runACase executes the case and reports violations through fail.
func runACase(c *acase, fail func(format string, args ...any)) (res aresult, inconclusive bool) {
	t0 := time.Now()
	e, err := newEnv(c.connModes, c.bare)
	if err != nil {
		panic("harness: " + err.Error())
	}
	e.caseStr = c.String
	s := e.sv.Session
	logf := func(format string, args ...any) { res.history = append(res.history, fmt.Sprintf(format, args...)) }
	to := jid.MustParse(remoteAddr)

	// application-side actions that put state into the handler tables
	if c.hist {
		it := e.hist.FetchIQ(e.ctx, history.Query{ID: "q1"}, stanza.IQ{ID: "hq1", To: to}, s)
		e.guardGo("history consumer", func() {
			for it.Next() {
				_ = it.Current()
			}
			_ = it.Err()
			_ = it.Result()
			_ = it.Close()
		})
		logf("history query q1 (iq hq1) on the wire: %v", e.waitRequest("hq1", stepWait))
	}
	if c.join {
		e.guardGo("muc join", func() {
			ch, err := e.muc.JoinPresence(e.ctx, stanza.Presence{ID: "mj1", To: jid.MustParse(roomMe)}, s)
			e.note("muc join returned err=%v", err)
			if ch != nil {
				_ = ch.Joined()
				_ = ch.Me()
				_ = ch.Addr()
				if err == nil {
					e.mu.Lock()
					e.ch = ch
					e.mu.Unlock()
				}
			}
		})
		logf("muc join (presence mj1) on the wire: %v", e.waitRequest("mj1", stepWait))
	}
	if c.rcpt {
		e.guardGo("receipt wait", func() {
			err := e.rcpt.SendMessageElement(e.ctx, s, nil, stanza.Message{ID: "r1", To: jid.MustParse(peerFull), Type: stanza.ChatMessage})
			e.note("receipt wait returned err=%v", err)
		})
		logf("message r1 with receipt request on the wire: %v", e.waitRequest("r1", stepWait))
	}
	if c.open {
		e.guardGo("ibb open", func() {
			conn, err := e.ibb.OpenIQ(e.ctx, stanza.IQ{ID: "ib1", To: jid.MustParse(peerFull)}, s, true, 0, "os1")
			e.note("ibb open returned err=%v", err)
			if conn != nil {
				e.consume(conn)
			}
		})
		logf("ibb open (iq ib1, sid os1) on the wire: %v", e.waitRequest("ib1", stepWait))
	}
	if c.expect {
		ctx, cancel := context.WithCancel(e.ctx)
		cancel()
		var conn any
		var err error
		if p := ev.Guard(func() { conn, err = e.lst.Expect(ctx, jid.MustParse(peerFull), "es1") }); p != "" {
			fail("Listener.Expect with a cancelled context panicked: %s", p)
		}
		logf("ibb Expect(%s, es1) with a cancelled context returned conn=%v err=%v", peerFull, conn != nil, err)
	}

	tSetup := time.Now()
	alive := true
	stuck := false
	for i := range c.steps {
		st := &c.steps[i]
		if !alive {
			res.classes = append(res.classes, "A:step-after-end")
			break
		}
		switch st.kind {
		case "appclose":
			e.guardGo("application closes its output stream", func() { _ = s.Close() })
			logf("step %d: the application called Session.Close()", i)
			res.classes = append(res.classes, "A:app-close-then-more-input")
			continue
		case "lstclose":
			// the application stops accepting bytestreams (once: closing a
			// listener twice is the application's own mistake)
			if !e.lstClosed {
				e.lstClosed = true
				if p := ev.Guard(func() { _ = e.lst.Close() }); p != "" {
					fail("Listener.Close panicked: %s", p)
				}
			}
			logf("step %d: the application closed its bytestream listener", i)
			res.classes = append(res.classes, "A:listener-closed-then-more-input")
			continue
		case "writefail":
			e.sv.Conn.FailWrites(wire.ErrInjected)
			logf("step %d: from now on every write to the connection fails", i)
			res.classes = append(res.classes, "A:writes-fail-then-more-input")
			continue
		case "muccycle":
			selfp := func(typ string, n int) string {
				return fmt.Sprintf(`<presence id="cyc%d-%d"%s from="%s"><x xmlns="http://jabber.org/protocol/muc#user"><item affiliation="member" role="participant"/><status code="110"/>%s</x></presence>`,
					i, n, typ, roomMe, map[bool]string{true: `<status code="307"/>`, false: ""}[typ != ""])
			}
			state := "idle"
			for n := 0; n < st.which && state == "idle"; n++ {
				state = e.feedSync(selfp("", 2*n)) // confirms whatever join is in progress
				e.markAnswered("mj1")
				e.markAnswered(fmt.Sprintf("mjc%d-%d", i, n-1))
				if state != "idle" {
					break
				}
				state = e.feedSync(selfp(` type="unavailable"`, 2*n+1)) // unsolicited removal
				if state != "idle" {
					break
				}
				e.mu.Lock()
				ch := e.ch
				e.mu.Unlock()
				if ch == nil {
					break
				}
				jid := fmt.Sprintf("mjc%d-%d", i, n)
				e.guardGo("muc rejoin", func() {
					err := ch.JoinPresence(e.ctx, stanza.Presence{ID: jid})
					e.note("muc rejoin %s returned err=%v", jid, err)
				})
				logf("step %d: muc rejoin (presence %s) on the wire: %v", i, jid, e.waitRequest(jid, stepWait))
			}
			logf("step %d: muc membership cycle x%d → %s", i, st.which, state)
			res.classes = append(res.classes, "A:muc-confirm-kick-rejoin-cycle")
			switch state {
			case "done":
				alive = false
			case "timeout":
				alive = false
				stuck = true
			}
			continue
		case "leave":
			// the application leaves the room it joined (if it did)
			e.mu.Lock()
			ch := e.ch
			e.ch = nil
			e.mu.Unlock()
			if ch != nil {
				e.guardGo("muc leave", func() {
					err := ch.LeavePresence(e.ctx, "bye", stanza.Presence{ID: "ml1"})
					e.note("muc leave returned err=%v", err)
				})
				logf("muc leave (presence ml1) on the wire: %v", e.waitRequest("ml1", stepWait))
				res.classes = append(res.classes, "A:app-leave")
			}
			continue
		case "reply":
			reqs := e.outstanding()
			if len(reqs) == 0 {
				// the request may still be on its way out of an application goroutine
				d := 3 * time.Millisecond
				if st.waitReq {
					d = stepWait
				}
				e.sv.Conn.WaitOutput(func(b []byte) bool { return len(e.outstandingIn(b)) > 0 }, d)
				reqs = e.outstanding()
			}
			id := "unknown-id"
			kind := "iq"
			if len(reqs) > 0 {
				r := reqs[st.which%len(reqs)]
				id, kind = r.id, r.kind
				e.markAnswered(id)
				st.name = "to-" + kind
				res.classes = append(res.classes, "A:reply-to-outstanding-"+kind)
			} else {
				st.name = "unknown-id"
				res.classes = append(res.classes, "A:reply-unknown-id")
			}
			st.input = strings.ReplaceAll(st.forms[kind], "$ID", xmlEsc(id))
		}
		before := e.dispatched.Load()
		routes := e.classify(st.input)
		state := e.feedSync(st.input)
		after := e.dispatched.Load()
		logf("step %d fed → %s (dispatched %d)", i, state, after-before)
		if after > before {
			for _, r := range routes {
				res.classes = append(res.classes, r)
				if strings.HasPrefix(r, "A:handler=") {
					res.handled++
				}
			}
		}
		for _, m := range st.muts {
			res.classes = append(res.classes, "A:mut="+m)
		}
		switch state {
		case "done":
			alive = false
		case "timeout":
			alive = false
			stuck = true
		}
	}
	res.dispatched = e.dispatched.Load()

	tSteps := time.Now()
	verdict, dump := e.finish(sidUniverse)
	tFinish := time.Now()
	logf("finish: %q serve error: %v", verdict, e.sv.Err())
	if verdict == "" {
		if !e.lstClosed {
			e.lstClosed = true
			_ = e.lst.Close()
		}
		if !e.waitConsumers(consumerWait) {
			res.classes = append(res.classes, "A:consumer-left-blocked")
		}
	}
	if debugSlow {
		fmt.Fprintf(os.Stderr, "TIMING setup=%v steps=%v finish=%v consumers=%v nsteps=%d\n", tSetup.Sub(t0), tSteps.Sub(tSetup), tFinish.Sub(tSteps), time.Since(tFinish), len(c.steps))
	}
	e.mu.Lock()
	res.history = append(res.history, e.notes...)
	e.mu.Unlock()
	if ps := e.takePanics(); len(ps) > 0 {
		fail("panic while serving peer input\n%s\nhistory:\n  %s\n\n%s", c.String(), strings.Join(res.history, "\n  "), strings.Join(ps, "\n---\n"))
	}
	switch verdict {
	case "wedge":
		fail("Serve is wedged: after the input ended (closing tag + EOF, every outstanding request answered, application contexts cancelled) and %v, the Serve goroutine is parked in a channel/mutex operation inside the library\n%s\nhistory:\n  %s\n\ngoroutine:\n%s", shutdownWait, c.String(), strings.Join(res.history, "\n  "), dump)
	case "inconclusive":
		_ = stuck
		return res, true
	}
	return res, false
}

func TestC09Serve(t *testing.T) {
	ev.Flush()
	ev.Check(t, 1200, 12000, func(rt *rapid.T) {
		reportLate(rt)
		c := genACase(rt)
		res, inconclusive := runACase(c, func(format string, args ...any) { ev.Failf(rt, format, args...) })
		if inconclusive {
			// a timeout without a confirmed blocked state decides nothing
			ev.Class("A:inconclusive-timeout")
			ev.Note("domain A: a case timed out without a confirmed blocked state (skipped)")
			return
		}
		classes := append([]string{"A:case", fmt.Sprintf("A:handled=%s", bucket(res.handled))}, res.classes...)
		ev.Case(res.handled > 0, "A|"+c.String(), classes...)
	})
	time.Sleep(ibbWait + 100*time.Millisecond) // stragglers waiting for an IBB deadline
	reportLate(t)
}

// reportLate fails the test for panics of consumer goroutines that outlived
// the case they belong to.
func reportLate(t interface {
	Helper()
	Fatalf(string, ...any)
}) {
	if ps := takeLatePanics(); len(ps) > 0 {
		ev.Failf(t, "%s", strings.Join(ps, "\n---\n"))
	}
}

func bucket(n int) string {
	switch {
	case n == 0:
		return "0"
	case n <= 2:
		return "1-2"
	case n <= 5:
		return "3-5"
	case n <= 10:
		return "6-10"
	}
	return "11+"
}
