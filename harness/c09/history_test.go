package c09

// A tracked history (MAM) query whose user stops asking for messages - it
// closes the iterator early, or the query's context ends and it walks away -
// while the archive keeps sending results for it.  Whatever the peer sends, the
// serve loop is not blocked for good and nothing panics: Iter.Close returns, and
// Serve returns once the input ends.

import (
	"context"
	"fmt"
	"runtime"
	"strings"
	"testing"
	"time"

	"mellium.im/xmpp/history"
	"mellium.im/xmpp/jid"
	"mellium.im/xmpp/mux"
	"mellium.im/xmpp/stanza"
	"mellium.im/xmpp/verifharness/internal/ev"
	"mellium.im/xmpp/verifharness/internal/wire"
	"mellium.im/xmpp/verifharness/internal/xt"
)

func TestC09HistoryAbandoned(t *testing.T) {
	ev.Begin(t)
	result := func(n int) string {
		return fmt.Sprintf(`<message xmlns="jabber:client" id="hm%d" from="example.net"><result xmlns="urn:xmpp:mam:2" queryid="q1" id="r%d"><forwarded xmlns="urn:xmpp:forward:0"><message xmlns="jabber:client" from="a@example.net/x"><body>%d</body></message></forwarded></result></message>`, n, n, n)
	}
	fin := `<iq xmlns="jabber:client" type="result" id="hq1" from="example.net"><fin xmlns="urn:xmpp:mam:2" complete="true"/></iq>`
	for _, how := range []string{"close-with-a-result-pending", "close-after-one", "context-ends-with-a-result-pending", "never-reads-then-fin", "error-iterator"} {
		for _, after := range []string{"nothing", "more-results", "fin", "more-results-and-fin"} {
			for rep := 0; rep < ev.N(2, 10); rep++ {
				desc := fmt.Sprintf("history query q1; its user: %s; then the archive sends: %s", how, after)
				ev.Case(true, fmt.Sprintf("%s|%d", desc, rep), "history-abandoned", "history-"+how)
				h := history.NewHandler(nil)
				sv, err := wire.Serve(wire.SessionOpts{}, mux.New(stanza.NSClient, history.Handle(h)))
				if err != nil {
					t.Fatalf("harness: %v", err)
				}
				dump := func() string {
					buf := make([]byte, 1<<18)
					return string(buf[:runtime.Stack(buf, true)])
				}
				ctx, cancel := context.WithCancel(context.Background())
				it := h.FetchIQ(ctx, history.Query{ID: "q1"}, stanza.IQ{ID: "hq1", To: jid.MustParse("example.net")}, sv.Session)
				if how == "error-iterator" {
					// a second query with the id of one that is being tracked: an
					// iterator that only carries an error
					it2 := h.FetchIQ(ctx, history.Query{ID: "q1"}, stanza.IQ{ID: "hq2"}, sv.Session)
					done := make(chan bool, 1)
					go func() { done <- it2.Next() }()
					select {
					case ok := <-done:
						if ok || it2.Err() == nil {
							ev.Failf(t, "%s\nNext on the iterator of a refused query returned %v, Err() = %v", desc, ok, it2.Err())
						}
					case <-time.After(5 * time.Second):
						ev.Failf(t, "%s\nNext on the iterator of a refused query (it carries the error %v) blocks\n%s", desc, it2.Err(), dump())
					}
				}
				sv.WaitFor(func(els []*xt.Node) bool {
					for _, e := range els {
						if id, _ := e.Get("id"); id == "hq1" {
							return true
						}
					}
					return false
				}, 5*time.Second)
				sv.Feed(result(1))
				// the serve loop is handing result 1 to the iterator
				for k := 0; k < 2000 && len(wire.BlockedMatching("history.(*Handler).HandleMessage")) == 0; k++ {
					time.Sleep(time.Millisecond)
				}
				userDone := make(chan string, 1)
				go func() {
					userDone <- ev.Guard(func() {
						switch how {
						case "close-with-a-result-pending", "error-iterator":
							_ = it.Close()
						case "close-after-one":
							if it.Next() {
								_ = it.Current()
							}
							_ = it.Close()
						case "context-ends-with-a-result-pending":
							cancel()
							// (the user has walked away: it neither reads nor closes)
						case "never-reads-then-fin":
						}
					})
				}()
				select {
				case p := <-userDone:
					if p != "" {
						ev.Failf(t, "%s\n%s", desc, p)
					}
				case <-time.After(5 * time.Second):
					ev.Failf(t, "%s\nthe iterator's user (Close / cancel) has not come back after 5 s\n%s", desc, dump())
				}
				if strings.Contains(after, "more-results") {
					sv.Feed(result(2) + result(3))
				}
				if strings.Contains(after, "fin") {
					sv.Feed(fin)
				}
				if how == "never-reads-then-fin" {
					// nobody reads: the results stay pending until the query's context
					// ends; that must release the serve loop
					time.Sleep(5 * time.Millisecond)
					cancel()
				}
				if !sv.Shutdown(10 * time.Second) {
					if b := wire.BlockedMatching("(*Session).Serve("); len(b) > 0 {
						ev.Failf(t, "%s\nServe has not returned 10 s after the peer closed its stream: the serve loop is parked inside the library\n%s", desc, strings.Join(b, "\n\n"))
					}
					ev.Class("inconclusive-timeout")
				}
				if p := sv.Panic(); p != "" {
					ev.Failf(t, "%s\n%s", desc, p)
				}
				cancel()
				sv.Conn.Close()
			}
		}
	}
	reportLate(t)
}
