package c09

// TestC09ReplySweep: for every request helper and every canonical reply, each
// element of the reply is, in turn, left out, emptied, and stripped of its
// attributes — the neighbours of the canonical stanza that a peer which omits
// an optional part (or a sloppy one) sends.  Deterministic and complete over
// the canonical payloads; the oracle is the one of TestC09Reply.

import (
	"encoding/xml"
	"fmt"
	"strings"
	"testing"

	"mellium.im/xmpp/verifharness/internal/ev"
	"mellium.im/xmpp/verifharness/internal/xt"
)

// walk calls f for every element below n (not n itself) with its parent and index.
func walk(n *xt.Node, f func(parent *xt.Node, i int)) {
	for i, c := range n.Children {
		if c.IsText() {
			continue
		}
		f(n, i)
		walk(c, f)
	}
}

func countElems(n *xt.Node) int {
	k := 0
	walk(n, func(*xt.Node, int) { k++ })
	return k
}

func TestC09ReplySweep(t *testing.T) {
	ev.Begin(t)
	for hi := range helpers {
		h := &helpers[hi]
		kind := h.kind
		if kind == "" {
			kind = "iq"
		}
		for ci, canon := range h.canon {
			if canon == "" {
				continue
			}
			whole := wrapReply(kind, "result", remoteAddr, canon)
			if kind == "presence" {
				whole = canon
			}
			total := countElems(lit(whole))
			// in the thorough tier every element, in the quick tier every other one
			step := 1
			if ev.N(1, 2) == 1 && total > 6 {
				step = 2
			}
			for target := 0; target < total; target += step {
				for _, how := range []string{"dropped", "emptied", "no-attributes", "followed-by-stream-error", "followed-by-comment"} {
					if strings.HasPrefix(how, "followed-by") && target%2 == 1 {
						continue
					}
					n := lit(whole)
					k := 0
					done := false
					walk(n, func(parent *xt.Node, i int) {
						if done || k != target {
							k++
							return
						}
						k++
						done = true
						switch how {
						case "dropped":
							parent.Children = append(append([]*xt.Node(nil), parent.Children[:i]...), parent.Children[i+1:]...)
						case "emptied":
							parent.Children[i].Children = nil
						case "followed-by-stream-error", "followed-by-comment":
							// a stream-level construct right behind this element (the reader
							// the helper is given reports it as an error in mid-reply)
							piece := `<stream:error><bad-format xmlns="urn:ietf:params:xml:ns:xmpp-streams"/></stream:error>`
							if how == "followed-by-comment" {
								piece = `<!-- c -->`
							}
							kids := append([]*xt.Node(nil), parent.Children[:i+1]...)
							kids = append(kids, xt.Raw(piece))
							parent.Children = append(kids, parent.Children[i+1:]...)
						default:
							var keep []xml.Attr
							for _, a := range parent.Children[i].Attr {
								if a.Name.Local == "xmlns" {
									keep = append(keep, a)
								}
							}
							parent.Children[i].Attr = keep
						}
					})
					if !done {
						continue
					}
					stanza := render(n)
					c := &bcase{h: h, replies: []breply{{kind: "sweep", stanza: stanza, muts: []string{fmt.Sprintf("element %d %s", target, how)}}}}
					res, inconclusive := runBCase(c, func(format string, args ...any) { ev.Failf(t, format, args...) })
					if inconclusive {
						ev.Class("B:inconclusive-timeout")
						continue
					}
					ev.Case(res.reached, fmt.Sprintf("B-sweep|%s|%d|%d|%s", h.name, ci, target, how), "B:sweep", "B:sweep-"+how, "B:helper="+h.name)
				}
			}
		}
	}
	reportLate(t)
}
