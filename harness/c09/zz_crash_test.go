package c09

import "testing"

// TestC09RegressUnrecoverable replays the witnesses whose panic happens in a
// goroutine started by the library (see crashWitness).  It is the last test
// of the package: on a tree without the fixes the process dies here, after
// everything else has been evaluated and recorded.
func TestC09RegressUnrecoverable(t *testing.T) { runWitnesses(t, true) }
