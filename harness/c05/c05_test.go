// C05 — Each transmit call puts exactly its own element on the wire, whole.
package c05

import (
	"bytes"
	"context"
	"encoding/xml"
	"errors"
	"fmt"
	"os"
	"runtime"
	"strconv"
	"strings"
	"sync"
	"sync/atomic"
	"testing"
	"time"

	"pgregory.net/rapid"

	"mellium.im/xmlstream"
	"mellium.im/xmpp"
	"mellium.im/xmpp/jid"
	"mellium.im/xmpp/stanza"
	"mellium.im/xmpp/verifharness/internal/ev"
	"mellium.im/xmpp/verifharness/internal/gen"
	"mellium.im/xmpp/verifharness/internal/wire"
	"mellium.im/xmpp/verifharness/internal/xt"
)

func TestMain(m *testing.M) { ev.Main(m, "C05") }

const xmlNS = "http://www.w3.org/XML/1998/namespace"

// dupMark is replaced by the element's own namespace (a true duplicate of the
// declaration the encoder writes itself, as a decoder-produced token carries
// it); elements without namespace do not get the attribute.
const dupMark = "\x00dup\x00"

func fixDup(n *xt.Node) {
	var as []xml.Attr
	for _, a := range n.Attr {
		if a.Name.Local == "xmlns" && a.Value == dupMark {
			if n.Name.Space == "" {
				continue
			}
			a.Value = n.Name.Space
		}
		as = append(as, a)
	}
	n.Attr = as
}

// ---------------------------------------------------------------- argument forms

// sNode is the value form for the standard marshaller.
type sNode struct {
	XMLName xml.Name
	M       string  `xml:"m,attr,omitempty"`
	ID      *string `xml:"id,attr"`
	From    string  `xml:"from,attr,omitempty"`
	To      string  `xml:"to,attr,omitempty"`
	Type    string  `xml:"type,attr,omitempty"`
	Lang    string  `xml:"http://www.w3.org/XML/1998/namespace lang,attr,omitempty"`
	IV      string  `xml:"iv,attr,omitempty"`
	// attributes of the value's own outermost tag that are qualified by a
	// namespace and share their local name with stanza attributes: they are
	// not the attributes of that name which a supplied start element may carry
	QID   string  `xml:"urn:verif:vattr id,attr,omitempty"`
	QType string  `xml:"urn:verif:vattr type,attr,omitempty"`
	QLang string  `xml:"urn:verif:vattr lang,attr,omitempty"`
	QM    string  `xml:"urn:verif:vattr m,attr,omitempty"`
	Text  string  `xml:",chardata"`
	Kids  []sNode `xml:",any"`
}

// mNode is the xmlstream.Marshaler form.
type mNode struct{ n *xt.Node }

func (m mNode) TokenReader() xml.TokenReader { return m.n.Reader() }

// wNode is the xmlstream.WriterTo form.
type wNode struct{ n *xt.Node }

func (w wNode) WriteXML(tw xmlstream.TokenWriter) (int, error) {
	return xmlstream.Copy(tw, w.n.Reader())
}

func (w wNode) TokenReader() xml.TokenReader { return w.n.Reader() }

// ---------------------------------------------------------------- case model

type call struct {
	ownAttrs bool // EncodeElement, struct form: the value has qualified attributes of its own
	idx      int
	entry    string // see entries
	form     string // tokens struct marshaler writerto reader
	node     *xt.Node
	sval     *sNode
	start    *xml.StartElement // SendElement / EncodeElement
	payload  []*xt.Node        // SendElement / *Element variants
	spayload *sNode
	iq       stanza.IQ
	msg      stanza.Message
	pres     stanza.Presence
	expect   *xt.Node
	blocking bool
	desc     string
	// TokenWriter: the caller flushes after that many tokens, while the element
	// is still open (-1: only Close flushes)
	flushAt int
	// Send, SendIQ, SendMessage, SendPresence transmit the first element of the
	// reader they are given: what the reader holds after it ("" nothing,
	// "element", "stanza", "text") stays in the reader
	trailing string
	// resend > 0 (token forms of Send, SendIQ, SendMessage, SendPresence,
	// TokenWriter): the application keeps the tokens and transmits the very same
	// tokens 1+resend times, one call after the other; every call must put the
	// element they denote on the wire
	resend int
	kept   []xml.Token
	writer xmlstream.TokenWriteFlushCloser // TokenWriter: the (closed) writer

	err      error
	returned atomic.Bool // set after err/panicked (publishes them)
	panicked string
}

type tcase struct {
	s2s bool
	// how the session came to be: "" ready-made, "initiated" / "received"
	// through the library's default negotiator (a received session learns its
	// own address from the peer's stream header)
	negotiated string
	// closeAt >= 0: another goroutine calls Session.Close once that many
	// transport writes have been attempted, while the callers are still at it
	closeAt int
	// failAt >= 0: the connection breaks: that transport write and every later
	// one fail (nothing of them reaches the peer).  Calls may then fail; one
	// that reports success has its element on the wire all the same
	failAt int
	// the failure the transport reports looks like an expired deadline (a
	// net.Error with Timeout() true) although no context of any call has ended
	failTimeout bool
	// token writers are closed a second time, later, while other calls are under way
	closeTwice bool
	routines   [][]*call // caller goroutines
	handler    []*call   // calls executed as handler replies in the serve goroutine
	yields     []int     // scheduler yields before the k-th transport write
}

func (tc tcase) all() []*call {
	var out []*call
	for _, r := range tc.routines {
		out = append(out, r...)
	}
	return append(out, tc.handler...)
}

func (tc tcase) ns() string {
	if tc.s2s {
		return stanza.NSServer
	}
	return stanza.NSClient
}

func (tc tcase) String() string {
	var sb strings.Builder
	fmt.Fprintf(&sb, "s2s=%v session=%q yields=%v Close()-from-another-goroutine-after-write=%d connection-breaks-at-write=%d (reported as a timeout: %v) token-writers-closed-twice=%v", tc.s2s, tc.negotiated, tc.yields, tc.closeAt, tc.failAt, tc.failTimeout, tc.closeTwice)
	for g, r := range tc.routines {
		fmt.Fprintf(&sb, "\n goroutine %d:", g)
		for _, c := range r {
			fmt.Fprintf(&sb, "\n   #%d %s", c.idx, c.desc)
		}
	}
	if len(tc.handler) > 0 {
		sb.WriteString("\n handler replies:")
		for _, c := range tc.handler {
			fmt.Fprintf(&sb, "\n   #%d %s", c.idx, c.desc)
		}
	}
	return sb.String()
}

func short(b []byte) string {
	if len(b) > 300 {
		return fmt.Sprintf("%s…(%d bytes)…%s", b[:150], len(b), b[len(b)-60:])
	}
	return string(b)
}

var jids = []string{"", "romeo@example.net/orchard", "example.org", "juliet@example.com"}

func genTopName(t *rapid.T, ns string, stanzaOnly string) xml.Name {
	if stanzaOnly != "" {
		return xml.Name{Space: rapid.SampledFrom([]string{"", ns}).Draw(t, "stspace"), Local: stanzaOnly}
	}
	switch rapid.IntRange(0, 5).Draw(t, "topkind") {
	case 0, 1:
		return xml.Name{Space: rapid.SampledFrom([]string{"", ns, ns, stanza.NSClient, stanza.NSServer}).Draw(t, "stspace"),
			Local: rapid.SampledFrom([]string{"iq", "message", "presence"}).Draw(t, "stlocal")}
	case 2:
		return xml.Name{Space: "urn:verif:x", Local: rapid.SampledFrom([]string{"iq", "message", "foo"}).Draw(t, "flocal")}
	case 3:
		return xml.Name{Space: wire.StreamNS, Local: "features"}
	case 4:
		return xml.Name{Space: "", Local: rapid.SampledFrom([]string{"foo", "r"}).Draw(t, "nolocal")}
	}
	return xml.Name{Space: rapid.SampledFrom(gen.Spaces).Draw(t, "gspace"), Local: rapid.SampledFrom(gen.Locals).Draw(t, "glocal")}
}

func genKids(t *rapid.T, ns string) []*xt.Node {
	var kids []*xt.Node
	n := rapid.IntRange(0, 3).Draw(t, "nkids")
	lastText := false
	for i := 0; i < n; i++ {
		switch rapid.IntRange(0, 6).Draw(t, "kidkind") {
		case 0:
			if !lastText {
				if s := gen.Text(t, "kidtext"); s != "" {
					kids = append(kids, xt.Tx(s))
					lastText = true
				}
			}
			continue
		case 1:
			// stanza-named child: must not be treated like a top-level stanza
			k := xt.El(rapid.SampledFrom([]string{"", ns, "urn:verif:x"}).Draw(t, "nsk"), rapid.SampledFrom([]string{"iq", "message", "presence"}).Draw(t, "nlk"),
				[]xml.Attr{xt.A("type", "get")})
			if rapid.Bool().Draw(t, "emptyidk") {
				k.Attr = append(k.Attr, xt.A("id", ""))
			}
			kids = append(kids, k)
		case 2:
			// decoder-style element: resolved namespace plus the xmlns attribute it came with
			k := gen.Tree(t, "dk", 1, "urn:verif:y")
			k.Name.Space = "urn:verif:y"
			k.Attr = append(k.Attr, xml.Attr{Name: xml.Name{Local: "xmlns"}, Value: "urn:verif:y"})
			kids = append(kids, k)
		case 5:
			// raw-token style (what xml.Decoder.RawToken or hand-built tokens look
			// like, e.g. in a proxy relaying XML): no namespace in the name, the
			// namespace only in an unqualified xmlns attribute, inherited by the
			// children
			if rapid.Bool().Draw(t, "rawstyle") {
				k := gen.Tree(t, "rk", rapid.IntRange(0, 1).Draw(t, "rkdepth"), "urn:verif:raw")
				var strip func(n *xt.Node)
				strip = func(n *xt.Node) {
					if n.IsText() {
						return
					}
					n.Name.Space = ""
					for _, c := range n.Children {
						strip(c)
					}
				}
				strip(k)
				k.Attr = append(k.Attr, xml.Attr{Name: xml.Name{Local: "xmlns"}, Value: "urn:verif:raw"})
				kids = append(kids, k)
				break
			}
			kids = append(kids, gen.Tree(t, "k", rapid.IntRange(0, 2).Draw(t, "kdepth"), ns))
		case 3:
			if !lastText && rapid.IntRange(0, 3).Draw(t, "big") == 0 {
				size := rapid.SampledFrom([]int{4000, 4096, 5000, 20000, 100000}).Draw(t, "bigsize")
				kids = append(kids, xt.Tx(strings.Repeat("p<&q", size/4)))
				lastText = true
				continue
			}
			fallthrough
		default:
			kids = append(kids, gen.Tree(t, "k", rapid.IntRange(0, 2).Draw(t, "kdepth"), ns))
		}
		lastText = false
	}
	return kids
}

// genAttrs draws the id/from/type/lang attributes of a top-level element.
func genAttrs(t *rapid.T, idx int, withMarker bool) []xml.Attr {
	var as []xml.Attr
	if withMarker {
		as = append(as, xt.A("m", strconv.Itoa(idx)))
	}
	switch rapid.IntRange(0, 4).Draw(t, "idk") {
	case 0:
	case 1:
		as = append(as, xt.A("id", ""))
	default:
		as = append(as, xt.A("id", fmt.Sprintf("id-%d%s", idx, gen.Text(t, "idx"))))
	}
	switch rapid.IntRange(0, 3).Draw(t, "fromk") {
	case 0:
		as = append(as, xt.A("from", ""))
	case 1:
		as = append(as, xt.A("from", "romeo@example.net/o"))
	}
	if rapid.Bool().Draw(t, "hastype") {
		as = append(as, xt.A("type", rapid.SampledFrom([]string{"result", "error", "chat", "unavailable"}).Draw(t, "type")))
	}
	if rapid.IntRange(0, 3).Draw(t, "haslang") == 0 {
		as = append(as, xml.Attr{Name: xml.Name{Space: xmlNS, Local: "lang"}, Value: rapid.SampledFrom([]string{"en", "de-CH"}).Draw(t, "lang")})
	}
	if rapid.IntRange(0, 4).Draw(t, "foreignattrs") == 0 {
		// attributes with the local names id / from / type in a foreign namespace
		// are not the stanza's own: they are neither a substitute for them nor
		// to be touched
		ext := func(local, v string) xml.Attr {
			return xml.Attr{Name: xml.Name{Space: "urn:verif:ext", Local: local}, Value: v}
		}
		fa := []xml.Attr{ext("id", rapid.SampledFrom([]string{"ext-id", ""}).Draw(t, "extid")), ext("from", rapid.SampledFrom([]string{"ext@example.org", ""}).Draw(t, "extfrom")), ext("type", "ext-type")}
		k := rapid.IntRange(1, 3).Draw(t, "nforeign")
		if rapid.Bool().Draw(t, "foreignfirst") {
			as = append(append([]xml.Attr{}, fa[:k]...), as...)
		} else {
			as = append(as, fa[:k]...)
		}
	}
	if rapid.IntRange(0, 4).Draw(t, "dupxmlns") == 0 {
		as = append(as, xml.Attr{Name: xml.Name{Local: "xmlns"}, Value: dupMark})
	}
	return as
}

func toSNode(n *xt.Node) *sNode {
	s := &sNode{XMLName: n.Name}
	for _, a := range n.Attr {
		switch {
		case a.Name.Local == "m":
			s.M = a.Value
		case a.Name.Local == "id":
			v := a.Value
			s.ID = &v
		case a.Name.Local == "from":
			s.From = a.Value
		case a.Name.Local == "to":
			s.To = a.Value
		case a.Name.Local == "type":
			s.Type = a.Value
		case a.Name.Local == "lang":
			s.Lang = a.Value
		}
	}
	for _, c := range n.Children {
		if c.IsText() {
			s.Text += c.Text
			continue
		}
		k := toSNode(c)
		if k.XMLName.Space == "" {
			// an unqualified child of a qualified parent: the standard marshaller
			// undeclares the namespace (xmlns=""), token streams inherit it; the
			// struct form therefore always qualifies children explicitly
			k.XMLName.Space = "urn:verif:q"
		}
		s.Kids = append(s.Kids, *k)
	}
	return s
}

// stdTree is the standard marshaller's idea of the element a value denotes.
func stdTree(v interface{}, start *xml.StartElement) *xt.Node {
	var b bytes.Buffer
	e := xml.NewEncoder(&b)
	var err error
	if start != nil {
		err = e.EncodeElement(v, *start)
	} else {
		err = e.Encode(v)
	}
	if err != nil {
		panic("harness: std marshal: " + err.Error())
	}
	n, err := xt.Parse(b.Bytes())
	if err != nil {
		panic("harness: std marshal output does not parse: " + err.Error() + ": " + b.String())
	}
	return n
}

func mustJID(s string) jid.JID {
	if s == "" {
		return jid.JID{}
	}
	return jid.MustParse(s)
}

// stanzaExpect builds, from the fields alone, the element a stanza struct plus
// payload denotes.
func stanzaExpect(local, space, typ, id, to, from, lang string, typeAlways bool, payload []*xt.Node) *xt.Node {
	n := xt.El(space, local, nil, payload...)
	if typ != "" || typeAlways {
		n.Attr = append(n.Attr, xt.A("type", typ))
	}
	if id != "" {
		n.Attr = append(n.Attr, xt.A("id", id))
	}
	if to != "" {
		n.Attr = append(n.Attr, xt.A("to", to))
	}
	if from != "" {
		n.Attr = append(n.Attr, xt.A("from", from))
	}
	if lang != "" {
		n.Attr = append(n.Attr, xml.Attr{Name: xml.Name{Space: xmlNS, Local: "lang"}, Value: lang})
	}
	return n
}

var plainEntries = []string{"Send", "SendElement", "Encode", "EncodeElement", "TokenWriter"}
var stanzaEntries = []string{"Send%s", "Send%sElement", "Encode%s", "Encode%sElement"}

func genCall(t *rapid.T, idx int, ns, s2sFrom string, inHandler bool) *call {
	c := &call{idx: idx, flushAt: -1}
	mark := strconv.Itoa(idx)
	kind := rapid.IntRange(0, 9).Draw(t, "callkind")
	if inHandler {
		kind = rapid.IntRange(0, 4).Draw(t, "hcallkind")
	}
	switch {
	case kind <= 4: // plain entry points (any element)
		c.entry = rapid.SampledFrom(plainEntries).Draw(t, "entry")
		if inHandler {
			c.entry = rapid.SampledFrom([]string{"h.EncodeToken", "h.Encode", "h.EncodeElement", "h.Mixed", "h.Mixed"}).Draw(t, "hentry")
		}
		n := &xt.Node{Name: genTopName(t, ns, ""), Attr: genAttrs(t, idx, true), Children: genKids(t, ns)}
		fixDup(n)
		c.node = n
		switch c.entry {
		case "Send", "TokenWriter", "h.EncodeToken", "h.Mixed":
			// (h.Mixed: the handler builds ONE element in several calls: the start
			// tag with EncodeToken, every child through Encode / EncodeElement or
			// token by token, the end tag with EncodeToken)
			c.form = "tokens"
			c.expect = wire.ExpectTopLevel(n, ns, s2sFrom)
		case "SendElement":
			c.form = "tokens"
			st := xml.StartElement{Name: n.Name, Attr: n.Attr}
			c.start = &st
			c.payload = n.Children
			c.expect = wire.ExpectTopLevel(n, ns, s2sFrom)
		case "Encode", "h.Encode":
			c.form = rapid.SampledFrom([]string{"struct", "marshaler", "writerto", "reader"}).Draw(t, "form")
			if c.form == "writerto" && c.entry == "Encode" && ev.IsKnown(knownWriterTo) {
				// listed finding: Session.Encode of a WriterTo is not flushed
				ev.Excluded(knownWriterTo)
				c.form = "marshaler"
			}
			if c.form == "struct" {
				c.sval = toSNode(n)
				c.expect = wire.ExpectTopLevel(stdTree(c.sval, nil), ns, s2sFrom)
			} else {
				c.expect = wire.ExpectTopLevel(n, ns, s2sFrom)
			}
		case "EncodeElement", "h.EncodeElement":
			// ("writerto": a value with both WriteXML and TokenReader, as most of the
			// library's own payload types are; it can be re-wrapped through its
			// token reader)
			c.form = rapid.SampledFrom([]string{"struct", "marshaler", "writerto"}).Draw(t, "form")
			// v is some inner value; start is the element it has to be wrapped as
			// (the value's own outermost tag carries no attribute in the marshaler
			// form: whether such attributes survive is not stated; in the struct
			// form the standard marshaller is the reference and keeps them)
			inner := &xt.Node{Name: xml.Name{Space: "urn:verif:inner", Local: "v"}, Children: n.Children}
			st := xml.StartElement{Name: n.Name, Attr: n.Attr}
			c.start = &st
			if c.form == "struct" {
				// (a start element whose xmlns attribute contradicts its name has no
				// defined rendering by the standard marshaller: drop the attribute)
				var as []xml.Attr
				for _, a := range st.Attr {
					if a.Name.Local != "xmlns" {
						as = append(as, a)
					}
				}
				st.Attr = as
				c.sval = toSNode(inner)
				c.sval.M = ""
				c.sval.IV = "inner"
				if rapid.IntRange(0, 2).Draw(t, "valueattrs") == 0 {
					// the value brings qualified attributes of its own
					q := rapid.SliceOfN(rapid.SampledFrom([]string{"id", "type", "lang", "m"}), 1, 4).Draw(t, "qattrs")
					for _, l := range q {
						switch l {
						case "id":
							c.sval.QID = "vown-" + mark
						case "type":
							c.sval.QType = "vown"
						case "lang":
							c.sval.QLang = "tlh"
						case "m":
							c.sval.QM = "vown"
						}
					}
					c.ownAttrs = true
				}
				c.expect = wire.ExpectTopLevel(stdTree(c.sval, &st), ns, s2sFrom)
			} else {
				c.node = inner
				c.expect = wire.ExpectTopLevel(n, ns, s2sFrom)
			}
		}
	default: // stanza entry points
		st := rapid.SampledFrom([]string{"IQ", "Message", "Presence"}).Draw(t, "stkind")
		local := strings.ToLower(st)
		c.entry = fmt.Sprintf(rapid.SampledFrom(stanzaEntries).Draw(t, "sentry"), st)
		var typ string
		switch st {
		case "IQ":
			typ = rapid.SampledFrom([]string{"get", "set", "result", "error"}).Draw(t, "iqtyp")
			c.blocking = typ == "get" || typ == "set"
		case "Message":
			typ = rapid.SampledFrom([]string{"chat", "normal", "error", "headline"}).Draw(t, "mtyp")
			c.blocking = typ != "error"
		case "Presence":
			typ = rapid.SampledFrom([]string{"", "unavailable", "error", "subscribe"}).Draw(t, "ptyp")
			c.blocking = typ != "error"
		}
		id := ""
		if rapid.IntRange(0, 2).Draw(t, "hasid") > 0 {
			id = fmt.Sprintf("sid-%d", idx)
		}
		to := rapid.SampledFrom(jids).Draw(t, "to")
		from := rapid.SampledFrom(jids).Draw(t, "from")
		lang := rapid.SampledFrom([]string{"", "", "en"}).Draw(t, "slang")
		space := rapid.SampledFrom([]string{"", ns}).Draw(t, "sspace")
		kids := genKids(t, ns)
		// the marker travels on a payload element
		pay := xt.El("urn:verif:pay", "pay", []xml.Attr{xt.A("m", mark)}, kids...)
		switch {
		case strings.HasPrefix(c.entry, "Send") && !strings.HasSuffix(c.entry, "Element"):
			c.form = "tokens"
			n := stanzaExpect(local, space, typ, "", to, from, lang, st != "Presence", []*xt.Node{pay})
			// id: present / empty / absent in token form
			switch rapid.IntRange(0, 2).Draw(t, "tokid") {
			case 0:
				n.Attr = append(n.Attr, xt.A("id", id))
			case 1:
				if id != "" {
					n.Attr = append([]xml.Attr{xt.A("id", id)}, n.Attr...)
				}
			}
			c.node = n
			c.expect = wire.ExpectTopLevel(n, ns, s2sFrom)
		case strings.HasPrefix(c.entry, "Encode") && !strings.HasSuffix(c.entry, "Element"):
			c.form = rapid.SampledFrom([]string{"struct", "marshaler"}).Draw(t, "form")
			n := stanzaExpect(local, space, typ, id, to, from, lang, st != "Presence", []*xt.Node{pay})
			if c.form == "struct" {
				c.sval = toSNode(n)
				c.expect = wire.ExpectTopLevel(stdTree(c.sval, nil), ns, s2sFrom)
			} else {
				c.node = n
				c.expect = wire.ExpectTopLevel(n, ns, s2sFrom)
			}
		default: // *Element variants: payload + stanza struct
			name := xml.Name{Space: space, Local: local}
			switch st {
			case "IQ":
				c.iq = stanza.IQ{XMLName: name, ID: id, To: mustJID(to), From: mustJID(from), Lang: lang, Type: stanza.IQType(typ)}
			case "Message":
				c.msg = stanza.Message{XMLName: name, ID: id, To: mustJID(to), From: mustJID(from), Lang: lang, Type: stanza.MessageType(typ)}
			case "Presence":
				c.pres = stanza.Presence{XMLName: name, ID: id, To: mustJID(to), From: mustJID(from), Lang: lang, Type: stanza.PresenceType(typ)}
			}
			c.payload = []*xt.Node{pay}
			if strings.HasPrefix(c.entry, "Encode") {
				c.form = rapid.SampledFrom([]string{"struct", "marshaler"}).Draw(t, "form")
				if c.form == "struct" {
					c.spayload = toSNode(pay)
					c.payload = []*xt.Node{stdTree(c.spayload, nil)}
				}
			} else {
				c.form = "tokens"
			}
			n := stanzaExpect(local, space, typ, id, to, from, lang, st != "Presence", c.payload)
			c.expect = wire.ExpectTopLevel(n, ns, s2sFrom)
		}
	}
	arg := ""
	switch {
	case c.sval != nil:
		b, _ := xml.Marshal(c.sval)
		arg = "value " + short(b)
	case c.node != nil:
		arg = short(c.node.Bytes("\x00"))
	}
	if c.start != nil {
		st := xt.Node{Name: c.start.Name, Attr: c.start.Attr}
		arg += " start=" + string(st.Bytes("\x00"))
	}
	if len(c.payload) > 0 && c.node == nil {
		for _, p := range c.payload {
			arg += " payload=" + short(p.Bytes("\x00"))
		}
		arg += fmt.Sprintf(" stanza={type=%q id=%q to=%q from=%q lang=%q}", string(c.iq.Type)+string(c.msg.Type)+string(c.pres.Type), c.iq.ID+c.msg.ID+c.pres.ID,
			c.iq.To.String()+c.msg.To.String()+c.pres.To.String(), c.iq.From.String()+c.msg.From.String()+c.pres.From.String(), c.iq.Lang+c.msg.Lang+c.pres.Lang)
	}
	switch c.entry {
	case "TokenWriter":
		if rapid.IntRange(0, 3).Draw(t, "resends") == 0 {
			c.resend = rapid.IntRange(1, 2).Draw(t, "resend")
			arg += fmt.Sprintf(" (the same tokens are transmitted %d times)", 1+c.resend)
		} else if rapid.Bool().Draw(t, "flushMid") {
			c.flushAt = rapid.IntRange(1, 4).Draw(t, "flushAt")
			arg += fmt.Sprintf(" (Flush after %d tokens)", c.flushAt)
		}
	case "Send", "SendIQ", "SendMessage", "SendPresence":
		if rapid.IntRange(0, 3).Draw(t, "resends") == 0 {
			c.resend = rapid.IntRange(1, 2).Draw(t, "resend")
			arg += fmt.Sprintf(" (the same tokens are transmitted %d times)", 1+c.resend)
		} else if rapid.IntRange(0, 2).Draw(t, "moreInReader") == 0 {
			c.trailing = rapid.SampledFrom([]string{"element", "stanza", "text"}).Draw(t, "trailing")
			arg += fmt.Sprintf(" (the reader holds more after the element: %s)", c.trailing)
		}
	}
	c.desc = fmt.Sprintf("%s[%s] %s", c.entry, c.form, arg)
	return c
}

// reader returns the token reader handed to the Send family: the element,
// followed by whatever else the reader holds.
func (c *call) reader() xml.TokenReader {
	if c.resend > 0 {
		if c.kept == nil {
			c.kept = c.node.Tokens()
		}
		return xt.RawTokenReader(c.kept)
	}
	var rest []xml.Token
	switch c.trailing {
	case "":
		return c.node.Reader()
	case "element":
		rest = xt.El("urn:verif:trailing", "left-in-the-reader", nil).Tokens()
	case "stanza":
		rest = xt.El("", "message", []xml.Attr{xt.A("type", "chat")}, xt.El("urn:verif:trailing", "left-in-the-reader", nil)).Tokens()
	case "text":
		rest = []xml.Token{xml.CharData("left in the reader")}
	}
	return xmlstream.MultiReader(c.node.Reader(), xt.TokenSliceReader(rest))
}

func genCase(t *rapid.T) tcase {
	tc := tcase{s2s: rapid.Bool().Draw(t, "s2s")}
	tc.negotiated = rapid.SampledFrom([]string{"", "", "initiated", "received", "layered-final"}).Draw(t, "negotiated")
	tc.closeAt, tc.failAt = -1, -1
	tc.closeTwice = rapid.Bool().Draw(t, "closeTwice")
	if rapid.IntRange(0, 3).Draw(t, "closeConcurrently") == 0 {
		tc.closeAt = rapid.IntRange(0, 6).Draw(t, "closeAt")
	} else if rapid.IntRange(0, 3).Draw(t, "connectionBreaks") == 0 {
		tc.failAt = rapid.IntRange(0, 8).Draw(t, "failAt")
		tc.failTimeout = rapid.Bool().Draw(t, "failTimeout")
	}
	ns := tc.ns()
	s2sFrom := ""
	if tc.s2s {
		s2sFrom = "test@example.net"
	}
	idx := 0
	ng := rapid.IntRange(1, 6).Draw(t, "goroutines")
	for g := 0; g < ng; g++ {
		var r []*call
		nc := rapid.IntRange(1, 4).Draw(t, "ncalls")
		for i := 0; i < nc; i++ {
			r = append(r, genCall(t, idx, ns, s2sFrom, false))
			idx++
		}
		tc.routines = append(tc.routines, r)
	}
	nh := rapid.IntRange(0, 3).Draw(t, "nhandler")
	for i := 0; i < nh; i++ {
		if tc.closeAt >= 0 || tc.failAt >= 0 {
			// (a handler whose reply comes after the Close fails and ends Serve: no
			// handler replies in histories with a concurrent Close or a connection
			// that breaks)
			break
		}
		tc.handler = append(tc.handler, genCall(t, idx, ns, s2sFrom, true))
		idx++
	}
	ny := rapid.IntRange(1, 5).Draw(t, "nyields")
	for i := 0; i < ny; i++ {
		tc.yields = append(tc.yields, rapid.IntRange(0, 6).Draw(t, "yield"))
	}
	return tc
}

// ---------------------------------------------------------------- execution

func kidsReader(kids []*xt.Node) xml.TokenReader {
	var toks []xml.Token
	for _, k := range kids {
		toks = append(toks, k.Tokens()...)
	}
	return xt.TokenSliceReader(toks)
}

func (c *call) value() interface{} {
	switch c.form {
	case "struct":
		return c.sval
	case "marshaler":
		return mNode{c.node}
	case "writerto":
		return wNode{c.node}
	case "reader":
		return c.node.Reader()
	}
	return nil
}

func (c *call) payloadValue() interface{} {
	if c.form == "struct" {
		return c.spayload
	}
	return mNode{c.payload[0]}
}

func closeResp(r xmlstream.TokenReadCloser) {
	if r != nil {
		_ = r.Close()
	}
}

// run executes a caller-side call.
func (c *call) run(ctx context.Context, s *xmpp.Session) {
	var resp xmlstream.TokenReadCloser
	c.panicked = ev.Guard(func() {
		for again := 0; again < c.resend && c.err == nil; again++ {
			// the earlier transmissions of the same tokens
			switch c.entry {
			case "Send":
				c.err = s.Send(ctx, c.reader())
			case "SendIQ":
				resp, c.err = s.SendIQ(ctx, c.reader())
			case "SendMessage":
				resp, c.err = s.SendMessage(ctx, c.reader())
			case "SendPresence":
				resp, c.err = s.SendPresence(ctx, c.reader())
			case "TokenWriter":
				w := s.TokenWriter()
				_, c.err = xmlstream.Copy(w, c.reader())
				if e := w.Close(); c.err == nil {
					c.err = e
				}
				c.writer = w
			}
			closeResp(resp)
			resp = nil
		}
		if c.err != nil {
			return
		}
		switch c.entry {
		case "Send":
			c.err = s.Send(ctx, c.reader())
		case "SendElement":
			c.err = s.SendElement(ctx, kidsReader(c.payload), *c.start)
		case "Encode":
			c.err = s.Encode(ctx, c.value())
		case "EncodeElement":
			c.err = s.EncodeElement(ctx, c.value(), *c.start)
		case "TokenWriter":
			w := s.TokenWriter()
			r := c.reader()
			for n := 0; c.err == nil; n++ {
				if n == c.flushAt && n < len(c.node.Tokens())-1 {
					if c.err = w.Flush(); c.err != nil {
						break
					}
				}
				tok, err := r.Token()
				if tok != nil {
					c.err = w.EncodeToken(tok)
				}
				if err != nil {
					break
				}
			}
			if e := w.Close(); c.err == nil {
				c.err = e
			}
			c.writer = w
		case "SendIQ":
			resp, c.err = s.SendIQ(ctx, c.reader())
		case "SendMessage":
			resp, c.err = s.SendMessage(ctx, c.reader())
		case "SendPresence":
			resp, c.err = s.SendPresence(ctx, c.reader())
		case "EncodeIQ":
			resp, c.err = s.EncodeIQ(ctx, c.value())
		case "EncodeMessage":
			resp, c.err = s.EncodeMessage(ctx, c.value())
		case "EncodePresence":
			resp, c.err = s.EncodePresence(ctx, c.value())
		case "SendIQElement":
			resp, c.err = s.SendIQElement(ctx, kidsReader(c.payload), c.iq)
		case "SendMessageElement":
			resp, c.err = s.SendMessageElement(ctx, kidsReader(c.payload), c.msg)
		case "SendPresenceElement":
			resp, c.err = s.SendPresenceElement(ctx, kidsReader(c.payload), c.pres)
		case "EncodeIQElement":
			resp, c.err = s.EncodeIQElement(ctx, c.payloadValue(), c.iq)
		case "EncodeMessageElement":
			resp, c.err = s.EncodeMessageElement(ctx, c.payloadValue(), c.msg)
		case "EncodePresenceElement":
			resp, c.err = s.EncodePresenceElement(ctx, c.payloadValue(), c.pres)
		default:
			panic("harness: unknown entry " + c.entry)
		}
		closeResp(resp)
	})
	c.returned.Store(true)
}

// runHandler executes a handler-side call on the handler's encoder.
func (c *call) runHandler(t xmlstream.TokenReadEncoder) error {
	c.panicked = ev.Guard(func() {
		switch c.entry {
		case "h.EncodeToken":
			_, c.err = xmlstream.Copy(t, c.node.Reader())
		case "h.Mixed":
			st := xml.StartElement{Name: c.node.Name, Attr: c.node.Attr}
			if c.err = t.EncodeToken(st); c.err != nil {
				return
			}
			for i, k := range c.node.Children {
				// other goroutines get every chance to run while the element is open
				runtime.Gosched()
				if i%2 == 1 {
					time.Sleep(200 * time.Microsecond)
				}
				switch {
				case k.IsText():
					c.err = t.EncodeToken(xml.CharData(k.Text))
				case i%3 == 0:
					c.err = t.Encode(mNode{k})
				case i%3 == 1:
					_, c.err = xmlstream.Copy(t, k.Reader())
				default:
					c.err = t.EncodeElement(mNode{&xt.Node{Name: xml.Name{Space: "urn:verif:inner", Local: "v"}, Children: k.Children}}, xml.StartElement{Name: k.Name, Attr: k.Attr})
				}
				if c.err != nil {
					return
				}
			}
			runtime.Gosched()
			c.err = t.EncodeToken(st.End())
		case "h.Encode":
			c.err = t.Encode(c.value())
		case "h.EncodeElement":
			c.err = t.EncodeElement(c.value(), *c.start)
		}
	})
	c.returned.Store(true)
	return c.err
}

func markers(n *xt.Node, out map[string]bool) {
	if n.IsText() {
		return
	}
	if m, ok := n.Get("m"); ok {
		out[m] = true
	}
	for _, c := range n.Children {
		markers(c, out)
	}
}

// ---------------------------------------------------------------- property

const waitLong = 20 * time.Second

func check(t interface {
	Helper()
	Fatalf(string, ...any)
}, tc tcase) {
	t.Helper()
	fail := func(format string, args ...any) {
		t.Helper()
		ev.Failf(t, "%s\n%s", tc.String(), fmt.Sprintf(format, args...))
	}
	opts := wire.SessionOpts{Negotiated: tc.negotiated}
	if tc.negotiated == "layered-final" {
		// the last (and only) negotiation step replaces the connection
		opts = wire.SessionOpts{LayeredFinal: true}
	}
	if tc.s2s {
		opts.State |= xmpp.S2S
	}
	ns := tc.ns()
	calls := tc.all()
	byIdx := map[string]*call{}
	for _, c := range calls {
		byIdx[strconv.Itoa(c.idx)] = c
	}

	sv, err := wire.NewServed(opts)
	if err != nil {
		t.Fatalf("harness: %v", err)
	}
	// hold transport writes for a generated number of scheduler yields
	closeNow := make(chan struct{})
	var closeOnce sync.Once
	sv.Conn.BeforeWrite = func(n int, p []byte) error {
		if tc.closeAt >= 0 && n >= tc.closeAt {
			closeOnce.Do(func() { close(closeNow) })
		}
		for i := 0; i < tc.yields[n%len(tc.yields)]; i++ {
			runtime.Gosched()
		}
		if tc.failAt >= 0 && n >= tc.failAt {
			if tc.failTimeout {
				return wire.ErrTimeout
			}
			return wire.ErrInjected
		}
		return nil
	}
	closerDone := make(chan struct{})
	var closeErr error
	go func() {
		defer close(closerDone)
		if tc.closeAt < 0 {
			return
		}
		select {
		case <-closeNow:
		case <-time.After(waitLong):
			return
		}
		closeErr = sv.Session.Close()
	}()
	hidx := 0
	var hmu sync.Mutex
	sv.Start(xmpp.HandlerFunc(func(t xmlstream.TokenReadEncoder, start *xml.StartElement) error {
		if start.Name.Local != "trigger" {
			return nil
		}
		hmu.Lock()
		i := hidx
		hidx++
		hmu.Unlock()
		if i < len(tc.handler) {
			return tc.handler[i].runHandler(t)
		}
		return nil
	}))

	ctx, cancel := context.WithCancel(context.Background())
	defer cancel()

	// responder: the harness, as peer, answers every blocking request it sees
	// on the wire so that the call returns without anybody cancelling a context
	// while bytes are still being written.
	stopResp := make(chan struct{})
	respDone := make(chan struct{})
	go func() {
		defer close(respDone)
		answered := map[string]bool{}
		for {
			items, _, _ := wire.ParseStream(sv.Conn.Output(), false, ns)
			nth := map[string]int{}
			for _, el := range wire.Elements(items) {
				ms := map[string]bool{}
				markers(el, ms)
				for m := range ms {
					c := byIdx[m]
					// (a call that transmits the same tokens several times has several
					// requests on the wire: each is answered)
					nth[m]++
					key := m + "#" + strconv.Itoa(nth[m])
					if c == nil || !c.blocking || answered[key] {
						continue
					}
					answered[key] = true
					id, _ := el.Get("id")
					var idb strings.Builder
					_ = xml.EscapeText(&idb, []byte(id))
					typ := "result"
					if el.Name.Local != "iq" {
						typ = "error"
					}
					sv.Feed(fmt.Sprintf(`<%s xmlns="%s" type="%s" id="%s"/>`, el.Name.Local, ns, typ, idb.String()))
				}
			}
			select {
			case <-stopResp:
				return
			default:
			}
			n := sv.Conn.OutputLen()
			sv.Conn.WaitOutput(func(b []byte) bool {
				select {
				case <-stopResp:
					return true
				default:
				}
				return len(b) != n
			}, 50*time.Millisecond)
		}
	}()

	var wg sync.WaitGroup
	for _, r := range tc.routines {
		wg.Add(1)
		go func(r []*call) {
			defer wg.Done()
			var stale []xmlstream.TokenWriteFlushCloser
			for _, c := range r {
				// a token writer that was closed is closed once more later (the usual
				// explicit Close plus a deferred one): that must not concern anybody else
				for _, w := range stale {
					if tc.closeTwice {
						_ = w.Close()
					}
				}
				stale = stale[:0]
				c.run(ctx, sv.Session)
				if c.writer != nil {
					stale = append(stale, c.writer)
				}
			}
			for _, w := range stale {
				if tc.closeTwice {
					_ = w.Close()
				}
			}
		}(r)
	}
	for range tc.handler {
		sv.Feed(`<trigger xmlns="urn:verif:t"/>`)
	}
	doneCh := make(chan struct{})
	go func() { wg.Wait(); close(doneCh) }()
	timedOut := false
	select {
	case <-doneCh:
	case <-time.After(waitLong):
		timedOut = true
	}
	// wait for handler replies
	if !timedOut {
		deadline := time.Now().Add(waitLong)
		for {
			hmu.Lock()
			all := hidx >= len(tc.handler)
			hmu.Unlock()
			fin := true
			for _, c := range tc.handler {
				if !c.returned.Load() {
					fin = false
				}
			}
			if (all && fin) || time.Now().After(deadline) || sv.Panic() != "" {
				break
			}
			select {
			case <-sv.Done():
				deadline = time.Now()
			case <-time.After(time.Millisecond):
			}
		}
	}
	closeOnce.Do(func() { close(closeNow) })
	select {
	case <-closerDone:
	case <-time.After(waitLong):
		timedOut = true
	}
	close(stopResp)
	cancel()
	if timedOut {
		// not a violation by itself: report only a confirmed blocked state
		blocked := wire.Blocked()
		<-respDone
		if len(blocked) > 0 {
			fail("callers did not return within %v and goroutines are parked inside the library:\n%s", waitLong, strings.Join(blocked, "\n\n"))
		}
		ev.Class("inconclusive-timeout")
		return
	}
	<-respDone
	if closeErr != nil {
		fail("Close returned %v", closeErr)
	}
	sv.Shutdown(waitLong)
	if p := sv.Panic(); p != "" {
		fail("%s", p)
	}

	out := sv.Conn.Output()
	items, _, perr := wire.ParseStream(out, false, ns)
	for _, c := range calls {
		if c.panicked != "" {
			fail("call #%d panicked: %s", c.idx, c.panicked)
		}
	}
	if perr != nil {
		fail("output is not well-formed XML: %v\noutput: %s", perr, short(out))
	}
	seen := map[string]*xt.Node{}
	copies := map[string]int{}
	closes := 0
	for _, it := range items {
		switch it.Kind {
		case "element":
			if closes > 0 {
				fail("element after the closing tag: %s", short(it.Raw))
			}
			if it.Node.DupAttr {
				fail("element with a duplicated attribute on the wire: %s", short(it.Raw))
			}
			ms := map[string]bool{}
			markers(it.Node, ms)
			if len(ms) != 1 {
				fail("top-level element carries the markers of %d calls (%v): %s", len(ms), ms, short(it.Raw))
			}
			for m := range ms {
				if byIdx[m] == nil {
					fail("unknown marker %q on the wire", m)
				}
				copies[m]++
				if seen[m] != nil {
					if copies[m] > 1+byIdx[m].resend {
						fail("call #%s has %d elements on the wire", m, copies[m])
					}
					// a further transmission of the same tokens
					if !wire.SameElement(it.Node, byIdx[m].expect) {
						fail("call #%s: transmission %d of the same tokens put an element on the wire that differs from what they denote\n   wire:     %s\n   expected: %s", m, copies[m], short([]byte(it.Node.Canon())), short([]byte(byIdx[m].expect.Canon())))
					}
				}
				seen[m] = it.Node
			}
		case "close":
			closes++
		case "text", "other":
			fail("unexpected %s between elements: %q", it.Kind, short(it.Raw))
		}
	}
	for _, c := range calls {
		if !c.returned.Load() {
			fail("call #%d did not return", c.idx)
		}
		got := seen[strconv.Itoa(c.idx)]
		if c.err == nil && tc.closeAt < 0 && tc.failAt < 0 && copies[strconv.Itoa(c.idx)] != 1+c.resend {
			fail("call #%d transmitted its tokens %d times, %d elements of it are on the wire", c.idx, 1+c.resend, copies[strconv.Itoa(c.idx)])
		}
		if c.err == nil && got == nil {
			fail("call #%d returned nil but no element of it is on the wire\noutput: %s", c.idx, short(out))
		}
		if c.err != nil && tc.closeAt >= 0 && errors.Is(c.err, xmpp.ErrOutputStreamClosed) {
			// the concurrent Close came first: nothing of the call may be on the wire
			// (of a call that transmits the same tokens several times: not all of them)
			if got != nil && copies[strconv.Itoa(c.idx)] > c.resend {
				fail("call #%d failed with %v but its complete element is on the wire", c.idx, c.err)
			}
			continue
		}
		if c.err != nil && tc.failAt >= 0 {
			// the connection broke: failing is what the call should do
			continue
		}
		if c.err != nil && !c.blocking {
			// no call is given a reason to fail in this harness
			fail("call #%d failed: %v", c.idx, c.err)
		}
		if c.err != nil && c.blocking {
			fail("blocking call #%d failed although the peer answered it: %v", c.idx, c.err)
		}
		if got != nil && !wire.SameElement(got, c.expect) {
			fail("call #%d: element on the wire differs from what the arguments denote\n   wire:     %s\n   expected: %s", c.idx, short([]byte(got.Canon())), short([]byte(c.expect.Canon())))
		}
	}
}

func classify(tc tcase) (bool, []string) {
	var classes []string
	if tc.failAt >= 0 {
		classes = append(classes, "connection-breaks-during-the-calls")
		if tc.failTimeout {
			classes = append(classes, "connection-failure-reported-as-timeout")
		}
	}
	multiWrite, withStart, completion := false, false, false
	for _, c := range tc.all() {
		classes = append(classes, "entry-"+c.entry, "form-"+c.form)
		if c.ownAttrs {
			classes = append(classes, "value-with-qualified-attributes-of-its-own")
		}
		if c.flushAt >= 0 {
			classes = append(classes, "tokenwriter-flushed-inside-the-element")
		}
		if c.trailing != "" {
			classes = append(classes, "reader-holds-more-than-the-element")
		}
		if c.resend > 0 {
			classes = append(classes, "same-tokens-transmitted-again")
		}
		if c.start != nil {
			withStart = true
		}
		if c.expect != nil {
			if len(c.expect.Canon()) > 4500 {
				multiWrite = true
			}
			if id, _ := c.expect.Get("id"); id == wire.AnyID {
				completion = true
				classes = append(classes, "id-generated")
			}
		}
	}
	if tc.negotiated != "" {
		classes = append(classes, "session-negotiated-"+tc.negotiated)
	}
	if tc.closeAt >= 0 {
		classes = append(classes, "close-concurrent-with-transmits")
	}
	if tc.s2s {
		completion = true
		classes = append(classes, "s2s")
	}
	if multiWrite {
		classes = append(classes, "element-spans-several-writes")
	}
	nt := (len(tc.routines) >= 2 && multiWrite) || withStart || completion
	return nt, classes
}

const knownWriterTo = "c05-encode-writerto-not-flushed"

// TestC05Known_WriterToNotFlushed replays the witness of the listed finding:
// Session.Encode(ctx, v) with v an xmlstream.WriterTo returns nil but leaves
// the element in the encoder's buffer; if nothing else is sent it never reaches
// the wire before the closing tag.
func TestC05Known_WriterToNotFlushed(t *testing.T) {
	ev.Begin(t)
	sv, err := wire.Serve(wire.SessionOpts{}, nil)
	if err != nil {
		t.Fatalf("harness: %v", err)
	}
	n := xt.El("urn:verif:x", "foo", []xml.Attr{xt.A("m", "0")})
	encErr := sv.Session.Encode(context.Background(), wNode{n})
	sv.Shutdown(waitLong)
	items, _, _ := wire.ParseStream(sv.Conn.Output(), false, stanza.NSClient)
	onWire := len(wire.Elements(items)) == 1
	still := encErr == nil && !onWire
	ev.Witness(knownWriterTo, still, fmt.Sprintf("Encode(WriterTo <foo/>) returned %v; output %q", encErr, sv.Conn.Output()))
	if still && !ev.IsKnown(knownWriterTo) {
		ev.Failf(t, "Session.Encode(ctx, WriterTo <foo xmlns=urn:verif:x m=0/>) returned nil but the element never reached the wire: output %q", sv.Conn.Output())
	}
}

func TestC05Transmit(t *testing.T) {
	q, th := 800, 6000
	if os.Getenv("VERIF_RACE") != "" {
		q, th = 500, 500
	}
	ev.Check(t, q, th, func(rt *rapid.T) {
		tc := genCase(rt)
		nt, classes := classify(tc)
		ev.Case(nt, tc.String(), classes...)
		check(rt, tc)
	})
}
