package c05

import (
	"context"
	"encoding/xml"
	"fmt"
	"strings"
	"testing"
	"time"

	"mellium.im/xmpp"
	"mellium.im/xmpp/verifharness/internal/ev"
	"mellium.im/xmpp/verifharness/internal/wire"
	"mellium.im/xmpp/verifharness/internal/xt"
	"pgregory.net/rapid"
)

// TestC05GivingUpBehindAnOpenWriter: the application holds a token writer with
// an element still open; transmit calls queue behind it, some of them with
// contexts that end while they wait; further calls with live contexts follow.
// Whatever the ones that gave up return, nobody's element may land inside the
// element that is still being written, and every call that reports success has
// its element on the wire, complete and at top level.
func TestC05GivingUpBehindAnOpenWriter(t *testing.T) {
	ev.Check(t, 150, 1500, func(rt *rapid.T) {
		s2s := rapid.Bool().Draw(rt, "s2s")
		opts := wire.SessionOpts{}
		if s2s {
			opts.State |= xmpp.S2S
		}
		ns := opts.NS()
		entries := []string{"Send", "SendElement", "Encode", "EncodeElement", "SendMessageError", "TokenWriter"}
		type caller struct {
			entry   string
			quits   bool
			m       string
			ctx     context.Context
			cancel  context.CancelFunc
			done    chan struct{}
			err     error
			panicky string
		}
		var cs []*caller
		nq := rapid.IntRange(1, 3).Draw(rt, "quitters")
		nl := rapid.IntRange(1, 3).Draw(rt, "live")
		for i := 0; i < nq+nl; i++ {
			c := &caller{quits: i < nq, m: fmt.Sprintf("c%d", i)}
			if c.quits {
				// (a token writer takes no context: it cannot give up)
				c.entry = rapid.SampledFrom(entries[:5]).Draw(rt, "quitterEntry")
			} else {
				c.entry = rapid.SampledFrom(entries).Draw(rt, "liveEntry")
			}
			cs = append(cs, c)
		}
		holderFlushes := rapid.Bool().Draw(rt, "holderFlushesWhileOpen")
		deadlineQuit := rapid.Bool().Draw(rt, "quittersHaveDeadlines")
		var cd []string
		for _, c := range cs {
			cd = append(cd, fmt.Sprintf("%s#%s(context-ends-while-queued=%v)", c.entry, c.m, c.quits))
		}
		desc := fmt.Sprintf("open-writer s2s=%v the application holds a token writer with its element open (flushed meanwhile: %v); queued behind it: %s; contexts end by deadline: %v", s2s, holderFlushes, strings.Join(cd, " "), deadlineQuit)
		ev.Case(true, desc, "giving-up-behind-an-open-writer")

		sv, err := wire.NewServed(opts)
		if err != nil {
			rt.Fatalf("harness: %v", err)
		}
		defer sv.Shutdown(3 * time.Second)
		sv.Start(nil)
		s := sv.Session
		type val struct {
			XMLName xml.Name
			M       string `xml:"m,attr"`
		}
		run := func(c *caller) {
			el := xt.El("urn:verif:c05l", "e", []xml.Attr{xt.A("m", c.m)}, xt.El("urn:verif:c05l", "k", nil))
			switch c.entry {
			case "Send":
				c.err = s.Send(c.ctx, el.Reader())
			case "SendElement":
				c.err = s.SendElement(c.ctx, xt.El("urn:verif:c05l", "k", nil).Reader(), xml.StartElement{Name: xml.Name{Space: "urn:verif:c05l", Local: "e"}, Attr: []xml.Attr{xt.A("m", c.m)}})
			case "Encode":
				c.err = s.Encode(c.ctx, val{XMLName: xml.Name{Space: "urn:verif:c05l", Local: "e"}, M: c.m})
			case "EncodeElement":
				c.err = s.EncodeElement(c.ctx, val{XMLName: xml.Name{Space: "urn:verif:c05l", Local: "k"}, M: c.m}, xml.StartElement{Name: xml.Name{Space: "urn:verif:c05l", Local: "e"}, Attr: []xml.Attr{xt.A("m", c.m)}})
			case "SendMessageError":
				resp, e := s.SendMessage(c.ctx, xt.El(ns, "message", []xml.Attr{xt.A("type", "error"), xt.A("m", c.m), xt.A("id", c.m)}).Reader())
				if resp != nil {
					_ = resp.Close()
				}
				c.err = e
			case "TokenWriter":
				w := s.TokenWriter()
				for _, tok := range el.Tokens() {
					if e := w.EncodeToken(tok); e != nil && c.err == nil {
						c.err = e
					}
				}
				if e := w.Close(); e != nil && c.err == nil {
					c.err = e
				}
			}
		}

		holder := s.TokenWriter()
		hstart := xml.StartElement{Name: xml.Name{Space: "urn:verif:c05l", Local: "holder"}, Attr: []xml.Attr{xt.A("m", "h")}}
		herr := holder.EncodeToken(hstart)
		if herr == nil && holderFlushes {
			herr = holder.Flush()
		}
		for _, c := range cs[:nq] {
			c := c
			if deadlineQuit {
				c.ctx, c.cancel = context.WithTimeout(context.Background(), 1500*time.Microsecond)
			} else {
				c.ctx, c.cancel = context.WithCancel(context.Background())
			}
			c.done = make(chan struct{})
			go func() { defer close(c.done); c.panicky = ev.Guard(func() { run(c) }) }()
		}
		time.Sleep(time.Millisecond)
		for _, c := range cs[:nq] {
			c.cancel()
		}
		time.Sleep(2 * time.Millisecond)
		for _, c := range cs[nq:] {
			c := c
			c.ctx, c.cancel = context.WithCancel(context.Background())
			c.done = make(chan struct{})
			go func() { defer close(c.done); c.panicky = ev.Guard(func() { run(c) }) }()
		}
		time.Sleep(2 * time.Millisecond)
		// the holder finishes its element
		hdone := make(chan string, 1)
		go func() {
			hdone <- ev.Guard(func() {
				for _, tok := range xt.El("urn:verif:c05l", "own", nil).Tokens() {
					if e := holder.EncodeToken(tok); e != nil && herr == nil {
						herr = e
					}
				}
				if e := holder.EncodeToken(hstart.End()); e != nil && herr == nil {
					herr = e
				}
				if e := holder.Close(); e != nil && herr == nil {
					herr = e
				}
			})
		}()
		select {
		case p := <-hdone:
			if p != "" {
				ev.Failf(rt, "%s\nfinishing and closing the token writer panicked: %s", desc, p)
			}
		case <-time.After(15 * time.Second):
			if b := wire.BlockedMatching("lockWriteCloser"); len(b) > 0 {
				time.Sleep(300 * time.Millisecond)
				if b2 := wire.BlockedMatching("lockWriteCloser"); len(b2) > 0 {
					ev.Failf(rt, "%s\nwriting the rest of the element through the token writer and closing it has not come back after 15 s: parked inside the library\n%s", desc, strings.Join(b2, "\n\n"))
				}
			}
			ev.Class("inconclusive-timeout")
			return
		}
		for _, c := range cs {
			select {
			case <-c.done:
				c.cancel()
				if c.panicky != "" {
					ev.Failf(rt, "%s\ncall %s panicked: %s", desc, c.m, c.panicky)
				}
			case <-time.After(15 * time.Second):
				if b := wire.Blocked(); len(b) > 0 {
					ev.Failf(rt, "%s\ncall %s has not returned 15 s after the token writer was closed\n%s", desc, c.m, strings.Join(b, "\n\n"))
				}
				ev.Class("inconclusive-timeout")
				return
			}
		}
		out := sv.Conn.Output()
		items, _, perr := wire.ParseStream(out, false, ns)
		if perr != nil {
			ev.Failf(rt, "%s\noutput is not well-formed: %v\noutput: %q", desc, perr, out)
		}
		top := map[string]int{}
		for _, it := range items {
			switch it.Kind {
			case "element":
				m, _ := it.Node.Get("m")
				top[m]++
				inner := map[string]bool{}
				for _, k := range it.Node.Children {
					markersOf(k, inner)
				}
				for im := range inner {
					if im == m {
						continue
					}
					ev.Failf(rt, "%s\nthe element of call %s is inside the element of %s\noutput: %q", desc, im, m, out)
				}
				if m == "h" && (len(it.Node.Children) != 1 || it.Node.Children[0].Name.Local != "own") {
					ev.Failf(rt, "%s\nthe token writer's element does not hold exactly what was written through it: %s\noutput: %q", desc, it.Node.Canon(), out)
				}
			case "text", "other":
				ev.Failf(rt, "%s\nbytes between elements: %q\noutput: %q", desc, it.Raw, out)
			}
		}
		if herr == nil && top["h"] != 1 {
			ev.Failf(rt, "%s\nthe token writer reported no error but its element is on the wire %d times\noutput: %q", desc, top["h"], out)
		}
		for _, c := range cs {
			if c.err == nil && top[c.m] != 1 {
				ev.Failf(rt, "%s\ncall %s returned nil but its element is at top level %d times\noutput: %q", desc, c.m, top[c.m], out)
			}
			if top[c.m] > 1 {
				ev.Failf(rt, "%s\nthe element of call %s is on the wire %d times\noutput: %q", desc, c.m, top[c.m], out)
			}
			if !c.quits && c.err != nil {
				ev.Class("live-call-failed")
			}
		}
	})
}

func markersOf(n *xt.Node, out map[string]bool) {
	if n.IsText() {
		return
	}
	if m, ok := n.Get("m"); ok {
		out[m] = true
	}
	for _, c := range n.Children {
		markersOf(c, out)
	}
}
