package c05

// Values that write themselves from a source whose character data is only
// valid until the next token (the contract of xml.TokenReader: an xml.Decoder
// reuses its buffer): Session.Encode / EncodeElement and the handler-side
// calls must put the element's content on the wire as it was when it was
// produced.  Session.Encode of a self-writing value is not flushed on the
// pinned tree (listed finding c05-encode-writerto-not-flushed): here every
// such call is followed by a Send of a marker element, which flushes, and the
// element is judged when it appears - in front of the marker.

import (
	"context"
	"encoding/xml"
	"fmt"
	"testing"

	"mellium.im/xmlstream"
	"mellium.im/xmpp/stanza"
	"mellium.im/xmpp/verifharness/internal/ev"
	"mellium.im/xmpp/verifharness/internal/wire"
	"mellium.im/xmpp/verifharness/internal/xt"
	"pgregory.net/rapid"
)

// volatileReader hands out the tokens of r with all character data in ONE
// buffer that is overwritten by the next call, as a decoder does.
type volatileReader struct {
	r   xml.TokenReader
	buf []byte
}

func (v *volatileReader) Token() (xml.Token, error) {
	// scribble over what was handed out before
	for i := range v.buf {
		v.buf[i] = '#'
	}
	tok, err := v.r.Token()
	if cd, ok := tok.(xml.CharData); ok {
		v.buf = append(v.buf[:0], cd...)
		return xml.CharData(v.buf), err
	}
	return tok, err
}

// vwNode writes itself (WriterTo only) from a volatile source.
type vwNode struct{ n *xt.Node }

func (w vwNode) WriteXML(tw xmlstream.TokenWriter) (int, error) {
	return xmlstream.Copy(tw, &volatileReader{r: w.n.Reader()})
}

// vmNode is the Marshaler form over a volatile source.
type vmNode struct{ n *xt.Node }

func (m vmNode) TokenReader() xml.TokenReader { return &volatileReader{r: m.n.Reader()} }

func TestC05VolatileSources(t *testing.T) {
	ev.Check(t, 150, 2000, func(rt *rapid.T) {
		ns := stanza.NSClient
		sv, err := wire.Serve(wire.SessionOpts{}, nil)
		if err != nil {
			rt.Fatalf("harness: %v", err)
		}
		defer sv.Shutdown(waitLong)
		k := rapid.IntRange(1, 4).Draw(rt, "ncalls")
		var want []*xt.Node
		var desc []string
		for i := 0; i < k; i++ {
			n := &xt.Node{Name: genTopName(rt, ns, ""), Attr: genAttrs(rt, i, true), Children: genKids(rt, ns)}
			fixDup(n)
			// several text runs make the overwriting visible
			n.Children = append(n.Children, xt.Tx(fmt.Sprintf("first run %d", i)), xt.El("urn:verif:v", "sep", nil), xt.Tx("second, longer run of text"), xt.El("urn:verif:v", "sep", nil, xt.Tx("nested")), xt.Tx("3"))
			entry := rapid.SampledFrom([]string{"Encode(WriterTo)", "Encode(Marshaler)", "Send(reader)", "EncodeElement(Marshaler)"}).Draw(rt, "entry")
			var cerr error
			p := ev.Guard(func() {
				switch entry {
				case "Encode(WriterTo)":
					cerr = sv.Session.Encode(context.Background(), vwNode{n})
				case "Encode(Marshaler)":
					cerr = sv.Session.Encode(context.Background(), vmNode{n})
				case "Send(reader)":
					cerr = sv.Session.Send(context.Background(), &volatileReader{r: n.Reader()})
				case "EncodeElement(Marshaler)":
					inner := &xt.Node{Name: xml.Name{Space: "urn:verif:inner", Local: "v"}, Children: n.Children}
					cerr = sv.Session.EncodeElement(context.Background(), vmNode{inner}, xml.StartElement{Name: n.Name, Attr: append([]xml.Attr(nil), n.Attr...)})
				}
			})
			desc = append(desc, fmt.Sprintf("%s %s", entry, n.Bytes(ns)))
			if p != "" {
				ev.Failf(rt, "%v\n%s panicked: %s", desc, entry, p)
			}
			if cerr != nil {
				ev.Failf(rt, "%v\n%s returned %v", desc, entry, cerr)
			}
			want = append(want, wire.ExpectTopLevel(n, ns, ""))
			// the marker flushes whatever the call left in the encoder
			mk := xt.El("urn:verif:v", "marker", []xml.Attr{xt.A("k", fmt.Sprint(i))})
			if err := sv.Session.Send(context.Background(), mk.Reader()); err != nil {
				ev.Failf(rt, "%v\nSend(marker) returned %v", desc, err)
			}
			want = append(want, mk)
		}
		ev.Case(true, fmt.Sprint(desc), "volatile-source")
		els := sv.WaitElements(len(want), waitLong)
		if len(els) < len(want) {
			ev.Failf(rt, "%v\n%d elements expected on the wire, %d arrived: %q", desc, len(want), len(els), sv.Conn.Output())
		}
		for i, w := range want {
			if !wire.SameElement(els[i], w) {
				ev.Failf(rt, "%v\nelement %d on the wire is\n  %s\nexpected\n  %s\n(the source's character data is only valid until its next token)", desc, i, els[i].Canon(), w.Canon())
			}
		}
	})
}
