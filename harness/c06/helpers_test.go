// C06, extension helpers that block on a correlated reply: in-band bytestream
// open / close / read / write and MUC join / leave.  The oracle is the one the
// statement gives for them: every call returns (once), nothing panics, and the
// serve loop keeps serving — after every step a sentinel request must be
// answered.  What the helpers deliver (bytes, membership) is C15's and C18's
// subject and is not judged here.
package c06

import (
	"context"
	"encoding/base64"
	"fmt"
	"net"
	"os"
	"strconv"
	"strings"
	"sync"
	"sync/atomic"
	"testing"
	"time"

	"pgregory.net/rapid"

	"mellium.im/xmpp"
	"mellium.im/xmpp/ibb"
	"mellium.im/xmpp/jid"
	"mellium.im/xmpp/muc"
	"mellium.im/xmpp/mux"
	"mellium.im/xmpp/stanza"
	"mellium.im/xmpp/verifharness/internal/ev"
	"mellium.im/xmpp/verifharness/internal/wire"
	"mellium.im/xmpp/verifharness/internal/xt"
)

// responder is the scripted peer: it answers the library's own requests
// according to a policy and can inject requests of its own.
type responder struct {
	sv     *wire.Served
	ns     string
	mu     sync.Mutex
	seen   int
	policy map[string]string // "open": accept refuse silent; "data": ack silent; "close": ack silent; "join"/"leave": confirm error silent
	sid    string            // sid of the library-opened stream (from its <open/>)
	lastID map[string]string // id of the library's last join / leave presence
	hook   func()            // called between the two pieces of a split reply
	split  chan struct{}     // receives once both pieces of a split reply have been fed
	// number of split replies whose second piece has not been fed yet (a join
	// presence of an earlier step that reaches the wire late is answered
	// according to the current policy too)
	splitting atomic.Int32
	trace     []string
	stop      chan struct{}
	done      chan struct{}
}

func newResponder(sv *wire.Served, ns string) *responder {
	r := &responder{sv: sv, ns: ns, policy: map[string]string{}, lastID: map[string]string{}, split: make(chan struct{}, 8), stop: make(chan struct{}), done: make(chan struct{})}
	go r.loop()
	return r
}

func (r *responder) set(k, v string) { r.mu.Lock(); r.policy[k] = v; r.mu.Unlock() }
func (r *responder) get(k string) string {
	r.mu.Lock()
	defer r.mu.Unlock()
	return r.policy[k]
}
func (r *responder) note(format string, a ...any) {
	r.mu.Lock()
	r.trace = append(r.trace, fmt.Sprintf(format, a...))
	r.mu.Unlock()
}
func (r *responder) history() string {
	r.mu.Lock()
	defer r.mu.Unlock()
	return strings.Join(r.trace, "\n  ")
}

func (r *responder) halt() { close(r.stop); <-r.done }

func (r *responder) loop() {
	defer close(r.done)
	for {
		select {
		case <-r.stop:
			return
		default:
		}
		items, _ := r.sv.Items()
		els := wire.Elements(items)
		r.mu.Lock()
		from := r.seen
		r.seen = len(els)
		r.mu.Unlock()
		for _, e := range els[from:] {
			r.react(e)
		}
		time.Sleep(200 * time.Microsecond)
	}
}

func (r *responder) react(e *xt.Node) {
	id, _ := e.Get("id")
	typ, _ := e.Get("type")
	switch e.Name.Local {
	case "iq":
		if typ != "set" && typ != "get" {
			return
		}
		kind := ""
		for _, c := range e.Children {
			if !c.IsText() && c.Name.Space == "http://jabber.org/protocol/ibb" {
				kind = c.Name.Local
				if kind == "open" {
					sid, _ := c.Get("sid")
					r.mu.Lock()
					r.sid = sid
					r.mu.Unlock()
				}
			}
		}
		if kind == "" {
			return
		}
		pol := r.get(kind)
		r.mu.Lock()
		r.lastID[kind] = id
		r.mu.Unlock()
		r.note("library sent <%s/> id=%s: peer policy %q", kind, id, pol)
		switch pol {
		case "silent":
		case "refuse", "error":
			r.sv.Feed(`<iq xmlns="` + r.ns + `" type="error" id="` + id + `"><error type="cancel"><not-acceptable xmlns="urn:ietf:params:xml:ns:xmpp-stanzas"/></error></iq>`)
		case "refuse-constraint", "refuse-unavailable", "refuse-bare":
			// other ways of saying no: the responder prefers smaller blocks, does
			// not support the protocol, or bounces the request without saying why
			inner := map[string]string{
				"refuse-constraint":  `<error type="modify"><resource-constraint xmlns="urn:ietf:params:xml:ns:xmpp-stanzas"/></error>`,
				"refuse-unavailable": `<error type="cancel"><service-unavailable xmlns="urn:ietf:params:xml:ns:xmpp-stanzas"/></error>`,
				"refuse-bare":        ``,
			}[pol]
			r.sv.Feed(`<iq xmlns="` + r.ns + `" type="error" id="` + id + `">` + inner + `</iq>`)
		case "cross":
			// both ends close at the same time: the peer's own <close/> for the
			// stream arrives before its answer to ours
			sid := ""
			for _, c := range e.Children {
				if !c.IsText() && c.Name.Local == "close" {
					sid, _ = c.Get("sid")
				}
			}
			r.sv.Feed(`<iq xmlns="` + r.ns + `" type="set" id="x` + id + `" from="peer@example.org/r" to="test@example.net"><close xmlns="http://jabber.org/protocol/ibb" sid="` + sid + `"/></iq>` +
				`<iq xmlns="` + r.ns + `" type="result" id="` + id + `"/>`)
		default:
			r.sv.Feed(`<iq xmlns="` + r.ns + `" type="result" id="` + id + `"/>`)
		}
	case "presence":
		to, _ := e.Get("to")
		what := "join"
		if typ == "unavailable" {
			what = "leave"
		}
		pol := r.get(what)
		r.mu.Lock()
		r.lastID[what] = id
		r.mu.Unlock()
		r.note("library sent %s presence to %s id=%s: peer policy %q", what, to, id, pol)
		switch pol {
		case "silent":
		case "error":
			r.sv.Feed(`<presence xmlns="` + r.ns + `" type="error" id="` + id + `" from="` + to + `"><x xmlns="http://jabber.org/protocol/muc"/><error type="auth"><forbidden xmlns="urn:ietf:params:xml:ns:xmpp-stanzas"/></error></presence>`)
		case "error-split":
			// the refusal arrives in two pieces and the caller's context ends in
			// between (after the reply has been matched to the waiting call)
			r.splitting.Add(1)
			r.sv.Feed(`<presence xmlns="` + r.ns + `" type="error" id="` + id + `" from="` + to + `"><x xmlns="http://jabber.org/protocol/muc"/>`)
			r.sv.Conn.WaitDrainedOr(r.sv.Done(), time.Second)
			time.Sleep(time.Millisecond)
			r.mu.Lock()
			hk := r.hook
			r.mu.Unlock()
			if hk != nil {
				hk()
			}
			time.Sleep(2 * time.Millisecond)
			r.sv.Feed(`<error type="auth"><forbidden xmlns="urn:ietf:params:xml:ns:xmpp-stanzas"/></error></presence>`)
			r.splitting.Add(-1)
			select {
			case r.split <- struct{}{}:
			default:
			}
		default:
			t := ""
			if what == "leave" {
				t = ` type="unavailable"`
			}
			r.sv.Feed(`<presence xmlns="` + r.ns + `"` + t + ` id="` + id + `" from="` + to + `"><x xmlns="http://jabber.org/protocol/muc#user"><item affiliation="member" role="participant"/><status code="110"/></x></presence>`)
		}
	}
}

type hstep struct {
	op   string
	n    int
	flag bool
	pol  string
}

func (s hstep) String() string {
	return fmt.Sprintf("%s(n=%d flag=%v peer=%s)", s.op, s.n, s.flag, s.pol)
}

type hcase struct {
	kind   string // ibb muc
	s2s    bool
	origin string // ibb: local peer
	// ibb: the stanza that carries the data: "iq" (acknowledged) or "message"
	carrier string
	steps   []hstep
	// origin "peer": the application waits for the stream with Listener.Expect,
	// called twice for the same session (the documented take-over: the first
	// call is cancelled, the second gets the stream), instead of Accept
	takeover bool
}

func (c hcase) String() string {
	var sb strings.Builder
	fmt.Fprintf(&sb, "%s helpers, s2s=%v stream-opened-by=%s (awaited with two Expect calls, the second taking over: %v) data-carried-by=%s steps:", c.kind, c.s2s, c.origin, c.takeover, c.carrier)
	for _, s := range c.steps {
		sb.WriteString(" " + s.String())
	}
	return sb.String()
}

func genHelpers(t *rapid.T) hcase {
	c := hcase{kind: rapid.SampledFrom([]string{"ibb", "ibb", "muc"}).Draw(t, "kind"), s2s: rapid.Bool().Draw(t, "s2s")}
	n := rapid.IntRange(1, 6).Draw(t, "nsteps")
	if c.kind == "ibb" {
		c.origin = rapid.SampledFrom([]string{"local", "local", "peer"}).Draw(t, "origin")
		c.carrier = rapid.SampledFrom([]string{"iq", "iq", "message"}).Draw(t, "carrier")
		c.takeover = c.origin == "peer" && rapid.IntRange(0, 2).Draw(t, "takeover") == 0
		c.steps = append(c.steps, hstep{op: "open", pol: rapid.SampledFrom([]string{"accept", "accept", "accept", "accept", "refuse", "refuse-constraint", "refuse-unavailable", "refuse-bare", "silent"}).Draw(t, "openpol")})
		for i := 0; i < n; i++ {
			st := hstep{op: rapid.SampledFrom([]string{"write", "write", "peerdata", "read", "readwait", "peerclose", "close", "flush", "peerclose-during-write"}).Draw(t, "op")}
			st.n = rapid.SampledFrom([]int{0, 1, 2, 3, 4, 5, 7, 10, 64}).Draw(t, "n")
			st.flag = rapid.Bool().Draw(t, "flag")
			st.pol = rapid.SampledFrom([]string{"ack", "ack", "ack", "silent", "error"}).Draw(t, "pol")
			if st.op == "close" && rapid.IntRange(0, 2).Draw(t, "crossingClose") == 0 {
				st.pol = "cross"
			}
			c.steps = append(c.steps, st)
		}
		return c
	}
	if rapid.IntRange(0, 3).Draw(t, "kickCycle") == 0 {
		// removed by the room while no Leave is waiting, joined again on the same
		// channel, then a Leave the room does not answer
		c.steps = []hstep{{op: "join", pol: "confirm"}, {op: "kick"}, {op: "rejoin", pol: "confirm", flag: rapid.Bool().Draw(t, "kcflag")}, {op: "leave", pol: rapid.SampledFrom([]string{"silent", "silent", "error", "confirm"}).Draw(t, "kcleave")}}
		return c
	}
	for i := 0; i < n; i++ {
		st := hstep{op: rapid.SampledFrom([]string{"join", "join", "leave", "leave", "rejoin", "kick"}).Draw(t, "op")}
		st.pol = rapid.SampledFrom([]string{"confirm", "confirm", "confirm", "error", "silent", "error-split"}).Draw(t, "pol")
		st.flag = rapid.Bool().Draw(t, "flag")
		// n: what the room sends after the call has returned, while the call's
		// context is still alive (flag): 0 nothing, 1 a late error reply with the
		// request's id, 2 a duplicate of the confirmation
		st.n = rapid.IntRange(0, 2).Draw(t, "late")
		c.steps = append(c.steps, st)
	}
	return c
}

func checkHelpers(t interface {
	Helper()
	Fatalf(string, ...any)
}, c hcase) {
	t.Helper()
	opts := wire.SessionOpts{}
	if c.s2s {
		opts.State |= xmpp.S2S
	}
	ns := opts.NS()
	ih := &ibb.Handler{}
	mc := &muc.Client{}
	m := mux.New(ns, ibb.Handle(ih), muc.HandleClient(mc))
	sv, err := wire.Serve(opts, m)
	if err != nil {
		t.Fatalf("harness: %v", err)
	}
	rsp := newResponder(sv, ns)
	var log []string
	fail := func(format string, args ...any) {
		t.Helper()
		ev.Failf(t, "%s\nwhat happened:\n  %s\npeer:\n  %s\n%s", c.String(), strings.Join(log, "\n  "), rsp.history(), fmt.Sprintf(format, args...))
	}
	logf := func(format string, a ...any) { log = append(log, fmt.Sprintf(format, a...)) }
	t0 := time.Now()
	defer func() {
		if d := time.Since(t0); d > 400*time.Millisecond && os.Getenv("VERIF_DEBUG_SLOW") != "" {
			fmt.Fprintf(os.Stderr, "SLOW %v %s\n  %s\n", d, c.String(), strings.Join(log, "\n  "))
		}
	}()
	finished := false
	cleanup := func() {
		if !finished {
			finished = true
			rsp.halt()
			sv.Shutdown(3 * time.Second)
			sv.Conn.Close()
		}
	}
	defer cleanup()

	// stalled reports a permanent stall of the serve loop (violation) or ends
	// the case as inconclusive.
	stalled := func(what string) {
		t.Helper()
		select {
		case <-sv.Done():
			if p := sv.Panic(); p != "" {
				fail("%s", p)
			}
			ev.Class("inconclusive-serve-ended-early")
			ev.Note("Serve ended early with %v\n%s\nwhat happened:\n  %s", sv.Err(), c.String(), strings.Join(log, "\n  "))
			return
		default:
		}
		if b := wire.BlockedMatching("handleInputStream"); len(b) > 0 {
			fail("%s; the serve loop is parked inside the library:\n%s", what, strings.Join(b, "\n\n"))
		}
		if wire.ServeIdle() && sv.Conn.PendingInput() == 0 {
			fail("%s; the serve loop has consumed all the input and is waiting for more: what was fed was swallowed", what)
		}
		ev.Class("inconclusive-timeout")
		ev.Note("inconclusive (no goroutine parked inside the library): %s\n%s\nwhat happened:\n  %s\npeer:\n  %s", what, c.String(), strings.Join(log, "\n  "), rsp.history())
	}
	waitFor := func(pred func([]*xt.Node) bool) bool {
		deadline := time.Now().Add(waitLong)
		for {
			if sv.WaitFor(pred, 50*time.Millisecond) {
				return true
			}
			select {
			case <-sv.Done():
				return sv.WaitFor(pred, time.Millisecond)
			default:
			}
			if time.Now().After(deadline) {
				return false
			}
		}
	}
	nsent := 0
	// sentinel: a request nobody handles must be answered by the serve loop
	sentinel := func(after string) bool {
		nsent++
		sid := "sentinel" + strconv.Itoa(nsent)
		sv.Feed(`<iq xmlns="` + ns + `" type="get" id="` + sid + `"><ping xmlns="urn:xmpp:ping"/></iq>`)
		ok := waitFor(func(els []*xt.Node) bool {
			for _, e := range els {
				if id, _ := e.Get("id"); id == sid {
					return true
				}
			}
			return false
		})
		if !ok {
			stalled(fmt.Sprintf("after %s the serve loop did not answer a following request (%s) within %v", after, sid, waitLong))
		}
		return ok
	}
	// call runs a blocking helper call and waits for it to return
	call := func(what string, f func() string) (string, bool) {
		t.Helper()
		res := make(chan string, 1)
		go func() {
			var out string
			if p := ev.Guard(func() { out = f() }); p != "" {
				out = "PANIC " + p
			}
			res <- out
		}()
		select {
		case out := <-res:
			logf("%s -> %s", what, out)
			if strings.HasPrefix(out, "PANIC ") {
				fail("%s panicked: %s", what, out[6:])
			}
			return out, true
		case <-time.After(waitLong):
			stalled(fmt.Sprintf("%s did not return within %v", what, waitLong))
			// let the goroutine end with the session
			return "", false
		}
	}
	lastReplyType := ""
	answered := func(id string) bool {
		return waitFor(func(els []*xt.Node) bool {
			for _, e := range els {
				if i, _ := e.Get("id"); i == id && e.Name.Local == "iq" {
					if typ, _ := e.Get("type"); typ == "result" || typ == "error" {
						lastReplyType = typ
						return true
					}
				}
			}
			return false
		})
	}

	peerJID := jid.MustParse("peer@example.org/r")
	switch c.kind {
	case "ibb":
		var conn net.Conn
		psid := "ps1"
		seq := 0
		// Read blocks until data arrives or the stream ends (the pinned code does
		// not act on read deadlines), so it is only called when one of the two
		// is known to be the case
		pending, ended := 0, false
		// peerData: the peer sends one data packet with n bytes on the carrier
		peerData := func(what string, i, n int) bool {
			id := fmt.Sprintf("pd%d", i)
			data := `<data xmlns="http://jabber.org/protocol/ibb" sid="` + psid + `" seq="` + strconv.Itoa(seq) + `">` + base64.StdEncoding.EncodeToString([]byte(strings.Repeat("y", n))) + `</data>`
			seq++
			if c.carrier == "message" {
				// not acknowledged; a following sentinel shows that it was processed
				sv.Feed(`<message xmlns="` + ns + `" id="` + id + `" from="` + peerJID.String() + `" to="test@example.net">` + data + `</message>`)
				if !sentinel(what) {
					return false
				}
				logf("%s -> processed (message carrier)", what)
				pending += n
				return true
			}
			sv.Feed(`<iq xmlns="` + ns + `" type="set" id="` + id + `" from="` + peerJID.String() + `" to="test@example.net">` + data + `</iq>`)
			if !answered(id) {
				stalled(what + ": the peer's data packet was not answered")
				return false
			}
			logf("%s -> answered (%s)", what, lastReplyType)
			if lastReplyType == "result" {
				pending += n
			}
			return true
		}
		for i, st := range c.steps {
			what := fmt.Sprintf("step %d %s", i, st)
			switch st.op {
			case "open":
				if c.origin == "local" {
					rsp.set("open", st.pol)
					ctx, cancel := context.WithCancel(context.Background())
					if st.pol == "silent" {
						time.AfterFunc(5*time.Millisecond, cancel)
					}
					_, ok := call(what, func() string {
						var cn *ibb.Conn
						var err error
						if c.carrier == "message" {
							cn, err = ih.OpenIQ(ctx, stanza.IQ{To: peerJID}, sv.Session, false, 4096, "ls1")
						} else {
							cn, err = ih.Open(ctx, sv.Session, peerJID)
						}
						if cn != nil {
							conn = cn
						}
						return fmt.Sprintf("conn=%v err=%v", cn != nil, err)
					})
					cancel()
					if !ok {
						return
					}
					psid = rsp.sid
				} else {
					l := ih.Listen(sv.Session)
					acc := make(chan net.Conn, 1)
					if c.takeover {
						first := make(chan error, 1)
						go func() {
							_, err := l.Expect(context.Background(), peerJID, psid)
							first <- err
						}()
						for k := 0; k < 2000 && len(wire.BlockedMatching("ibb.(*Listener).Expect")) == 0; k++ {
							time.Sleep(time.Millisecond)
						}
						go func() {
							cn, _ := l.Expect(context.Background(), peerJID, psid)
							acc <- cn
						}()
						select {
						case err := <-first:
							if err == nil {
								fail("%s: the first Expect for the session returned nil although a second Expect took over and no stream was opened", what)
							}
						case <-time.After(waitLong):
							stalled(what + ": the first of two Expect calls for the same session did not return after the second one took over")
							return
						}
						// the second call is waiting now
						for k := 0; k < 2000 && len(wire.BlockedMatching("ibb.(*Listener).Expect")) == 0; k++ {
							time.Sleep(time.Millisecond)
						}
					} else {
						go func() {
							cn, _ := l.Accept()
							acc <- cn
						}()
					}
					sv.Feed(`<iq xmlns="` + ns + `" type="set" id="po1" from="` + peerJID.String() + `" to="test@example.net"><open xmlns="http://jabber.org/protocol/ibb" sid="` + psid + `" block-size="4096" stanza="` + c.carrier + `"/></iq>`)
					if !answered("po1") {
						stalled(what + ": the peer's <open/> was not answered")
						return
					}
					select {
					case conn = <-acc:
						logf("%s -> accepted=%v", what, conn != nil)
					case <-time.After(waitLong):
						stalled(what + ": Accept did not return although the <open/> was answered")
						return
					}
				}
				if conn != nil {
					_ = conn.SetDeadline(time.Now().Add(1500 * time.Millisecond))
				}
			case "write", "flush":
				if conn == nil {
					continue
				}
				rsp.set("data", st.pol)
				_ = conn.SetDeadline(time.Now().Add(60 * time.Millisecond))
				if _, ok := call(what, func() string {
					var n int
					var err error
					if st.op == "write" {
						n, err = conn.Write([]byte(strings.Repeat("x", st.n)))
					}
					if st.flag || st.op == "flush" {
						if ic, ok := conn.(*ibb.Conn); ok {
							if e := ic.Flush(); err == nil {
								err = e
							}
						}
					}
					return fmt.Sprintf("n=%d err=%v", n, err)
				}); !ok {
					return
				}
			case "peerdata":
				if conn == nil {
					continue
				}
				if !peerData(what, i, st.n) {
					return
				}
			case "readwait":
				// a Read that is already waiting when the peer's data arrives
				if conn == nil || pending != 0 || ended {
					continue
				}
				type rres struct {
					n   int
					err error
					p   string
				}
				rch := make(chan rres, 1)
				rconn := conn
				go func() {
					var r rres
					r.p = ev.Guard(func() {
						buf := make([]byte, 256)
						r.n, r.err = rconn.Read(buf)
					})
					rch <- r
				}()
				for k := 0; k < 1000 && len(wire.BlockedMatching("ibb.(*Conn).Read")) == 0; k++ {
					time.Sleep(time.Millisecond)
				}
				n := st.n
				if n == 0 {
					n = 3
				}
				if !peerData(what+" (a Read is waiting)", i, n) {
					return
				}
				if !sentinel(what) {
					return
				}
				select {
				case r := <-rch:
					logf("%s -> the waiting Read returned n=%d err=%v", what, r.n, r.err)
					if r.p != "" {
						fail("%s: Read panicked: %s", what, r.p)
					}
					if r.n == 0 || r.err != nil {
						fail("%s: the Read that was waiting when %d bytes arrived on the open stream returned n=%d err=%v", what, n, r.n, r.err)
					}
					pending -= r.n
					if pending < 0 {
						pending = 0
					}
				case <-time.After(2 * time.Second):
					fail("%s: a Read was waiting on the open stream, the peer's data packet (%d bytes, carried by %s) has been processed by the serve loop (a later request was answered), and the Read is still blocked", what, n, c.carrier)
				}
				continue
			case "read":
				if conn == nil || (pending == 0 && !ended) {
					continue
				}
				got := 0
				if _, ok := call(what, func() string {
					buf := make([]byte, 32)
					n, err := conn.Read(buf)
					got = n
					return fmt.Sprintf("n=%d err=%v", n, err)
				}); !ok {
					return
				}
				pending -= got
				if pending < 0 {
					pending = 0
				}
			case "peerclose-during-write":
				// the application is inside Write/Flush, waiting (without any
				// deadline) for the acknowledgement of a data packet, when the
				// peer's <close/> for the stream arrives; the peer acknowledges
				// the packet only afterwards
				ic, isIBB := conn.(*ibb.Conn)
				if conn == nil || !isIBB || c.carrier != "iq" || ended {
					continue
				}
				rsp.set("data", "silent")
				rsp.mu.Lock()
				delete(rsp.lastID, "data")
				rsp.mu.Unlock()
				_ = conn.SetDeadline(time.Time{})
				wdone := make(chan string, 1)
				go func() {
					wdone <- ev.Guard(func() {
						_, _ = ic.Write([]byte("unacknowledged"))
						_ = ic.Flush()
					})
				}()
				dataID := ""
				for k := 0; k < 3000 && dataID == ""; k++ {
					rsp.mu.Lock()
					dataID = rsp.lastID["data"]
					rsp.mu.Unlock()
					if dataID == "" {
						time.Sleep(time.Millisecond)
					}
				}
				if dataID == "" {
					// nothing was sent (the stream is closed for writing already)
					select {
					case p := <-wdone:
						if p != "" {
							fail("%s: Write/Flush panicked: %s", what, p)
						}
					case <-time.After(waitLong):
						stalled(what + ": Write/Flush neither sent a packet nor returned")
						return
					}
					continue
				}
				// the packet in flight stays unanswered for now; whatever the
				// Write sends after it (the rest of its payload, once the first
				// packet is acknowledged) is refused, as a peer that has closed
				// the stream does
				rsp.set("data", "refuse")
				id := fmt.Sprintf("pcw%d", i)
				sv.Feed(`<iq xmlns="` + ns + `" type="set" id="` + id + `" from="` + peerJID.String() + `" to="test@example.net"><close xmlns="http://jabber.org/protocol/ibb" sid="` + psid + `"/></iq>`)
				if !answered(id) {
					stalled(what + ": the peer's <close/>, sent while a Write was waiting for its acknowledgement, was not answered")
					return
				}
				logf("%s -> the peer's <close/> was answered (%s)", what, lastReplyType)
				if lastReplyType == "result" {
					ended = true
				}
				// now the late acknowledgement
				sv.Feed(`<iq xmlns="` + ns + `" type="result" id="` + dataID + `"/>`)
				select {
				case p := <-wdone:
					if p != "" {
						fail("%s: Write/Flush panicked: %s", what, p)
					}
				case <-time.After(waitLong):
					stalled(what + ": the Write/Flush that was waiting for its acknowledgement did not return after the acknowledgement arrived")
					return
				}
				_ = conn.SetDeadline(time.Now().Add(1500 * time.Millisecond))
			case "peerclose":
				if conn == nil {
					continue
				}
				rsp.set("data", st.pol)
				id := fmt.Sprintf("pc%d", i)
				sv.Feed(`<iq xmlns="` + ns + `" type="set" id="` + id + `" from="` + peerJID.String() + `" to="test@example.net"><close xmlns="http://jabber.org/protocol/ibb" sid="` + psid + `"/></iq>`)
				if !answered(id) {
					stalled(what + ": the peer's <close/> was not answered")
					return
				}
				logf("%s -> answered (%s)", what, lastReplyType)
				if lastReplyType == "result" {
					ended = true
				}
			case "close":
				if conn == nil {
					continue
				}
				rsp.set("close", st.pol)
				rsp.set("data", "ack")
				_ = conn.SetDeadline(time.Now().Add(60 * time.Millisecond))
				out, ok := call(what, func() string { return fmt.Sprint("err=", conn.Close()) })
				if !ok {
					return
				}
				// (after a Close that failed, what a later Read does is not defined)
				if out == "err=<nil>" {
					ended = true
				} else {
					conn = nil
				}
			}
			if !sentinel(what) {
				return
			}
		}
	case "muc":
		room := jid.MustParse("room@conference.example.org/me")
		var ch *muc.Channel
		for i, st := range c.steps {
			what := fmt.Sprintf("step %d %s", i, st)
			ctx, cancel := context.WithCancel(context.Background())
			if st.pol == "silent" {
				time.AfterFunc(5*time.Millisecond, cancel)
			}
			rsp.mu.Lock()
			rsp.hook = cancel
			rsp.mu.Unlock()
			called := false
			switch st.op {
			case "join", "rejoin":
				rsp.set("join", st.pol)
				if ch == nil || st.op == "join" && !ch.Joined() {
					called = true
					if _, ok := call(what, func() string {
						c2, err := mc.Join(ctx, room, sv.Session)
						if c2 != nil {
							ch = c2
						}
						return fmt.Sprintf("channel=%v err=%v", c2 != nil, err)
					}); !ok {
						cancel()
						return
					}
				} else if st.op == "rejoin" {
					called = true
					if _, ok := call(what, func() string { return fmt.Sprint("err=", ch.Join(ctx)) }); !ok {
						cancel()
						return
					}
				}
			case "kick":
				// the room removes the occupant unasked (no Leave is waiting)
				cancel()
				if ch == nil || !ch.Joined() {
					continue
				}
				sv.Feed(`<presence xmlns="` + ns + `" type="unavailable" from="` + room.String() + `"><x xmlns="http://jabber.org/protocol/muc#user"><item affiliation="none" role="none"/><status code="110"/><status code="307"/></x></presence>`)
				logf("%s: the room removes the occupant (unavailable self-presence, status 307)", what)
				if !sentinel(what) {
					return
				}
				continue
			case "leave":
				if ch == nil || !ch.Joined() {
					cancel()
					continue
				}
				rsp.set("leave", st.pol)
				called = true
				out, ok := call(what, func() string { return fmt.Sprint("err=", ch.Leave(ctx, "bye")) })
				if !ok {
					cancel()
					return
				}
				if st.pol == "silent" && out == "err=<nil>" {
					fail("%s: Leave returned nil although the room has not said anything about it (neither an unavailable presence nor an error followed the leave presence)", what)
				}
			}
			if st.pol == "error-split" && called {
				// nothing else may be fed before the second piece of the reply is in
				select {
				case <-rsp.split:
				case <-time.After(waitLong):
					ev.Class("inconclusive-timeout")
					cancel()
					return
				}
			}
			if st.pol == "error-split" {
				// a join presence of this or an earlier step that reaches the wire
				// from now on is not answered in pieces any more
				rsp.set("join", "silent")
			}
			// (no element of the peer is left open: whatever is fed next must not
			// land inside a reply whose second piece is still to come)
			for k := 0; rsp.splitting.Load() != 0; k++ {
				if k > 15000 {
					ev.Class("inconclusive-timeout")
					cancel()
					return
				}
				time.Sleep(time.Millisecond)
			}
			if !st.flag || st.pol == "silent" {
				cancel()
			} else {
				defer cancel() // the application keeps the context alive
			}
			if st.n > 0 && st.pol != "silent" {
				which := "join"
				typ := ""
				if st.op == "leave" {
					which, typ = "leave", ` type="unavailable"`
				}
				rsp.mu.Lock()
				lid := rsp.lastID[which]
				rsp.mu.Unlock()
				if lid != "" {
					if st.n == 1 {
						sv.Feed(`<presence xmlns="` + ns + `" type="error" id="` + lid + `" from="` + room.String() + `"><x xmlns="http://jabber.org/protocol/muc"/><error type="cancel"><service-unavailable xmlns="urn:ietf:params:xml:ns:xmpp-stanzas"/></error></presence>`)
					} else {
						sv.Feed(`<presence xmlns="` + ns + `"` + typ + ` id="` + lid + `" from="` + room.String() + `"><x xmlns="http://jabber.org/protocol/muc#user"><item affiliation="member" role="participant"/><status code="110"/></x></presence>`)
					}
					logf("%s: the room then sent a late reply (kind %d) with the id of that request", what, st.n)
				}
			}
			if !sentinel(what) {
				return
			}
		}
	}
	cleanup()
	if p := sv.Panic(); p != "" {
		fail("%s", p)
	}
}

func TestC06Helpers(t *testing.T) {
	ev.Check(t, 300, 3000, func(rt *rapid.T) {
		c := genHelpers(rt)
		classes := []string{"helpers-" + c.kind}
		nt := false
		for _, s := range c.steps {
			classes = append(classes, "helper-"+c.kind+"-"+s.op)
			if s.pol == "silent" || s.pol == "error" || strings.HasPrefix(s.pol, "refuse") || s.op == "peerclose" {
				nt = true
			}
		}
		ev.Case(nt || len(c.steps) >= 3, c.String(), classes...)
		checkHelpers(rt, c)
	})
}
