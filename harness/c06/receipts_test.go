package c06

import (
	"bytes"
	"context"
	"errors"
	"encoding/xml"
	"fmt"
	"strconv"
	"strings"
	"sync"
	"testing"
	"time"

	"pgregory.net/rapid"

	"mellium.im/xmpp"
	"mellium.im/xmpp/mux"
	"mellium.im/xmpp/receipts"
	"mellium.im/xmpp/stanza"
	"mellium.im/xmpp/verifharness/internal/ev"
	"mellium.im/xmpp/verifharness/internal/wire"
	"mellium.im/xmpp/verifharness/internal/xt"
)

type rcall struct {
	k    int
	scen string // receipt late race never dup unknown heldfail heldcancel heldok
	ctx  *obsCtx
	// held*: the call is started at its turn; the transport holds the write of
	// its message (the peer sees it) until release is sent
	held    chan struct{}
	release chan error
	err  error
	done chan struct{}
	pan  string
}

func (c *rcall) id() string { return "m" + strconv.Itoa(c.k) }

type rcase struct {
	calls []*rcall
	ord   []int
}

func (rc rcase) String() string {
	var sb strings.Builder
	fmt.Fprintf(&sb, "receipts answer-order=%v", rc.ord)
	for _, c := range rc.calls {
		fmt.Fprintf(&sb, "\n  msg %s scenario=%s", c.id(), c.scen)
	}
	return sb.String()
}

func (rc rcase) results() string {
	var sb strings.Builder
	for _, c := range rc.calls {
		fmt.Fprintf(&sb, "\n  msg %s -> err=%v", c.id(), c.err)
	}
	return sb.String()
}

// TestC06Receipts: receipts.Handler.SendMessageElement blocks until the
// receipt for its message arrives or its context ends; one outcome per call,
// no panic or stall of the serve loop, whatever the order of receipts,
// duplicates, unknown ids and cancellations.
func TestC06Receipts(t *testing.T) {
	ev.Check(t, 1200, 8000, func(rt *rapid.T) {
		n := rapid.IntRange(1, 5).Draw(rt, "ncalls")
		rc := rcase{}
		races := 0
		for k := 0; k < n; k++ {
			c := &rcall{k: k, scen: rapid.SampledFrom([]string{"receipt", "receipt", "late", "race", "race", "never", "dup", "unknown", "heldfail", "heldcancel", "heldok"}).Draw(rt, "scen")}
			if c.scen == "race" {
				races++
			}
			rc.calls = append(rc.calls, c)
		}
		rc.ord = rapid.Permutation(seq(n)).Draw(rt, "order")
		classes := []string{}
		for _, c := range rc.calls {
			classes = append(classes, "receipts-"+c.scen)
		}
		ev.Case(n >= 2 || races > 0, rc.String(), classes...)
		checkReceipts(rt, rc)
	})
}

func checkReceipts(t interface {
	Helper()
	Fatalf(string, ...any)
}, rc rcase) {
	t.Helper()
	fail := func(format string, args ...any) {
		t.Helper()
		ev.Failf(t, "%s\nresults:%s\n%s", rc.String(), rc.results(), fmt.Sprintf(format, args...))
	}
	opts := wire.SessionOpts{}
	ns := opts.NS()
	var umu sync.Mutex
	unhandled := map[string]int{}
	h := &receipts.Handler{Unhandled: func(id string) {
		umu.Lock()
		unhandled[id]++
		umu.Unlock()
	}}
	sv, err := wire.Serve(opts, mux.New(ns, receipts.Handle(h)))
	if err != nil {
		t.Fatalf("harness: %v", err)
	}
	start := func(c *rcall) {
		go func() {
			defer close(c.done)
			c.pan = ev.Guard(func() {
				if c.k%2 == 1 {
					// the variant that takes the whole message as a token reader
					msg := xt.El(ns, "message", []xml.Attr{xt.A("id", c.id()), xt.A("type", "chat")}, xt.El(ns, "body", nil, xt.Tx("hi")))
					c.err = h.SendMessage(c.ctx, sv.Session, msg.Reader())
					return
				}
				c.err = h.SendMessageElement(c.ctx, sv.Session, xt.El(ns, "body", nil, xt.Tx("hi")).Reader(),
					stanza.Message{ID: c.id(), Type: stanza.ChatMessage})
			})
		}()
	}
	// the transport holds the write that carries the message of a held call:
	// the peer sees the message (and acknowledges it) while the call is still
	// inside its transmit step
	sv.Conn.HoldAfterWrite = func(n int, p []byte) error {
		for _, c := range rc.calls {
			if c.held != nil && bytes.Contains(p, []byte(`id="`+c.id()+`"`)) {
				select {
				case <-c.held:
				default:
					close(c.held)
					return <-c.release
				}
			}
		}
		return nil
	}
	for i, c := range rc.calls {
		c.ctx = newObsCtx(i%2 == 1)
		c.done = make(chan struct{})
		if strings.HasPrefix(c.scen, "held") {
			c.held = make(chan struct{})
			c.release = make(chan error, 1)
			continue // started at its turn
		}
		start(c)
	}
	unhandledIDs := func() []string {
		umu.Lock()
		defer umu.Unlock()
		var out []string
		for id := range unhandled {
			out = append(out, id)
		}
		return out
	}
	receipt := func(id string) {
		sv.Feed(`<message xmlns="` + ns + `" type="chat" from="juliet@example.com/b" id="x` + id + `"><received xmlns="urn:xmpp:receipts" id="` + id + `"/></message>`)
	}
	onWire := func(c *rcall) bool {
		return sv.WaitFor(func(els []*xt.Node) bool {
			for _, e := range els {
				if id, _ := e.Get("id"); id == c.id() {
					return true
				}
			}
			return false
		}, 5*time.Second)
	}
	waitReturn := func(c *rcall) bool {
		select {
		case <-c.done:
			return true
		case <-time.After(waitLong):
			return false
		}
	}
	sentinels := 0
	sync := func() bool {
		sentinels++
		sid := "rsentinel" + strconv.Itoa(sentinels)
		sv.Feed(`<iq xmlns="` + ns + `" type="get" id="` + sid + `"><ping xmlns="urn:xmpp:ping"/></iq>`)
		return sv.WaitFor(func(els []*xt.Node) bool {
			for _, e := range els {
				if id, _ := e.Get("id"); id == sid {
					return true
				}
			}
			return false
		}, waitLong)
	}
	stall := func(what string) {
		t.Helper()
		if p := sv.Panic(); p != "" {
			fail("%s", p)
		}
		select {
		case <-sv.Done():
			// Serve has returned: not a stall.  The only way it ends early in this
			// harness is a failed write (see "poisoned" below) or a panic.
			if p := sv.Panic(); p != "" {
				fail("%s", p)
			}
			ev.Class("inconclusive-serve-ended-early")
			ev.Note("Serve ended early with: %v", sv.Err())
			return
		default:
		}
		if b := wire.BlockedMatching("handleInputStream"); len(b) > 0 {
			fail("%s; the serve loop is parked inside the library:\n%s", what, strings.Join(b, "\n\n"))
		}
		ev.Class("inconclusive-timeout")
	}
	cleanup := func() {
		for _, c := range rc.calls {
			c.ctx.cancel()
			if c.release != nil {
				select {
				case c.release <- nil:
				default:
				}
			}
		}
		sv.Shutdown(3 * time.Second)
	}
	// unanswered: the call has not returned although its receipt was fed after
	// the message was seen on the wire.  If the serve loop demonstrably processed
	// the receipt (a sentinel fed after it is answered) while the call's context
	// is alive, that is not a matter of timing: the receipt did not reach the
	// call that waits for it.
	unanswered := func(c *rcall) {
		t.Helper()
		if sync() {
			fail("call %s was waiting (its message was on the wire, its context is alive) and the serve loop has processed its receipt, but the call did not return within %v; receipts reported as unhandled: %v", c.id(), waitLong, unhandledIDs())
		}
		stall("call " + c.id() + " did not return after its receipt")
	}
	poisoned := false
turns:
	for _, k := range rc.ord {
		c := rc.calls[k]
		if c.held != nil {
			start(c)
			select {
			case <-c.held:
			case <-time.After(5 * time.Second):
				c.release <- nil
				stall("message " + c.id() + " was never written")
				cleanup()
				return
			}
		}
		if !onWire(c) {
			stall("message " + c.id() + " never reached the wire")
			cleanup()
			return
		}
		switch c.scen {
		case "receipt":
			receipt(c.id())
			if !waitReturn(c) {
				unanswered(c)
				cleanup()
				return
			}
		case "dup":
			receipt(c.id())
			if !waitReturn(c) {
				unanswered(c)
				cleanup()
				return
			}
			receipt(c.id())
		case "unknown":
			receipt("nobody-" + c.id())
			receipt(c.id())
			if !waitReturn(c) {
				unanswered(c)
				cleanup()
				return
			}
		case "late":
			c.ctx.cancel()
			if !waitReturn(c) {
				stall("call " + c.id() + " did not return after cancellation")
				cleanup()
				return
			}
			receipt(c.id())
		case "race":
			// cancellation and receipt at the same moment
			go c.ctx.cancel()
			receipt(c.id())
			if !waitReturn(c) {
				stall("call " + c.id() + " did not return (cancellation racing its receipt)")
				cleanup()
				return
			}
		case "heldfail", "heldcancel", "heldok":
			// acknowledged twice while the call is still transmitting; then the
			// transmit step fails / the context ends / all is well
			umu.Lock()
			before := unhandled[c.id()]
			umu.Unlock()
			receipt(c.id())
			receipt(c.id())
			// until the serve loop has dealt with both (it waits for more input), or
			// is stuck on them
			for i := 0; i < 40; i++ {
				if sv.Conn.PendingInput() == 0 && wire.ServeIdle() {
					break
				}
				time.Sleep(10 * time.Millisecond)
			}
			_ = before
			switch c.scen {
			case "heldfail":
				c.release <- errors.New("verif: the transport reports a failure for this write")
			case "heldcancel":
				c.ctx.cancel()
				c.release <- nil
			default:
				c.release <- nil
			}
			if !waitReturn(c) {
				stall("call " + c.id() + " did not return (acknowledged while still transmitting, " + c.scen + ")")
				cleanup()
				return
			}
			// the serve loop must have got past the two acknowledgements, whatever
			// became of the call (no reply is needed for this to be visible)
			alive := false
			for i := 0; i < 300 && !alive; i++ {
				select {
				case <-sv.Done():
					alive = true
				default:
					alive = sv.Conn.PendingInput() == 0 && wire.ServeIdle()
				}
				if !alive {
					time.Sleep(10 * time.Millisecond)
				}
			}
			if !alive {
				if b := wire.BlockedMatching("handleInputStream"); len(b) > 0 {
					time.Sleep(300 * time.Millisecond)
					if b2 := wire.BlockedMatching("handleInputStream"); len(b2) > 0 {
						fail("message %s was acknowledged twice while its call was still transmitting (%s); the call has returned (%v) but the serve loop is parked inside the library:\n%s", c.id(), c.scen, c.err, strings.Join(b2, "\n\n"))
					}
				}
				ev.Class("inconclusive-timeout")
			}
			if c.scen == "heldfail" {
				// the failed write may have left the sending direction unusable:
				// nothing after it can be judged
				poisoned = true
				break turns
			}
		case "never":
		}
		if !sync() {
			stall("the serve loop stopped processing input after msg " + c.id())
			cleanup()
			return
		}
	}
	if poisoned {
		cleanup()
		if p := sv.Panic(); p != "" {
			fail("%s", p)
		}
		return
	}
	for _, c := range rc.calls {
		if c.scen == "never" {
			c.ctx.cancel()
			if !waitReturn(c) {
				stall("call " + c.id() + " did not return after cancellation")
				cleanup()
				return
			}
		}
	}
	if !sync() {
		stall("the serve loop did not process the final sentinel")
		cleanup()
		return
	}
	cleanup()
	if p := sv.Panic(); p != "" {
		fail("%s", p)
	}
	for _, c := range rc.calls {
		if c.pan != "" {
			fail("call %s panicked: %s", c.id(), c.pan)
		}
		switch c.scen {
		case "receipt", "dup", "unknown":
			if c.err != nil {
				fail("call %s got its receipt while waiting but returned %v", c.id(), c.err)
			}
		case "late", "never":
			if c.err != context.Canceled {
				fail("call %s must end with its context's error, got %v", c.id(), c.err)
			}
		case "race", "heldcancel":
			if c.err != nil && c.err != context.Canceled {
				fail("call %s (racing) returned %v", c.id(), c.err)
			}
		case "heldok":
			if c.err != nil {
				fail("call %s was acknowledged while it was still transmitting, the transmission succeeded, but it returned %v", c.id(), c.err)
			}
		}
	}
	_ = xml.Name{}
	_ = xmpp.Ready
}
