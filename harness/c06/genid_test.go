package c06

// Requests whose start element carries no id of the caller's choosing: the id
// attribute is absent, or present but empty (what marshalling a stanza struct
// with an unset ID gives).  The library makes an id up; whatever id is on the
// wire is the one the peer answers, and that answer is the caller's: the call
// returns with it (not with its context's error) and the handler never sees it.

import (
	"context"
	"encoding/xml"
	"fmt"
	"strings"
	"sync"
	"testing"
	"time"

	"pgregory.net/rapid"

	"mellium.im/xmlstream"
	"mellium.im/xmpp"
	"mellium.im/xmpp/stanza"
	"mellium.im/xmpp/verifharness/internal/ev"
	"mellium.im/xmpp/verifharness/internal/wire"
	"mellium.im/xmpp/verifharness/internal/xt"
)

type genIDReq struct {
	entry  string // SendIQ EncodeIQ SendIQElement SendMessage EncodeMessage SendMessageElement SendPresence EncodePresence SendPresenceElement
	kind   string
	idForm string // absent empty
	nsForm string

	done   chan struct{}
	err    error
	got    bool
	gotID  string
	panic  string
	wireID string
}

type genIDCase struct {
	s2s  bool
	reqs []*genIDReq
	// the token-form requests of one kind are built from one attribute slice
	// with spare capacity that the application shares between its goroutines
	// (it only ever reads it)
	sharedAttrs bool
	shared      map[string][]xml.Attr
}

func (c genIDCase) String() string {
	var sb strings.Builder
	fmt.Fprintf(&sb, "s2s=%v start elements built from one shared attribute slice (spare capacity)=%v", c.s2s, c.sharedAttrs)
	for i, r := range c.reqs {
		fmt.Fprintf(&sb, "\n  req %d: %s id-attribute=%s ns=%q -> err=%v response=%v (id %q); id on the wire %q", i, r.entry, r.idForm, r.nsForm, r.err, r.got, r.gotID, r.wireID)
	}
	return sb.String()
}

// eval is a stanza-shaped value whose id attribute is always marshalled
// (as the stanza structs' are).
type evalID struct {
	XMLName xml.Name
	ID      string `xml:"id,attr"`
	Type    string `xml:"type,attr"`
	Q       struct {
		XMLName xml.Name `xml:"urn:verif:c06 q"`
		N       string   `xml:"n,attr"`
	}
}

type evalNoID struct {
	XMLName xml.Name
	Type    string `xml:"type,attr"`
	Q       struct {
		XMLName xml.Name `xml:"urn:verif:c06 q"`
		N       string   `xml:"n,attr"`
	}
}

func genGenIDCase(t *rapid.T) genIDCase {
	c := genIDCase{s2s: rapid.Bool().Draw(t, "s2s")}
	c.sharedAttrs = rapid.Bool().Draw(t, "sharedAttrs")
	c.shared = map[string][]xml.Attr{}
	for kind, typ := range map[string]string{"iq": "get", "message": "chat", "presence": "subscribe"} {
		sh := make([]xml.Attr, 1, 8)
		sh[0] = xt.A("type", typ)
		c.shared[kind] = sh
	}
	n := rapid.IntRange(1, 4).Draw(t, "nreqs")
	for i := 0; i < n; i++ {
		r := &genIDReq{done: make(chan struct{})}
		r.kind = rapid.SampledFrom([]string{"iq", "message", "presence", "presence"}).Draw(t, "kind")
		name := map[string]string{"iq": "IQ", "message": "Message", "presence": "Presence"}[r.kind]
		r.entry = fmt.Sprintf(rapid.SampledFrom([]string{"Send%s", "Encode%s", "Send%sElement"}).Draw(t, "entry"), name)
		r.idForm = rapid.SampledFrom([]string{"absent", "empty"}).Draw(t, "idForm")
		r.nsForm = rapid.SampledFrom([]string{"", "stream-namespace"}).Draw(t, "nsForm")
		if strings.HasSuffix(r.entry, "Element") {
			r.idForm = "empty" // the stanza struct's unset ID
		}
		c.reqs = append(c.reqs, r)
	}
	return c
}

func (r *genIDReq) run(ctx context.Context, s *xmpp.Session, ns string, k int, shared []xml.Attr) {
	defer close(r.done)
	space := ""
	if r.nsForm != "" {
		space = ns
	}
	typ := map[string]string{"iq": "get", "message": "chat", "presence": "subscribe"}[r.kind]
	marker := fmt.Sprintf("g%d", k)
	attrs := []xml.Attr{xt.A("type", typ)}
	if r.idForm == "empty" {
		attrs = append([]xml.Attr{xt.A("id", "")}, attrs...)
	}
	el := xt.El(space, r.kind, attrs, xt.El("urn:verif:c06", "q", []xml.Attr{xt.A("n", marker)}))
	pay := xt.El("urn:verif:c06", "q", []xml.Attr{xt.A("n", marker)})
	var val interface{}
	if r.idForm == "empty" {
		v := evalID{XMLName: xml.Name{Space: space, Local: r.kind}, Type: typ}
		v.Q.N = marker
		val = v
	} else {
		v := evalNoID{XMLName: xml.Name{Space: space, Local: r.kind}, Type: typ}
		v.Q.N = marker
		val = v
	}
	tokens := func() xml.TokenReader {
		if shared != nil && r.idForm == "absent" {
			return xmlstream.Wrap(pay.Reader(), xml.StartElement{Name: xml.Name{Space: space, Local: r.kind}, Attr: shared})
		}
		return el.Reader()
	}
	var resp xmlstream.TokenReadCloser
	r.panic = ev.Guard(func() {
		switch r.entry {
		case "SendIQ":
			resp, r.err = s.SendIQ(ctx, tokens())
		case "EncodeIQ":
			resp, r.err = s.EncodeIQ(ctx, val)
		case "SendIQElement":
			resp, r.err = s.SendIQElement(ctx, pay.Reader(), stanza.IQ{Type: stanza.GetIQ})
		case "SendMessage":
			resp, r.err = s.SendMessage(ctx, tokens())
		case "EncodeMessage":
			resp, r.err = s.EncodeMessage(ctx, val)
		case "SendMessageElement":
			resp, r.err = s.SendMessageElement(ctx, pay.Reader(), stanza.Message{Type: stanza.ChatMessage})
		case "SendPresence":
			resp, r.err = s.SendPresence(ctx, tokens())
		case "EncodePresence":
			resp, r.err = s.EncodePresence(ctx, val)
		case "SendPresenceElement":
			resp, r.err = s.SendPresenceElement(ctx, pay.Reader(), stanza.Presence{Type: stanza.SubscribePresence})
		}
		if resp != nil {
			r.got = true
			if tok, err := resp.Token(); err == nil {
				if st, ok := tok.(xml.StartElement); ok {
					for _, a := range st.Attr {
						if a.Name.Space == "" && a.Name.Local == "id" {
							r.gotID = a.Value
						}
					}
				}
			}
			_ = resp.Close()
		}
	})
}

func hasMarker(e *xt.Node, marker string) bool {
	for _, c := range e.Children {
		if c.IsText() {
			continue
		}
		if n, _ := c.Get("n"); n == marker && c.Name.Local == "q" {
			return true
		}
	}
	return false
}

func checkGenID(t interface {
	Helper()
	Fatalf(string, ...any)
}, c genIDCase) {
	t.Helper()
	opts := wire.SessionOpts{}
	if c.s2s {
		opts.State |= xmpp.S2S
	}
	ns := opts.NS()
	var hmu sync.Mutex
	var handled []string
	sv, err := wire.Serve(opts, xmpp.HandlerFunc(func(tr xmlstream.TokenReadEncoder, start *xml.StartElement) error {
		for _, a := range start.Attr {
			if a.Name.Local == "verif-answer" {
				hmu.Lock()
				handled = append(handled, a.Value)
				hmu.Unlock()
			}
		}
		return nil
	}))
	if err != nil {
		t.Fatalf("harness: %v", err)
	}
	defer func() {
		sv.Shutdown(3 * time.Second)
		sv.Conn.Close()
	}()
	fail := func(format string, args ...any) {
		t.Helper()
		hmu.Lock()
		h := append([]string(nil), handled...)
		hmu.Unlock()
		ev.Failf(t, "%s\nanswers that reached the handler: %v\noutput: %q\n%s", c.String(), h, sv.Conn.Output(), fmt.Sprintf(format, args...))
	}
	ctx, cancel := context.WithCancel(context.Background())
	defer cancel()
	for k, r := range c.reqs {
		var shared []xml.Attr
		if c.sharedAttrs {
			shared = c.shared[r.kind]
		}
		go r.run(ctx, sv.Session, ns, k, shared)
	}
	// the peer answers every request with the id it finds on the wire
	for k, r := range c.reqs {
		marker := fmt.Sprintf("g%d", k)
		var el *xt.Node
		ok := sv.WaitFor(func(els []*xt.Node) bool {
			for _, e := range els {
				if e.Name.Local == r.kind && hasMarker(e, marker) {
					el = e
					return true
				}
			}
			return false
		}, 5*time.Second)
		if !ok {
			select {
			case <-r.done:
				if r.panic != "" {
					fail("req %d panicked: %s", k, r.panic)
				}
				fail("req %d returned (%v) without its stanza being on the wire", k, r.err)
			default:
			}
			ev.Class("inconclusive-timeout")
			return
		}
		r.wireID, _ = el.Get("id")
		if r.wireID == "" {
			fail("req %d: the stanza on the wire carries no id: a tracked request cannot be answered", k)
		}
		var idb strings.Builder
		_ = xml.EscapeText(&idb, []byte(r.wireID))
		typ := "error"
		if r.kind == "iq" && k%2 == 0 {
			typ = "result"
		}
		sv.Feed(`<` + r.kind + ` xmlns="` + ns + `" type="` + typ + `" id="` + idb.String() + `" verif-answer="` + marker + `"/>`)
	}
	// a sentinel: everything fed has been dealt with once it is answered
	sv.Feed(`<iq xmlns="` + ns + `" type="get" id="genid-sentinel"><ping xmlns="urn:xmpp:ping"/></iq>`)
	synced := sv.WaitFor(func(els []*xt.Node) bool {
		for _, e := range els {
			if id, _ := e.Get("id"); id == "genid-sentinel" {
				return true
			}
		}
		return false
	}, 5*time.Second)
	for k, r := range c.reqs {
		select {
		case <-r.done:
		case <-time.After(2 * time.Second):
			if !synced {
				ev.Class("inconclusive-timeout")
				return
			}
			hmu.Lock()
			toHandler := false
			for _, h := range handled {
				if h == fmt.Sprintf("g%d", k) {
					toHandler = true
				}
			}
			hmu.Unlock()
			if toHandler {
				fail("req %d (%s, id attribute %s): the stanza went out with id %q, the peer's answer with that id was given to the handler and the call is still waiting", k, r.entry, r.idForm, r.wireID)
			}
			fail("req %d (%s, id attribute %s): the peer answered the id on the wire (%q) and the serve loop has moved on, but the call has not returned", k, r.entry, r.idForm, r.wireID)
		}
		if r.panic != "" {
			fail("req %d panicked: %s", k, r.panic)
		}
		if r.err != nil || !r.got {
			fail("req %d returned err=%v response=%v although the peer answered the id on the wire", k, r.err, r.got)
		}
		if r.gotID != r.wireID {
			fail("req %d: its stanza has id %q on the wire, the response it was handed has id %q", k, r.wireID, r.gotID)
		}
	}
	hmu.Lock()
	defer hmu.Unlock()
	if len(handled) > 0 {
		fail("answers %v reached the handler although their callers were waiting", handled)
	}
}

func TestC06GeneratedIDs(t *testing.T) {
	ev.Check(t, 1500, 15000, func(rt *rapid.T) {
		c := genGenIDCase(rt)
		classes := []string{"generated-id"}
		if c.sharedAttrs {
			classes = append(classes, "genid-start-elements-share-one-attribute-slice")
		}
		for _, r := range c.reqs {
			classes = append(classes, "genid-"+r.entry+"-id-"+r.idForm)
		}
		ev.Case(true, fmt.Sprintf("genid|%v|%v|%d|%s", c.s2s, c.sharedAttrs, len(c.reqs), strings.Join(classes, ",")), classes...)
		checkGenID(rt, c)
	})
}
