// C06 — Every correlated wait ends exactly once with its own reply or its context error.
package c06

import (
	"bytes"
	"context"
	"encoding/xml"
	"errors"
	"fmt"
	"io"
	"runtime"
	"strconv"
	"strings"
	"sync"
	"sync/atomic"
	"testing"
	"time"

	"pgregory.net/rapid"

	"mellium.im/xmlstream"
	"mellium.im/xmpp"
	"mellium.im/xmpp/stanza"
	"mellium.im/xmpp/verifharness/internal/ev"
	"mellium.im/xmpp/verifharness/internal/wire"
	"mellium.im/xmpp/verifharness/internal/xt"
)

func TestMain(m *testing.M) { ev.Main(m, "C06") }

const waitLong = 15 * time.Second

// ---------------------------------------------------------------- observable context

// obsCtx is a context whose Done() calls are events: when armed it cancels
// itself the moment a given library function looks at it, which places the
// cancellation inside the hand-off windows without any source hook.
type obsCtx struct {
	context.Context
	cancel context.CancelFunc
	arm    atomic.Value // string: substring of the calling function that triggers the cancellation
	fired  atomic.Bool
}

// errAppReason is what the application records as its reason for giving up
// (context.WithCancelCause): the context's error stays context.Canceled.
var errAppReason = errors.New("verif: the application's own reason for giving up")

func newObsCtx(withCause bool) *obsCtx {
	c, cancel := context.WithCancel(context.Background())
	if withCause {
		cc, cancelCause := context.WithCancelCause(context.Background())
		c, cancel = cc, func() { cancelCause(errAppReason) }
	}
	o := &obsCtx{Context: c, cancel: cancel}
	o.arm.Store("")
	return o
}

func (o *obsCtx) Done() <-chan struct{} {
	if want := o.arm.Load().(string); want != "" && !o.fired.Load() {
		pcs := make([]uintptr, 6)
		n := runtime.Callers(2, pcs)
		frames := runtime.CallersFrames(pcs[:n])
		for {
			f, more := frames.Next()
			if strings.HasSuffix(f.Function, want) {
				if o.fired.CompareAndSwap(false, true) {
					o.cancel()
				}
				break
			}
			if !more {
				break
			}
		}
	}
	return o.Context.Done()
}

// ---------------------------------------------------------------- case model

type request struct {
	k     int
	entry string // SendIQ SendIQElement EncodeIQ EncodeIQElement UnmarshalIQ UnmarshalIQElement IterIQ IterIQElement SendMessage SendMessageElement EncodeMessage SendPresence SendPresenceElement EncodePresence
	kind  string // iq message presence
	scen  string // normal twice wrongkind unknownid late never handoff reqwait pre afterdelivery
	reply string // result error (iq); always error for message/presence
	read  string // none some all (how much of the response is read before Close)
	hold  bool   // keep the response open while another stanza queues up behind it
	// while the response is held (handed over, partly read, not closed) the
	// caller's context ends: the response stays the caller's until it closes it
	cancelHeld bool
	early      bool   // racing scenarios: feed the reply as soon as the request is on the wire
	nsForm     string // "" or stream namespace on the request element

	// results
	ctx       *obsCtx
	returned  atomic.Bool
	err       error
	gotResp   bool
	gotSerial string // serial of the reply the caller saw ("" if none / not identifiable)
	gotName   string
	gotID     string
	gotErrVal bool // Unmarshal/Iter returned a stanza.Error
	panicked  string
	done      chan struct{}
	// the response this request obtained and has closed (kept for a second,
	// deferred-style Close later on)
	closedResp io.Closer
	release    chan struct{} // closed by the harness to let a holding caller close its response
	holding    chan struct{} // closed by the caller once it has the response and holds it
	holdOnce   sync.Once
	readToks   []string // what the caller read after the start element (read == "all")
	readErr    error    // the error that ended that reading
	iterItems  int      // Iter entries: children iterated
}

func (r *request) id() string { return "r" + strconv.Itoa(r.k) }

type tcase struct {
	s2s bool
	// "" ready-made session; "initiated" / "received": established through the
	// library's default negotiator; layered: over a plain io.ReadWriter a
	// negotiation step installed on top of the transport
	negotiated string
	// the session speaks the content namespace of external components
	// (jabber:component:accept), as the sessions of the component package do
	component bool
	// requesters close the responses they are done with a second time later on
	closeAgain bool
	// scenario "late", IQ requests: while the late reply is in the handler the
	// application asks again under the same id; the reply to that second
	// request belongs to its caller
	retryLate bool
	layered   bool
	reqs      []*request
	ord       []int // order in which the peer deals with the requests
	// at the end: the application closes the output, a request of this kind
	// ("" none) then fails to be sent, and a reply with its id arrives
	tailSendFails string
}

var iqEntries = []string{"SendIQ", "SendIQElement", "EncodeIQ", "EncodeIQElement", "UnmarshalIQ", "UnmarshalIQElement", "IterIQ", "IterIQElement"}
var msgEntries = []string{"SendMessage", "SendMessageElement", "EncodeMessage"}
var presEntries = []string{"SendPresence", "SendPresenceElement", "EncodePresence"}
var scenarios = []string{"normal", "normal", "twice", "wrongkind", "unknownid", "late", "never", "handoff", "handoff", "reqwait", "pre", "afterdelivery", "collide"}

func genCase(t *rapid.T) tcase {
	tc := tcase{s2s: rapid.Bool().Draw(t, "s2s")}
	switch rapid.IntRange(0, 5).Draw(t, "sessionKind") {
	case 0:
		tc.negotiated = "initiated"
	case 1:
		tc.negotiated = "received"
	case 2:
		tc.layered = true
	case 3:
		tc.component, tc.s2s = true, false
	}
	n := rapid.IntRange(1, 6).Draw(t, "nreq")
	for k := 0; k < n; k++ {
		r := &request{k: k}
		switch rapid.IntRange(0, 4).Draw(t, "kind") {
		case 0:
			r.kind, r.entry = "message", rapid.SampledFrom(msgEntries).Draw(t, "entry")
		case 1:
			r.kind, r.entry = "presence", rapid.SampledFrom(presEntries).Draw(t, "entry")
		default:
			r.kind, r.entry = "iq", rapid.SampledFrom(iqEntries).Draw(t, "entry")
		}
		if tc.component && r.kind != "iq" {
			// (the message / presence entry points only accept stanzas of the
			// client and server namespaces; on a component session requests are IQs)
			r.kind, r.entry = "iq", rapid.SampledFrom(iqEntries).Draw(t, "entryC")
		}
		r.scen = rapid.SampledFrom(scenarios).Draw(t, "scenario")
		r.reply = "error"
		if r.kind == "iq" {
			r.reply = rapid.SampledFrom([]string{"result", "result", "error"}).Draw(t, "reply")
		}
		r.read = rapid.SampledFrom([]string{"none", "some", "all"}).Draw(t, "read")
		r.hold = rapid.IntRange(0, 3).Draw(t, "hold") == 0
		r.cancelHeld = r.hold && rapid.Bool().Draw(t, "cancelHeld")
		r.early = rapid.Bool().Draw(t, "early")
		if rapid.Bool().Draw(t, "nsform") && !tc.component {
			// (on a component session requests are handed over with unqualified
			// names: the entry points recognise only the client and server
			// namespaces in qualified ones)
			r.nsForm = "ns"
		}
		tc.reqs = append(tc.reqs, r)
	}
	tc.closeAgain = rapid.Bool().Draw(t, "closeAgain")
	tc.retryLate = rapid.Bool().Draw(t, "retryLate")
	tc.ord = rapid.Permutation(seq(n)).Draw(t, "order")
	if rapid.IntRange(0, 2).Draw(t, "tail") == 0 {
		tc.tailSendFails = rapid.SampledFrom([]string{"iq", "message", "presence"}).Draw(t, "tailKind")
		if tc.component {
			tc.tailSendFails = "iq"
		}
	}
	return tc
}

func seq(n int) []int {
	s := make([]int, n)
	for i := range s {
		s[i] = i
	}
	return s
}

func (tc tcase) String() string {
	var sb strings.Builder
	fmt.Fprintf(&sb, "retry-under-the-same-id-while-a-late-reply-is-handled=%v second-close-of-finished-responses=%v component-namespace=%v s2s=%v session=%q layered=%v answer-order=%v then-Close-and-a-failing-%q-request=%v", tc.retryLate, tc.closeAgain, tc.component, tc.s2s, tc.negotiated, tc.layered, tc.ord, tc.tailSendFails, tc.tailSendFails != "")
	for _, r := range tc.reqs {
		fmt.Fprintf(&sb, "\n  req %s: %s scenario=%s reply=%s read=%s hold=%v context-ends-while-held=%v early=%v ns=%q", r.id(), r.entry, r.scen, r.reply, r.read, r.hold, r.cancelHeld, r.early, r.nsForm)
	}
	return sb.String()
}

func (tc tcase) results() string {
	var sb strings.Builder
	for _, r := range tc.reqs {
		fmt.Fprintf(&sb, "\n  req %s: returned=%v err=%v resp=%v serial=%q name=%s id=%q stanzaErr=%v read=%v (ended by %v) iterated=%d", r.id(), r.returned.Load(), r.err, r.gotResp, r.gotSerial, r.gotName, r.gotID, r.gotErrVal, r.readToks, r.readErr, r.iterItems)
	}
	return sb.String()
}

// ---------------------------------------------------------------- caller side

type pval struct {
	XMLName xml.Name `xml:"urn:verif:c06 q"`
	N       string   `xml:"n,attr"`
	P       []struct {
		N string `xml:"n,attr"`
	} `xml:"p"`
}

type sreq struct {
	XMLName xml.Name
	ID      string `xml:"id,attr"`
	Type    string `xml:"type,attr,omitempty"`
	Q       struct {
		XMLName xml.Name `xml:"urn:verif:c06 q"`
	}
}

func (r *request) run(s *xmpp.Session, ns string) {
	defer close(r.done)
	space := ""
	if r.nsForm != "" {
		space = ns
	}
	id := r.id()
	typ := "get"
	switch r.kind {
	case "message":
		typ = "chat"
	case "presence":
		typ = "subscribe"
	}
	el := xt.El(space, r.kind, []xml.Attr{xt.A("id", id), xt.A("type", typ)}, xt.El("urn:verif:c06", "q", nil))
	pay := xt.El("urn:verif:c06", "q", nil)
	sv := sreq{XMLName: xml.Name{Space: space, Local: r.kind}, ID: id, Type: typ}
	var resp xmlstream.TokenReadCloser
	var ctx context.Context = r.ctx
	r.panicked = ev.Guard(func() {
		switch r.entry {
		case "SendIQ":
			resp, r.err = s.SendIQ(ctx, el.Reader())
		case "SendIQElement":
			resp, r.err = s.SendIQElement(ctx, pay.Reader(), stanza.IQ{ID: id, Type: stanza.GetIQ})
		case "EncodeIQ":
			resp, r.err = s.EncodeIQ(ctx, sv)
		case "EncodeIQElement":
			resp, r.err = s.EncodeIQElement(ctx, pval{}, stanza.IQ{ID: id, Type: stanza.SetIQ})
		case "SendMessage":
			resp, r.err = s.SendMessage(ctx, el.Reader())
		case "SendMessageElement":
			resp, r.err = s.SendMessageElement(ctx, pay.Reader(), stanza.Message{ID: id, Type: stanza.ChatMessage})
		case "EncodeMessage":
			resp, r.err = s.EncodeMessage(ctx, sv)
		case "SendPresence":
			resp, r.err = s.SendPresence(ctx, el.Reader())
		case "SendPresenceElement":
			resp, r.err = s.SendPresenceElement(ctx, pay.Reader(), stanza.Presence{ID: id, Type: stanza.SubscribePresence})
		case "EncodePresence":
			resp, r.err = s.EncodePresence(ctx, sv)
		case "UnmarshalIQ", "UnmarshalIQElement":
			var v pval
			if r.entry == "UnmarshalIQ" {
				r.err = s.UnmarshalIQ(ctx, el.Reader(), &v)
			} else {
				r.err = s.UnmarshalIQElement(ctx, pay.Reader(), stanza.IQ{ID: id, Type: stanza.GetIQ}, &v)
			}
			var se stanza.Error
			switch {
			case r.err == nil:
				r.gotResp, r.gotSerial, r.gotName, r.gotID = true, v.N, "iq", id
			case errors.As(r.err, &se):
				r.gotResp, r.gotErrVal, r.gotName, r.gotID = true, true, "iq", id
			}
		case "IterIQ", "IterIQElement":
			var it *xmlstream.Iter
			var start *xml.StartElement
			if r.entry == "IterIQ" {
				it, start, r.err = s.IterIQ(ctx, el.Reader())
			} else {
				it, start, r.err = s.IterIQElement(ctx, pay.Reader(), stanza.IQ{ID: id, Type: stanza.GetIQ})
			}
			var se stanza.Error
			switch {
			case r.err == nil:
				r.gotResp, r.gotName, r.gotID = true, "iq", id
				if start != nil {
					for _, a := range start.Attr {
						if a.Name.Local == "n" {
							r.gotSerial = a.Value
						}
					}
				}
				if r.hold {
					r.holdOnce.Do(func() { close(r.holding) })
					<-r.release
				}
				if r.read != "none" {
					for it.Next() {
						r.iterItems++
					}
					r.readErr = it.Err()
				}
				_ = it.Close()
			case errors.As(r.err, &se):
				r.gotResp, r.gotErrVal, r.gotName, r.gotID = true, true, "iq", id
			}
		}
		if resp != nil {
			r.gotResp = true
			tok, err := resp.Token()
			if st, ok := tok.(xml.StartElement); ok && err == nil {
				r.gotName = st.Name.Local
				for _, a := range st.Attr {
					switch a.Name.Local {
					case "id":
						r.gotID = a.Value
					case "n":
						r.gotSerial = a.Value
					}
				}
			}
			if r.hold {
				r.holdOnce.Do(func() { close(r.holding) })
				<-r.release
			}
			switch r.read {
			case "some":
				_, _ = resp.Token()
			case "all":
				for {
					tok, err := resp.Token()
					switch tk := tok.(type) {
					case xml.StartElement:
						r.readToks = append(r.readToks, "<"+tk.Name.Local)
					case xml.EndElement:
						r.readToks = append(r.readToks, "</"+tk.Name.Local)
					}
					if err != nil {
						r.readErr = err
						break
					}
				}
			}
			_ = resp.Close()
			r.closedResp = resp
		}
	})
	r.returned.Store(true)
}

// ---------------------------------------------------------------- peer side

type fed struct {
	serial   string
	id       string
	kind     string
	forReq   int    // request whose id it carries (-1: unknown id)
	expect   string // caller handler either
	sentinel bool
}

type handlerLog struct {
	mu   sync.Mutex
	seen map[string]int // serial -> count
	all  []string
	// answerPings: see HandleXMPP
	answerPings bool
	// hooks: run (once) inside the handler when an element with that id arrives
	hooks map[string]func()
}

func (h *handlerLog) HandleXMPP(t xmlstream.TokenReadEncoder, start *xml.StartElement) error {
	var n string
	for _, a := range start.Attr {
		if a.Name.Local == "n" {
			n = a.Value
		}
	}
	h.mu.Lock()
	if n != "" {
		h.seen[n]++
	}
	h.all = append(h.all, fmt.Sprintf("%s n=%s", start.Name.Local, n))
	var hook func()
	for _, a := range start.Attr {
		if a.Name.Local == "id" && a.Name.Space == "" && h.hooks != nil {
			hook = h.hooks[a.Value]
			delete(h.hooks, a.Value)
		}
	}
	h.mu.Unlock()
	if hook != nil {
		hook()
	}
	if h.answerPings {
		// component sessions: the library's automatic reply is reserved to the
		// client and server namespaces, the application answers the harness's
		// synchronisation pings itself
		var id, typ string
		for _, a := range start.Attr {
			switch a.Name.Local {
			case "id":
				id = a.Value
			case "type":
				typ = a.Value
			}
		}
		if start.Name.Local == "iq" && typ == "get" && strings.HasPrefix(id, "sentinel") {
			rs := xml.StartElement{Name: xml.Name{Local: "iq"}, Attr: []xml.Attr{{Name: xml.Name{Local: "type"}, Value: "result"}, {Name: xml.Name{Local: "id"}, Value: id}}}
			if err := t.EncodeToken(rs); err != nil {
				return err
			}
			return t.EncodeToken(rs.End())
		}
	}
	return nil
}

func (h *handlerLog) count(serial string) int {
	h.mu.Lock()
	defer h.mu.Unlock()
	return h.seen[serial]
}

// ---------------------------------------------------------------- property

func check(t interface {
	Helper()
	Fatalf(string, ...any)
}, tc tcase) {
	t.Helper()
	opts := wire.SessionOpts{Negotiated: tc.negotiated, Layered: tc.layered}
	if tc.s2s {
		opts.State |= xmpp.S2S
	}
	if tc.component {
		opts.ContentNS = "jabber:component:accept"
	}
	ns := opts.NS()
	hl := &handlerLog{seen: map[string]int{}, answerPings: tc.component}
	sv, err := wire.Serve(opts, hl)
	if err != nil {
		t.Fatalf("harness: %v", err)
	}
	var feds []*fed
	fail := func(format string, args ...any) {
		t.Helper()
		var sb strings.Builder
		for _, f := range feds {
			fmt.Fprintf(&sb, "\n  fed n=%s kind=%s id=%s expect=%s handler-saw=%d", f.serial, f.kind, f.id, f.expect, hl.count(f.serial))
		}
		ev.Failf(t, "%s\nresults:%s\nfed by the peer:%s\n%s", tc.String(), tc.results(), sb.String(), fmt.Sprintf(format, args...))
	}
	serial := 0
	feed := func(kind, typ, id string, forReq int, expect string) *fed {
		serial++
		f := &fed{serial: strconv.Itoa(serial), id: id, kind: kind, forReq: forReq, expect: expect}
		feds = append(feds, f)
		var idb strings.Builder
		_ = xml.EscapeText(&idb, []byte(id))
		body := `<q xmlns="urn:verif:c06" n="` + f.serial + `"><p n="` + f.serial + `"/></q>`
		if typ == "error" {
			body = `<error type="cancel"><item-not-found xmlns="urn:ietf:params:xml:ns:xmpp-stanzas"/></error>`
		}
		// whoever the stanza says it is from makes no difference to the
		// correlation (same kind, same id): no sender, the server in another
		// spelling, a full address, our own account
		from := []string{"", "", ` from="Example.NET"`, ` from="other@example.org/res"`, ` from="test@example.net/r"`, ` from="test@example.net"`}[serial%6]
		sv.Feed(`<` + kind + ` xmlns="` + ns + `" type="` + typ + `"` + from + ` id="` + idb.String() + `" n="` + f.serial + `">` + body + `</` + kind + `>`)
		return f
	}
	sentinels := 0
	// sync: everything fed so far has been processed once the sentinel's
	// automatic reply is on the wire
	sync := func() bool {
		sentinels++
		sid := "sentinel" + strconv.Itoa(sentinels)
		sv.Feed(`<iq xmlns="` + ns + `" type="get" id="` + sid + `"><ping xmlns="urn:xmpp:ping"/></iq>`)
		return sv.WaitFor(func(els []*xt.Node) bool {
			for _, e := range els {
				if id, _ := e.Get("id"); id == sid {
					return true
				}
			}
			return false
		}, waitLong)
	}
	onWire := func(r *request) bool {
		return sv.WaitFor(func(els []*xt.Node) bool {
			for _, e := range els {
				if id, _ := e.Get("id"); id == r.id() && e.Name.Local == r.kind {
					return true
				}
			}
			return false
		}, 3*time.Second)
	}
	waitReturn := func(r *request) bool {
		select {
		case <-r.done:
			return true
		case <-time.After(waitLong):
			return false
		}
	}
	stall := func(what string) {
		t.Helper()
		select {
		case <-sv.Done():
			// Serve has returned: not a stall.  The only way it ends early in this
			// harness is a failed write (see "poisoned" below) or a panic.
			if p := sv.Panic(); p != "" {
				fail("%s", p)
			}
			ev.Class("inconclusive-serve-ended-early")
			ev.Note("Serve ended early with: %v", sv.Err())
			return
		default:
		}
		if b := wire.BlockedMatching("handleInputStream"); len(b) > 0 {
			fail("%s; the serve loop is parked inside the library:\n%s", what, strings.Join(b, "\n\n"))
		}
		if wire.ServeIdle() && sv.Conn.PendingInput() == 0 {
			// not a matter of timing: the library has read everything the peer
			// sent and is waiting for more, so whatever was fed and has reached
			// neither a caller nor the handler was swallowed
			fail("%s; the serve loop has consumed all the input and is waiting for more: stanzas that were fed reached neither a caller nor the handler", what)
		}
		ev.Class("inconclusive-timeout")
	}
	cleanup := func() {
		for _, r := range tc.reqs {
			r.ctx.cancel()
			select {
			case <-r.release:
			default:
				close(r.release)
			}
		}
		sv.Shutdown(3 * time.Second)
	}

	// start all requests
	for _, r := range tc.reqs {
		r.ctx = newObsCtx(r.k%2 == 1)
		r.done = make(chan struct{})
		r.release = make(chan struct{})
		r.holding = make(chan struct{})
		if r.scen == "pre" {
			r.ctx.cancel()
		}
		if r.scen == "reqwait" {
			r.ctx.arm.Store("(*Session).sendResp")
		}
		go r.run(sv.Session, ns)
	}

	replyType := func(r *request) string {
		if r.kind == "iq" {
			return r.reply
		}
		return "error"
	}
	otherKind := func(r *request) string {
		if r.kind == "iq" {
			return "message"
		}
		return "iq"
	}
	// deliver: feed the right reply to a caller that is definitely waiting and
	// check that the caller (and nobody else) gets it
	type pending struct {
		r *request
		f *fed
	}
	var racing []pending
	deliver := func(r *request) bool {
		f := feed(r.kind, replyType(r), r.id(), r.k, "caller")
		if r.hold {
			// while the caller holds the response the serve loop must wait;
			// something queued behind it is processed after the close
			q := feed("message", "chat", "queued", -1, "handler")
			select {
			case <-r.holding:
				// the caller has the response (start element read) and keeps it open
				if r.cancelHeld {
					r.ctx.cancel()
				}
				time.Sleep(3 * time.Millisecond)
				if hl.count(q.serial) != 0 {
					fail("req %s holds its response open (not closed yet; context ended meanwhile: %v) but the serve loop went on to the next stanza n=%s", r.id(), r.cancelHeld, q.serial)
				}
				if tc.closeAgain {
					// requesters that are done close their responses once more (an
					// explicit Close followed by a deferred one): that concerns
					// nobody else's response
					for _, r2 := range tc.reqs {
						if r2 == r || !r2.returned.Load() || r2.closedResp == nil {
							continue
						}
						if p := ev.Guard(func() { _ = r2.closedResp.Close() }); p != "" {
							fail("req %s closed its (already closed) response a second time while req %s held a later response open: %s", r2.id(), r.id(), p)
						}
						ev.Class("second-close-while-a-later-response-is-held")
					}
					time.Sleep(3 * time.Millisecond)
					if hl.count(q.serial) != 0 {
						fail("req %s holds its response open; after other requesters closed their own, earlier responses a second time the serve loop went on to the next stanza n=%s", r.id(), q.serial)
					}
				}
			case <-r.done:
				// Unmarshal helpers and failed calls never hold anything
			case <-time.After(waitLong):
			}
			close(r.release)
		}
		if !waitReturn(r) {
			stall(fmt.Sprintf("req %s did not return although its reply n=%s was fed", r.id(), f.serial))
			return false
		}
		return true
	}

	for _, k := range tc.ord {
		r := tc.reqs[k]
		switch r.scen {
		case "pre":
			if !waitReturn(r) {
				stall(fmt.Sprintf("req %s with an already cancelled context did not return", r.id()))
				cleanup()
				return
			}
			if isTimeout(r.err) {
				// the call's own write was interrupted by its already cancelled
				// context; a timed-out write leaves the output unusable by design
				// (see conn.go), so nothing further can be concluded from this case
				ev.Class("inconclusive-output-dead-after-own-cancelled-write")
				cleanup()
				return
			}
			feed(r.kind, replyType(r), r.id(), r.k, "handler")
		case "normal", "afterdelivery":
			if !onWire(r) {
				if r.returned.Load() {
					continue
				}
				stall(fmt.Sprintf("req %s never reached the wire", r.id()))
				cleanup()
				return
			}
			if !deliver(r) {
				cleanup()
				return
			}
			if r.scen == "afterdelivery" {
				r.ctx.cancel()
			}
		case "twice":
			onWire(r)
			if !deliver(r) {
				cleanup()
				return
			}
			feed(r.kind, replyType(r), r.id(), r.k, "handler")
		case "wrongkind":
			onWire(r)
			feed(otherKind(r), "error", r.id(), r.k, "handler")
			if !deliver(r) {
				cleanup()
				return
			}
		case "collide":
			// the peer sends a REQUEST of its own that happens to carry the id of
			// our pending request (ids are only unique per sender): it is not our
			// answer, it goes to the handler (and is answered), then the real
			// answer arrives
			onWire(r)
			if r.kind == "iq" {
				feed("iq", rapid_req(r.k), r.id(), r.k, "handler")
			} else {
				feed(r.kind, "chat", r.id(), r.k, "handler")
			}
			if !deliver(r) {
				cleanup()
				return
			}
		case "unknownid":
			onWire(r)
			feed(r.kind, replyType(r), "zzz"+r.id(), -1, "handler")
			if !deliver(r) {
				cleanup()
				return
			}
		case "late":
			onWire(r)
			r.ctx.cancel()
			if !waitReturn(r) {
				stall(fmt.Sprintf("req %s did not return after its context was cancelled", r.id()))
				cleanup()
				return
			}
			if tc.retryLate && r.kind == "iq" && !tc.component {
				// while the handler has the late reply the application asks again
				// under the same id (a retry); it is registered and on the wire
				// before the handler returns
				type rres struct {
					resp bool
					err  error
					p    string
				}
				rdone := make(chan rres, 1)
				rctx, rcancel := context.WithCancel(context.Background())
				rid := r.id()
				before := bytes.Count(sv.Conn.Output(), []byte(`id="`+rid+`"`)) + bytes.Count(sv.Conn.Output(), []byte(`id='`+rid+`'`))
				hl.mu.Lock()
				if hl.hooks == nil {
					hl.hooks = map[string]func(){}
				}
				hl.hooks[rid] = func() {
					go func() {
						var rr rres
						rr.p = ev.Guard(func() {
							resp, err := sv.Session.SendIQ(rctx, xt.El("", "iq", []xml.Attr{xt.A("type", "get"), xt.A("id", rid)}, xt.El("urn:verif:c06", "retry", nil)).Reader())
							rr.err = err
							if resp != nil {
								rr.resp = true
								_ = resp.Close()
							}
						})
						rdone <- rr
					}()
					sv.Conn.WaitOutput(func(b []byte) bool {
						return bytes.Count(b, []byte(`id="`+rid+`"`))+bytes.Count(b, []byte(`id='`+rid+`'`)) > before && bytes.HasSuffix(bytes.TrimSpace(b), []byte("</iq>"))
					}, 3*time.Second)
				}
				hl.mu.Unlock()
				feed(r.kind, replyType(r), r.id(), r.k, "handler")
				if !sync() {
					rcancel()
					stall("the serve loop did not get past a late reply during whose handling the application asked again under the same id")
					cleanup()
					return
				}
				// the answer to the retry
				sv.Feed(`<iq xmlns="` + ns + `" type="result" id="` + rid + `"><q xmlns="urn:verif:c06" n="retry"/></iq>`)
				select {
				case rr := <-rdone:
					if rr.p != "" {
						fail("retry of req %s panicked: %s", rid, rr.p)
					}
					if !rr.resp {
						fail("req %s was given up, its late reply went to the handler; while the handler had it the application asked again under the same id; the reply to THAT request did not reach its caller (err=%v)", rid, rr.err)
					}
					ev.Class("retry-under-the-same-id-answered")
				case <-time.After(waitLong):
					rcancel()
					select {
					case rr := <-rdone:
						fail("req %s was given up, its late reply went to the handler; while the handler had it the application asked again under the same id; the reply to THAT request never reached its caller (it returned %v only when its context was cancelled)", rid, rr.err)
					case <-time.After(waitLong):
						stall("the retried request under id " + rid + " did not return")
						cleanup()
						return
					}
				}
				rcancel()
				continue
			}
			feed(r.kind, replyType(r), r.id(), r.k, "handler")
		case "never":
			// dealt with at the end
		case "handoff":
			if !r.early {
				onWire(r)
			}
			onWire(r)
			r.ctx.arm.Store("xmpp.handleInputStream")
			f := feed(r.kind, replyType(r), r.id(), r.k, "either")
			racing = append(racing, pending{r, f})
			if r.hold {
				close(r.release)
			}
		case "reqwait":
			onWire(r)
			f := feed(r.kind, replyType(r), r.id(), r.k, "either")
			racing = append(racing, pending{r, f})
			if r.hold {
				close(r.release)
			}
		}
	}
	// racing requests end with their reply or their context error
	for _, p := range racing {
		if !waitReturn(p.r) {
			// the reply may legitimately have gone to the handler while the context
			// is still alive (armed cancellation never triggered): end it now
			p.r.ctx.cancel()
			if !waitReturn(p.r) {
				stall(fmt.Sprintf("req %s (racing) did not return", p.r.id()))
				cleanup()
				return
			}
		}
	}
	if !sync() {
		stall("the serve loop did not process a sentinel after all replies were fed")
		cleanup()
		return
	}
	for _, r := range tc.reqs {
		if r.scen == "never" {
			r.ctx.cancel()
			if !waitReturn(r) {
				stall(fmt.Sprintf("req %s did not return after its context was cancelled", r.id()))
				cleanup()
				return
			}
		}
	}
	if !sync() {
		stall("the serve loop did not process the final sentinel")
		cleanup()
		return
	}
	for _, r := range tc.reqs {
		if !r.returned.Load() {
			r.ctx.cancel()
			if !waitReturn(r) {
				stall(fmt.Sprintf("req %s did not return", r.id()))
				cleanup()
				return
			}
		}
	}
	if tc.tailSendFails != "" {
		// orderly shutdown by the application while the peer keeps talking: the
		// output is closed, a further request fails to be sent (its context
		// stays alive), and then a result / error stanza with that very id
		// arrives (a late answer to an earlier use of the id): nobody waits for
		// it, it goes to the handler and the serve loop carries on
		if err := sv.Session.Close(); err != nil {
			fail("Close returned %v", err)
		}
		kind := tc.tailSendFails
		el := xt.El("", kind, []xml.Attr{xt.A("id", "tail-1"), xt.A("type", map[string]string{"iq": "get", "message": "chat", "presence": "subscribe"}[kind])}, xt.El("urn:verif:c06", "q", nil))
		done := make(chan error, 1)
		go func() {
			var resp xmlstream.TokenReadCloser
			var err error
			switch kind {
			case "iq":
				resp, err = sv.Session.SendIQ(context.Background(), el.Reader())
			case "message":
				resp, err = sv.Session.SendMessage(context.Background(), el.Reader())
			default:
				resp, err = sv.Session.SendPresence(context.Background(), el.Reader())
			}
			if resp != nil {
				_ = resp.Close()
			}
			done <- err
		}()
		select {
		case err := <-done:
			if err == nil {
				fail("a %s request sent after Close returned nil", kind)
			}
		case <-time.After(waitLong):
			stall("a request sent after the output was closed did not return")
			cleanup()
			return
		}
		typ := "error"
		if kind == "iq" && tc.s2s {
			typ = "result"
		}
		f1 := feed(kind, typ, "tail-1", -1, "handler")
		f2 := feed("message", "chat", "tail-marker", -1, "handler")
		deadline := time.Now().Add(waitLong)
		for hl.count(f2.serial) == 0 && time.Now().Before(deadline) {
			select {
			case <-sv.Done():
				deadline = time.Now()
			default:
				time.Sleep(200 * time.Microsecond)
			}
		}
		if hl.count(f1.serial) != 1 || hl.count(f2.serial) != 1 {
			if b := wire.BlockedMatching("handleInputStream"); len(b) > 0 {
				fail("after Close, a %s request with id tail-1 failed to be sent (its context is alive); the peer then sent a %s %s with that id (n=%s) and a message (n=%s): the handler saw them %d and %d times; the serve loop is parked inside the library:\n%s", kind, kind, typ, f1.serial, f2.serial, hl.count(f1.serial), hl.count(f2.serial), strings.Join(b, "\n\n"))
			}
			select {
			case <-sv.Done():
				if p := sv.Panic(); p != "" {
					fail("%s", p)
				}
				ev.Class("inconclusive-serve-ended-early")
			default:
				fail("after Close, a %s request with id tail-1 failed to be sent; the peer then sent a %s %s with that id (n=%s) and a message (n=%s): the handler saw them %d and %d times", kind, kind, typ, f1.serial, f2.serial, hl.count(f1.serial), hl.count(f2.serial))
			}
		}
	}
	cleanup()
	if p := sv.Panic(); p != "" {
		fail("%s", p)
	}

	// ---- oracle
	callerGot := map[string][]*request{} // serial -> callers
	for _, r := range tc.reqs {
		if r.panicked != "" {
			fail("req %s panicked: %s", r.id(), r.panicked)
		}
		if r.gotResp {
			if r.gotName != r.kind || r.gotID != r.id() {
				fail("req %s (%s) was handed a <%s id=%q>", r.id(), r.kind, r.gotName, r.gotID)
			}
			if r.gotSerial != "" {
				callerGot[r.gotSerial] = append(callerGot[r.gotSerial], r)
			}
		}
		if r.err == nil && !r.gotResp {
			fail("req %s returned neither a response nor an error", r.id())
		}
		if r.gotResp && r.read == "all" && r.readToks != nil {
			// the caller read its response to the end: it must be the whole stanza
			want := []string{"<q", "<p", "</p", "</q", "</" + r.kind}
			if r.kind != "iq" || r.reply == "error" {
				want = []string{"<error", "<item-not-found", "</item-not-found", "</error", "</" + r.kind}
			}
			if strings.Join(r.readToks, " ") != strings.Join(want, " ") || r.readErr != io.EOF {
				fail("req %s read its response to the end and got %v (ended by %v); the reply that was fed has %v", r.id(), r.readToks, r.readErr, want)
			}
		}
		if r.gotResp && r.err == nil && !r.gotErrVal && r.read != "none" && strings.HasPrefix(r.entry, "Iter") {
			if r.iterItems != 1 || r.readErr != nil {
				fail("req %s iterated over %d children of its reply (error %v); the reply that was fed has 1", r.id(), r.iterItems, r.readErr)
			}
		}
		if r.err != nil && !r.gotErrVal && !errors.Is(r.err, context.Canceled) && !isTimeout(r.err) && !errors.Is(r.err, io.EOF) {
			// the only reasons this harness gives a call to fail are its context
			fail("req %s failed with %v (neither its reply nor its context's error)", r.id(), r.err)
		}
	}
	for _, f := range feds {
		callers := callerGot[f.serial]
		h := hl.count(f.serial)
		// error replies consumed by Unmarshal/Iter helpers are not identifiable by serial
		consumedAsErr := 0
		if f.forReq >= 0 {
			r := tc.reqs[f.forReq]
			if r.gotErrVal && f.kind == r.kind && strings.Contains(fmt.Sprint(r.err), "item-not-found") && len(callers) == 0 {
				// attribute to the first fed error reply of that request not seen by the handler
				if h == 0 && firstUnseenErrFor(feds, hl, r, f) {
					consumedAsErr = 1
				}
			}
		}
		total := len(callers) + consumedAsErr
		for _, c := range callers {
			if c.k != f.forReq || c.kind != f.kind {
				fail("reply n=%s (id %s, %s) was delivered to req %s", f.serial, f.id, f.kind, c.id())
			}
		}
		if total > 1 {
			fail("reply n=%s was delivered to %d callers", f.serial, total)
		}
		if h > 1 {
			fail("stanza n=%s reached the handler %d times", f.serial, h)
		}
		if total+h != 1 {
			fail("stanza n=%s (id %s, expected %s): delivered to %d callers and %d times to the handler — it must reach exactly one of them", f.serial, f.id, f.expect, total, h)
		}
		switch f.expect {
		case "caller":
			if total != 1 {
				fail("reply n=%s was fed while req %s was waiting with a live context, but the caller did not get it (handler saw it %d times)", f.serial, f.id, h)
			}
		case "handler":
			if h != 1 {
				fail("stanza n=%s has no waiting caller and must go to the handler, handler saw it %d times (callers: %d)", f.serial, h, total)
			}
		}
	}
	for _, r := range tc.reqs {
		switch r.scen {
		case "late", "never", "pre":
			if r.gotResp || r.err == nil {
				fail("req %s (%s) must end with its context's error, got resp=%v err=%v", r.id(), r.scen, r.gotResp, r.err)
			}
		case "normal", "twice", "wrongkind", "unknownid", "afterdelivery", "collide":
			if !r.gotResp {
				fail("req %s (%s) must receive its reply, got err=%v", r.id(), r.scen, r.err)
			}
		}
	}
}

func rapid_req(k int) string {
	if k%2 == 0 {
		return "get"
	}
	return "set"
}

func firstUnseenErrFor(feds []*fed, hl *handlerLog, r *request, f *fed) bool {
	for _, g := range feds {
		if g.forReq == r.k && g.kind == r.kind && hl.count(g.serial) == 0 {
			return g == f
		}
	}
	return false
}

func isTimeout(err error) bool {
	var te interface{ Timeout() bool }
	return errors.As(err, &te) && te.Timeout()
}

func classify(tc tcase) (bool, []string) {
	var classes []string
	abnormal, windows := 0, 0
	if tc.component {
		classes = append(classes, "session-component-namespace")
	}
	if tc.negotiated != "" {
		classes = append(classes, "session-negotiated-"+tc.negotiated)
	}
	if tc.layered {
		classes = append(classes, "layered-transport")
	}
	for _, r := range tc.reqs {
		classes = append(classes, "entry-"+r.entry, "scenario-"+r.scen)
		if r.scen != "normal" {
			abnormal++
		}
		if r.scen == "handoff" || r.scen == "reqwait" {
			windows++
		}
		if r.hold {
			classes = append(classes, "response-held-open")
		}
		if r.cancelHeld {
			classes = append(classes, "context-ends-while-response-held")
		}
	}
	inOrder := true
	for i, k := range tc.ord {
		if i != k {
			inOrder = false
		}
	}
	if !inOrder {
		classes = append(classes, "answered-out-of-order")
	}
	return (len(tc.reqs) >= 2 && (!inOrder || abnormal > 0)) || windows > 0, classes
}

func TestC06Correlation(t *testing.T) {
	ev.Check(t, 2500, 10000, func(rt *rapid.T) {
		tc := genCase(rt)
		nt, classes := classify(tc)
		ev.Case(nt, tc.String(), classes...)
		check(rt, tc)
	})
}
