package c06

import (
	"context"
	"encoding/xml"
	"fmt"
	"strings"
	"testing"
	"time"

	"mellium.im/xmlstream"
	"mellium.im/xmpp"
	"mellium.im/xmpp/stanza"
	"mellium.im/xmpp/verifharness/internal/ev"
	"mellium.im/xmpp/verifharness/internal/wire"
	"mellium.im/xmpp/verifharness/internal/xt"
	"pgregory.net/rapid"
)

// TestC06CancelledBehindBlockedWriter: a requester whose write is blocked (the
// peer is not reading at the moment) while other requesters queue behind it;
// some of those give up (their contexts end) while they wait.  When the peer
// reads again and answers, the first requester - whose own context is alive
// - must return with its response: somebody else's cancellation is not its
// context's error.
func TestC06CancelledBehindBlockedWriter(t *testing.T) {
	ev.Check(t, 120, 1200, func(rt *rapid.T) {
		s2s := rapid.Bool().Draw(rt, "s2s")
		opts := wire.SessionOpts{}
		if s2s {
			opts.State |= xmpp.S2S
		}
		ns := opts.NS()
		entries := []string{"SendIQ", "SendIQElement", "SendMessage", "SendMessageElement", "SendPresence", "SendPresenceElement", "EncodeIQ"}
		first := rapid.SampledFrom(entries).Draw(rt, "first")
		nw := rapid.IntRange(1, 3).Draw(rt, "waiters")
		type waiter struct {
			entry   string
			give    bool
			ctx     context.Context
			cancel  context.CancelFunc
			done    chan struct{}
			err     error
			resp    xmlstream.TokenReadCloser
			panicky string
		}
		var ws []*waiter
		anyGive := false
		for i := 0; i < nw; i++ {
			w := &waiter{entry: rapid.SampledFrom(append(entries, "Send", "Encode")).Draw(rt, "waiterEntry"), give: rapid.Bool().Draw(rt, "givesUp")}
			anyGive = anyGive || w.give
			ws = append(ws, w)
		}
		if !anyGive {
			ws[0].give = true
		}
		pause := rapid.IntRange(0, 3).Draw(rt, "pauseMs")
		var wd []string
		for _, w := range ws {
			wd = append(wd, fmt.Sprintf("%s(gives-up-while-queued=%v)", w.entry, w.give))
		}
		desc := fmt.Sprintf("blocked-writer s2s=%v first requester %s (its write blocks: the peer is not reading); queued behind it: %s; the peer reads again %d ms after the cancellations and answers the first requester", s2s, first, strings.Join(wd, " "), pause)
		ev.Case(true, desc, "cancelled-behind-blocked-writer", "blocked-writer-"+first)

		sv, err := wire.NewServed(opts)
		if err != nil {
			rt.Fatalf("harness: %v", err)
		}
		defer sv.Shutdown(3 * time.Second)
		sv.Start(nil)
		s := sv.Session
		call := func(ctx context.Context, entry, id string) (xmlstream.TokenReadCloser, error) {
			pay := xt.El("urn:verif:c06l", "q", nil)
			switch entry {
			case "SendIQ":
				return s.SendIQ(ctx, xt.El(ns, "iq", []xml.Attr{xt.A("type", "get"), xt.A("id", id)}, pay).Reader())
			case "SendIQElement":
				return s.SendIQElement(ctx, pay.Reader(), stanza.IQ{Type: stanza.SetIQ, ID: id})
			case "EncodeIQ":
				return s.EncodeIQ(ctx, struct {
					XMLName xml.Name
					ID      string `xml:"id,attr"`
					Type    string `xml:"type,attr"`
				}{XMLName: xml.Name{Space: ns, Local: "iq"}, ID: id, Type: "get"})
			case "SendMessage":
				return s.SendMessage(ctx, xt.El(ns, "message", []xml.Attr{xt.A("type", "chat"), xt.A("id", id)}, pay).Reader())
			case "SendMessageElement":
				return s.SendMessageElement(ctx, pay.Reader(), stanza.Message{Type: stanza.NormalMessage, ID: id})
			case "SendPresence":
				return s.SendPresence(ctx, xt.El(ns, "presence", []xml.Attr{xt.A("id", id)}, pay).Reader())
			case "SendPresenceElement":
				return s.SendPresenceElement(ctx, pay.Reader(), stanza.Presence{Type: stanza.SubscribePresence, ID: id})
			case "Send":
				return nil, s.Send(ctx, xt.El(ns, "message", []xml.Attr{xt.A("type", "error"), xt.A("id", id)}, pay).Reader())
			case "Encode":
				return nil, s.Encode(ctx, struct {
					XMLName xml.Name
					ID      string `xml:"id,attr"`
				}{XMLName: xml.Name{Space: "urn:verif:c06l", Local: "v"}, ID: id})
			}
			panic("harness: entry " + entry)
		}
		kindOf := func(entry string) string {
			switch {
			case strings.Contains(entry, "IQ"):
				return "iq"
			case strings.Contains(entry, "Message"):
				return "message"
			}
			return "presence"
		}

		_, w0 := sv.Conn.Ops()
		sv.Conn.StallFrom(w0)
		firstDone := make(chan struct{})
		var firstResp xmlstream.TokenReadCloser
		var firstErr error
		var firstPanic string
		fctx, fcancel := context.WithCancel(context.Background())
		defer fcancel()
		go func() {
			defer close(firstDone)
			firstPanic = ev.Guard(func() { firstResp, firstErr = call(fctx, first, "first") })
		}()
		// the first requester is inside the transport's Write
		for i := 0; ; i++ {
			if _, w := sv.Conn.Ops(); w > w0 {
				break
			}
			select {
			case <-firstDone:
				ev.Failf(rt, "%s\nthe first requester returned before anything could be written: resp=%v err=%v %s", desc, firstResp != nil, firstErr, firstPanic)
			default:
			}
			if i > 100000 {
				ev.Class("inconclusive-timeout")
				return
			}
			time.Sleep(50 * time.Microsecond)
		}
		for i, w := range ws {
			w := w
			w.ctx, w.cancel = context.WithCancel(context.Background())
			w.done = make(chan struct{})
			id := fmt.Sprintf("w%d", i)
			go func() {
				defer close(w.done)
				w.panicky = ev.Guard(func() { w.resp, w.err = call(w.ctx, w.entry, id) })
			}()
		}
		time.Sleep(2 * time.Millisecond) // they queue behind the blocked writer
		for _, w := range ws {
			if w.give {
				w.cancel()
			}
		}
		time.Sleep(time.Duration(pause)*time.Millisecond + 500*time.Microsecond)
		sv.Conn.Unstall()
		// the peer reads again and answers the first requester
		sv.Conn.WaitOutput(func(b []byte) bool { return strings.Contains(string(b), `"first"`) }, 3*time.Second)
		k := kindOf(first)
		reply := xt.El(ns, k, []xml.Attr{xt.A("type", "error"), xt.A("id", "first")}, xt.El(ns, "error", []xml.Attr{xt.A("type", "cancel")}, xt.El("urn:ietf:params:xml:ns:xmpp-stanzas", "item-not-found", nil)))
		if k == "iq" {
			reply = xt.El(ns, "iq", []xml.Attr{xt.A("type", "result"), xt.A("id", "first")})
		}
		sv.Feed(string(reply.Bytes(ns)))
		select {
		case <-firstDone:
		case <-time.After(waitLong):
			if b := wire.Blocked(); len(b) > 0 {
				ev.Failf(rt, "%s\nthe first requester has not returned %v after its reply was fed\n%s", desc, waitLong, strings.Join(b, "\n\n"))
			}
			ev.Class("inconclusive-timeout")
			return
		}
		if firstPanic != "" {
			ev.Failf(rt, "%s\nthe first requester panicked: %s", desc, firstPanic)
		}
		if firstErr != nil || firstResp == nil {
			ev.Failf(rt, "%s\nthe first requester (its own context is alive, the peer answered it) returned resp=%v err=%v; want its response\noutput: %q", desc, firstResp != nil, firstErr, sv.Conn.Output())
		}
		_ = firstResp.Close()
		for _, w := range ws {
			w.cancel()
		}
		for i, w := range ws {
			select {
			case <-w.done:
				if w.panicky != "" {
					ev.Failf(rt, "%s\nqueued requester %d panicked: %s", desc, i, w.panicky)
				}
				if w.resp != nil {
					_ = w.resp.Close()
				}
			case <-time.After(waitLong):
				if b := wire.Blocked(); len(b) > 0 {
					ev.Failf(rt, "%s\nqueued requester %d has not returned %v after its context ended\n%s", desc, i, waitLong, strings.Join(b, "\n\n"))
				}
				ev.Class("inconclusive-timeout")
				return
			}
		}
	})
}
