package c06

// Join requests for the same occupant address that overlap (an automatic
// re-join racing a user-triggered join, a retry started before the first
// attempt has timed out), made through different Channel values.  Each call has
// one outcome.  The newest request is the one the room's confirmation is for:
// an older request that gives up (its context ends, or the room refuses the
// presence with its id) must not take the newer one's registration with it.

import (
	"context"
	"encoding/xml"
	"fmt"
	"strings"
	"testing"
	"time"

	"pgregory.net/rapid"

	"mellium.im/xmpp"
	"mellium.im/xmpp/jid"
	"mellium.im/xmpp/muc"
	"mellium.im/xmpp/mux"
	"mellium.im/xmpp/verifharness/internal/ev"
	"mellium.im/xmpp/verifharness/internal/wire"
	"mellium.im/xmpp/verifharness/internal/xt"
)

type joinsCase struct {
	s2s bool
	n   int // overlapping requests (2..3), oldest first
	// how the older requests end, in order: "cancel" (context ends), "refused"
	// (error presence with the request's id)
	ends []string
	// the newest request: "confirm" (the room's self-presence arrives), "cancel"
	newest string
	// room traffic between the steps
	noise bool
}

func (c joinsCase) String() string {
	return fmt.Sprintf("s2s=%v %d overlapping Join calls for one occupant address (different Channels); the older ones end by %v, then the newest: %s; other occupants' presence in between: %v", c.s2s, c.n, c.ends, c.newest, c.noise)
}

func genJoins(t *rapid.T) joinsCase {
	c := joinsCase{s2s: rapid.Bool().Draw(t, "s2s"), n: rapid.IntRange(2, 3).Draw(t, "n"), noise: rapid.Bool().Draw(t, "noise")}
	for i := 0; i < c.n-1; i++ {
		c.ends = append(c.ends, rapid.SampledFrom([]string{"cancel", "refused"}).Draw(t, "end"))
	}
	c.newest = rapid.SampledFrom([]string{"confirm", "confirm", "confirm", "cancel"}).Draw(t, "newest")
	return c
}

type joinCall struct {
	ctx    context.Context
	cancel context.CancelFunc
	done   chan struct{}
	ch     *muc.Channel
	err    error
	panic  string
	id     string // id of its presence on the wire
}

func checkJoins(t interface {
	Helper()
	Fatalf(string, ...any)
}, c joinsCase) {
	t.Helper()
	opts := wire.SessionOpts{}
	if c.s2s {
		opts.State |= xmpp.S2S
	}
	ns := opts.NS()
	mc := &muc.Client{}
	sv, err := wire.Serve(opts, mux.New(ns, muc.HandleClient(mc)))
	if err != nil {
		t.Fatalf("harness: %v", err)
	}
	var log []string
	logf := func(format string, a ...any) { log = append(log, fmt.Sprintf(format, a...)) }
	fail := func(format string, args ...any) {
		t.Helper()
		ev.Failf(t, "%s\nwhat happened:\n  %s\n%s", c.String(), strings.Join(log, "\n  "), fmt.Sprintf(format, args...))
	}
	var calls []*joinCall
	defer func() {
		for _, jc := range calls {
			jc.cancel()
		}
		sv.Shutdown(3 * time.Second)
		sv.Conn.Close()
	}()
	room := jid.MustParse("room@conference.example.org/me")
	sentinels := 0
	sentinel := func() bool {
		sentinels++
		sid := fmt.Sprintf("joins-sentinel-%d", sentinels)
		sv.Feed(`<iq xmlns="` + ns + `" type="get" id="` + sid + `" from="peer@example.org/r"><ping xmlns="urn:xmpp:ping"/></iq>`)
		return sv.WaitFor(func(els []*xt.Node) bool {
			for _, e := range els {
				if id, _ := e.Get("id"); id == sid {
					return true
				}
			}
			return false
		}, 5*time.Second)
	}
	inconclusive := func(what string) {
		if p := sv.Panic(); p != "" {
			fail("%s", p)
		}
		ev.Class("inconclusive-timeout")
		ev.Note("joins: inconclusive: %s\n%s\n  %s", what, c.String(), strings.Join(log, "\n  "))
	}
	joinPresences := func(els []*xt.Node) []*xt.Node {
		var out []*xt.Node
		for _, e := range els {
			if to, _ := e.Get("to"); e.Name.Local == "presence" && to == room.String() {
				out = append(out, e)
			}
		}
		return out
	}
	for k := 0; k < c.n; k++ {
		jc := &joinCall{done: make(chan struct{})}
		jc.ctx, jc.cancel = context.WithCancel(context.Background())
		calls = append(calls, jc)
		go func() {
			defer close(jc.done)
			jc.panic = ev.Guard(func() { jc.ch, jc.err = mc.Join(jc.ctx, room, sv.Session) })
		}()
		var mine *xt.Node
		if !sv.WaitFor(func(els []*xt.Node) bool {
			ps := joinPresences(els)
			if len(ps) > k {
				mine = ps[k]
				return true
			}
			return false
		}, 5*time.Second) {
			inconclusive(fmt.Sprintf("the presence of Join call %d did not reach the wire", k))
			return
		}
		jc.id, _ = mine.Get("id")
		logf("Join call %d: presence id=%q on the wire", k, jc.id)
		// (the call registers itself before it sends; give it the time to get
		// from the send to the wait)
		time.Sleep(200 * time.Microsecond)
	}
	noise := func() {
		if c.noise {
			sv.Feed(`<presence xmlns="` + ns + `" from="room@conference.example.org/other"><x xmlns="http://jabber.org/protocol/muc#user"><item affiliation="member" role="participant"/></x></presence>`)
		}
	}
	// the older requests give up, oldest first
	for k, how := range c.ends {
		jc := calls[k]
		noise()
		switch how {
		case "cancel":
			jc.cancel()
			logf("Join call %d: its context ends", k)
		case "refused":
			var idb strings.Builder
			_ = xml.EscapeText(&idb, []byte(jc.id))
			sv.Feed(`<presence xmlns="` + ns + `" type="error" id="` + idb.String() + `" from="` + room.String() + `"><x xmlns="http://jabber.org/protocol/muc"/><error type="cancel"><conflict xmlns="urn:ietf:params:xml:ns:xmpp-stanzas"/></error></presence>`)
			logf("Join call %d: the room refuses the presence with id %q", k, jc.id)
		}
		select {
		case <-jc.done:
			logf("Join call %d returned: %v", k, jc.err)
		case <-time.After(5 * time.Second):
			if !sentinel() {
				inconclusive(fmt.Sprintf("Join call %d did not return", k))
				return
			}
			select {
			case <-jc.done:
			default:
				fail("Join call %d (ended by: %s) has not returned although the serve loop has dealt with everything that was fed", k, how)
			}
		}
		if jc.panic != "" {
			fail("Join call %d panicked: %s", k, jc.panic)
		}
		if jc.err == nil {
			fail("Join call %d returned nil although the room never confirmed it (ended by: %s)", k, how)
		}
	}
	noise()
	newest := calls[c.n-1]
	switch c.newest {
	case "confirm":
		sv.Feed(`<presence xmlns="` + ns + `" id="` + newest.id + `" from="` + room.String() + `"><x xmlns="http://jabber.org/protocol/muc#user"><item affiliation="member" role="participant"/><status code="110"/></x></presence>`)
		logf("the room confirms the join (self-presence from %s)", room)
		if !sentinel() {
			inconclusive("the serve loop did not get past the confirmation")
			return
		}
		select {
		case <-newest.done:
		case <-time.After(2 * time.Second):
			fail("Join call %d (the newest) is still waiting although the room's confirmation has arrived and the serve loop has moved on: the confirmation was not recognised as its reply", c.n-1)
		}
		logf("Join call %d returned: %v", c.n-1, newest.err)
		if newest.panic != "" {
			fail("Join call %d panicked: %s", c.n-1, newest.panic)
		}
		if newest.err != nil {
			fail("Join call %d (the newest) failed with %v although the room confirmed the join", c.n-1, newest.err)
		}
		if newest.ch == nil || !newest.ch.Joined() {
			fail("Join call %d returned nil but its channel is not joined", c.n-1)
		}
	case "cancel":
		newest.cancel()
		select {
		case <-newest.done:
		case <-time.After(5 * time.Second):
			if !sentinel() {
				inconclusive("the newest Join call did not return after its context ended")
				return
			}
			fail("Join call %d did not return after its context ended", c.n-1)
		}
		if newest.err == nil {
			fail("Join call %d returned nil although the room never confirmed it", c.n-1)
		}
	}
	if p := sv.Panic(); p != "" {
		fail("%s", p)
	}
}

func TestC06OverlappingJoins(t *testing.T) {
	ev.Check(t, 200, 2000, func(rt *rapid.T) {
		c := genJoins(rt)
		ev.Case(true, c.String(), "overlapping-joins", "overlapping-joins-newest-"+c.newest)
		checkJoins(rt, c)
	})
}
