package c04

// The library's own STARTTLS feature (the other transcripts use a stand-in so
// that cut points are deterministic) against a peer that goes quiet at a chosen
// point of the exchange, on a transport with deadlines: the context is
// cancelled, the constructor must come back with an error, not ready.

import (
	"bytes"
	"context"
	"crypto/tls"
	"encoding/xml"
	"fmt"
	"testing"
	"time"

	"mellium.im/xmpp"
	"mellium.im/xmpp/jid"
	"mellium.im/xmpp/verifharness/internal/ev"
	"mellium.im/xmpp/verifharness/internal/wire"
)

func TestC04RealStartTLSQuietPeer(t *testing.T) {
	ev.Begin(t)
	const hdr = `<?xml version="1.0"?><stream:stream xmlns="jabber:client" xmlns:stream="` + wire.StreamNS + `" version="1.0" id="q1" from="example.net">`
	stages := []struct {
		name string
		feed []string // what the peer says, piece by piece, before going quiet
		wait string   // the cancellation comes once the library has written this
		// the context ends while the features list is being parsed (in the Parse
		// callback of a feature advertised behind STARTTLS)
		cancelInParse bool
	}{
		{"quiet after its header", []string{hdr}, "<stream:stream", false},
		{"quiet inside the features list", []string{hdr + `<stream:features><starttls xmlns="urn:ietf:params:xml:ns:xmpp-tls">`}, "<stream:stream", false},
		{"quiet after the features list (the library has asked for STARTTLS)", []string{hdr + `<stream:features><starttls xmlns="urn:ietf:params:xml:ns:xmpp-tls"><required/></starttls></stream:features>`}, "<starttls", false},
		{"quiet after an empty features list (the unconditional attempt)", []string{hdr + `<stream:features/>`}, "<starttls", false},
		{"quiet after the features list, context ended while the list was parsed", []string{hdr + `<stream:features><starttls xmlns="urn:ietf:params:xml:ns:xmpp-tls"><required/></starttls><note xmlns="urn:verif:note"/></stream:features>`}, "<stream:stream", true},
		{"quiet after an optional STARTTLS offer, context ended while the list was parsed", []string{hdr + `<stream:features><starttls xmlns="urn:ietf:params:xml:ns:xmpp-tls"/><note xmlns="urn:verif:note"/></stream:features>`}, "<stream:stream", true},
		{"quiet after <proceed/> (no TLS record ever comes)", []string{hdr + `<stream:features><starttls xmlns="urn:ietf:params:xml:ns:xmpp-tls"/></stream:features>`, `<proceed xmlns="urn:ietf:params:xml:ns:xmpp-tls"/>`}, "\x16\x03", false},
	}
	for _, st := range stages {
		for _, nilCfg := range []bool{false, true} {
			for _, tee := range []bool{false, true} {
				desc := fmt.Sprintf("real STARTTLS (default config=%v, xml console=%v), peer %s, then the context is cancelled", nilCfg, tee, st.name)
				ev.Case(true, desc, "real-starttls-quiet-peer")
				conn := wire.NewConn()
				ctx, cancel := context.WithCancel(context.Background())
				var cfg *tls.Config
				if !nilCfg {
					cfg = &tls.Config{ServerName: "example.net", MinVersion: tls.VersionTLS12}
				}
				var teeIn, teeOut bytes.Buffer
				// an informational feature of the application whose Parse callback
				// sees the context end (stage "cancel-in-parse": the cancellation
				// falls between the reading of the list and the STARTTLS step)
				note := xmpp.StreamFeature{
					Name: xml.Name{Space: "urn:verif:note", Local: "note"},
					Parse: func(ctx context.Context, d *xml.Decoder, start *xml.StartElement) (bool, interface{}, error) {
						if st.cancelInParse {
							cancel()
							time.Sleep(20 * time.Millisecond) // the watcher has acted by now
						}
						return false, nil, d.Skip()
					},
				}
				neg := xmpp.NewNegotiator(func(*xmpp.Session, *xmpp.StreamConfig) xmpp.StreamConfig {
					c := xmpp.StreamConfig{Features: []xmpp.StreamFeature{xmpp.StartTLS(cfg), xmpp.BindResource(), note}}
					if tee {
						c.TeeIn, c.TeeOut = &teeIn, &teeOut
					}
					return c
				})
				type res struct {
					s   *xmpp.Session
					err error
					p   string
				}
				done := make(chan res, 1)
				go func() {
					var r res
					r.p = ev.Guard(func() {
						r.s, r.err = xmpp.NewSession(ctx, jid.MustParse("example.net"), jid.MustParse("juliet@example.net"), conn, 0, neg)
					})
					done <- r
				}()
				conn.FeedString(st.feed[0])
				if len(st.feed) > 1 {
					conn.WaitOutput(func(b []byte) bool { return bytes.Contains(b, []byte("<starttls")) }, 5*time.Second)
					conn.FeedString(st.feed[1])
				}
				reached := conn.WaitOutput(func(b []byte) bool { return bytes.Contains(b, []byte(st.wait)) }, 5*time.Second)
				time.Sleep(2 * time.Millisecond)
				cancel()
				select {
				case r := <-done:
					switch {
					case r.p != "":
						ev.Failf(t, "%s\n%s", desc, r.p)
					case r.err == nil:
						ev.Failf(t, "%s\nthe constructor returned nil; state %v", desc, r.s.State())
					case r.s != nil && r.s.State()&xmpp.Ready != 0:
						ev.Failf(t, "%s\nerror %v but the session is marked ready", desc, r.err)
					}
					if !reached {
						ev.Class("real-starttls-stage-not-reached")
					}
				case <-time.After(watchdog):
					b := wire.BlockedMatching("xmpp.NewSession")
					conn.Close()
					ev.Failf(t, "%s\nthe constructor had not returned %v after the cancellation (the transport supports deadlines); output so far %q\n%v", desc, watchdog, conn.Output(), b)
				}
				conn.Close()
			}
		}
	}
}
