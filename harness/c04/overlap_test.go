package c04

// One Negotiator value used by two sessions at the same time (a server that
// creates it once for every connection it accepts).  While one session is
// parked in the handshake (its peer says nothing), the other one's context
// ends: that call must not outlive the cancellation on a transport with
// deadlines, whatever the first one is doing.

import (
	"context"
	"fmt"
	"runtime"
	"testing"
	"time"

	"mellium.im/xmpp"
	"mellium.im/xmpp/stanza"
	"mellium.im/xmpp/verifharness/internal/ev"
	"mellium.im/xmpp/verifharness/internal/wire"
	"mellium.im/xmpp/websocket"
)

func TestC04SharedNegotiatorOverlap(t *testing.T) {
	ev.Begin(t)
	n := ev.N(24, 240)
	for i := 0; i < n; i++ {
		ws := i%2 == 1
		recvA, recvB := i%4 >= 2, i%8 >= 4
		// how far the parked session gets before its peer falls silent: nothing
		// at all, or the peer's header (then the features list is awaited)
		aGotHeader := i%3 == 0
		cfg := func(*xmpp.Session, *xmpp.StreamConfig) xmpp.StreamConfig { return xmpp.StreamConfig{} }
		neg := xmpp.NewNegotiator(cfg)
		if ws {
			neg = websocket.Negotiator(cfg)
		}
		desc := fmt.Sprintf("shared negotiator ws=%v; session A (receiving=%v, peer sent its header first=%v) is parked in the handshake; session B (receiving=%v) has its context end", ws, recvA, aGotHeader, recvB)
		ev.Case(true, desc, "negotiator-shared-by-overlapping-sessions", fmt.Sprintf("overlap-ws=%v", ws))
		start := func(recv bool, c *wire.Conn, ctx context.Context) chan error {
			ch := make(chan error, 1)
			go func() {
				var err error
				p := ev.Guard(func() {
					if recv {
						_, err = xmpp.ReceiveSession(ctx, c, 0, neg)
					} else {
						_, err = xmpp.NewSession(ctx, server, client, c, 0, neg)
					}
				})
				if p != "" {
					err = fmt.Errorf("panic: %s", p)
				}
				ch <- err
			}()
			return ch
		}
		connA, connB := wire.NewConn(), wire.NewConn()
		if aGotHeader {
			if recvA {
				connA.FeedString(hdr(ws, stanza.NSClient, client.Bare().String(), server.String(), ""))
			} else {
				connA.FeedString(hdr(ws, stanza.NSClient, server.String(), "", "a1"))
			}
		}
		ctxA, cancelA := context.WithCancel(context.Background())
		doneA := start(recvA, connA, ctxA)
		// A is parked once it waits for input it will not get
		deadline := time.Now().Add(5 * time.Second)
		for time.Now().Before(deadline) {
			if r, _ := connA.Ops(); r > 0 && connA.PendingInput() == 0 {
				break
			}
			time.Sleep(time.Millisecond)
		}
		time.Sleep(2 * time.Millisecond)
		ctxB, cancelB := context.WithCancel(context.Background())
		doneB := start(recvB, connB, ctxB)
		time.Sleep(time.Duration(1+i%4) * time.Millisecond)
		cancelB()
		select {
		case err := <-doneB:
			if err == nil {
				ev.Failf(t, "%s\nsession B was established although its peer never said anything", desc)
			}
		case <-time.After(watchdog):
			buf := make([]byte, 1<<18)
			buf = buf[:runtime.Stack(buf, true)]
			ev.Failf(t, "%s\nsession B's constructor had not returned %v after its context was cancelled (its transport supports deadlines); goroutines:\n%s", desc, watchdog, buf)
		}
		cancelA()
		select {
		case <-doneA:
		case <-time.After(watchdog):
			buf := make([]byte, 1<<18)
			buf = buf[:runtime.Stack(buf, true)]
			ev.Failf(t, "%s\nsession A's constructor had not returned %v after its own context was cancelled; goroutines:\n%s", desc, watchdog, buf)
		}
		connA.Close()
		connB.Close()
	}
}
