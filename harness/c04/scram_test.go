package c04

// A handshake whose SASL step is a multi-round mechanism (SCRAM-SHA-1), played
// against the dependency's own server-side negotiator.  The variants make the
// mechanism's last step on the initiating side fail: the server's final message
// (its signature) is forged, delivered in <success/> as usual or in a
// <challenge/> followed by <success/>.  "An error reported by any negotiation
// step is never swallowed."

import (
	"bytes"
	"context"
	"crypto/sha1"
	"encoding/base64"
	"fmt"
	"io"
	"testing"

	"golang.org/x/crypto/pbkdf2"
	"mellium.im/sasl"

	"mellium.im/xmpp"
	"mellium.im/xmpp/stanza"
	"mellium.im/xmpp/verifharness/internal/ev"
	"mellium.im/xmpp/verifharness/internal/wire"
)

func scramServer() *sasl.Negotiator {
	salt := []byte("verif-salt-0123")
	const iter = 4096
	return sasl.NewServer(sasl.ScramSha1, func(*sasl.Negotiator) bool { return true },
		sasl.SaltedCredentials(func(user, ident []byte, mech string) ([]byte, []byte, int64, error) {
			if string(user) != "juliet" {
				return nil, nil, 0, sasl.ErrAuthn
			}
			return salt, pbkdf2.Key([]byte("secret"), salt, iter, sha1.Size, sha1.New), iter, nil
		}),
	)
}

// scramInitiator: forged: "" honest, "success" the forged signature comes in
// <success/>, "challenge" in a <challenge/> that is followed by <success/>.
func scramInitiator(forged string) transcript {
	ns := stanza.NSClient
	name := "sasl(scram-sha-1)+bind/initiator"
	if forged != "" {
		name += " server-signature-forged-in=" + forged + " fails=true"
	}
	var srv *sasl.Negotiator
	return transcript{
		name: name,
		start: func(ctx context.Context, rw io.ReadWriter, st *steps) (*xmpp.Session, error) {
			srv = scramServer()
			return xmpp.NewSession(ctx, server, client, rw, xmpp.Secure, negotiatorFor(false, func() []xmpp.StreamFeature {
				return []xmpp.StreamFeature{xmpp.SASL("", "secret", sasl.ScramSha1), xmpp.BindResource()}
			}))
		},
		script: func(st *steps, p *wire.Reactive, fresh []byte) []byte {
			h := hdr(false, ns, server.String(), "", "s1")
			payload := func() []byte {
				i := bytes.IndexByte(fresh, '>')
				j := bytes.LastIndex(fresh, []byte("</"))
				if i < 0 || j < i {
					return nil
				}
				b, _ := base64.StdEncoding.DecodeString(string(bytes.TrimSpace(fresh[i+1 : j])))
				return b
			}
			wrap := func(el string, b []byte) []byte {
				return []byte(`<` + el + ` xmlns="` + saslNS + `">` + base64.StdEncoding.EncodeToString(b) + `</` + el + `>`)
			}
			switch {
			case isHeader(fresh, false):
				st.n++
				if st.n == 1 {
					return []byte(h + features(false, `<mechanisms xmlns="`+saslNS+`"><mechanism>SCRAM-SHA-1</mechanism></mechanisms>`))
				}
				return []byte(h + features(false, `<bind xmlns="`+bindNS+`"/>`))
			case bytes.Contains(fresh, []byte("<auth")), bytes.Contains(fresh, []byte("<response")):
				if st.scramDone {
					// the (empty) response to a final message sent as a challenge
					return []byte(`<success xmlns="` + saslNS + `"/>`)
				}
				more, resp, err := srv.Step(payload())
				if err != nil {
					return []byte(`<failure xmlns="` + saslNS + `"><not-authorized/></failure>`)
				}
				if more {
					return wrap("challenge", resp)
				}
				// the server's final message v=<signature>
				st.scramDone = true
				if forged != "" {
					resp = []byte("v=" + base64.StdEncoding.EncodeToString(bytes.Repeat([]byte{0x42}, sha1.Size)))
				}
				if forged == "challenge" {
					return wrap("challenge", resp)
				}
				return wrap("success", resp)
			case bytes.Contains(fresh, []byte("<iq")):
				return []byte(`<iq xmlns="jabber:client" type="result" id="` + idOf(fresh) + `"><bind xmlns="` + bindNS + `"><jid>` + client.String() + `</jid></bind></iq>`)
			}
			return nil
		},
	}
}

func TestC04ScramStepFails(t *testing.T) {
	ev.Begin(t)
	honest := scramInitiator("")
	base := baseline(t, honest)
	if base.err != nil || !ready(base) {
		t.Fatalf("harness: the honest SCRAM handshake failed: %v", base.err)
	}
	for _, forged := range []string{"success", "challenge"} {
		tr := scramInitiator(forged)
		for _, plain := range []bool{false, true} {
			ev.Case(true, fmt.Sprintf("%s plain=%v", tr.name, plain), "sasl-mechanism-step-fails", "forged-signature-in-"+forged)
			r := runWith(tr, fault{kind: "none"}, plain)
			if msg := judgeMust(r); msg != "" {
				ev.Failf(t, "%s\nthe initiating side's mechanism rejects the server's final message (forged signature)\n%s", describe(tr, fault{kind: "none"}, plain, result{}, r), msg)
			}
		}
	}
	// the honest handshake under the usual faults
	for n := 0; n < base.ops; n++ {
		ev.Case(true, fmt.Sprintf("%s cancel@%d", honest.name, n), "scram-cancel")
		checkFault(t, honest, fault{kind: "cancel", n: n}, false, base)
	}
	for n := 0; n < base.fed; n += 1 + n%3 {
		ev.Case(true, fmt.Sprintf("%s cut@%d", honest.name, n), "scram-cut")
		checkFault(t, honest, fault{kind: "cut", n: n}, n%2 == 0, base)
	}
}
