// C04 — Session establishment fails closed under faults.
package c04

import (
	"bytes"
	"context"
	"crypto/sha1"
	"encoding/base64"
	"encoding/xml"
	"errors"
	"fmt"
	"io"
	"runtime"
	"sort"
	"strings"
	"testing"
	"time"

	"pgregory.net/rapid"

	"mellium.im/sasl"
	"mellium.im/xmlstream"
	"mellium.im/xmpp"
	"mellium.im/xmpp/component"
	"mellium.im/xmpp/jid"
	"mellium.im/xmpp/s2s"
	"mellium.im/xmpp/stanza"
	"mellium.im/xmpp/verifharness/internal/ev"
	"mellium.im/xmpp/verifharness/internal/wire"
	"mellium.im/xmpp/websocket"
)

func TestMain(m *testing.M) { ev.Main(m, "C04") }

const (
	wsNS   = "urn:ietf:params:xml:ns:xmpp-framing"
	tlsNS  = "urn:ietf:params:xml:ns:xmpp-tls"
	saslNS = "urn:ietf:params:xml:ns:xmpp-sasl"
	bindNS = "urn:ietf:params:xml:ns:xmpp-bind"
)

var (
	client = jid.MustParse("juliet@example.net/balcony")
	server = jid.MustParse("example.net")
)

// ---------------------------------------------------------------- transcripts

// A transcript is a fault-free handshake: how to start the library side and a
// deterministic reactive peer script.
type transcript struct {
	name string
	recv bool
	ws   bool
	// start runs the session constructor under test.
	start func(ctx context.Context, rw io.ReadWriter, st *steps) (*xmpp.Session, error)
	// script returns the peer's next message (nil: nothing more to say).
	script func(st *steps, p *wire.Reactive, fresh []byte) []byte
	// prep, when set, adjusts the per-run state before the run starts (extra
	// feature doubles)
	prep func(st *steps)
}

// steps is per-run state shared by the doubles and the peer script.
type steps struct {
	results []error // result of every executed feature double
	n       int     // script position
	failAt  int     // position of the failing voluntary double (-1 none)
	vpos    int     // list position of the voluntary double
	// an extra feature double configured last, and what the harness (as the
	// receiving peer) advertises for it next to resource binding
	extraFeat   func(st *steps) xmpp.StreamFeature
	extraAdvert string
	// the same advertisement in the first features list, where the double's
	// prerequisites (authenticated) do not hold yet
	extraAdvertEarly string
	// how the harness, as receiving peer, answers the bind request: "" result,
	// "error" (with an <error/> child), "error-empty" (an error IQ without
	// children), "error-echo" (an error IQ that only echoes the request),
	// "get" / "notype" (an IQ that is neither result nor error)
	bindReply string
	// receiving side: the application's bind callback (nil: BindResource)
	bindFn func(jid.JID, string) (jid.JID, error)
	// the SCRAM server has sent its final message
	scramDone bool
	// the peer's stream headers carry this to attribute ("" none)
	headerTo string
	// receiving side: the initiating peer's k-th stream header (1-based; 0 none)
	// is replaced by a header that must be refused; the peer ignores whatever
	// is answered and carries on with its moves
	badHeaderAt int
	badHeader   string
	// the peer's refuseAt-th message (1-based; 0 none) is replaced by a stream
	// error that ends its stream (after the stream header, when the message
	// began with one); msgNo counts the peer's messages
	refuseAt, msgNo int
	// the session is created through the convenience constructor of its kind
	// (NewClientSession, ReceiveClientSession, NewServerSession) instead of
	// NewSession / ReceiveSession with an explicit negotiator
	wrapper bool
}

// viaWrapper: the same handshake through the convenience constructors.
func viaWrapper(tr transcript) transcript {
	tr.name += " via the convenience constructor"
	old := tr.prep
	tr.prep = func(st *steps) {
		if old != nil {
			old(st)
		}
		st.wrapper = true
	}
	return tr
}

func withHeaderTo(tr transcript, to string) transcript {
	tr.name += " peer-header-to=" + to + " fails=true"
	tr.prep = func(st *steps) { st.headerTo = to }
	return tr
}

func withBindReply(tr transcript, kind string) transcript {
	tr.name += " bind-answered-with=" + kind
	tr.prep = func(st *steps) { st.bindReply = kind }
	return tr
}

func hdr(ws bool, ns, from, to, id string) string {
	attrs := ` version="1.0"`
	if id != "" {
		attrs += ` id="` + id + `"`
	}
	if from != "" {
		attrs += ` from="` + from + `"`
	}
	if to != "" {
		attrs += ` to="` + to + `"`
	}
	if ws {
		return `<open xmlns="` + wsNS + `"` + attrs + `/>`
	}
	return `<?xml version="1.0"?><stream:stream xmlns="` + ns + `" xmlns:stream="` + wire.StreamNS + `"` + attrs + `>`
}

func features(ws bool, inner string) string {
	if ws {
		return `<features xmlns="` + wire.StreamNS + `">` + inner + `</features>`
	}
	return `<stream:features>` + inner + `</stream:features>`
}

func isHeader(b []byte, ws bool) bool {
	if ws {
		return bytes.Contains(b, []byte("<open "))
	}
	return bytes.Contains(b, []byte("<stream:stream"))
}

// startTLSStandIn is xmpp.StartTLS with the TLS layer left out (as the
// repository's own tests do), so that the transcript is deterministic.
func startTLSStandIn() xmpp.StreamFeature {
	f := xmpp.StartTLS(nil)
	f.Negotiate = func(ctx context.Context, s *xmpp.Session, data interface{}) (xmpp.SessionState, io.ReadWriter, error) {
		conn := s.Conn()
		r := s.TokenReader()
		defer r.Close()
		d := xml.NewTokenDecoder(r)
		if s.State()&xmpp.Received != 0 {
			tok, err := d.Token()
			if err != nil {
				return 0, nil, err
			}
			if _, ok := tok.(xml.StartElement); !ok {
				return 0, nil, fmt.Errorf("verif: expected <starttls/>")
			}
			if err = d.Skip(); err != nil {
				return 0, nil, err
			}
			if _, err = fmt.Fprint(conn, `<proceed xmlns='`+tlsNS+`'/>`); err != nil {
				return 0, nil, err
			}
			return xmpp.Secure, conn, nil
		}
		if _, err := fmt.Fprint(conn, `<starttls xmlns='`+tlsNS+`'/>`); err != nil {
			return 0, nil, err
		}
		tok, err := d.Token()
		if err != nil {
			return 0, nil, err
		}
		st, ok := tok.(xml.StartElement)
		if !ok || st.Name.Local != "proceed" {
			return 0, nil, fmt.Errorf("verif: expected <proceed/>")
		}
		if err = d.Skip(); err != nil {
			return 0, nil, err
		}
		return xmpp.Secure, conn, nil
	}
	return f
}

// voluntary is a voluntary feature double; it fails when st.failAt says so.
func voluntary(st *steps, fail bool) xmpp.StreamFeature {
	return xmpp.StreamFeature{
		Name:      xml.Name{Space: "urn:verif:vol", Local: "vol"},
		Necessary: xmpp.Authn,
		List: func(ctx context.Context, e xmlstream.TokenWriter, start xml.StartElement) (bool, error) {
			if err := e.EncodeToken(start); err != nil {
				return false, err
			}
			return false, e.EncodeToken(start.End())
		},
		Parse: func(ctx context.Context, d *xml.Decoder, start *xml.StartElement) (bool, interface{}, error) {
			return false, nil, d.Skip()
		},
		Negotiate: func(ctx context.Context, s *xmpp.Session, data interface{}) (xmpp.SessionState, io.ReadWriter, error) {
			if s.State()&xmpp.Received != 0 {
				r := s.TokenReader()
				d := xml.NewTokenDecoder(r)
				tok, err := d.Token()
				if err == nil {
					if _, ok := tok.(xml.StartElement); ok {
						err = d.Skip()
					}
				}
				r.Close()
				if err == nil {
					_, err = fmt.Fprint(s.Conn(), `<ok xmlns="urn:verif:vol"/>`)
				}
				if err == nil && fail {
					err = errors.New("verif: voluntary feature failed")
				}
				st.results = append(st.results, err)
				return 0, nil, err
			}
			_, err := fmt.Fprint(s.Conn(), `<vol xmlns="urn:verif:vol"/>`)
			if err == nil {
				r := s.TokenReader()
				d := xml.NewTokenDecoder(r)
				var tok xml.Token
				tok, err = d.Token()
				if err == nil {
					if _, ok := tok.(xml.StartElement); ok {
						err = d.Skip()
					}
				}
				r.Close()
			}
			if err == nil && fail {
				err = errors.New("verif: voluntary feature failed")
			}
			st.results = append(st.results, err)
			return 0, nil, err
		},
	}
}

// callbackFails is a feature double (eligible once authenticated) one of whose
// callbacks reports an error that is not a transport failure: "list" (the
// receiving side's advertisement) or "parse" (the initiating side reading the
// advertisement).  The failure is recorded as a step result.
func callbackFails(st *steps, which string) xmpp.StreamFeature {
	return xmpp.StreamFeature{
		Name:      xml.Name{Space: "urn:verif:cbfail", Local: "cb"},
		Necessary: xmpp.Authn,
		List: func(ctx context.Context, e xmlstream.TokenWriter, start xml.StartElement) (bool, error) {
			if which == "list" {
				err := errors.New("verif: listing the feature failed")
				st.results = append(st.results, err)
				return false, err
			}
			if err := e.EncodeToken(start); err != nil {
				return false, err
			}
			return false, e.EncodeToken(start.End())
		},
		Parse: func(ctx context.Context, d *xml.Decoder, start *xml.StartElement) (bool, interface{}, error) {
			if which == "parse" {
				err := errors.New("verif: parsing the advertised feature failed")
				st.results = append(st.results, err)
				return false, nil, err
			}
			return false, nil, d.Skip()
		},
		Negotiate: func(ctx context.Context, s *xmpp.Session, data interface{}) (xmpp.SessionState, io.ReadWriter, error) {
			err := errors.New("verif: this double is never selected")
			st.results = append(st.results, err)
			return 0, nil, err
		},
	}
}

func withCallbackFailure(tr transcript, which string) transcript {
	tr.name += "+feature whose " + which + " callback fails"
	tr.prep = func(st *steps) {
		st.extraFeat = func(st *steps) xmpp.StreamFeature { return callbackFails(st, strings.TrimSuffix(which, "-early")) }
		if strings.HasSuffix(which, "-early") {
			// advertised while the feature is not negotiable (its prerequisites
			// do not hold): its Parse callback still runs and still fails
			st.extraAdvertEarly = `<cb xmlns="urn:verif:cbfail"/>`
		} else {
			st.extraAdvert = `<cb xmlns="urn:verif:cbfail"/>`
		}
	}
	return tr
}

func plainAuth() string {
	return base64.StdEncoding.EncodeToString([]byte("\x00juliet\x00secret"))
}

// reuse, when set, makes negotiatorFor hand out ONE Negotiator value per
// framing for every run (a reconnect loop): the configuration callback of that
// value returns the features of the run in progress.
var reuse *negReuse

type negReuse struct {
	neg   map[bool]xmpp.Negotiator
	feats map[bool]func() []xmpp.StreamFeature
}

func negotiatorFor(ws bool, feats func() []xmpp.StreamFeature) xmpp.Negotiator {
	if r := reuse; r != nil {
		r.feats[ws] = feats
		if r.neg[ws] == nil {
			cfg := func(*xmpp.Session, *xmpp.StreamConfig) xmpp.StreamConfig {
				return xmpp.StreamConfig{Features: r.feats[ws]()}
			}
			if ws {
				r.neg[ws] = websocket.Negotiator(cfg)
			} else {
				r.neg[ws] = xmpp.NewNegotiator(cfg)
			}
		}
		return r.neg[ws]
	}
	cfg := func(*xmpp.Session, *xmpp.StreamConfig) xmpp.StreamConfig {
		c := xmpp.StreamConfig{Features: feats()}
		// the XML console: copies of what is read / written go to these writers
		switch teeMode {
		case "both":
			c.TeeIn, c.TeeOut = io.Discard, io.Discard
		case "out":
			c.TeeOut = io.Discard
		case "in":
			c.TeeIn = io.Discard
		}
		return c
	}
	if ws {
		return websocket.Negotiator(cfg)
	}
	return xmpp.NewNegotiator(cfg)
}

// teeMode, when set, makes the sessions of the transcripts copy their input
// and/or output to a console writer (StreamConfig.TeeIn / TeeOut).
var teeMode string

func idOf(fresh []byte) string {
	i := bytes.Index(fresh, []byte(`id="`))
	q := byte('"')
	if i < 0 {
		i = bytes.Index(fresh, []byte(`id='`))
		q = '\''
	}
	if i < 0 {
		return ""
	}
	rest := fresh[i+4:]
	j := bytes.IndexByte(rest, q)
	if j < 0 {
		return ""
	}
	return string(rest[:j])
}

// full handshake, initiator: (starttls stand-in unless ws) + SASL PLAIN + optional voluntary + bind
func fullInitiator(ws bool, withVol bool, volFails bool, s2s bool) transcript {
	name := "starttls+sasl+bind/initiator"
	if ws {
		name = "websocket sasl+bind/initiator"
	}
	if withVol {
		name += fmt.Sprintf("+voluntary(fails=%v)", volFails)
	}
	ns := stanza.NSClient
	return transcript{
		name: name, ws: ws,
		start: func(ctx context.Context, rw io.ReadWriter, st *steps) (*xmpp.Session, error) {
			state := xmpp.SessionState(0)
			if ws {
				state = xmpp.Secure
			}
			feats := func() []xmpp.StreamFeature {
				fs := []xmpp.StreamFeature{xmpp.SASL("", "secret", sasl.Plain), xmpp.BindResource()}
				if !ws {
					fs = append([]xmpp.StreamFeature{startTLSStandIn()}, fs...)
				}
				if withVol {
					fs = append(fs, voluntary(st, volFails))
				}
				if st.extraFeat != nil {
					fs = append(fs, st.extraFeat(st))
				}
				return fs
			}
			if st.wrapper && !ws {
				return xmpp.NewClientSession(ctx, client, rw, feats()...)
			}
			return xmpp.NewSession(ctx, server, client, rw, state, negotiatorFor(ws, feats))
		},
		script: func(st *steps, p *wire.Reactive, fresh []byte) []byte {
			h := hdr(ws, ns, server.String(), st.headerTo, "s1")
			switch {
			case isHeader(fresh, ws):
				st.n++
				switch {
				case st.n == 1 && !ws:
					return []byte(h + features(ws, `<starttls xmlns="`+tlsNS+`"><required/></starttls>`+st.extraAdvertEarly))
				case (st.n == 2 && !ws) || (st.n == 1 && ws):
					return []byte(h + features(ws, `<mechanisms xmlns="`+saslNS+`"><mechanism>PLAIN</mechanism></mechanisms>`+st.extraAdvertEarly))
				default:
					vol := ""
					if withVol {
						vol = `<vol xmlns="urn:verif:vol"/>`
					}
					return []byte(h + features(ws, vol+`<bind xmlns="`+bindNS+`"/>`+st.extraAdvert))
				}
			case bytes.Contains(fresh, []byte("<starttls")):
				return []byte(`<proceed xmlns="` + tlsNS + `"/>`)
			case bytes.Contains(fresh, []byte("<auth")):
				return []byte(`<success xmlns="` + saslNS + `"/>`)
			case bytes.Contains(fresh, []byte("<vol")):
				return []byte(`<ok xmlns="urn:verif:vol"/>`)
			case bytes.Contains(fresh, []byte("<iq")):
				switch st.bindReply {
				case "error":
					return []byte(`<iq xmlns="jabber:client" type="error" id="` + idOf(fresh) + `"><error type="cancel"><conflict xmlns="urn:ietf:params:xml:ns:xmpp-stanzas"/></error></iq>`)
				case "error-empty":
					return []byte(`<iq xmlns="jabber:client" type="error" id="` + idOf(fresh) + `"/>`)
				case "error-echo":
					return []byte(`<iq xmlns="jabber:client" type="error" id="` + idOf(fresh) + `"><bind xmlns="` + bindNS + `"><resource>balcony</resource></bind></iq>`)
				case "get":
					return []byte(`<iq xmlns="jabber:client" type="get" id="` + idOf(fresh) + `"><bind xmlns="` + bindNS + `"><jid>` + client.String() + `</jid></bind></iq>`)
				case "notype":
					return []byte(`<iq xmlns="jabber:client" id="` + idOf(fresh) + `"><bind xmlns="` + bindNS + `"><jid>` + client.String() + `</jid></bind></iq>`)
				}
				return []byte(`<iq xmlns="jabber:client" type="result" id="` + idOf(fresh) + `"><bind xmlns="` + bindNS + `"><jid>` + client.String() + `</jid></bind></iq>`)
			}
			return nil
		},
	}
}

// full handshake, receiver: the harness plays the client
func fullReceiver(ws bool, withVol bool, volFails bool) transcript {
	name := "starttls+sasl+bind/receiver"
	if ws {
		name = "websocket sasl+bind/receiver"
	}
	if withVol {
		name += fmt.Sprintf("+voluntary(fails=%v)", volFails)
	}
	ns := stanza.NSClient
	return transcript{
		name: name, recv: true, ws: ws,
		start: func(ctx context.Context, rw io.ReadWriter, st *steps) (*xmpp.Session, error) {
			state := xmpp.SessionState(0)
			if ws {
				state = xmpp.Secure
			}
			feats := func() []xmpp.StreamFeature {
				fs := []xmpp.StreamFeature{
					xmpp.SASLServer(func(n *sasl.Negotiator) bool {
						u, p, _ := n.Credentials()
						return string(u) == "juliet" && string(p) == "secret"
					}, sasl.Plain),
					xmpp.BindResource(),
				}
				if st.bindFn != nil {
					fs[1] = xmpp.BindCustom(st.bindFn)
				}
				if !ws {
					fs = append([]xmpp.StreamFeature{startTLSStandIn()}, fs...)
				}
				if withVol {
					fs = append(fs, voluntary(st, volFails))
				}
				if st.extraFeat != nil {
					fs = append(fs, st.extraFeat(st))
				}
				return fs
			}
			if st.wrapper && !ws {
				return xmpp.ReceiveClientSession(ctx, server, rw, feats()...)
			}
			return xmpp.ReceiveSession(ctx, rw, state, negotiatorFor(ws, feats))
		},
		script: func(st *steps, p *wire.Reactive, fresh []byte) []byte {
			h := hdr(ws, ns, client.Bare().String(), server.String(), "")
			st.n++
			// the client's moves, in order
			moves := []string{h}
			if !ws {
				moves = append(moves, `<starttls xmlns="`+tlsNS+`"/>`, h)
			}
			moves = append(moves, `<auth xmlns="`+saslNS+`" mechanism="PLAIN">`+plainAuth()+`</auth>`, h)
			if withVol {
				moves = append(moves, `<vol xmlns="urn:verif:vol"/>`)
			}
			moves = append(moves, `<iq xmlns="jabber:client" type="set" id="b1"><bind xmlns="`+bindNS+`"><resource>balcony</resource></bind></iq>`)
			if st.badHeaderAt > 0 {
				k := 0
				for i, m := range moves {
					if m == h {
						k++
						if k == st.badHeaderAt {
							moves[i] = st.badHeader
						}
					}
				}
			}
			if st.n <= len(moves) {
				return []byte(moves[st.n-1])
			}
			return nil
		},
	}
}

// withBadHeader: the initiating peer's k-th stream header is one that the
// receiving side must refuse.
func withBadHeader(tr transcript, k int, what, header string) transcript {
	tr.name += fmt.Sprintf(" peer-header-%d=%s fails=true", k, what)
	tr.prep = func(st *steps) { st.badHeaderAt, st.badHeader = k, header }
	return tr
}

// badHeaders are stream headers of an initiating peer that a receiving c2s
// session must refuse.
func badHeaders(ws bool) map[string]string {
	good := hdr(ws, stanza.NSClient, client.Bare().String(), server.String(), "")
	out := map[string]string{
		"version-0.9": replaceLast(good, ` version="1.0"`, ` version="0.9"`),
		"version-2.0": replaceLast(good, ` version="1.0"`, ` version="2.0"`),
		"no-version":  replaceLast(good, ` version="1.0"`, ``),
		"bad-to":      strings.Replace(good, ` to="`+server.String()+`"`, ` to="@@"`, 1),
		"bad-from":    strings.Replace(good, ` from="`+client.Bare().String()+`"`, ` from="a@@b"`, 1),
	}
	if !ws {
		out["foreign-content-namespace"] = strings.Replace(good, `xmlns="`+stanza.NSClient+`"`, `xmlns="urn:verif:not-a-stream-namespace"`, 1)
	}
	return out
}

// replaceLast replaces the last occurrence of old (the XML declaration in
// front of a TCP header also says version="1.0").
func replaceLast(s, old, new string) string {
	i := strings.LastIndex(s, old)
	if i < 0 {
		return s
	}
	return s[:i] + new + s[i+len(old):]
}

func plainInitiator(s2s bool) transcript {
	ns, name := stanza.NSClient, "plain c2s/initiator"
	state := xmpp.SessionState(0)
	if s2s {
		ns, name, state = stanza.NSServer, "plain s2s/initiator", xmpp.S2S
	}
	return transcript{
		name: name,
		start: func(ctx context.Context, rw io.ReadWriter, st *steps) (*xmpp.Session, error) {
			if st.wrapper && s2s {
				return xmpp.NewServerSession(ctx, server, client.Bare(), rw)
			}
			if st.wrapper {
				return xmpp.NewClientSession(ctx, client.Bare(), rw)
			}
			return xmpp.NewSession(ctx, server, client.Bare(), rw, state, negotiatorFor(false, func() []xmpp.StreamFeature { return nil }))
		},
		script: func(st *steps, p *wire.Reactive, fresh []byte) []byte {
			if isHeader(fresh, false) {
				return []byte(hdr(false, ns, server.String(), client.Bare().String(), "s1") + features(false, ""))
			}
			return nil
		},
	}
}

// s2s handshake, initiator: the voluntary bidi feature (whose request is
// flushed by a deferred Close of the token writer) followed by SASL
func bidiInitiator() transcript {
	ns := stanza.NSServer
	return transcript{
		name: "s2s bidi+sasl/initiator",
		start: func(ctx context.Context, rw io.ReadWriter, st *steps) (*xmpp.Session, error) {
			return xmpp.NewSession(ctx, server, client.Domain(), rw, xmpp.Secure|xmpp.S2S, negotiatorFor(false, func() []xmpp.StreamFeature {
				return []xmpp.StreamFeature{s2s.Bidi(), xmpp.SASL("", "secret", sasl.Plain)}
			}))
		},
		script: func(st *steps, p *wire.Reactive, fresh []byte) []byte {
			h := hdr(false, ns, server.String(), client.Domain().String(), "b1")
			switch {
			case isHeader(fresh, false):
				st.n++
				if st.n == 1 {
					return []byte(h + features(false, `<bidi xmlns="urn:xmpp:features:bidi"/><mechanisms xmlns="`+saslNS+`"><mechanism>PLAIN</mechanism></mechanisms>`))
				}
				return []byte(h + features(false, ""))
			case bytes.Contains(fresh, []byte("<auth")):
				return []byte(`<success xmlns="` + saslNS + `"/>`)
			}
			return nil
		},
	}
}

// componentInitiator: ack is how the server spells its acknowledgement (an
// empty element either way): "<handshake/>", "<handshake></handshake>", with
// white space inside.
func componentInitiator(ack string) transcript {
	secret := []byte("s3cr3t")
	return transcript{
		name: "component handshake/initiator (acknowledged with " + ack + ")",
		start: func(ctx context.Context, rw io.ReadWriter, st *steps) (*xmpp.Session, error) {
			return component.NewSession(ctx, jid.MustParse("comp.example.net"), secret, rw)
		},
		script: func(st *steps, p *wire.Reactive, fresh []byte) []byte {
			switch {
			case bytes.Contains(fresh, []byte("<stream:stream")):
				return []byte(`<?xml version="1.0"?><stream:stream xmlns="jabber:component:accept" xmlns:stream="` + wire.StreamNS + `" from="comp.example.net" id="c1">`)
			case bytes.Contains(fresh, []byte("<handshake>")):
				h := sha1.New()
				h.Write([]byte("c1"))
				h.Write(secret)
				want := fmt.Sprintf("<handshake>%x</handshake>", h.Sum(nil))
				if !bytes.Contains(fresh, []byte(want)) {
					return []byte(`<stream:error><not-authorized xmlns="urn:ietf:params:xml:ns:xmpp-streams"/></stream:error>`)
				}
				return []byte(ack)
			}
			return nil
		},
	}
}

func transcripts() []transcript {
	return []transcript{
		plainInitiator(false),
		plainInitiator(true),
		fullInitiator(false, false, false, false),
		fullReceiver(false, false, false),
		fullInitiator(true, false, false, false),
		fullReceiver(true, false, false),
		componentInitiator(`<handshake/>`),
		componentInitiator(`<handshake></handshake>`),
		componentInitiator("<handshake>\n</handshake>"),
		fullInitiator(false, true, false, false),
		fullReceiver(false, true, false),
		bidiInitiator(),
		viaWrapper(plainInitiator(false)),
		viaWrapper(plainInitiator(true)),
		viaWrapper(fullInitiator(false, false, false, false)),
		viaWrapper(fullReceiver(false, false, false)),
	}
}

// ---------------------------------------------------------------- faults

type fault struct {
	kind string // none cut readerr readtimeout writeerr writetimeout writelate cancel precancel block
	n    int
	// the call's context also carries a deadline far in the future (it is a
	// cancellable child of a context with an overall time limit)
	farDeadline bool
}

func (f fault) String() string {
	if f.farDeadline {
		return fmt.Sprintf("%s@%d(context also has a deadline one hour away)", f.kind, f.n)
	}
	return fmt.Sprintf("%s@%d", f.kind, f.n)
}

type result struct {
	s        *xmpp.Session
	err      error
	panicked string
	returned bool
	fed      int      // bytes of the peer transcript delivered
	bounds   []int    // cumulative transcript length after each peer message
	msgs     [][]byte // the peer's messages
	reads    int
	writes   int
	ops      int
	stepRes  []error
	dump     string
	elapsed  time.Duration
}

const watchdog = 10 * time.Second

// netTimeout is a transport failure of the timeout kind (net.Error with
// Timeout() true) that has nothing to do with the call's context: a deadline
// the owner of the connection set, ETIMEDOUT, a proxy or TLS layer timing out.
type netTimeout struct{}

func (netTimeout) Error() string   { return "verif: injected i/o timeout" }
func (netTimeout) Timeout() bool   { return true }
func (netTimeout) Temporary() bool { return true }

func runWith(tr transcript, f fault, plainRW bool) result {
	var res result
	st := &steps{failAt: -1}
	if tr.prep != nil {
		tr.prep(st)
	}
	parent := context.Background()
	if f.farDeadline {
		var pcancel context.CancelFunc
		parent, pcancel = context.WithTimeout(parent, time.Hour)
		defer pcancel()
	}
	ctx, cancel := context.WithCancel(parent)
	defer cancel()
	if f.kind == "precancel" {
		cancel() // the context has ended before the call is made
	}
	ops := 0
	var peer *wire.Reactive
	peer = wire.NewReactive(func(p *wire.Reactive, fresh []byte) []byte {
		reply := tr.script(st, p, fresh)
		if reply == nil {
			return nil
		}
		if f.kind == "cut" && res.fed+len(reply) > f.n {
			reply = reply[:f.n-res.fed]
			res.fed += len(reply)
			p.Conn.Feed(reply)
			return nil // end of the peer's stream
		}
		res.fed += len(reply)
		res.bounds = append(res.bounds, res.fed)
		res.msgs = append(res.msgs, append([]byte(nil), reply...))
		return reply
	})
	if f.kind == "block" {
		// a silent peer: instead of message number f.n nothing arrives; the Read
		// must wait (no EOF) and the context is cancelled while it is blocked
		inner := peer.Conn.OnIdleRead
		silent := false
		peer.Conn.OnIdleRead = func() bool {
			if !silent && len(res.bounds) == f.n {
				silent = true
				go func() {
					time.Sleep(5 * time.Millisecond)
					cancel()
				}()
			}
			if silent {
				return false
			}
			return inner()
		}
	}
	hook := func(isRead bool) error {
		idx := ops
		ops++
		if f.kind == "cancelplain" && idx == f.n {
			cancel()
		}
		if f.kind == "cancel" && idx == f.n {
			cancel()
			// give the library the chance to act on the cancellation before the
			// operation proceeds (the harness owns the clock)
			// (bounded by 3 s, not by a few milliseconds: on a loaded machine the
			// library's watcher goroutine may be scheduled late, and an operation
			// that simply overtook the cancellation is no violation)
			for i := 0; i < 30000 && !peer.Conn.DeadlineSet(); i++ {
				time.Sleep(100 * time.Microsecond)
				runtime.Gosched()
			}
		}
		return nil
	}
	peer.Conn.BeforeRead = func(n int) error {
		res.reads++
		if err := hook(true); err != nil {
			return err
		}
		if f.kind == "readerr" && n == f.n {
			return wire.ErrInjected
		}
		if f.kind == "readtimeout" && n == f.n {
			return netTimeout{}
		}
		return nil
	}
	peer.Conn.BeforeWrite = func(n int, p []byte) error {
		res.writes++
		if err := hook(false); err != nil {
			return err
		}
		if f.kind == "writeerr" && n == f.n {
			return wire.ErrInjected
		}
		if f.kind == "writetimeout" && n == f.n {
			return netTimeout{}
		}
		if f.kind == "writestall" && n == f.n {
			// the peer has stopped reading: this write and every later one block
			// until a deadline makes them fail; the context ends while the write
			// is blocked
			go func() {
				time.Sleep(5 * time.Millisecond)
				cancel()
			}()
		}
		return nil
	}
	if f.kind == "writestall" {
		peer.Conn.StallWritesFrom = f.n
	}
	if f.kind == "readerrdata" {
		// read number f.n delivers its data and reports a failure in the same
		// call; the transport keeps delivering afterwards (the error is not
		// repeated)
		peer.Conn.WithData = func(n, k int) error {
			if n == f.n {
				return wire.ErrInjected
			}
			return nil
		}
	}
	if f.kind == "writelate" {
		// the bytes of write f.n reach the peer (which answers as usual) but the
		// Write call reports a failure all the same
		peer.Conn.AfterWrite = func(n int, p []byte) error {
			if n == f.n {
				return wire.ErrInjected
			}
			return nil
		}
	}
	var rw io.ReadWriter = peer.Conn
	if plainRW {
		rw = wire.RW{C: peer.Conn}
	}
	done := make(chan struct{})
	t0 := time.Now()
	go func() {
		defer close(done)
		res.panicked = ev.Guard(func() { res.s, res.err = tr.start(ctx, rw, st) })
	}()
	select {
	case <-done:
		res.returned = true
	case <-time.After(watchdog):
		buf := make([]byte, 1<<18)
		res.dump = string(buf[:runtime.Stack(buf, true)])
		// unblock and let the goroutine finish (a call that is parked on a lock
		// inside the library does not come back when the connection is closed:
		// it is left behind)
		peer.Conn.Close()
		select {
		case <-done:
		case <-time.After(2 * time.Second):
		}
	}
	res.elapsed = time.Since(t0)
	res.ops = ops
	res.stepRes = st.results
	return res
}

// ---------------------------------------------------------------- oracle

func ready(r result) bool { return r.s != nil && r.s.State()&xmpp.Ready != 0 }

func judge(tr transcript, f fault, base, r result) string {
	if r.panicked != "" {
		return r.panicked
	}
	if !r.returned {
		return fmt.Sprintf("the call had not returned %v after the fault; goroutines:\n%s", watchdog, r.dump)
	}
	failedStep := false
	for _, e := range r.stepRes {
		if e != nil {
			failedStep = true
		}
	}
	if failedStep && r.err == nil {
		return "a negotiation step reported an error but the constructor returned nil (state " + fmt.Sprint(r.s.State()) + ")"
	}
	// whatever happened, and wherever: an error never comes with a ready
	// session, and success never with one that is not ready
	if r.err != nil && ready(r) {
		return fmt.Sprintf("the constructor returned the error %v together with a session that is marked ready (state %v)", r.err, r.s.State())
	}
	if r.err == nil && !ready(r) {
		return fmt.Sprintf("the constructor returned nil but the session is not ready (state %v)", r.s.State())
	}
	if r.err != nil {
		if p := ev.Guard(func() { _ = r.err.Error() }); p != "" {
			return fmt.Sprintf("the error the constructor returned (%T) cannot be rendered: %s", r.err, p)
		}
	}
	switch f.kind {
	case "none", "cancelplain":
		// (cancelplain: on a transport without deadlines nothing interrupts the
		// steps; the handshake may run to completion or fail, consistently)
		return ""
	case "cut":
		if f.n >= base.fed {
			return ""
		}
	case "readerrdata":
		// (the data of that read is delivered: when it was the last read the
		// handshake needed, completing is legitimate)
		if f.n >= base.reads-1 || f.n >= len(base.msgs)-1 {
			return ""
		}
		// (what is read right before a stream restart is read by a decoder that
		// is then replaced, together with whatever its buffer still held: an
		// error that is reported once, with the last bytes of the old stream,
		// has no later read to surface in)
		for _, mark := range []string{"<proceed", "<success", "<starttls", "<auth"} {
			if bytes.Contains(base.msgs[f.n], []byte(mark)) {
				return ""
			}
		}
	case "readerr", "readtimeout":
		if f.n >= base.reads {
			return ""
		}
	case "writeerr", "writelate", "writetimeout", "writestall":
		if f.n >= base.writes {
			return ""
		}
	case "cancel":
		if f.n >= base.ops {
			return ""
		}
	}
	if r.err == nil {
		return fmt.Sprintf("fault before completion but the constructor returned nil; state %v", r.s.State())
	}
	if ready(r) {
		return fmt.Sprintf("fault before completion: error %v but the session is marked ready (state %v)", r.err, r.s.State())
	}
	if (f.kind == "block" || f.kind == "writestall") && r.elapsed > 5*time.Second {
		return fmt.Sprintf("the call took %v to return after the cancellation", r.elapsed)
	}
	return ""
}

func describe(tr transcript, f fault, plainRW bool, base, r result) string {
	return fmt.Sprintf("transcript %q fault=%s transport-with-deadlines=%v\nfault-free run: peer bytes=%d (message boundaries %v) reads=%d writes=%d\nthis run: err=%v ready=%v peer bytes delivered=%d ops=%d step results=%v",
		tr.name, f, !plainRW, base.fed, base.bounds, base.reads, base.writes, r.err, ready(r), r.fed, r.ops, r.stepRes)
}

type failer interface {
	Helper()
	Fatalf(string, ...any)
}

func checkFault(t failer, tr transcript, f fault, plainRW bool, base result) {
	t.Helper()
	r := runWith(tr, f, plainRW)
	if msg := judge(tr, f, base, r); msg != "" {
		ev.Failf(t, "%s\n%s", describe(tr, f, plainRW, base, r), msg)
	}
}

func baseline(t failer, tr transcript) result {
	t.Helper()
	base := runWith(tr, fault{kind: "none"}, false)
	wantReady := !strings.Contains(tr.name, "fails=true")
	if base.panicked != "" || !base.returned || (wantReady && (base.err != nil || !ready(base))) {
		// the fault-free handshake must succeed, otherwise nothing can be concluded
		t.Fatalf("harness: fault-free run of %q failed: err=%v ready=%v panic=%s", tr.name, base.err, ready(base), base.panicked)
	}
	return base
}

// ---------------------------------------------------------------- tests

// TestC04Sweep places every cut, every failing operation and every cancellation
// instant over the fixed transcripts.
func TestC04Sweep(t *testing.T) {
	ev.Begin(t)
	for _, tr := range transcripts() {
		base := baseline(t, tr)
		for n := 0; n < base.fed; n++ {
			landsInFeatures := len(base.bounds) > 0 && n > base.bounds[0]
			ev.Case(landsInFeatures, fmt.Sprintf("%s cut@%d", tr.name, n), "cut", "transcript:"+tr.name)
			checkFault(t, tr, fault{kind: "cut", n: n}, n%2 == 0, base)
		}
		for n := 0; n < base.reads; n++ {
			ev.Case(n > 0, fmt.Sprintf("%s readerr@%d", tr.name, n), "readerr")
			checkFault(t, tr, fault{kind: "readerr", n: n}, false, base)
		}
		for n := 0; n < base.writes; n++ {
			ev.Case(n > 0, fmt.Sprintf("%s writeerr@%d", tr.name, n), "writeerr")
			checkFault(t, tr, fault{kind: "writeerr", n: n}, true, base)
		}
		for n := 0; n < base.reads; n++ {
			ev.Case(true, fmt.Sprintf("%s readtimeout@%d", tr.name, n), "read-fails-with-timeout-error")
			checkFault(t, tr, fault{kind: "readtimeout", n: n}, n%3 == 2, base)
		}
		for n := 0; n < base.writes; n++ {
			ev.Case(true, fmt.Sprintf("%s writetimeout@%d", tr.name, n), "write-fails-with-timeout-error")
			checkFault(t, tr, fault{kind: "writetimeout", n: n}, n%3 == 2, base)
		}
		for n := 0; n < base.reads; n++ {
			ev.Case(true, fmt.Sprintf("%s readerrdata@%d", tr.name, n), "read-delivers-data-and-an-error")
			checkFault(t, tr, fault{kind: "readerrdata", n: n}, n%2 == 0, base)
		}
		for n := 0; n < base.writes; n++ {
			ev.Case(true, fmt.Sprintf("%s writelate@%d", tr.name, n), "write-delivered-but-reported-failed")
			checkFault(t, tr, fault{kind: "writelate", n: n}, n%2 == 0, base)
		}
		for n := 0; n < base.writes; n++ {
			// (a transport with deadlines whose peer stops reading)
			ev.Case(true, fmt.Sprintf("%s writestall@%d", tr.name, n), "peer-stops-reading-then-context-ends")
			checkFault(t, tr, fault{kind: "writestall", n: n}, false, base)
		}
		for n := 0; n < base.ops; n++ {
			ev.Case(n > 1, fmt.Sprintf("%s cancel@%d", tr.name, n), "cancel-before-op")
			checkFault(t, tr, fault{kind: "cancel", n: n}, false, base)
		}
		for n := 0; n < base.ops; n++ {
			ev.Case(n > 1, fmt.Sprintf("%s cancel@%d on a transport without deadlines", tr.name, n), "cancel-before-op-no-deadlines")
			checkFault(t, tr, fault{kind: "cancelplain", n: n}, true, base)
		}
		for _, plain := range []bool{true, false} {
			ev.Case(true, fmt.Sprintf("%s precancel plain=%v", tr.name, plain), "precancel")
			r := runWith(tr, fault{kind: "precancel"}, plain)
			if msg := judgeMust(r); msg != "" {
				ev.Failf(t, "%s\nthe context had ended before the call\n%s", describe(tr, fault{kind: "precancel"}, plain, base, r), msg)
			}
		}
		for n := 0; n < len(base.bounds); n++ {
			ev.Case(n > 0, fmt.Sprintf("%s block@%d", tr.name, n), "cancel-while-read-blocked")
			checkFault(t, tr, fault{kind: "block", n: n}, false, base)
			ev.Case(true, fmt.Sprintf("%s block@%d far-deadline", tr.name, n), "cancel-while-read-blocked", "context-with-far-deadline")
			checkFault(t, tr, fault{kind: "block", n: n, farDeadline: true}, false, base)
		}
		for n := 0; n < base.ops; n += 1 + base.ops/8 {
			ev.Case(true, fmt.Sprintf("%s cancel@%d far-deadline", tr.name, n), "cancel-before-op", "context-with-far-deadline")
			checkFault(t, tr, fault{kind: "cancel", n: n, farDeadline: true}, false, base)
		}
	}
}

// TestC04ReusedNegotiator: one Negotiator value serves several sessions one
// after the other.  What an earlier session was given (its context, its first
// list bookkeeping) is not what a later one runs with: after a fault-free
// session, the next one is started with a context that has already ended (on
// both kinds of transport) or that ends before one of its transport operations.
func TestC04ReusedNegotiator(t *testing.T) {
	ev.Begin(t)
	defer func() { reuse = nil }()
	for _, tr := range []transcript{fullInitiator(false, false, false, false), fullReceiver(false, false, false), fullInitiator(true, false, false, false), fullReceiver(true, false, false), plainInitiator(false)} {
		reuse = nil
		base := baseline(t, tr)
		for _, plain := range []bool{true, false} {
			reuse = &negReuse{neg: map[bool]xmpp.Negotiator{}, feats: map[bool]func() []xmpp.StreamFeature{}}
			first := runWith(tr, fault{kind: "none"}, false)
			if first.err != nil || !ready(first) {
				t.Fatalf("harness: fault-free first session of %q with a reusable negotiator failed: %v", tr.name, first.err)
			}
			ev.Case(true, fmt.Sprintf("%s reused-negotiator precancel plain=%v", tr.name, plain), "negotiator-reused", "precancel")
			r := runWith(tr, fault{kind: "precancel"}, plain)
			msg := judgeMust(r)
			if msg != "" {
				ev.Failf(t, "%s\nsecond session made with the same Negotiator value, its context had ended before the call\n%s", describe(tr, fault{kind: "precancel"}, plain, base, r), msg)
			}
			if !plain {
				for n := 0; n < base.ops; n += 1 + base.ops/6 {
					ev.Case(true, fmt.Sprintf("%s reused-negotiator cancel@%d", tr.name, n), "negotiator-reused", "cancel-before-op")
					checkFault(t, tr, fault{kind: "cancel", n: n}, false, base)
				}
			}
		}
	}
}

// judgeMust: the run must have ended with an error and without the ready bit.
func judgeMust(r result) string {
	switch {
	case r.panicked != "":
		return r.panicked
	case !r.returned:
		return fmt.Sprintf("the call had not returned after %v; goroutines:\n%s", watchdog, r.dump)
	case r.err == nil:
		return fmt.Sprintf("the constructor returned nil; state %v", r.s.State())
	case ready(r):
		return fmt.Sprintf("error %v but the session is marked ready (state %v)", r.err, r.s.State())
	}
	return ""
}

// TestC04FailingStep: a handshake containing a failing voluntary feature must
// not be reported as established.
func TestC04FailingStep(t *testing.T) {
	ev.Begin(t)
	for _, tr := range []transcript{fullInitiator(false, true, true, false), fullReceiver(false, true, true), fullInitiator(true, true, true, false), fullReceiver(true, true, true),
		withCallbackFailure(fullReceiver(false, false, false), "list"), withCallbackFailure(fullReceiver(true, false, false), "list"), withCallbackFailure(fullReceiver(false, true, false), "list"),
		withCallbackFailure(fullInitiator(false, false, false, false), "parse"), withCallbackFailure(fullInitiator(true, false, false, false), "parse"),
		withCallbackFailure(fullInitiator(false, false, false, false), "parse-early"), withCallbackFailure(fullInitiator(true, false, false, false), "parse-early")} {
		r := runWith(tr, fault{kind: "none"}, false)
		ev.Case(true, tr.name+" fault-free", "failing-voluntary-step")
		base := result{}
		if msg := judge(tr, fault{kind: "none"}, base, r); msg != "" {
			ev.Failf(t, "%s\n%s", describe(tr, fault{kind: "none"}, false, base, r), msg)
		}
		if len(r.stepRes) == 0 {
			t.Fatalf("harness: the voluntary double never ran in %q (err=%v)", tr.name, r.err)
		}
	}
}

// TestC04Tee: the handshakes with the XML console switched on (TeeIn / TeeOut):
// the same faults must fail the same way.
func TestC04Tee(t *testing.T) {
	ev.Begin(t)
	defer func() { teeMode = "" }()
	for _, mode := range []string{"both", "out", "in"} {
		for _, tr := range []transcript{fullInitiator(false, false, false, false), fullReceiver(false, false, false), plainInitiator(false)} {
			teeMode = mode
			base := baseline(t, tr)
			for n := 0; n < base.writes; n++ {
				for _, kind := range []string{"writeerr", "writelate", "writetimeout"} {
					ev.Case(true, fmt.Sprintf("%s tee=%s %s@%d", tr.name, mode, kind, n), "tee-"+mode, "tee-"+kind)
					checkFaultTee(t, tr, fault{kind: kind, n: n}, n%2 == 0, base, mode)
				}
			}
			for n := 0; n < base.reads; n++ {
				ev.Case(true, fmt.Sprintf("%s tee=%s readerr@%d", tr.name, mode, n), "tee-"+mode, "tee-readerr")
				checkFaultTee(t, tr, fault{kind: "readerr", n: n}, n%2 == 1, base, mode)
			}
			for n := 0; n < base.fed; n += 1 + n%5 {
				ev.Case(true, fmt.Sprintf("%s tee=%s cut@%d", tr.name, mode, n), "tee-"+mode, "tee-cut")
				checkFaultTee(t, tr, fault{kind: "cut", n: n}, n%2 == 0, base, mode)
			}
			for n := 0; n < base.ops; n++ {
				ev.Case(true, fmt.Sprintf("%s tee=%s cancel@%d", tr.name, mode, n), "tee-"+mode, "tee-cancel")
				checkFaultTee(t, tr, fault{kind: "cancel", n: n}, false, base, mode)
			}
		}
	}
}

func checkFaultTee(t failer, tr transcript, f fault, plainRW bool, base result, mode string) {
	t.Helper()
	r := runWith(tr, f, plainRW)
	if msg := judge(tr, f, base, r); msg != "" {
		ev.Failf(t, "XML console: StreamConfig tee mode %q\n%s\n%s", mode, describe(tr, f, plainRW, base, r), msg)
	}
}

// TestC04RefusedBind: the receiving entity answers the bind request, the step
// that would complete the session, with something other than a result.
func TestC04RefusedBind(t *testing.T) {
	ev.Begin(t)
	for _, ws := range []bool{false, true} {
		for _, kind := range []string{"error", "error-empty", "error-echo", "get", "notype"} {
			tr := withBindReply(fullInitiator(ws, false, false, false), kind)
			for _, plain := range []bool{false, true} {
				ev.Case(true, fmt.Sprintf("%s plain=%v", tr.name, plain), "bind-refused", "bind-refused-"+kind)
				r := runWith(tr, fault{kind: "none"}, plain)
				msg := judgeMust(r)
				if msg == "" && r.err != nil {
					if p := ev.Guard(func() { _ = r.err.Error() }); p != "" {
						msg = fmt.Sprintf("the error the constructor returned (%T) cannot be rendered: %s", r.err, p)
					}
				}
				if msg != "" {
					ev.Failf(t, "%s\nthe peer answered the bind request with an IQ that is not a result\n%s", describe(tr, fault{kind: "none"}, plain, result{}, r), msg)
				}
			}
		}
	}
}

// TestC04BindCallbackFails: on the receiving side the application's bind
// callback fails with an error that is not a stanza error (its database is
// down): the step has failed, establishment must report an error.
func TestC04BindCallbackFails(t *testing.T) {
	ev.Begin(t)
	for _, ws := range []bool{false, true} {
		for _, wrapper := range []bool{false, true} {
			for _, kind := range []string{"plain-error", "wrapped-error", "after-success"} {
				tr := fullReceiver(ws, false, false)
				tr.name += " with a bind callback that fails (" + kind + ")"
				old := tr.prep
				calls := 0
				tr.prep = func(st *steps) {
					if old != nil {
						old(st)
					}
					st.wrapper = wrapper
					st.bindFn = func(j jid.JID, res string) (jid.JID, error) {
						calls++
						switch kind {
						case "wrapped-error":
							return jid.JID{}, fmt.Errorf("binding %q: %w", res, io.ErrUnexpectedEOF)
						case "after-success":
							// an address AND an error: the error counts
							full, _ := j.WithResource("r1")
							return full, errors.New("quota exceeded")
						}
						return jid.JID{}, errors.New("database down")
					}
				}
				ev.Case(true, fmt.Sprintf("%s convenience-constructor=%v", tr.name, wrapper), "bind-callback-fails", "bind-callback-fails-"+kind)
				r := runWith(tr, fault{kind: "none"}, false)
				if calls == 0 {
					t.Fatalf("harness: the bind callback never ran in %q (err=%v)", tr.name, r.err)
				}
				if msg := judgeMust(r); msg != "" {
					ev.Failf(t, "%s\nthe application's bind callback returned an error that is not a stanza error\n%s", describe(tr, fault{kind: "none"}, false, result{}, r), msg)
				}
			}
		}
	}
}

// withRefusal: the peer's m-th message is replaced by a stream error followed
// by the end of its stream - after its stream header when the message began
// with one (the usual way a peer refuses a stream: host-unknown,
// policy-violation, ...).
func withRefusal(tr transcript, m int, cond string) transcript {
	tr.name += fmt.Sprintf(" with the peer's message %d replaced by the stream error %s", m, cond)
	old := tr.prep
	tr.prep = func(st *steps) {
		if old != nil {
			old(st)
		}
		st.refuseAt = m
	}
	inner, ws := tr.script, tr.ws
	tr.script = func(st *steps, p *wire.Reactive, fresh []byte) []byte {
		out := inner(st, p, fresh)
		if out == nil {
			return nil
		}
		st.msgNo++
		switch {
		case st.msgNo < st.refuseAt:
			return out
		case st.msgNo > st.refuseAt:
			return nil
		}
		prefix := ""
		mark := "<stream:stream"
		if ws {
			mark = "<open"
		}
		if i := bytes.Index(out, []byte(mark)); i >= 0 {
			prefix = string(out[:i+bytes.IndexByte(out[i:], '>')+1])
		}
		if ws {
			return []byte(prefix + `<stream:error xmlns:stream="` + wire.StreamNS + `"><` + cond + ` xmlns="urn:ietf:params:xml:ns:xmpp-streams"/></stream:error><close xmlns="` + wire.WSNS + `"/>`)
		}
		return []byte(prefix + `<stream:error><` + cond + ` xmlns="urn:ietf:params:xml:ns:xmpp-streams"/></stream:error></stream:stream>`)
	}
	return tr
}

// TestC04StreamRefused: the peer answers one of the handshake's moves - the
// stream header included - with a stream error and the end of its stream, cut
// at every byte from the beginning of that answer: the constructor reports an
// error, the session is not ready, nothing panics.
func TestC04StreamRefused(t *testing.T) {
	ev.Begin(t)
	for _, tr0 := range []transcript{plainInitiator(false), plainInitiator(true), fullInitiator(false, false, false, false), fullReceiver(false, false, false),
		fullInitiator(true, false, false, false), fullReceiver(true, false, false), componentInitiator(`<handshake/>`), componentInitiator(`<handshake></handshake>`), bidiInitiator(), viaWrapper(fullInitiator(false, false, false, false))} {
		base0 := baseline(t, tr0)
		for m := 1; m <= len(base0.msgs); m++ {
			cond := []string{"host-unknown", "policy-violation", "system-shutdown"}[m%3]
			tr := withRefusal(tr0, m, cond)
			full := runWith(tr, fault{kind: "none"}, false)
			ev.Case(true, tr.name, "peer-refuses-with-stream-error", fmt.Sprintf("peer-refuses-at-message-%d", m))
			if msg := judgeMust(full); msg != "" {
				ev.Failf(t, "%s\n%s", describe(tr, fault{kind: "none"}, false, base0, full), msg)
			}
			from := 0
			if m >= 2 {
				from = base0.bounds[m-2]
			}
			for n := from; n <= full.fed; n++ {
				ev.Case(true, fmt.Sprintf("%s cut@%d", tr.name, n), "peer-refuses-with-stream-error", "cut")
				r := runWith(tr, fault{kind: "cut", n: n}, n%2 == 0)
				if msg := judgeMust(r); msg != "" {
					ev.Failf(t, "%s\n%s", describe(tr, fault{kind: "cut", n: n}, n%2 == 0, base0, r), msg)
				}
			}
		}
	}
}

// TestC04BadHeaderAddress: the step that reads the peer's stream header fails
// (the header's to attribute is not an address) under both framings.
func TestC04BadHeaderAddress(t *testing.T) {
	ev.Begin(t)
	for _, ws := range []bool{false, true} {
		for _, to := range []string{"me@@example.net", "@example.net", "juliet@example.net/"} {
			tr := withHeaderTo(fullInitiator(ws, false, false, false), to)
			for _, plain := range []bool{false, true} {
				ev.Case(true, fmt.Sprintf("%s plain=%v", tr.name, plain), "header-step-fails", fmt.Sprintf("header-step-fails-ws=%v", ws))
				r := runWith(tr, fault{kind: "none"}, plain)
				if msg := judgeMust(r); msg != "" {
					ev.Failf(t, "%s\nthe peer's stream header carries to=%q, which is not an address: reading the header fails\n%s", describe(tr, fault{kind: "none"}, plain, result{}, r), to, msg)
				}
			}
		}
	}
}

// TestC04BadHeaderReceived: on the receiving side the step that reads the
// initiating peer's stream header refuses the header (unsupported or missing
// version, foreign content namespace, addresses that are not addresses) - the
// first header or the one after a restart - and the peer, ignoring whatever it
// is told, carries on with the rest of an otherwise flawless handshake.
func TestC04BadHeaderReceived(t *testing.T) {
	ev.Begin(t)
	for _, ws := range []bool{false, true} {
		nh := 3
		if ws {
			nh = 2
		}
		hs := badHeaders(ws)
		var names []string
		for k := range hs {
			names = append(names, k)
		}
		sort.Strings(names)
		for _, what := range names {
			for k := 1; k <= nh; k++ {
				tr := withBadHeader(fullReceiver(ws, false, false), k, what, hs[what])
				for _, plain := range []bool{false, true} {
					ev.Case(true, fmt.Sprintf("%s plain=%v", tr.name, plain), "header-step-fails", "received-header-refused", "received-header-refused-"+what, fmt.Sprintf("received-header-refused-at-%d", k))
					r := runWith(tr, fault{kind: "none"}, plain)
					if msg := judgeMust(r); msg != "" {
						ev.Failf(t, "%s\nthe initiating peer's stream header number %d is %s: reading it fails; the peer carries on regardless\n%s", describe(tr, fault{kind: "none"}, plain, result{}, r), k, hs[what], msg)
					}
				}
			}
		}
	}
}

// TestC04Random draws transcript variants and faults at random (rapid).
func TestC04Random(t *testing.T) {
	trs := transcripts()
	bases := make([]result, len(trs))
	for i, tr := range trs {
		bases[i] = baseline(t, tr)
	}
	ev.Check(t, 6000, 30000, func(rt *rapid.T) {
		i := rapid.IntRange(0, len(trs)-1).Draw(rt, "transcript")
		tr, base := trs[i], bases[i]
		kind := rapid.SampledFrom([]string{"cut", "cut", "readerr", "readtimeout", "readerrdata", "writeerr", "writetimeout", "writelate", "cancel", "cancel"}).Draw(rt, "kind")
		max := base.fed
		switch kind {
		case "readerr", "readtimeout", "readerrdata":
			max = base.reads
		case "writeerr", "writelate", "writetimeout":
			max = base.writes
		case "cancel":
			max = base.ops
		}
		n := rapid.IntRange(0, max-1).Draw(rt, "n")
		plain := rapid.Bool().Draw(rt, "plainrw")
		if plain && kind == "cancel" {
			kind = "cancelplain"
		}
		ev.Case(n > 0, fmt.Sprintf("%s %s@%d plain=%v", tr.name, kind, n, plain), "random-"+kind)
		checkFault(rt, tr, fault{kind: kind, n: n}, plain, base)
	})
}
