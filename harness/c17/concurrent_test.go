package c17

// Independent decoders in different goroutines (one per incoming message in a
// client): what one decoder produces for its input does not depend on the other
// decoders running at the same time, and none of them panics.

import (
	"bytes"
	"fmt"
	"sync"
	"testing"

	"pgregory.net/rapid"

	"mellium.im/xmpp/verifharness/internal/ev"
)

func TestC17Concurrent(t *testing.T) {
	ev.Check(t, 400, 6000, func(rt *rapid.T) {
		n := rapid.IntRange(2, 8).Draw(rt, "decoders")
		var ins [][]byte
		nonASCII := 0
		for i := 0; i < n; i++ {
			in, _ := genInput(rt)
			// directives next to characters outside ASCII (the decoder classifies
			// the neighbours of every directive)
			if rapid.Bool().Draw(rt, "wide") {
				w := rapid.SampledFrom([]string{" ", " ", "é", "日", "　", " ", "ж", "ß", " ", "😀"}).Draw(rt, "widech")
				in = append([]byte("*"+w+"a"+w+"* _"+w+"_ >"+w+"q\n"), in...)
			}
			for _, b := range in {
				if b >= 0x80 {
					nonASCII++
					break
				}
			}
			ins = append(ins, in)
		}
		ev.Case(nonASCII >= 2, fmt.Sprintf("concurrent|%q", ins), "independent-decoders-in-parallel")
		got := make([]outcome, n)
		var wg sync.WaitGroup
		start := make(chan struct{})
		for i := range ins {
			wg.Add(1)
			go func(i int) {
				defer wg.Done()
				<-start
				for round := 0; round < 5; round++ {
					got[i] = decode(bytes.NewReader(ins[i]), len(ins[i]))
					if got[i].breach != "" {
						return
					}
				}
			}(i)
		}
		close(start)
		wg.Wait()
		// each input on its own (afterwards: nothing has been decoded before the
		// decoders ran side by side)
		want := make([]outcome, n)
		for i, in := range ins {
			want[i] = decode(bytes.NewReader(in), len(in))
		}
		for i := range ins {
			if got[i].breach != "" {
				ev.Failf(rt, "%d decoders running at the same time; decoder %d on %s: %s", n, i, short(ins[i]), got[i].breach)
			}
			if k, ok := sameToks(got[i].toks, want[i].toks); !ok || fmt.Sprint(got[i].err) != fmt.Sprint(want[i].err) {
				ev.Failf(rt, "%d decoders running at the same time; decoder %d on %s gives other tokens than on its own (first difference at token %d)\nalone:    %s (err %v)\nparallel: %s (err %v)", n, i, short(ins[i]), k, tokList(want[i].toks), want[i].err, tokList(got[i].toks), got[i].err)
			}
		}
	})
}
