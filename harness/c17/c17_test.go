// C17 — the styling decoder is lossless, chunk-independent and well-bracketed.
//
// Oracle (all independent of the decoder's implementation):
//   - the decoder loop ends within 4·len+16 tokens and never panics;
//   - when Err() is io.EOF the concatenation of Token.Data equals the input;
//   - the sequence (data, info, Style(), Quote()) and the final error are the
//     same for every way the reader delivers the input (differential against
//     the one-piece reader); styling.Scan() yields the same data tokens;
//   - a start/end directive bit implies its style bit; span starts and ends
//     match LIFO and are all closed when their line ends; the span bits of a
//     token are exactly the open spans; nothing starts inside a preformatted
//     span or block.
package c17

import (
	"bufio"
	"bytes"
	"fmt"
	"io"
	"strings"
	"sync"
	"testing"

	"pgregory.net/rapid"

	"mellium.im/xmpp/styling"
	"mellium.im/xmpp/verifharness/internal/ev"
)

func TestMain(m *testing.M) { ev.Main(m, "C17") }

// ---------------------------------------------------------------- observation

type tok struct {
	data  string
	info  string
	style styling.Style
	quote uint
}

func (t tok) String() string {
	s := fmt.Sprintf("%q", t.data)
	if len(t.data) > 120 {
		s = fmt.Sprintf("%q…(%d bytes)…%q", t.data[:40], len(t.data), t.data[len(t.data)-20:])
	}
	if t.info != "" {
		s += fmt.Sprintf(" info=%q", t.info)
	}
	return fmt.Sprintf("{%s %s q%d}", s, styleName(t.style), t.quote)
}

var bitNames = []struct {
	bit  styling.Style
	name string
}{
	{styling.BlockPre, "BlockPre"}, {styling.BlockQuote, "BlockQuote"},
	{styling.SpanEmph, "Emph"}, {styling.SpanStrong, "Strong"}, {styling.SpanStrike, "Strike"}, {styling.SpanPre, "Pre"},
	{styling.BlockPreStart, "BlockPreStart"}, {styling.BlockPreEnd, "BlockPreEnd"},
	{styling.BlockQuoteStart, "BlockQuoteStart"}, {styling.BlockQuoteEnd, "BlockQuoteEnd"},
	{styling.SpanEmphStart, "EmphStart"}, {styling.SpanEmphEnd, "EmphEnd"},
	{styling.SpanStrongStart, "StrongStart"}, {styling.SpanStrongEnd, "StrongEnd"},
	{styling.SpanStrikeStart, "StrikeStart"}, {styling.SpanStrikeEnd, "StrikeEnd"},
	{styling.SpanPreStart, "PreStart"}, {styling.SpanPreEnd, "PreEnd"},
}

func styleName(s styling.Style) string {
	if s == 0 {
		return "0"
	}
	var parts []string
	for _, b := range bitNames {
		if s&b.bit != 0 {
			parts = append(parts, b.name)
			s &^= b.bit
		}
	}
	if s != 0 {
		parts = append(parts, fmt.Sprintf("%#x", uint32(s)))
	}
	return strings.Join(parts, "|")
}

func tokList(ts []tok) string {
	var sb strings.Builder
	for i, t := range ts {
		if i > 0 {
			sb.WriteString(" ")
		}
		if sb.Len() > 6000 {
			fmt.Fprintf(&sb, "…(%d tokens in all)", len(ts))
			break
		}
		sb.WriteString(t.String())
	}
	return "[" + sb.String() + "]"
}

type outcome struct {
	toks   []tok
	err    error
	breach string // panic or missing termination
}

// decode runs the documented loop (Next, Token, then Style and Quote) over r.
func decode(r io.Reader, n int) (out outcome) {
	limit := 4*n + 16
	p := ev.Guard(func() {
		d := styling.NewDecoder(r)
		for d.Next() {
			t := d.Token()
			out.toks = append(out.toks, tok{data: string(t.Data), info: string(t.Info), style: d.Style(), quote: d.Quote()})
			if len(out.toks) > limit {
				out.breach = fmt.Sprintf("decoder loop still running after %d tokens (bound 4*len+16) on %d input bytes", len(out.toks), n)
				return
			}
		}
		out.err = d.Err()
	})
	if p != "" {
		out.breach = p
	}
	return out
}

// scanData runs a bufio.Scanner with the exported split function over r.
func scanData(r io.Reader, n int) (data []string, err error, breach string) {
	limit := 4*n + 16
	p := ev.Guard(func() {
		s := bufio.NewScanner(r)
		s.Split(styling.Scan())
		for s.Scan() {
			data = append(data, string(s.Bytes()))
			if len(data) > limit {
				breach = fmt.Sprintf("Scan() loop still running after %d tokens", len(data))
				return
			}
		}
		err = s.Err()
	})
	if p != "" {
		breach = p
	}
	return
}

// ---------------------------------------------------------------- readers

// chunking describes how a reader hands out the input: cuts are the end
// offsets of successive reads (non-decreasing, last == len; a repeated offset
// is a read that returns 0, nil), dataErr says whether the last bytes come
// together with io.EOF (like iotest.DataErrReader) or io.EOF comes alone.
type chunking struct {
	name    string
	cuts    []int
	dataErr bool
}

func (c chunking) String() string {
	cuts := fmt.Sprint(c.cuts)
	if len(c.cuts) > 40 {
		cuts = fmt.Sprintf("%v…(%d reads)", c.cuts[:40], len(c.cuts))
	}
	return fmt.Sprintf("%s cuts=%s dataErr=%v", c.name, cuts, c.dataErr)
}

type chunkReader struct {
	src   []byte
	ck    chunking
	i     int
	pos   int
	reads int // reads that delivered data
}

func (r *chunkReader) Read(p []byte) (int, error) {
	if len(p) == 0 {
		return 0, nil
	}
	if r.i >= len(r.ck.cuts) {
		return 0, io.EOF
	}
	end := r.ck.cuts[r.i]
	n := copy(p, r.src[r.pos:end])
	r.pos += n
	if r.pos == end {
		r.i++
	}
	if n > 0 {
		r.reads++
	}
	if r.i >= len(r.ck.cuts) && r.ck.dataErr {
		return n, io.EOF
	}
	return n, nil
}

func whole(n int) []int { return []int{n} }

func byteCuts(n int) []int {
	if n == 0 {
		return []int{0}
	}
	c := make([]int, n)
	for i := range c {
		c[i] = i + 1
	}
	return c
}

func stepCuts(n, step, first int) []int {
	var c []int
	p := first
	if p <= 0 {
		p = step
	}
	for ; p < n; p += step {
		c = append(c, p)
	}
	return append(c, n)
}

// normCuts sorts out a list of candidate offsets into a valid cut list.
func normCuts(cand []int, n int) []int {
	seen := map[int]bool{}
	var out []int
	for _, c := range cand {
		if c > 0 && c < n {
			seen[c] = true
		}
	}
	for p := 1; p < n; p++ {
		if seen[p] {
			out = append(out, p)
		}
	}
	return append(out, n)
}

// ---------------------------------------------------------------- oracle

var spanKinds = []struct {
	name            string
	bit, start, end styling.Style
}{
	{"emph", styling.SpanEmph, styling.SpanEmphStart, styling.SpanEmphEnd},
	{"strong", styling.SpanStrong, styling.SpanStrongStart, styling.SpanStrongEnd},
	{"strike", styling.SpanStrike, styling.SpanStrikeStart, styling.SpanStrikeEnd},
	{"pre", styling.SpanPre, styling.SpanPreStart, styling.SpanPreEnd},
}

var blockKinds = []struct {
	name            string
	bit, start, end styling.Style
}{
	{"block pre", styling.BlockPre, styling.BlockPreStart, styling.BlockPreEnd},
	{"block quote", styling.BlockQuote, styling.BlockQuoteStart, styling.BlockQuoteEnd},
}

// brackets checks the style bookkeeping of one token sequence and returns a
// description of the first inconsistency ("" if none).  atEnd says whether the
// input was read to its end (io.EOF), i.e. whether the last line has ended.
func brackets(ts []tok, atEnd bool) string {
	var stack []int // indices into spanKinds
	inBlockPre := false
	for i, t := range ts {
		s := t.style
		for _, k := range spanKinds {
			if s&(k.start|k.end) != 0 && s&k.bit == 0 {
				return fmt.Sprintf("token %d %v: %s directive bit without its style bit", i, t, k.name)
			}
		}
		for _, k := range blockKinds {
			if s&(k.start|k.end) != 0 && s&k.bit == 0 {
				return fmt.Sprintf("token %d %v: %s directive bit without its style bit", i, t, k.name)
			}
		}
		// nothing starts inside a preformatted span or block
		for _, ki := range stack {
			if spanKinds[ki].bit == styling.SpanPre && s&styling.StartDirective != 0 {
				return fmt.Sprintf("token %d %v: start directive inside a preformatted span", i, t)
			}
		}
		if inBlockPre && s&styling.BlockPre != 0 && s&styling.StartDirective != 0 {
			return fmt.Sprintf("token %d %v: start directive inside a preformatted block", i, t)
		}
		// span starts
		for ki, k := range spanKinds {
			if s&k.start != 0 {
				for _, o := range stack {
					if o == ki {
						return fmt.Sprintf("token %d %v: %s span started while one is open", i, t, k.name)
					}
				}
				stack = append(stack, ki)
			}
		}
		// the span bits are exactly the open spans
		var open styling.Style
		for _, ki := range stack {
			open |= spanKinds[ki].bit
		}
		if s&styling.Span != open {
			return fmt.Sprintf("token %d %v: span style bits %s but the open spans (starts seen, ends not yet) are %s",
				i, t, styleName(s&styling.Span), styleName(open))
		}
		// span ends, innermost first
		ends := s & styling.SpanEndDirective
		for ends != 0 {
			if len(stack) == 0 {
				return fmt.Sprintf("token %d %v: span end without an open span", i, t)
			}
			top := spanKinds[stack[len(stack)-1]]
			if ends&top.end == 0 {
				return fmt.Sprintf("token %d %v: span end does not match the innermost open span (%s)", i, t, top.name)
			}
			ends &^= top.end
			stack = stack[:len(stack)-1]
		}
		if strings.IndexByte(t.data, '\n') >= 0 && len(stack) > 0 {
			return fmt.Sprintf("token %d %v ends the line while a %s span is open", i, t, spanKinds[stack[len(stack)-1]].name)
		}
		switch {
		case s&styling.BlockPreEnd != 0 || s&styling.BlockPre == 0:
			inBlockPre = false
		case s&styling.BlockPreStart != 0:
			inBlockPre = true
		}
	}
	if atEnd && len(stack) > 0 {
		return fmt.Sprintf("input ended while a %s span is open", spanKinds[stack[len(stack)-1]].name)
	}
	return ""
}

func sameToks(a, b []tok) (int, bool) {
	for i := 0; i < len(a) && i < len(b); i++ {
		if a[i] != b[i] {
			return i, false
		}
	}
	if len(a) != len(b) {
		if len(a) < len(b) {
			return len(a), false
		}
		return len(b), false
	}
	return 0, true
}

// atScannerLimit recognises the one documented way in which bufio.Scanner's
// token limit depends on the reader: a reading stopped with bufio.ErrTooLong
// when exactly bufio.MaxScanTokenSize bytes of input were left (the buffer was
// full, so the scanner had no room to ask the reader again and learn that the
// input ends there), while the other reading, which received those last bytes
// together with io.EOF, completed.  ("The actual maximum token size may be
// smaller as the buffer may need to include, for instance, a newline", package
// bufio.)  Everything before that point must still agree.
func atScannerLimit(in []byte, stopped, completed outcome) bool {
	if stopped.err != bufio.ErrTooLong || completed.err != io.EOF || len(stopped.toks) > len(completed.toks) {
		return false
	}
	consumed := 0
	for i, t := range stopped.toks {
		if t != completed.toks[i] {
			return false
		}
		consumed += len(t.data)
	}
	return len(in)-consumed == bufio.MaxScanTokenSize
}

type failer interface {
	Helper()
	Fatalf(string, ...any)
}

func short(in []byte) string {
	if len(in) <= 1500 {
		return fmt.Sprintf("%q", in)
	}
	// long inputs are a short head, one long line made of a repeated unit, and
	// a short tail: print both ends and the total length
	return fmt.Sprintf("%q…(%d bytes in all)…%q", in[:300], len(in), in[len(in)-200:])
}

// checkAll decodes in under every chunking and applies the oracle.  The first
// chunking is the one-piece reference.  It returns the reference outcome and
// the largest number of data reads any chunking needed.
func checkAll(t failer, in []byte, cks []chunking) (ref outcome, maxReads int) {
	t.Helper()
	fail := func(format string, args ...any) {
		t.Helper()
		ev.Failf(t, "input=%s\n%s", short(in), fmt.Sprintf(format, args...))
	}
	for ci, ck := range cks {
		rd := &chunkReader{src: in, ck: ck}
		out := decode(rd, len(in))
		if rd.reads > maxReads {
			maxReads = rd.reads
		}
		if out.breach != "" {
			fail("reader %v: %s\ntokens so far %s", ck, out.breach, tokList(out.toks))
		}
		if out.err == io.EOF {
			var cat []byte
			for _, tk := range out.toks {
				cat = append(cat, tk.data...)
			}
			if !bytes.Equal(cat, in) {
				fail("reader %v: Err()=io.EOF but the concatenated token data %s differs from the input\ntokens %s",
					ck, short(cat), tokList(out.toks))
			}
		} else if out.err == nil {
			fail("reader %v: Next returned false but Err() is nil", ck)
		}
		if msg := brackets(out.toks, out.err == io.EOF); msg != "" {
			fail("reader %v: style bookkeeping: %s\ntokens %s", ck, msg, tokList(out.toks))
		}
		if ci == 0 {
			ref = out
			continue
		}
		at, same := sameToks(ref.toks, out.toks)
		if !same || fmt.Sprint(ref.err) != fmt.Sprint(out.err) {
			if atScannerLimit(in, ref, out) || atScannerLimit(in, out, ref) {
				// see atScannerLimit: not decided by this check
				ev.Class("scanner-limit-boundary-tolerated")
				continue
			}
			if !same {
				fail("token sequence depends on how the input is split across reads (first difference at token %d)\nreader %v: err=%v\n  %s\nreader %v: err=%v\n  %s",
					at, cks[0], ref.err, tokList(ref.toks), ck, out.err, tokList(out.toks))
			}
			fail("final error depends on how the input is split: reader %v: %v; reader %v: %v\ntokens %s", cks[0], ref.err, ck, out.err, tokList(out.toks))
		}
		// the exported split function under the same chunking
		data, serr, breach := scanData(&chunkReader{src: in, ck: ck}, len(in))
		if breach != "" {
			fail("styling.Scan() with reader %v: %s", ck, breach)
		}
		var want []string
		for _, tk := range ref.toks {
			if tk.data != "" {
				want = append(want, tk.data)
			}
		}
		if fmt.Sprintf("%q", want) != fmt.Sprintf("%q", data) {
			fail("styling.Scan() with reader %v yields %q (err %v); the decoder's data tokens (one piece) are %q", ck, data, serr, want)
		}
	}
	// the readers applications really hand over: they know their length and
	// implement more than io.Reader (WriterTo, ByteReader, ...)
	for _, sr := range []struct {
		name string
		r    io.Reader
	}{
		{"strings.Reader", strings.NewReader(string(in))},
		{"bytes.Reader", bytes.NewReader(in)},
		{"bytes.Buffer", bytes.NewBuffer(append([]byte(nil), in...))},
		{"bufio.Reader(16)", bufio.NewReaderSize(bytes.NewReader(in), 16)},
	} {
		if len(cks) == 0 {
			break
		}
		out := decode(sr.r, len(in))
		if out.breach != "" {
			fail("reader %s: %s\ntokens so far %s", sr.name, out.breach, tokList(out.toks))
		}
		at, same := sameToks(ref.toks, out.toks)
		if !same || fmt.Sprint(ref.err) != fmt.Sprint(out.err) {
			if atScannerLimit(in, ref, out) || atScannerLimit(in, out, ref) {
				ev.Class("scanner-limit-boundary-tolerated")
				continue
			}
			fail("result depends on the kind of reader (first difference at token %d)\nreader %v: err=%v\n  %s\nreader %s: err=%v\n  %s",
				at, cks[0], ref.err, tokList(ref.toks), sr.name, out.err, tokList(out.toks))
		}
	}
	return ref, maxReads
}

func directiveTokens(ts []tok) (n int) {
	for _, t := range ts {
		if t.style&styling.Directive != 0 {
			n++
		}
	}
	return n
}

// ---------------------------------------------------------------- generators

var (
	directives = []string{"*", "_", "~", "`"}
	spaces     = []string{" ", " ", " ", "\t", "\u00a0", "\u2003", "\u3000", "\u0085", "\u1680", "\u2028", "\r", "\v"}
	words      = []string{"a", "b", "bc", "word", "x y", "é", "日", "😀", "\\", "0", "-", "a b c", "\ufeff", "\u200b", "*_~`x`~_*", "*a _b ~c `d` c~ b_ a*", "_*~_*~x~*_~*_"}
	broken     = []string{"\xff", "\xc2", "\xe2\x80", "\x80", "\xe2", "\xf0\x9f\x98", "\xc0\x80"}
	infos      = []string{"", "", "go", " ", "`", "*x*", "日本", "a b", "\u00a0"}
)

func pick(t *rapid.T, from []string, label string) string {
	return from[rapid.IntRange(0, len(from)-1).Draw(t, label)]
}

// genBytes: a sequence of pieces from the weighted alphabet.
func genBytes(t *rapid.T) []byte {
	var out []byte
	n := rapid.IntRange(0, 14).Draw(t, "pieces")
	if rapid.IntRange(0, 9).Draw(t, "long") == 0 {
		n = rapid.IntRange(15, 130).Draw(t, "piecesL")
	}
	for i := 0; i < n && len(out) < 400; i++ {
		switch k := rapid.IntRange(0, 19).Draw(t, "kind"); {
		case k < 7:
			out = append(out, pick(t, directives, "dir")...)
		case k < 9:
			out = append(out, '\n')
		case k < 12:
			out = append(out, pick(t, spaces, "sp")...)
		case k < 14:
			out = append(out, '>')
		case k == 14:
			out = append(out, "```"...)
		case k == 15:
			out = append(out, "``"...)
		case k < 18:
			out = append(out, pick(t, words, "w")...)
		case k == 18:
			out = append(out, pick(t, broken, "bad")...)
		default:
			out = append(out, rapid.Byte().Draw(t, "byte"))
		}
	}
	return out
}

func genInline(t *rapid.T, out []byte, depth int) []byte {
	n := rapid.IntRange(1, 4).Draw(t, "items")
	for i := 0; i < n; i++ {
		switch k := rapid.IntRange(0, 11).Draw(t, "item"); {
		case k < 3:
			out = append(out, pick(t, words, "w")...)
		case k < 5:
			out = append(out, pick(t, spaces, "sp")...)
		case k < 9 && depth < 6: // a span, possibly with children, possibly padded
			d := pick(t, directives, "dir")
			out = append(out, d...)
			if rapid.IntRange(0, 7).Draw(t, "padL") == 0 {
				out = append(out, pick(t, spaces, "sp")...)
			}
			out = genInline(t, out, depth+1)
			if rapid.IntRange(0, 7).Draw(t, "padR") == 0 {
				out = append(out, pick(t, spaces, "sp")...)
			}
			if rapid.IntRange(0, 5).Draw(t, "unterminated") != 0 {
				out = append(out, d...)
			}
		case k < 10: // lone or doubled directive
			d := pick(t, directives, "dir")
			out = append(out, strings.Repeat(d, rapid.IntRange(1, 4).Draw(t, "rep"))...)
		case k < 11:
			out = append(out, '>')
		default:
			out = append(out, pick(t, broken, "bad")...)
		}
	}
	return out
}

// genDoc: lines from a small grammar (quote prefixes, fences with info
// strings, spans with children, unterminated constructs).
func genDoc(t *rapid.T) []byte {
	var out []byte
	lines := rapid.IntRange(1, 7).Draw(t, "lines")
	for l := 0; l < lines && len(out) < 400; l++ {
		depth := 0
		if rapid.IntRange(0, 9).Draw(t, "quoted") < 4 {
			depth = rapid.IntRange(1, 3).Draw(t, "depth")
		}
		for q := 0; q < depth; q++ {
			out = append(out, '>')
			for s := rapid.IntRange(0, 2).Draw(t, "qsp"); s > 0; s-- {
				out = append(out, pick(t, spaces, "sp")...)
			}
		}
		switch k := rapid.IntRange(0, 9).Draw(t, "line"); {
		case k < 5:
			out = genInline(t, out, 0)
		case k < 7:
			out = append(out, "```"...)
			out = append(out, pick(t, infos, "info")...)
		case k < 9:
			out = append(out, "```"...)
			if rapid.IntRange(0, 5).Draw(t, "trail") == 0 {
				out = append(out, pick(t, []string{" ", "x", "`", "\r"}, "trailing")...)
			}
		default:
			// blank line
		}
		if l < lines-1 || rapid.IntRange(0, 2).Draw(t, "finalNL") == 0 {
			out = append(out, '\n')
		}
	}
	return out
}

func genInput(t *rapid.T) ([]byte, string) {
	// what some producers put at the very start of a text: a byte order mark,
	// a zero width character
	var prefix []byte
	if rapid.IntRange(0, 7).Draw(t, "docprefix") == 0 {
		prefix = []byte(pick(t, []string{"\ufeff", "\ufeff", "\u200b", "\ufeff\ufeff", "\u2060"}, "prefix"))
	}
	snap := rapid.IntRange(0, 9).Draw(t, "snap") == 0
	if rapid.IntRange(0, 1).Draw(t, "grammar") == 1 {
		in := append(prefix, genDoc(t)...)
		if snap {
			return snapLength(t, in), "gen-grammar-snapped-length"
		}
		return in, "gen-grammar"
	}
	in := append(prefix, genBytes(t)...)
	if snap {
		return snapLength(t, in), "gen-alphabet-snapped-length"
	}
	return in, "gen-alphabet"
}

// snapLength pads the input (with plain letters, so that its last line stays
// open) to a length at which buffers are typically sized: a multiple of 64, a
// power of two, or one byte either side.
func snapLength(t *rapid.T, in []byte) []byte {
	unit := rapid.SampledFrom([]int{64, 64, 128, 256, 512, 1024, 4096}).Draw(t, "snapUnit")
	n := (len(in)/unit + 1) * unit
	if len(in)%unit == 0 && len(in) > 0 {
		n = len(in)
	}
	n += rapid.SampledFrom([]int{0, 0, 0, -1, 1}).Draw(t, "snapOff")
	for len(in) < n {
		in = append(in, "abcdefghij"[len(in)%10])
	}
	return in
}

func interesting(b byte) bool {
	return b >= 0x80 || strings.IndexByte("*_~`>\n \t\r\v", b) >= 0
}

// genChunkings: the fixed chunkings every case is read with plus generated
// ones (random sizes with optional empty reads; cuts next to directives).
func genChunkings(t *rapid.T, in []byte) []chunking {
	n := len(in)
	cks := []chunking{
		{name: "one-piece", cuts: whole(n)},
		{name: "one-piece", cuts: whole(n), dataErr: true},
		{name: "bytewise", cuts: byteCuts(n)},
		{name: "bytewise", cuts: byteCuts(n), dataErr: true},
	}
	// random chunk sizes
	var cuts []int
	small := rapid.IntRange(0, 2).Draw(t, "small") > 0
	for pos := 0; pos < n; {
		step := 0
		if small {
			step = rapid.IntRange(1, 4).Draw(t, "stepS")
		} else {
			step = rapid.IntRange(1, n).Draw(t, "step")
		}
		pos += step
		if pos > n {
			pos = n
		}
		cuts = append(cuts, pos)
		if rapid.IntRange(0, 15).Draw(t, "empty") == 0 {
			cuts = append(cuts, pos) // a read returning 0, nil
		}
	}
	if len(cuts) == 0 || cuts[len(cuts)-1] != n {
		cuts = append(cuts, n)
	}
	cks = append(cks, chunking{name: "random", cuts: cuts, dataErr: rapid.Bool().Draw(t, "dataErrR")})
	// cuts placed right before, inside and after directive characters
	var pos []int
	for i, b := range in {
		if interesting(b) {
			pos = append(pos, i)
		}
	}
	if len(pos) > 0 {
		var cand []int
		for k := rapid.IntRange(1, 3).Draw(t, "nadj"); k > 0; k-- {
			p := pos[rapid.IntRange(0, len(pos)-1).Draw(t, "adj")]
			switch rapid.IntRange(0, 3).Draw(t, "side") {
			case 0:
				cand = append(cand, p)
			case 1:
				cand = append(cand, p+1)
			case 2:
				cand = append(cand, p, p+1)
			default:
				cand = append(cand, p+1, p+2)
			}
		}
		cks = append(cks, chunking{name: "adjacent", cuts: normCuts(cand, n), dataErr: rapid.Bool().Draw(t, "dataErrA")})
	}
	return cks
}

func inputClasses(in []byte, ref outcome, origin string) []string {
	cl := []string{origin}
	var seen styling.Style
	virt := false
	for _, t := range ref.toks {
		seen |= t.style
		if t.data == "" {
			virt = true
		}
	}
	for _, k := range spanKinds {
		if seen&k.start != 0 {
			cl = append(cl, "span-"+k.name)
		}
	}
	if seen&styling.BlockPreStart != 0 {
		cl = append(cl, "block-pre-start")
	}
	if seen&styling.BlockPreEnd != 0 {
		cl = append(cl, "block-pre-end")
	}
	if seen&styling.BlockQuoteStart != 0 {
		cl = append(cl, "block-quote")
	}
	if virt {
		cl = append(cl, "virtual-quote-end")
	}
	maxq := uint(0)
	nested := false
	depth := 0
	for _, t := range ref.toks {
		if t.quote > maxq {
			maxq = t.quote
		}
		if t.style&styling.SpanStartDirective != 0 {
			depth++
			if depth > 1 {
				nested = true
			}
		}
		if t.style&styling.SpanEndDirective != 0 {
			depth--
		}
	}
	if maxq > 1 {
		cl = append(cl, "quote-depth>1")
	}
	if nested {
		cl = append(cl, "nested-spans")
	}
	if !bytes.Equal(bytes.ToValidUTF8(in, nil), in) {
		cl = append(cl, "invalid-utf8")
	}
	if bytes.ContainsAny(in, "\u00a0\u2003\u3000\u0085\u1680\u2028") {
		cl = append(cl, "unicode-space")
	}
	if ref.err != io.EOF {
		cl = append(cl, "err-not-eof")
	}
	switch {
	case len(in) == 0:
		cl = append(cl, "len-0")
	case len(in) <= 16:
		cl = append(cl, "len-1..16")
	case len(in) <= 100:
		cl = append(cl, "len-17..100")
	default:
		cl = append(cl, "len>100")
	}
	return cl
}

// ---------------------------------------------------------------- properties

func TestC17Decoder(t *testing.T) {
	ev.Check(t, 50000, 500000, func(rt *rapid.T) {
		in, origin := genInput(rt)
		cks := genChunkings(rt, in)
		// The reference outcome is needed to classify the case before it is
		// checked; decoding is repeated inside checkAll.
		ref := decode(&chunkReader{src: in, ck: cks[0]}, len(in))
		canon := fmt.Sprintf("%q", in)
		for _, ck := range cks[4:] {
			canon += fmt.Sprintf("|%v%v", ck.cuts, ck.dataErr)
		}
		ev.Case(directiveTokens(ref.toks) >= 1 && len(in) >= 2, canon, inputClasses(in, ref, origin)...)
		checkAll(rt, in, cks)
	})
}

// repoCases are the 23 documents of /repo/styling's decoderTestCases with the
// token data its TestToken expects ("" is the virtual block-quote end).
var repoCases = []struct {
	in   string
	want []string
}{
	{"````", []string{"````"}},
	{"one\nand two", []string{"one\n", "and two"}},
	{"```\npre *fmt* ```\n```\nplain", []string{"```\n", "pre *fmt* ```\n", "```\n", "plain"}},
	{"````\na\n```", []string{"````\n", "a\n", "```"}},
	{"```\na```", []string{"```\n", "a```"}},
	{"```newtoken\n", []string{"```newtoken\n"}},
	{">  quoted\nnot quoted", []string{">  ", "quoted\n", "", "not quoted"}},
	{">  quoted\n>>   quote > 2\n>quote 1\n\nnot quoted", []string{">  ", "quoted\n", ">", ">   ", "quote > 2\n", "", ">", "quote 1\n", "", "\n", "not quoted"}},
	{"> ", []string{"> "}},
	{"> ```\n> pre\n> ```\n> not pre", []string{"> ", "```\n", "> ", "pre\n", "> ", "```\n", "> ", "not pre"}},
	{"> ``` \n> pre\nplain", []string{"> ", "``` \n", "> ", "pre\n", "", "plain"}},
	{"*strong* _emph_~strike~  `pre`", []string{"*", "strong", "*", " ", "_", "emph", "_", "~", "strike", "~", "  ", "`", "pre", "`"}},
	{"*strong*plain*", []string{"*", "strong", "*", "plain*"}},
	{"* plain *strong*", []string{"* plain ", "*", "strong", "*"}},
	{"not strong*", []string{"not strong*"}},
	{"*not strong", []string{"*not strong"}},
	{"*not \n strong*", []string{"*not \n", " strong*"}},
	{"*not *strong", []string{"*not *strong"}},
	{"**", []string{"**"}},
	{"***", []string{"***"}},
	{"****", []string{"****"}},
	{"*this cannot _overlap*_", []string{"*", "this cannot _overlap", "*", "_"}},
	{"_no pre `with *children*`_", []string{"_", "no pre ", "`", "with *children*", "`", "_"}},
}

var repoDocs = func() (docs []string) {
	for _, c := range repoCases {
		docs = append(docs, c.in)
	}
	return docs
}()

// otherRepoDocs: blockSkipTestCases, the fuzz seeds and the package examples.
var otherRepoDocs = []string{
	"*one* two", "one *two*\nthree", "```test\none\ntwo", "```test\none\ntwo\n```\nfour",
	"> test", "> one\ntwo", "> one\n>> two\n>three\nfour", "> ```start\n>one\n>```\n>two\nthree",
	"*one _two_* three", "*", "_", "`", "```", "~", ">", "\n", "```test",
	"*Hello*, _world_!\n> quote\n```go\ncode\n```\n",
}

// regressDocs: minimal inputs of every finding made with this check, and
// neighbours of them.
var regressDocs = []string{
	// block-quote prefix decided without look-ahead
	"> ", ">  ", ">\t", "> a", ">", ">> ", "> > ", ">\u00a0", ">\u2003a", "> \u3000 x", "a\n> ", ">\xe2\x80", ">\xc2", ">\xe2\x80\x83", "> \n", ">\n", "> \r\n",
	// closing fence / rest of a preformatted block decided by atEOF
	"```\n```\nfoo", "```\n```\n", "```\na\nb\n", "```\na\nb", "```\n```abc\nfoo", "```\n```abc", "```\n```", "```\n``", "```\n`", "> ```\n> ```\n> x",
	"```\n\n\n", "```\n```\n```\n```\n",
	// span look-ahead sites
	"**", "*", "**a*", "*a*", "*a**", "* a*", "*a *", "*\u00a0a*", "*a\u00a0*", "*\xc2", "*a\xc2*", "_*a*_", "`*a*`", "*`a*`", "``a`", "``", "`", "```", "````", "*a*```\nx",
	"*a*> b", "> *a*\n> b", "> *> b*", ">> a\nb", "> a\n```info\n",
	// deep nesting (quadratic cost in the depth, bounded here)
	strings.Repeat(">", 150) + " *a*\n" + strings.Repeat("> ", 149) + "b\nc", strings.Repeat("*a*>", 100) + "\n",
}

// TestC17Sweep reads the repository's documents (and the regression inputs)
// with every single cut position and every pair of adjacent cuts, i.e. with a
// read boundary next to every directive, completely.
func TestC17Sweep(t *testing.T) {
	ev.Begin(t)
	var docs []string
	docs = append(docs, repoDocs...)
	docs = append(docs, otherRepoDocs...)
	docs = append(docs, regressDocs...)
	for _, d := range docs {
		if len(d) > 120 {
			continue // the deep-nesting documents are read by TestC17Regress only
		}
		in := []byte(d)
		n := len(in)
		cks := []chunking{
			{name: "one-piece", cuts: whole(n)},
			{name: "one-piece", cuts: whole(n), dataErr: true},
			{name: "bytewise", cuts: byteCuts(n)},
			{name: "bytewise", cuts: byteCuts(n), dataErr: true},
		}
		for p := 1; p < n; p++ {
			cks = append(cks, chunking{name: "cut", cuts: normCuts([]int{p}, n), dataErr: p%2 == 0})
			cks = append(cks, chunking{name: "cut2", cuts: normCuts([]int{p, p + 1}, n), dataErr: p%2 == 1})
			cks = append(cks, chunking{name: "cut+empty", cuts: []int{p, p, n}})
		}
		ref := decode(&chunkReader{src: in, ck: cks[0]}, n)
		ev.Case(directiveTokens(ref.toks) >= 1 && n >= 2, fmt.Sprintf("sweep %q", in), inputClasses(in, ref, "sweep")...)
		checkAll(t, in, cks)
	}
}

// TestC17RepoDocs pins the reading of the repository's 23 documents to the
// token data the repository's own TestToken expects, so that the differential
// oracle is anchored to documented behaviour and not to an arbitrary reading.
func TestC17RepoDocs(t *testing.T) {
	ev.Begin(t)
	for _, tc := range repoCases {
		in := []byte(tc.in)
		for _, ck := range []chunking{{name: "one-piece", cuts: whole(len(in))}, {name: "bytewise", cuts: byteCuts(len(in))}, {name: "one-piece", cuts: whole(len(in)), dataErr: true}} {
			ev.Case(true, fmt.Sprintf("repo %q %v", in, ck), "repo-expected")
			out := decode(&chunkReader{src: in, ck: ck}, len(in))
			var got []string
			for _, tk := range out.toks {
				got = append(got, tk.data)
			}
			if out.breach != "" || fmt.Sprintf("%q", got) != fmt.Sprintf("%q", tc.want) {
				ev.Failf(t, "input=%q reader %v: token data %q %s; the repository's tests document %q for this input (one piece)", in, ck, got, out.breach, tc.want)
			}
		}
	}
}

// longLineDocs builds documents whose single lines are around and above the
// bufio.Scanner token limit (64 KiB).
func longLineDocs(sizes []int) [][]byte {
	var docs [][]byte
	for _, n := range sizes {
		x := strings.Repeat("x", n)
		docs = append(docs,
			[]byte(x),
			[]byte(x+"\n"),
			[]byte("*a* "+x+"\nnext *b*\n"),
			[]byte("> "+x+"\n> y\n"),
			[]byte("```\n"+x+"\n```\n"),
			[]byte("*"+x+"*"),
			[]byte("one\n"+strings.Repeat("ab *c* ", n/7)+"\n"),
			[]byte(">"+strings.Repeat(" ", n)+"a\n"),
		)
	}
	return docs
}

// TestC17LongLines: very long lines.  The decoder may stop with
// bufio.ErrTooLong (losslessness is only claimed for io.EOF); tokens and the
// final error must not depend on the chunking, nothing may panic or loop.
func TestC17LongLines(t *testing.T) {
	ev.Begin(t)
	sizes := []int{65531, 65536, 70000}
	if ev.Thorough() {
		sizes = []int{65000, 65529, 65530, 65531, 65532, 65533, 65534, 65535, 65536, 65537, 65540, 70000, 131072, 200000}
	}
	for _, in := range longLineDocs(sizes) {
		n := len(in)
		cks := []chunking{
			{name: "one-piece", cuts: whole(n)},
			{name: "one-piece", cuts: whole(n), dataErr: true},
			{name: "step4096", cuts: stepCuts(n, 4096, 0)},
			{name: "step1000", cuts: stepCuts(n, 1000, 3), dataErr: true},
			{name: "step7919", cuts: stepCuts(n, 7919, 65530)},
		}
		if ev.Thorough() {
			cks = append(cks, chunking{name: "step509", cuts: stepCuts(n, 509, 1)})
		}
		ref := decode(&chunkReader{src: in, ck: cks[0]}, n)
		cl := inputClasses(in, ref, "long-line")
		ev.Case(true, fmt.Sprintf("long %q… len=%d", in[:12], n), cl...)
		checkAll(t, in, cks)
	}
}

// TestC17LongRapid: generated documents with one very long generated line.
func TestC17LongRapid(t *testing.T) {
	ev.Check(t, 12, 150, func(rt *rapid.T) {
		head := genDoc(rt)
		if len(head) > 0 && head[len(head)-1] != '\n' {
			head = append(head, '\n')
		}
		unit := genInline(rt, nil, 1)
		unit = bytes.ReplaceAll(unit, []byte("\n"), []byte(" "))
		// A '>' after every span end would open one more nested quote per
		// repetition; the decoder recurses once per level for every token, so
		// tens of thousands of levels cost minutes (see NOTES.md).  Deep nesting
		// is covered with bounded depth in regressDocs.
		unit = bytes.ReplaceAll(unit, []byte(">"), []byte("x"))
		if len(unit) == 0 {
			unit = []byte("x")
		}
		target := rapid.IntRange(60000, 72000).Draw(rt, "target")
		line := bytes.Repeat(unit, target/len(unit)+1)
		in := append(append(append([]byte(nil), head...), line...), '\n')
		in = append(in, genDoc(rt)...)
		n := len(in)
		cks := []chunking{
			{name: "one-piece", cuts: whole(n)},
			{name: "one-piece", cuts: whole(n), dataErr: true},
			{name: "step", cuts: stepCuts(n, rapid.IntRange(300, 9000).Draw(rt, "step"), rapid.IntRange(0, 300).Draw(rt, "first")), dataErr: rapid.Bool().Draw(rt, "dataErr")},
		}
		ref := decode(&chunkReader{src: in, ck: cks[0]}, n)
		ev.Case(directiveTokens(ref.toks) >= 1, fmt.Sprintf("long head=%q unit=%q target=%d step=%v", head, unit, target, cks[2].cuts[0]), inputClasses(in, ref, "long-rapid")...)
		checkAll(rt, in, cks)
	})
}

// TestC17Medium: documents of many short lines that do not fit the scanner's
// initial 4096-byte buffer, so that even the one-piece reader is consumed in
// several reads and tokens straddle buffer refills and compactions.
func TestC17Medium(t *testing.T) {
	ev.Check(t, 300, 4000, func(rt *rapid.T) {
		target := rapid.IntRange(4000, 14000).Draw(rt, "target")
		var in []byte
		for len(in) < target {
			if rapid.IntRange(0, 3).Draw(rt, "alpha") == 0 {
				in = append(in, genBytes(rt)...)
			} else {
				in = append(in, genDoc(rt)...)
			}
			if rapid.IntRange(0, 3).Draw(rt, "nl") > 0 {
				in = append(in, '\n')
			}
		}
		// place a directive-rich piece right at the first buffer boundary
		if rapid.Bool().Draw(rt, "atBoundary") && len(in) > 4200 {
			piece := genDoc(rt)
			off := 4096 - rapid.IntRange(0, 6).Draw(rt, "off")
			in = append(in[:off:off], append(piece, in[off:]...)...)
		}
		n := len(in)
		step := rapid.SampledFrom([]int{1, 2, 3, 5, 7, 64, 509, 1024, 4095, 4096, 4097, 5000}).Draw(rt, "step")
		cks := []chunking{
			{name: "one-piece", cuts: whole(n)},
			{name: "one-piece", cuts: whole(n), dataErr: true},
			{name: "step", cuts: stepCuts(n, step, rapid.IntRange(0, step).Draw(rt, "first")), dataErr: rapid.Bool().Draw(rt, "dataErr")},
		}
		ref := decode(&chunkReader{src: in, ck: cks[0]}, n)
		ev.Case(directiveTokens(ref.toks) >= 1, fmt.Sprintf("medium %q step=%d first=%d %v", in, step, cks[2].cuts[0], cks[2].dataErr), inputClasses(in, ref, "medium")...)
		checkAll(rt, in, cks)
	})
}

// TestC17Regress replays the concrete inputs of every finding.
func TestC17Regress(t *testing.T) {
	ev.Begin(t)
	for _, d := range regressDocs {
		in := []byte(d)
		n := len(in)
		cks := []chunking{
			{name: "one-piece", cuts: whole(n)},
			{name: "one-piece", cuts: whole(n), dataErr: true},
			{name: "bytewise", cuts: byteCuts(n)},
			{name: "bytewise", cuts: byteCuts(n), dataErr: true},
			{name: "pairs", cuts: stepCuts(n, 2, 0)},
			{name: "pairs+1", cuts: stepCuts(n, 2, 1), dataErr: true},
		}
		ref := decode(&chunkReader{src: in, ck: cks[0]}, n)
		ev.Case(true, fmt.Sprintf("regress %q", in), inputClasses(in, ref, "regress")...)
		checkAll(t, in, cks)
	}
}

// readings returns the token data of in under the given chunking.
func readings(t *testing.T, in []byte, ck chunking) ([]string, outcome) {
	out := decode(&chunkReader{src: in, ck: ck}, len(in))
	if out.breach != "" {
		ev.Failf(t, "input=%q reader %v: %s", in, ck, out.breach)
	}
	var got []string
	for _, tk := range out.toks {
		got = append(got, tk.data)
	}
	return got, out
}

// TestC17RegressQuoteLookahead: finding 1, the block-quote start token was cut
// at the end of the data read so far ("> " read byte by byte gave ">" and " ";
// a Unicode space split across two reads was not recognised).
func TestC17RegressQuoteLookahead(t *testing.T) {
	ev.Begin(t)
	for _, tc := range []struct {
		in   string
		cuts []int
		want []string
	}{
		{"> ", []int{1, 2}, []string{"> "}},
		{">  quoted", []int{2, 9}, []string{">  ", "quoted"}},
		{">\u2003a", []int{2, 5}, []string{">\u2003", "a"}},
		{">\u00a0", []int{2, 3}, []string{">\u00a0"}},
		{"a\n>> b", []int{3, 4, 5, 6}, []string{"a\n", ">", "> ", "b"}},
	} {
		in := []byte(tc.in)
		ev.Case(true, fmt.Sprintf("regress-quote %q %v", in, tc.cuts), "regress-quote")
		one, _ := readings(t, in, chunking{name: "one-piece", cuts: whole(len(in))})
		got, _ := readings(t, in, chunking{name: "cut", cuts: tc.cuts})
		if fmt.Sprintf("%q", one) != fmt.Sprintf("%q", tc.want) {
			ev.Failf(t, "input=%q read in one piece: token data %q, expected %q", in, one, tc.want)
		}
		if fmt.Sprintf("%q", got) != fmt.Sprintf("%q", one) {
			ev.Failf(t, "input=%q: block-quote start token depends on the read boundaries: reads ending at %v give token data %q, one piece gives %q", in, tc.cuts, got, one)
		}
	}
}

// TestC17RegressPreAtEOF: finding 2, inside a preformatted block the decoder
// took "the reader has reported io.EOF" for "this is the last line": when the
// last bytes arrive together with io.EOF (iotest.DataErrReader, or the repo's
// own EOFRead test reader) everything buffered became one token and a closing
// fence lost its newline.
func TestC17RegressPreAtEOF(t *testing.T) {
	ev.Begin(t)
	for _, tc := range []struct {
		in   string
		want []string
	}{
		{"```\na\nb\n", []string{"```\n", "a\n", "b\n"}},
		{"```\n```\nfoo", []string{"```\n", "```\n", "foo"}},
		{"```\npre *fmt* ```\n```\nplain", []string{"```\n", "pre *fmt* ```\n", "```\n", "plain"}},
		{"```\n```abc\nfoo", []string{"```\n", "```abc\n", "foo"}},
		{"> ```\n> a\n> ```\n> b", []string{"> ", "```\n", "> ", "a\n", "> ", "```\n", "> ", "b"}},
	} {
		in := []byte(tc.in)
		ev.Case(true, fmt.Sprintf("regress-pre-eof %q", in), "regress-pre-eof")
		one, oneOut := readings(t, in, chunking{name: "one-piece", cuts: whole(len(in))})
		got, gotOut := readings(t, in, chunking{name: "one-piece", cuts: whole(len(in)), dataErr: true})
		if fmt.Sprintf("%q", one) != fmt.Sprintf("%q", tc.want) {
			ev.Failf(t, "input=%q read in one piece: token data %q, expected %q", in, one, tc.want)
		}
		if _, same := sameToks(oneOut.toks, gotOut.toks); !same {
			ev.Failf(t, "input=%q: tokens of a preformatted block depend on whether io.EOF arrives together with the last bytes: data+EOF gives %s (data %q), data then EOF gives %s", in, tokList(gotOut.toks), got, tokList(oneOut.toks))
		}
	}
}

// FuzzC17 is the coverage-guided variant (thorough tier only), seeded with the
// repository's documents: the bytes are the input, step and mode derive the
// chunkings.
func FuzzC17(f *testing.F) {
	for _, group := range [][]string{repoDocs, otherRepoDocs, regressDocs} {
		for i, s := range group {
			f.Add([]byte(s), uint8(i%5+1), uint8(i))
		}
	}
	var once sync.Once
	f.Fuzz(func(t *testing.T, in []byte, step uint8, mode uint8) {
		once.Do(func() { ev.Begin(t) }) // violations are recorded under the fuzz target's name
		if len(in) > 1200 {
			in = in[:1200]
		}
		n := len(in)
		st := int(step%9) + 1
		cks := []chunking{
			{name: "one-piece", cuts: whole(n)},
			{name: "one-piece", cuts: whole(n), dataErr: true},
			{name: "step", cuts: stepCuts(n, st, int(mode>>1)%st), dataErr: mode&1 == 1},
		}
		if n <= 400 {
			cks = append(cks, chunking{name: "bytewise", cuts: byteCuts(n), dataErr: mode&1 == 0})
		}
		checkAll(t, in, cks)
	})
}
