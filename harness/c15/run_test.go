package c15

// Scenario model, generator and executor of the primary set-up: one served
// library session with ibb.Handle in its mux against the scripted IBB peer.

import (
	"bytes"
	"context"
	"encoding/base64"
	"fmt"
	"io"
	"net"
	"runtime"
	"strconv"
	"strings"
	"sync"
	"sync/atomic"
	"time"

	"pgregory.net/rapid"

	"mellium.im/xmpp/ibb"
	"mellium.im/xmpp/jid"
	"mellium.im/xmpp/mux"
	"mellium.im/xmpp/stanza"
	"mellium.im/xmpp/verifharness/internal/ev"
	"mellium.im/xmpp/verifharness/internal/wire"
)

// opTimeout bounds every wait; hitting it is never a violation by itself
// (inconclusive unless the blocked-state rule applies).
const opTimeout = 12 * time.Second

// ------------------------------------------------------------------ payloads

// blob is a deterministic byte string (length, seed) so that large payloads
// shrink and render compactly.  All 256 byte values occur.
type blob struct {
	N    int
	Seed uint32
}

func (b blob) bytes() []byte {
	out := make([]byte, b.N)
	s := (b.Seed+1)*2654435761 | 1
	for i := range out {
		s ^= s << 13
		s ^= s >> 17
		s ^= s << 5
		out[i] = byte(s >> 9)
	}
	return out
}

func (b blob) String() string { return fmt.Sprintf("%d#%d", b.N, b.Seed) }

// ------------------------------------------------------------------ scenario

type step struct {
	Op string // W WL F P R SRB Bsid Bseq Bb64 C PC Par
	B  blob   // W, WL, P, Par (written part), Bb64 (valid prefix), Bsid/Bseq payload
	K  int    // R: read size; SRB: max; Bseq: delta (1..65535); Bb64: variant; WL: bytes per Write call
	Pk []blob // Par: packets fed while the write runs
}

func (s step) String() string {
	switch s.Op {
	case "W", "P", "Bsid", "Bbounce":
		return s.Op + "(" + s.B.String() + ")"
	case "WPC":
		return "WPC(Write+Flush " + s.B.String() + " || the peer closes the stream before it acknowledges the packet)"
	case "R", "SRB":
		return fmt.Sprintf("%s(%d)", s.Op, s.K)
	case "WL":
		return fmt.Sprintf("WL(%s by %d)", s.B, s.K)
	case "Bseq":
		return fmt.Sprintf("Bseq(+%d,%s)", s.K, s.B)
	case "Bb64":
		return fmt.Sprintf("Bb64(%s,%s)", b64Variants[s.K%len(b64Variants)].name, s.B)
	case "Par":
		var ps []string
		for _, p := range s.Pk {
			ps = append(ps, p.String())
		}
		return "Par(W " + s.B.String() + " || P " + strings.Join(ps, ",") + ")"
	}
	return s.Op
}

type scenario struct {
	Name      string // optional compact rendering (very long scenarios)
	Light     bool   // do not keep the parsed nodes of data packets
	Opener    string // lib (OpenIQ) | libdefault (Open) | peer
	Carrier   string // iq | message
	Block     int    // block size requested (0 = default)
	SID       string
	OpenReply string // library opens: result | error:<type>/<cond> | none
	// library opens, peer accepts: the peer's first data packet (this many
	// bytes, 0 = none) is sent in the same write as its acknowledgement
	Early  int
	Listen bool // peer opens: is there a listener
	Steps  []step
	Final  string // C | PC : how the stream is closed if the steps did not
	DrainK int    // read size of the final drain
}

func (sc *scenario) String() string {
	if sc.Name != "" {
		return sc.Name
	}
	var sb strings.Builder
	switch sc.Opener {
	case "peer":
		fmt.Fprintf(&sb, "peer-opens(%s,block=%d,sid=%q,listener=%v)", sc.Carrier, sc.Block, sc.SID, sc.Listen)
	case "libdefault":
		fmt.Fprintf(&sb, "lib-Open(reply=%s)", sc.OpenReply)
	default:
		fmt.Fprintf(&sb, "lib-OpenIQ(%s,block=%d,sid=%q,reply=%s,first-packet-with-the-acknowledgement=%d)", sc.Carrier, sc.Block, sc.SID, sc.OpenReply, sc.Early)
	}
	for _, s := range sc.Steps {
		sb.WriteString(" " + s.String())
	}
	fmt.Fprintf(&sb, " final=%s drain=%d", sc.Final, sc.DrainK)
	return sb.String()
}

func (sc *scenario) blockEff() int {
	if sc.Block == 0 || sc.Opener == "libdefault" {
		return ibb.BlockSize
	}
	return sc.Block
}

// corrupt base64 texts: prefix is the encoding of the step's blob truncated to
// a multiple of 3 bytes (complete quanta, no padding), followed by tail.
var b64Variants = []struct{ name, tail string }{
	{"bang", "!!!!"},
	{"onebad", "QU!D"},
	{"truncated1", "Q"},
	{"truncated2", "QU"},
	{"truncated3", "QUJ"},
	{"space", "QU D"},
	{"badpad", "Q=JD"},
	{"afterpad", "QQ==QUJD"},
}

// ----------------------------------------------------------------- generator

var sids = []string{"s1", "sid-2", "a&b<c>\"'", "é日本", "0"}

func genBlock(t *rapid.T) int {
	if rapid.IntRange(0, 3).Draw(t, "blockrand") == 0 {
		return rapid.IntRange(1, 65535).Draw(t, "block")
	}
	return rapid.SampledFrom([]int{0, 1, 2, 3, 4, 5, 6, 7, 8, 9, 16, 64, 100, 767, 768, 769, 1024, 2048, 4096, 65535}).Draw(t, "block")
}

func genSize(t *rapid.T, label string, be int, max int) int {
	var n int
	switch rapid.IntRange(0, 5).Draw(t, label+"-k") {
	case 0:
		n = rapid.IntRange(0, 13).Draw(t, label)
	case 1:
		n = be + rapid.IntRange(-2, 2).Draw(t, label)
	case 2:
		n = rapid.IntRange(1, 4).Draw(t, label+"-m")*be + rapid.IntRange(-1, 1).Draw(t, label)
	case 3:
		n = 3*rapid.IntRange(0, 40).Draw(t, label) + rapid.IntRange(0, 2).Draw(t, label+"-r")
	case 4:
		n = rapid.SampledFrom([]int{765, 766, 767, 768, 769, 770, 1023, 1024, 1025, 1535, 1536, 1537, 2047, 2048, 2049, 4095, 4096, 4097}).Draw(t, label)
	default:
		n = rapid.IntRange(0, 3000).Draw(t, label)
	}
	if max > 100000 && rapid.Bool().Draw(t, label+"-huge") {
		n = max - rapid.IntRange(0, 5).Draw(t, label+"-hugeoff")
	}
	if n < 0 {
		n = 0
	}
	if n > max {
		n = max
	}
	return n
}

func genBlob(t *rapid.T, label string, n int) blob {
	return blob{N: n, Seed: uint32(rapid.IntRange(0, 999).Draw(t, label+"-seed"))}
}

func genScenario(t *rapid.T) *scenario {
	sc := &scenario{}
	sc.Opener = rapid.SampledFrom([]string{"lib", "lib", "lib", "peer", "peer", "peer", "libdefault"}).Draw(t, "opener")
	sc.Carrier = rapid.SampledFrom([]string{"iq", "message"}).Draw(t, "carrier")
	sc.Block = genBlock(t)
	sc.SID = rapid.SampledFrom(sids).Draw(t, "sid")
	sc.OpenReply = "result"
	sc.Listen = true
	switch sc.Opener {
	case "libdefault":
		sc.Carrier, sc.Block, sc.SID = "iq", 0, ""
		fallthrough
	case "lib":
		sc.OpenReply = rapid.SampledFrom([]string{"result", "result", "result", "result", "result", "result", "result", "result",
			"error:cancel/item-not-found", "error:cancel/not-acceptable", "error:modify/resource-constraint",
			"error:cancel/service-unavailable", "error:auth/forbidden", "error-bare", "error-echo", "none"}).Draw(t, "openreply")
	case "peer":
		sc.Listen = rapid.IntRange(0, 9).Draw(t, "listen") != 0
	}
	if sc.Opener == "lib" && sc.OpenReply == "result" && rapid.IntRange(0, 3).Draw(t, "early") == 0 {
		sc.Early = rapid.SampledFrom([]int{1, 3, 5}).Draw(t, "earlyn")
	}
	sc.Final = rapid.SampledFrom([]string{"C", "PC"}).Draw(t, "final")
	sc.DrainK = rapid.SampledFrom([]int{1, 2, 3, 7, 64, 4096, 1 << 20}).Draw(t, "draink")

	dir := rapid.SampledFrom([]string{"send", "recv", "both", "both"}).Draw(t, "dir")
	be := sc.blockEff()
	maxW := 20000
	switch rapid.IntRange(0, 31).Draw(t, "bigw") {
	case 0, 1:
		maxW = 140000
	case 2:
		// one Write larger than the receive buffer of this library's own
		// receiving end
		maxW = ibb.MaxBufferSize + 40000
	}
	// approximate state, only used to bias towards meaningful sequences; the
	// executor accepts any sequence
	open, qlen, pending := true, 0, false
	n := rapid.IntRange(1, 14).Draw(t, "nsteps")
	for i := 0; i < n; i++ {
		var ops []string
		if open {
			if dir != "recv" {
				ops = append(ops, "W", "W", "W", "WL", "F")
			}
			if dir != "send" {
				ops = append(ops, "P", "P", "P", "Bsid", "Bseq", "Bb64", "Bbounce", "SRB")
				if !pending {
					ops = append(ops, "R", "R")
				}
			}
			if dir == "both" {
				ops = append(ops, "Par")
			}
			if i > 0 && i >= n-4 {
				ops = append(ops, "C", "PC")
				if dir != "recv" && sc.Carrier == "iq" {
					ops = append(ops, "WPC")
				}
			}
		} else {
			ops = append(ops, "P", "Bsid")
			if !pending {
				ops = append(ops, "R")
			}
		}
		st := step{Op: rapid.SampledFrom(ops).Draw(t, "op")}
		pk := func(label string) blob {
			sz := rapid.SampledFrom([]int{0, 1, 2, 3, 4, 5, be - 1, be, be / 2, be/2 + 1}).Draw(t, label)
			if sz < 0 {
				sz = 0
			}
			if sz > be {
				sz = be
			}
			return genBlob(t, label, sz)
		}
		switch st.Op {
		case "W":
			st.B = genBlob(t, "w", genSize(t, "wn", be, maxW))
		case "WL":
			st.B = genBlob(t, "w", genSize(t, "wn", be, 3000))
			st.K = rapid.SampledFrom([]int{1, 2, 3, 4, 5, be - 1, be, be + 1, 767, 768, 769}).Draw(t, "wlk")
			if st.K < 1 {
				st.K = 1
			}
		case "P":
			st.B = pk("p")
			qlen += st.B.N
		case "Bsid", "Bseq":
			st.B = pk("bp")
			st.K = rapid.SampledFrom([]int{1, 2, 65535, 32768, 7, 256, 65534}).Draw(t, "delta")
		case "Bbounce":
			st.B = pk("bn")
			if st.B.N == 0 {
				st.B = genBlob(t, "bn1", 3)
			}
		case "Bb64":
			st.B = genBlob(t, "bb", 3*rapid.IntRange(0, 5).Draw(t, "bbq"))
			st.K = rapid.IntRange(0, len(b64Variants)-1).Draw(t, "bbv")
		case "SRB":
			st.K = rapid.SampledFrom([]int{-1, 0, 1, 10, be, be + 1, be + 2, 2*be - 1, 2 * be, 3 * be, 262144}).Draw(t, "srb")
		case "R":
			st.K = rapid.SampledFrom([]int{1, 2, 3, 5, 64, be, 4096, 1 << 17}).Draw(t, "rk")
			if qlen == 0 && open {
				pending = true
			} else {
				qlen -= st.K
				if qlen < 0 {
					qlen = 0
				}
			}
		case "Par":
			st.B = genBlob(t, "w", genSize(t, "wn", be, maxW))
			k := rapid.IntRange(1, 4).Draw(t, "npk")
			for j := 0; j < k; j++ {
				st.Pk = append(st.Pk, pk("pp"))
				qlen += st.Pk[j].N
			}
		case "WPC":
			st.B = genBlob(t, "w", 1+rapid.IntRange(0, be-1).Draw(t, "wpcn"))
			open = false
			pending = false
		case "C", "PC":
			open = false
			pending = false
		}
		if (st.Op == "P" || st.Op == "Par") && qlen > 0 {
			pending = false
		}
		sc.Steps = append(sc.Steps, st)
	}
	return sc
}

// ------------------------------------------------------------------ executor

type abortRun struct{}

type readRes struct {
	n    int
	err  error
	data []byte
	stim int32
}

type result struct {
	viol         string
	inconclusive string
	classes      []string
	nontrivial   bool
	log          string
}

type runner struct {
	sc   *scenario
	sv   *wire.Served
	h    *ibb.Handler
	p    *peer
	ln   *ibb.Listener
	conn *ibb.Conn
	sid  string

	ctx    context.Context
	cancel context.CancelFunc
	wg     sync.WaitGroup
	pmu    sync.Mutex
	panics []string

	idn   int
	evIdx int

	// send direction (library -> peer)
	written  []byte
	sent     int // bytes observed in data packets
	nPackets int
	nWrites  int
	sawClose bool
	// the peer closed the stream: id of its request; the library has answered it
	peerCloseID    string
	ackedPeerClose bool
	writeFailed    bool
	// a Write was still in progress when the peer closed the stream: the rest
	// of its packets may follow the acknowledgement (they are refused and the
	// Write fails); nothing is promised for them
	inflightAtClose bool
	afterCloseFeed  func() // run once right after the peer's close request was fed
	sendErr         bool
	wrapCheck       bool

	// receive direction (peer -> library)
	q        []byte // accepted and not yet read
	expSeq   int
	max      int // receive buffer bound, 0 = unlimited
	nGood    int
	nBadMid  int
	closed   string // "" | local | peer
	pend     chan readRes
	pendK    int
	pendStim int32
	stim     int32
	readAny  bool
	readerG  atomic.Value // goroutine id of the most recent reader

	res     result
	classes map[string]bool
	trace   []string
}

func (r *runner) class(c string) { r.classes[c] = true }

func (r *runner) tracef(format string, a ...any) {
	if len(r.trace) < 400 {
		r.trace = append(r.trace, fmt.Sprintf(format, a...))
	}
}

func (r *runner) failf(format string, a ...any) {
	if r.res.viol == "" {
		r.res.viol = fmt.Sprintf(format, a...)
	}
	panic(abortRun{})
}

func (r *runner) inconclusive(format string, a ...any) {
	// every caller has waited opTimeout for the library to react to something
	// that was delivered to it: a serve loop that is parked in a channel or
	// mutex operation inside the library (not waiting for the peer's next
	// bytes) all that time, and still is a moment later, is blocked for good
	select {
	case <-r.sv.Done():
	default:
		if b := wire.BlockedMatching("handleInputStream"); len(b) > 0 {
			time.Sleep(300 * time.Millisecond)
			if b2 := wire.BlockedMatching("handleInputStream"); len(b2) > 0 {
				r.failf("%s; the serve loop is parked inside the library:\n%s", fmt.Sprintf(format, a...), strings.Join(b2, "\n\n"))
			}
		}
	}
	if r.res.inconclusive == "" {
		r.res.inconclusive = fmt.Sprintf(format, a...)
	}
	panic(abortRun{})
}

func (r *runner) id(prefix string) string {
	r.idn++
	return fmt.Sprintf("%s%d", prefix, r.idn)
}

// spawn runs a blocking library call in its own goroutine.
func spawn[T any](r *runner, f func() T) chan T {
	ch := make(chan T, 1)
	r.wg.Add(1)
	go func() {
		defer r.wg.Done()
		var v T
		if p := ev.Guard(func() { v = f() }); p != "" {
			r.pmu.Lock()
			r.panics = append(r.panics, p)
			r.pmu.Unlock()
		}
		ch <- v
	}()
	return ch
}

func (r *runner) checkPanics() {
	r.pmu.Lock()
	ps := append([]string(nil), r.panics...)
	r.pmu.Unlock()
	if len(ps) > 0 {
		r.failf("a library call panicked: %s", ps[0])
	}
	if p := r.sv.Panic(); p != "" {
		r.failf("the serve goroutine panicked while handling the scripted peer's stanzas: %s", p)
	}
}

// sessionDead reports a violation if the session ended although the peer never
// closed it, otherwise does nothing.
func (r *runner) sessionDead(what string) {
	select {
	case <-r.sv.Done():
		r.checkPanics()
		r.failf("%s: the session was terminated (Serve returned %v) instead of the stanza being answered", what, r.sv.Err())
	default:
	}
}

// await waits for a spawned call.  stallFrame, when non-empty, names the
// library frame whose presence in a parked goroutine (all stimuli delivered)
// makes the timeout a confirmed stall; otherwise a timeout is inconclusive.
func await[T any](r *runner, ch chan T, what, stallFrame string) T {
	select {
	case v := <-ch:
		r.checkPanics()
		return v
	case <-r.sv.Done():
		select {
		case v := <-ch:
			r.checkPanics()
			return v
		case <-time.After(200 * time.Millisecond):
		}
		r.sessionDead(what)
	case <-time.After(opTimeout):
	}
	// one more look
	select {
	case v := <-ch:
		return v
	default:
	}
	r.checkPanics()
	blocked := wire.Blocked()
	if stallFrame != "" {
		id, _ := r.readerG.Load().(string)
		if g := parkedIn(blocked, id, stallFrame); g != "" {
			r.failf("%s did not return within %v although everything it waits for was delivered and acknowledged; blocked state:\n%s", what, opTimeout, g)
		}
	}
	r.inconclusive("timeout waiting for %s (blocked library goroutines: %d)", what, len(blocked))
	panic("unreachable")
}

func errStr(err error) string {
	if err == nil {
		return "<nil>"
	}
	return fmt.Sprintf("%T(%v)", err, err)
}

// ---- peer-side requests

type reply struct {
	accepted bool
	cond     string
	etype    string
}

// sendPacket feeds one data packet on the negotiated carrier and returns how
// the library answered it.
func (r *runner) sendPacket(sid string, seq int, text, what string) reply {
	from := r.p.count()
	atomic.AddInt32(&r.stim, 1)
	if r.sc.Carrier == "iq" {
		id := r.id("pk")
		r.tracef("peer: data iq id=%s sid=%q seq=%d text=%q", id, sid, seq, clip(text, 48))
		r.sv.Feed(dataIQ(id, sid, seq, text))
		e, _ := r.p.waitEvent(from, func(e *event) bool { return (e.kind == "result" || e.kind == "error") && e.id == id }, opTimeout)
		if e == nil {
			r.checkPanics()
			r.sessionDead(what)
			r.inconclusive("timeout waiting for the answer to %s", what)
		}
		r.tracef("lib : %s", e)
		return reply{accepted: e.kind == "result", cond: e.cond, etype: e.etype}
	}
	id, sy := r.id("pm"), r.id("sy")
	r.tracef("peer: data message id=%s sid=%q seq=%d text=%q", id, sid, seq, clip(text, 48))
	r.sv.Feed(dataMsg(id, sid, seq, text) + syncIQ(sy))
	e, idx := r.p.waitEvent(from, func(e *event) bool { return e.kind == "error" && e.id == sy }, opTimeout)
	if e == nil {
		r.checkPanics()
		r.sessionDead(what)
		r.inconclusive("timeout waiting for the serve loop to get past %s", what)
	}
	evs := r.p.events()
	rep := reply{accepted: true}
	for i := from; i < idx; i++ {
		if evs[i].kind == "msgerror" {
			r.tracef("lib : %s", evs[i])
			rep = reply{accepted: false, cond: evs[i].cond, etype: evs[i].etype}
		}
	}
	return rep
}

// scanSent checks every data packet the library has written so far.
func (r *runner) scanSent() {
	evs := r.p.events()
	for ; r.evIdx < len(evs); r.evIdx++ {
		e := evs[r.evIdx]
		switch e.kind {
		case "data":
			if r.conn == nil {
				r.failf("data packet written although no stream is open: %s", e)
			}
			if e.sid != r.sid {
				r.failf("data packet #%d carries sid %q, the stream was opened with sid %q: %s", r.nPackets, e.sid, r.sid, e)
			}
			if e.carrier != r.sc.Carrier {
				r.failf("data packet #%d travels in a %s stanza, the stream was negotiated for %s: %s", r.nPackets, e.carrier, r.sc.Carrier, e)
			}
			if e.seq != r.nPackets%65536 {
				r.failf("data packet #%d (counting from zero) carries seq=%q, want %d: %s", r.nPackets, e.seqRaw, r.nPackets%65536, e)
			}
			if r.sawClose {
				r.failf("data packet written after the library's close request: %s", e)
			}
			if r.ackedPeerClose && !r.inflightAtClose {
				r.failf("data packet written after the library had acknowledged the peer's close request (the peer has forgotten the stream by then: the bytes are lost): %s", e)
			}
			raw, err := base64.StdEncoding.Strict().DecodeString(e.b64)
			if err != nil {
				r.failf("data packet #%d is not valid base64 (%v): %s", r.nPackets, err, e)
			}
			if r.sent+len(raw) > len(r.written) || !bytes.Equal(raw, r.written[r.sent:r.sent+len(raw)]) {
				r.failf("data packet #%d decodes to %s, which is not the continuation of the written bytes at offset %d (written so far: %d bytes, next expected %s)",
					r.nPackets, hexclip(raw), r.sent, len(r.written), hexclip(r.written[min(r.sent, len(r.written)):]))
			}
			r.sent += len(raw)
			r.nPackets++
			if len(raw) > r.sc.blockEff() {
				r.class("note:packet-larger-than-block-size")
			}
			if len(raw) > ibb.MaxBufferSize {
				r.failf("data packet #%d carries %d bytes: more than the receive buffer (ibb.MaxBufferSize = %d) of this library's own receiving end, which refuses such a packet - the bytes cannot be delivered", r.nPackets-1, len(raw), ibb.MaxBufferSize)
			}
		case "close":
			if r.conn != nil && e.sid == r.sid {
				r.sawClose = true
			}
		case "result":
			if r.peerCloseID != "" && e.id == r.peerCloseID {
				r.ackedPeerClose = true
			}
		}
	}
}

func hexclip(b []byte) string {
	if len(b) > 24 {
		return fmt.Sprintf("%x…(%d bytes)", b[:24], len(b))
	}
	return fmt.Sprintf("%x", b)
}

// ---- reads

// goid returns the id of the calling goroutine as printed in stack dumps.
func goid() string {
	buf := make([]byte, 64)
	n := runtime.Stack(buf, false)
	f := strings.Fields(string(buf[:n]))
	if len(f) >= 2 {
		return f[1]
	}
	return "?"
}

// parkedIn returns the stack of goroutine id if it is among the goroutines the
// blocked-state detector reports and has frame on its stack.
func parkedIn(blocked []string, id, frame string) string {
	for _, g := range blocked {
		if strings.HasPrefix(g, "goroutine "+id+" [") && strings.Contains(g, frame) {
			return g
		}
	}
	return ""
}

func (r *runner) startRead(k int) chan readRes {
	conn := r.conn
	return spawn(r, func() readRes {
		r.readerG.Store(goid())
		buf := make([]byte, k)
		n, err := conn.Read(buf)
		if n < 0 || n > k {
			return readRes{n: n, err: err, stim: atomic.LoadInt32(&r.stim)}
		}
		return readRes{n: n, err: err, data: buf[:n], stim: atomic.LoadInt32(&r.stim)}
	})
}

// checkRead compares a completed Read with the reference queue.
func (r *runner) checkRead(k int, rr readRes, what string) {
	r.readAny = true
	r.tracef("lib : %s = (%d, %s) %s", what, rr.n, errStr(rr.err), hexclip(rr.data))
	if r.closed == "local" && rr.n == 0 && rr.err != nil {
		// The statement promises draining to the *peer* of the side that
		// closed.  A reader on the closing side itself may be refused with an
		// error at any point after its own Close; it must only never be handed
		// wrong bytes (checked below when n > 0).
		if len(r.q) > 0 {
			r.class("read:own-close-discards")
		} else if rr.err == io.EOF {
			r.class("eof")
		}
		r.q = nil
		return
	}
	if len(r.q) > 0 {
		if rr.err != nil || rr.n < 1 || rr.n > k || rr.n > len(r.q) || !bytes.Equal(rr.data, r.q[:rr.n]) {
			r.failf("%s returned (%d, %s) %s; the accepted and unread bytes are %s (%d bytes): want a non-empty prefix of them and a nil error",
				what, rr.n, errStr(rr.err), hexclip(rr.data), hexclip(r.q), len(r.q))
		}
		r.q = r.q[rr.n:]
		return
	}
	if r.closed != "" {
		if rr.n != 0 || rr.err != io.EOF {
			r.failf("%s returned (%d, %s) %s; every accepted byte has been read and the stream is closed (%s): want (0, io.EOF)",
				what, rr.n, errStr(rr.err), hexclip(rr.data), r.closed)
		}
		r.class("eof")
		return
	}
	r.failf("%s returned (%d, %s) %s although the stream is open and no accepted byte is unread (a reader must keep waiting; io.EOF is reserved for a closed stream)",
		what, rr.n, errStr(rr.err), hexclip(rr.data))
}

func (r *runner) read(k int) {
	if r.conn == nil || r.pend != nil {
		return
	}
	if len(r.q) == 0 && r.closed == "" {
		r.tracef("test: Read(%d) started on an empty open stream (pending)", k)
		r.pend, r.pendK = r.startRead(k), k
		r.pendStim = atomic.LoadInt32(&r.stim)
		r.class("read:pending")
		return
	}
	if r.closed != "" {
		r.class("read:after-close")
	} else {
		r.class("read:data-waiting")
	}
	rr := await(r, r.startRead(k), fmt.Sprintf("Read(%d) with %d unread accepted bytes, closed=%q", k, len(r.q), r.closed), "ibb.(*Conn).Read")
	r.checkRead(k, rr, fmt.Sprintf("Read(%d)", k))
}

// settle looks at the pending Read after a stimulus.  mustStay: the model
// says it has to keep waiting; give it a short grace period to show otherwise.
func (r *runner) settle(risky bool) {
	if r.pend == nil {
		return
	}
	what := fmt.Sprintf("pending Read(%d)", r.pendK)
	if len(r.q) > 0 || r.closed != "" {
		rr := await(r, r.pend, what+fmt.Sprintf(" after %d bytes were accepted / closed=%q", len(r.q), r.closed), "ibb.(*Conn).Read")
		r.pend = nil
		r.checkRead(r.pendK, rr, what)
		r.class("read:pending-completed")
		return
	}
	if !risky {
		return
	}
	select {
	case rr := <-r.pend:
		r.pend = nil
		r.checkPanics()
		r.checkRead(r.pendK, rr, what)
	case <-time.After(3 * time.Millisecond):
	}
}

// ---- steps

func (r *runner) open() {
	sc := r.sc
	to := jid.MustParse(peerJID)
	if sc.Opener == "peer" {
		type acc struct {
			c   net.Conn
			err error
		}
		var ach chan acc
		if sc.Listen {
			r.ln = r.h.Listen(r.sv.Session)
			ln := r.ln
			ach = spawn(r, func() acc { c, err := ln.Accept(); return acc{c, err} })
		}
		id := r.id("op")
		from := r.p.count()
		r.tracef("peer: open id=%s sid=%q block-size=%d stanza=%s", id, sc.SID, sc.Block, sc.Carrier)
		r.sv.Feed(openIQ(id, sc.SID, sc.Block, sc.Carrier))
		e, _ := r.p.waitEvent(from, func(e *event) bool { return (e.kind == "result" || e.kind == "error") && e.id == id }, opTimeout)
		if e == nil {
			r.checkPanics()
			r.sessionDead("the open request")
			r.inconclusive("timeout waiting for the answer to the open request")
		}
		r.tracef("lib : %s", e)
		if !sc.Listen {
			r.class("open:peer-no-listener")
			if e.kind != "error" {
				r.failf("open request answered with %s although nothing listens for in-band bytestreams", e)
			}
			return
		}
		if e.kind != "result" {
			r.failf("open request answered with %s although a listener is accepting", e)
		}
		a := await(r, ach, "Accept after the open request was answered", "")
		c, _ := a.c.(*ibb.Conn)
		if a.err != nil || c == nil {
			r.failf("Accept returned (%v, %s) after the open request was acknowledged", a.c, errStr(a.err))
		}
		r.conn, r.sid = c, sc.SID
		r.class("open:peer")
		return
	}
	type opened struct {
		c   *ibb.Conn
		err error
	}
	r.p.setPolicy(sc.OpenReply, "", "")
	var earlyData []byte
	earlyID, earlySy := "", ""
	if sc.Early > 0 && sc.OpenReply == "result" {
		earlyData = bytes.Repeat([]byte("e"), sc.Early)
		earlyID, earlySy = r.id("pe"), r.id("sy")
		r.p.setEarly(func(sid string) string {
			if sc.Carrier == "iq" {
				return dataIQ(earlyID, sid, 0, b64(earlyData))
			}
			return dataMsg(earlyID, sid, 0, b64(earlyData)) + syncIQ(earlySy)
		})
		defer r.p.setEarly(nil)
	}
	from := r.p.count()
	var och chan opened
	if sc.Opener == "libdefault" {
		och = spawn(r, func() opened { c, err := r.h.Open(r.ctx, r.sv.Session, to); return opened{c, err} })
	} else {
		och = spawn(r, func() opened {
			c, err := r.h.OpenIQ(r.ctx, stanza.IQ{To: to}, r.sv.Session, sc.Carrier == "iq", uint16(sc.Block), sc.SID)
			return opened{c, err}
		})
	}
	oe, _ := r.p.waitEvent(from, func(e *event) bool { return e.kind == "open" }, opTimeout)
	if oe == nil {
		r.checkPanics()
		r.inconclusive("timeout waiting for the library's open request")
	}
	r.tracef("lib : %s   (peer answers: %s)", oe, sc.OpenReply)
	if sc.OpenReply == "none" {
		// the peer never answers; the caller gives up
		r.cancel()
		o := await(r, och, "Open after its context was cancelled", "")
		if o.c != nil || o.err == nil {
			r.failf("Open returned (%v, %s) although the peer never answered the open request and the context was cancelled", o.c != nil, errStr(o.err))
		}
		r.ctx, r.cancel = context.WithCancel(context.Background())
		r.class("open:lib-unanswered")
		r.sid = oe.sid
		return
	}
	o := await(r, och, "Open after the peer answered the open request", "")
	r.tracef("lib : Open = (conn:%v, %s)", o.c != nil, errStr(o.err))
	if sc.OpenReply != "result" {
		r.class("open:lib-refused")
		r.sid = oe.sid
		if o.c != nil || o.err == nil {
			r.failf("Open returned (conn != nil: %v, err: %s) although the peer refused the open request with an %s reply; want no connection and an error",
				o.c != nil, errStr(o.err), sc.OpenReply)
		}
		return
	}
	if o.c == nil || o.err != nil {
		r.failf("Open returned (conn != nil: %v, err: %s) although the peer accepted the open request", o.c != nil, errStr(o.err))
	}
	if sc.Opener == "lib" && oe.sid != sc.SID {
		r.failf("open request carries sid %q, OpenIQ was called with %q", oe.sid, sc.SID)
	}
	r.conn, r.sid = o.c, oe.sid
	r.class("open:lib")
	if earlyData != nil {
		// the packet that came with the acknowledgement belongs to the stream
		r.class("open:lib-peer-speaks-first")
		accepted, cond := true, ""
		if sc.Carrier == "iq" {
			e, _ := r.p.waitEvent(from, func(e *event) bool { return (e.kind == "result" || e.kind == "error") && e.id == earlyID }, opTimeout)
			if e == nil {
				r.checkPanics()
				r.sessionDead("the data packet sent with the acknowledgement of the open request")
				r.inconclusive("timeout waiting for the answer to the data packet sent with the acknowledgement of the open request")
			}
			accepted, cond = e.kind == "result", e.cond
		} else {
			e, idx := r.p.waitEvent(from, func(e *event) bool { return e.kind == "error" && e.id == earlySy }, opTimeout)
			if e == nil {
				r.checkPanics()
				r.sessionDead("the data message sent with the acknowledgement of the open request")
				r.inconclusive("timeout waiting for the serve loop to get past the data message sent with the acknowledgement of the open request")
			}
			evs := r.p.events()
			for i := from; i < idx; i++ {
				if evs[i].kind == "msgerror" {
					accepted, cond = false, evs[i].cond
				}
			}
		}
		if !accepted {
			r.failf("the peer accepted the open request and sent its first data packet (seq 0, %d bytes) in the same write as the acknowledgement; Open succeeded, but the packet was refused with %s", len(earlyData), cond)
		}
		r.q = append(r.q, earlyData...)
		r.expSeq = 1
		r.nGood++
	}
}

func (r *runner) write(b blob) {
	data := b.bytes()
	type wr struct {
		n   int
		err error
	}
	conn := r.conn
	// the bytes count as written from the moment Write is called: packets may
	// be observed before it returns
	r.written = append(r.written, data...)
	w := await(r, spawn(r, func() wr { n, err := conn.Write(data); return wr{n, err} }), fmt.Sprintf("Write(%d bytes)", len(data)), "")
	r.tracef("lib : Write(%s) = (%d, %s)", b, w.n, errStr(w.err))
	if w.err != nil || w.n != len(data) {
		r.failf("Write(%d bytes) returned (%d, %s) although the peer acknowledged every packet", len(data), w.n, errStr(w.err))
	}
	r.nWrites++
}

func (r *runner) writeLoop(b blob, k int) {
	data := b.bytes()
	if k < 1 {
		k = 1
	}
	type wr struct {
		off, n int
		err    error
		bad    bool
	}
	conn := r.conn
	r.written = append(r.written, data...)
	w := await(r, spawn(r, func() wr {
		for off := 0; off < len(data); off += k {
			end := off + k
			if end > len(data) {
				end = len(data)
			}
			n, err := conn.Write(data[off:end])
			if err != nil || n != end-off {
				return wr{off, n, err, true}
			}
		}
		return wr{}
	}), fmt.Sprintf("%d bytes written in Write calls of %d bytes", len(data), k), "")
	r.tracef("lib : %d bytes written in Write calls of %d bytes: failed=%v", len(data), k, w.bad)
	if w.bad {
		r.failf("Write of %d bytes at offset %d (of %d bytes written %d at a time) returned (%d, %s) although the peer acknowledged every packet", k, w.off, len(data), k, w.n, errStr(w.err))
	}
	r.nWrites += (len(data) + k - 1) / k
}

func (r *runner) goodPacket(b blob) {
	data := b.bytes()
	text := b64(data)
	if r.closed != "" {
		// a packet for a closed session
		rep := r.sendPacket(r.sid, r.expSeq, text, "a data packet for the closed session")
		r.class("bad:closed-sid")
		if rep.accepted || rep.cond != "item-not-found" {
			r.failf("data packet (seq %d, %d bytes) for sid %q sent after the stream was closed (%s): answered %s, want an item-not-found error",
				r.expSeq, len(data), r.sid, r.closed, repStr(rep))
		}
		return
	}
	mustRefuse := r.max > 0 && len(r.q)+len(data) > r.max
	slack := !mustRefuse && r.max > 0 && len(r.q)+base64.StdEncoding.DecodedLen(len(text)) > r.max
	rep := r.sendPacket(r.sid, r.expSeq, text, fmt.Sprintf("good data packet seq=%d (%d bytes)", r.expSeq, len(data)))
	switch {
	case mustRefuse:
		r.class("bad:overflow")
		r.class("overflow-cond:" + rep.etype + "/" + rep.cond)
		r.nBadMid++
		if rep.accepted {
			r.failf("data packet seq=%d with %d bytes accepted although %d accepted bytes are unread and the receive buffer is limited to %d", r.expSeq, len(data), len(r.q), r.max)
		}
	case slack:
		r.class("overflow-slack")
		if rep.accepted {
			r.q = append(r.q, data...)
			r.expSeq = (r.expSeq + 1) % 65536
			r.nGood++
		}
	default:
		if !rep.accepted {
			r.failf("in-sequence data packet seq=%d (%d bytes, sid %q; %d bytes unread, buffer limit %d) refused with %s", r.expSeq, len(data), r.sid, len(r.q), r.max, repStr(rep))
		}
		r.q = append(r.q, data...)
		r.expSeq = (r.expSeq + 1) % 65536
		r.nGood++
		if len(data) == 0 {
			r.class("packet:empty")
		}
	}
}

func repStr(rep reply) string {
	if rep.accepted {
		return "accepted (result / no error)"
	}
	return "error " + rep.etype + "/" + rep.cond
}

func (r *runner) badPacket(st step) {
	data := st.B.bytes()
	var rep reply
	var want, what string
	text := b64(data)
	switch st.Op {
	case "Bsid":
		sid := r.sid + "-unknown"
		what = fmt.Sprintf("data packet for unknown sid %q", sid)
		rep = r.sendPacket(sid, r.expSeq, text, what)
		want = "item-not-found"
	case "Bseq":
		if r.closed != "" {
			return
		}
		seq := (r.expSeq + st.K) % 65536
		what = fmt.Sprintf("out-of-sequence data packet seq=%d (expected %d)", seq, r.expSeq)
		rep = r.sendPacket(r.sid, seq, text, what)
		want = "unexpected-request"
	case "Bb64":
		if r.closed != "" {
			return
		}
		v := b64Variants[st.K%len(b64Variants)]
		text = b64(data) + v.tail
		what = fmt.Sprintf("data packet seq=%d with undecodable base64 %q", r.expSeq, text)
		rep = r.sendPacket(r.sid, r.expSeq, text, what)
		want = "bad-request"
		r.class("bad:b64-" + v.name)
	}
	r.class("bad:" + st.Op)
	if r.closed == "" && r.nGood > 0 {
		r.nBadMid++
	}
	if st.Op != "Bsid" && !rep.accepted && r.max > 0 && len(r.q)+base64.StdEncoding.DecodedLen(len(text)) > r.max {
		// the packet is also too large for the receive buffer: either reason
		// for refusing it is a corresponding error
		r.class("bad:two-reasons")
		return
	}
	if rep.accepted || rep.cond != want {
		r.failf("%s: answered %s, want a %s error", what, repStr(rep), want)
	}
}

// bounce: a message of type error that echoes a data packet (what a server
// returns for a packet of ours it could not deliver), with the sid of the
// open stream and exactly the sequence number the receiver expects next.  It
// is an error report, not data of the peer: the stream is untouched.
func (r *runner) bounce(st step) {
	if r.closed != "" {
		return
	}
	from := r.p.count()
	atomic.AddInt32(&r.stim, 1)
	id, sy := r.id("bn"), r.id("sy")
	text := b64(st.B.bytes())
	r.tracef("peer: bounced data message (type=error) id=%s sid=%q seq=%d text=%q", id, r.sid, r.expSeq, clip(text, 48))
	r.sv.Feed(`<message type="error" id="` + id + `" from="` + peerJID + `" to="` + localJID + `"><data xmlns="` + nsIBB + `" seq="` + strconv.Itoa(r.expSeq) + `" sid="` + escAttr(r.sid) + `">` + text + `</data><error type="cancel"><service-unavailable xmlns="urn:ietf:params:xml:ns:xmpp-stanzas"/></error></message>` + syncIQ(sy))
	e, _ := r.p.waitEvent(from, func(e *event) bool { return e.kind == "error" && e.id == sy }, opTimeout)
	if e == nil {
		r.checkPanics()
		r.sessionDead("a bounced data message")
		r.inconclusive("timeout waiting for the serve loop to get past a bounced data message")
	}
	r.class("bad:bounce")
	if r.nGood > 0 {
		r.nBadMid++
	}
}

func (r *runner) libClose() {
	conn := r.conn
	err := await(r, spawn(r, func() error { return conn.Close() }), "Close", "")
	r.tracef("lib : Close = %s", errStr(err))
	if err != nil {
		r.failf("Close returned %s although the peer acknowledged every packet and the close request", errStr(err))
	}
	r.scanSent()
	if !r.sawClose {
		r.failf("Close returned nil but no close request for sid %q was written", r.sid)
	}
	if r.sent != len(r.written) {
		r.failf("after Close the data packets carry %d of the %d bytes written (missing tail %s)", r.sent, len(r.written), hexclip(r.written[r.sent:]))
	}
	r.closed = "local"
	r.class("close:lib")
}

func (r *runner) peerClose() {
	id := r.id("cl")
	from := r.p.count()
	r.peerCloseID = id
	atomic.AddInt32(&r.stim, 1)
	r.tracef("peer: close id=%s sid=%q", id, r.sid)
	r.sv.Feed(closeIQ(id, r.sid))
	if f := r.afterCloseFeed; f != nil {
		r.afterCloseFeed = nil
		f()
	}
	e, _ := r.p.waitEvent(from, func(e *event) bool { return (e.kind == "result" || e.kind == "error") && e.id == id }, opTimeout)
	if e == nil {
		r.checkPanics()
		r.sessionDead("the close request")
		r.inconclusive("timeout waiting for the answer to the close request")
	}
	r.tracef("lib : %s", e)
	if e.kind != "result" {
		r.failf("close request for the open stream %q answered with %s", r.sid, e)
	}
	r.scanSent()
	if r.sent < len(r.written) && !r.writeFailed {
		r.failf("the peer closed the stream and the library acknowledged it, but of the %d bytes its Write calls had accepted only %d were delivered before the acknowledgement (the rest can no longer be delivered)", len(r.written), r.sent)
	}
	if r.sent < len(r.written) {
		r.class("close:peer-with-undelivered-bytes")
	}
	r.closed = "peer"
	r.class("close:peer")
}

func (r *runner) step(st step) {
	if r.conn == nil {
		return
	}
	switch st.Op {
	case "W":
		if r.closed != "" {
			return
		}
		r.write(st.B)
		r.scanSent()
	case "WL":
		if r.closed != "" {
			return
		}
		r.writeLoop(st.B, st.K)
		r.scanSent()
	case "F":
		if r.closed != "" {
			return
		}
		conn := r.conn
		err := await(r, spawn(r, func() error { return conn.Flush() }), "Flush", "")
		r.tracef("lib : Flush = %s", errStr(err))
		if err != nil {
			r.failf("Flush returned %s although the peer acknowledged every packet", errStr(err))
		}
		r.scanSent()
	case "P":
		r.goodPacket(st.B)
		r.settle(true)
	case "Bsid", "Bseq", "Bb64":
		r.badPacket(st)
		r.settle(true)
	case "Bbounce":
		r.bounce(st)
		r.settle(true)
	case "SRB":
		if r.closed != "" {
			return
		}
		r.conn.SetReadBuffer(st.K)
		r.tracef("test: SetReadBuffer(%d)", st.K)
		switch {
		case st.K <= 0:
			r.max = 0
		case st.K < r.sc.blockEff():
			r.max = r.sc.blockEff()
		default:
			r.max = st.K
		}
		r.class("setreadbuffer")
	case "R":
		r.read(st.K)
	case "Par":
		if r.closed != "" {
			return
		}
		data := st.B.bytes()
		type wr struct {
			n   int
			err error
		}
		conn := r.conn
		r.written = append(r.written, data...)
		wch := spawn(r, func() wr { n, err := conn.Write(data); return wr{n, err} })
		for _, pk := range st.Pk {
			r.goodPacket(pk)
			r.settle(true)
		}
		w := await(r, wch, fmt.Sprintf("Write(%d bytes) concurrent with incoming packets", len(data)), "")
		if w.err != nil || w.n != len(data) {
			r.failf("Write(%d bytes) concurrent with incoming packets returned (%d, %s)", len(data), w.n, errStr(w.err))
		}
		r.nWrites++
		r.scanSent()
		r.settle(false)
		r.class("parallel")
	case "WPC":
		if r.closed != "" || r.sc.Carrier != "iq" {
			return
		}
		// a packet is on its way (Write+Flush wait for its acknowledgement) when
		// the peer closes the stream; the acknowledgement arrives right behind
		// the close request
		data := st.B.bytes()
		type wr struct {
			n    int
			err  error
			ferr error
		}
		conn := r.conn
		r.p.setPolicy("", "none", "")
		from := r.p.count()
		r.written = append(r.written, data...)
		r.writeFailed = true // (what was not delivered by the time of the close is lost: expected here)
		r.inflightAtClose = true
		wch := spawn(r, func() wr {
			n, err := conn.Write(data)
			var ferr error
			if err == nil {
				ferr = conn.Flush()
			}
			return wr{n, err, ferr}
		})
		e, _ := r.p.waitEvent(from, func(e *event) bool { return e.kind == "data" }, opTimeout)
		if e == nil {
			r.checkPanics()
			r.sessionDead("the data packet of a flushed write")
			r.inconclusive("timeout waiting for the data packet of a flushed write")
		}
		dataID := e.id
		// (the peer, having closed the stream, may well refuse the packet that
		// crossed its request; everything that follows it certainly is refused)
		how := "result"
		if st.B.Seed%2 == 1 {
			how = "error:cancel/item-not-found"
		}
		r.afterCloseFeed = func() {
			r.p.setPolicy("", "error:cancel/item-not-found", "")
			r.p.reply(dataID, how)
		}
		r.peerClose()
		w := await(r, wch, fmt.Sprintf("Write(%d bytes)+Flush overtaken by the peer's close request (the packet's acknowledgement arrived right behind it)", len(data)), "")
		r.tracef("lib : Write+Flush overtaken by the peer's close = (%d, %s, %s)", w.n, errStr(w.err), errStr(w.ferr))
		r.nWrites++
		r.scanSent()
		r.settle(false)
		r.class("close:peer-overtakes-acknowledgement")
	case "C":
		if r.closed != "" {
			return
		}
		atomic.AddInt32(&r.stim, 1)
		r.libClose()
		r.settle(false)
	case "PC":
		if r.closed != "" {
			return
		}
		r.peerClose()
		r.settle(false)
	}
}

func (r *runner) body() {
	sc := r.sc
	r.open()
	if r.conn == nil {
		// no stream came into being: its sid must be unknown
		if r.sid != "" {
			rep := r.sendPacket(r.sid, 0, b64([]byte("abc")), "a data packet for the sid of the refused open request")
			if rep.accepted || rep.cond != "item-not-found" {
				r.failf("data packet for sid %q, whose open request did not succeed: answered %s, want item-not-found", r.sid, repStr(rep))
			}
		}
		return
	}
	r.max = ibb.MaxBufferSize
	for _, st := range sc.Steps {
		r.step(st)
	}
	if r.closed == "" {
		r.step(step{Op: sc.Final})
	}
	r.settle(false)
	// final drain: everything accepted, then end-of-file
	for i := 0; i < 1<<20 && len(r.q) > 0; i++ {
		r.read(sc.DrainK)
	}
	r.read(sc.DrainK)
	r.scanSent()
}

func runScenario(sc *scenario) (res result) {
	h := &ibb.Handler{}
	sv, err := wire.Serve(wire.SessionOpts{}, mux.New(stanza.NSClient, ibb.Handle(h)))
	if err != nil {
		return result{inconclusive: "harness: " + err.Error()}
	}
	r := &runner{sc: sc, sv: sv, h: h, classes: map[string]bool{}}
	r.p = newPeer(sv)
	r.p.mu.Lock()
	r.p.light = sc.Light
	r.p.mu.Unlock()
	r.ctx, r.cancel = context.WithCancel(context.Background())
	func() {
		defer func() {
			if x := recover(); x != nil {
				if _, ok := x.(abortRun); !ok {
					panic(x)
				}
			}
		}()
		r.body()
		r.checkPanics()
	}()
	// tear down: cancel contexts, close the listener, end the session, and make
	// sure every goroutine of the case has returned
	r.cancel()
	if r.ln != nil {
		ev.Guard(func() { r.ln.Close() })
	}
	if r.conn != nil && r.closed == "" {
		// the case was abandoned half-way: close the stream as the peer so that
		// a reader left behind is released and cannot be mistaken for a stall
		// in a later case
		from := r.p.count()
		r.sv.Feed(closeIQ("teardown", r.sid))
		r.p.waitEvent(from, func(e *event) bool { return e.id == "teardown" }, 2*time.Second)
	}
	r.p.halt()
	down := sv.Shutdown(opTimeout)
	gone := make(chan struct{})
	go func() { r.wg.Wait(); close(gone) }()
	select {
	case <-gone:
	case <-time.After(opTimeout):
		if r.res.viol == "" && r.res.inconclusive == "" {
			r.res.inconclusive = "library calls still running after the session ended"
		}
	}
	if !down && r.res.viol == "" && r.res.inconclusive == "" {
		r.res.inconclusive = "Serve did not return after the peer closed the stream"
	}
	if r.res.viol == "" && r.res.inconclusive == "" {
		if p := sv.Panic(); p != "" {
			r.res.viol = "the serve goroutine panicked: " + p
		}
	}
	if r.p.perr != nil && r.res.viol == "" {
		r.res.viol = "the session's output is not well-formed XML: " + r.p.perr.Error()
	}
	// statistics
	if r.nPackets >= 2 && r.nWrites >= 2 {
		r.class("nt:multi-packet-multi-write")
		r.res.nontrivial = true
	}
	if r.nBadMid > 0 {
		r.class("nt:bad-packet-mid-transfer")
		r.res.nontrivial = true
	}
	if r.nPackets > 0 && r.nGood > 0 {
		r.class("nt:both-directions")
		r.res.nontrivial = true
	}
	if r.nPackets > 0 {
		r.class("dir:send")
	}
	if r.nGood > 0 {
		r.class("dir:recv")
	}
	if r.conn != nil {
		r.class("carrier:" + sc.Carrier)
	}
	for c := range r.classes {
		r.res.classes = append(r.res.classes, c)
	}
	r.res.log = strings.Join(r.trace, "\n    ") + "\n  elements written by the library:" + r.p.describe(0)
	return r.res
}
