package c15

// Several sessions, one after the other, on one Handler: session ids are
// reused, connection objects of finished sessions are kept and closed again
// later.  Whatever happens to a finished session must not disturb the live one:
// its packets are accepted and delivered exactly once, in order, and it ends
// with end-of-file after the peer's close.

import (
	"bytes"
	"context"
	"fmt"
	"io"
	"net"
	"strings"
	"testing"
	"time"

	"pgregory.net/rapid"

	"mellium.im/xmpp/ibb"
	"mellium.im/xmpp/jid"
	"mellium.im/xmpp/mux"
	"mellium.im/xmpp/stanza"
	"mellium.im/xmpp/verifharness/internal/ev"
	"mellium.im/xmpp/verifharness/internal/wire"
)

type reuseSession struct {
	sid     string
	opener  string // peer lib
	taker   string // a session the peer opens is taken with: accept / expect (Listener.Expect for exactly this peer and sid)
	carrier string // iq message
	packets []int  // sizes of the peer's data packets
	writes  []int  // sizes of the library's writes (each flushed)
	closer  string // peer lib lib-refused (the peer answers the library's <close/> with an error)
	// the application reads what this session delivered only later: after the
	// next session has been opened and has received its data (peer-closed
	// sessions only)
	lateRead bool
	staleOps []int // before the peer's data: indexes (mod #finished) of finished connections to Close() again
}

type reuseCase struct{ sessions []reuseSession }

func (c reuseCase) String() string {
	var sb strings.Builder
	for i, s := range c.sessions {
		fmt.Fprintf(&sb, "\n  session %d: sid=%q opened-by=%s taken-with=%s carrier=%s close-again-on-finished=%v peer-packets=%v library-writes=%v closed-by=%s read-only-after-the-next-session-got-its-data=%v", i, s.sid, s.opener, s.taker, s.carrier, s.staleOps, s.packets, s.writes, s.closer, s.lateRead)
	}
	return sb.String()
}

func genReuse(t *rapid.T) reuseCase {
	var c reuseCase
	n := rapid.IntRange(2, 4).Draw(t, "nsessions")
	for i := 0; i < n; i++ {
		s := reuseSession{
			sid:     rapid.SampledFrom([]string{"x", "x", "y"}).Draw(t, "sid"),
			opener:  rapid.SampledFrom([]string{"peer", "lib"}).Draw(t, "opener"),
			carrier: rapid.SampledFrom([]string{"iq", "message"}).Draw(t, "carrier"),
			closer:  rapid.SampledFrom([]string{"peer", "lib", "lib", "lib-refused"}).Draw(t, "closer"),
			taker:   rapid.SampledFrom([]string{"accept", "expect"}).Draw(t, "taker"),
		}
		if s.opener != "peer" {
			s.taker = "-"
		}
		for k := rapid.IntRange(0, 3).Draw(t, "npackets"); k > 0; k-- {
			s.packets = append(s.packets, rapid.IntRange(0, 9).Draw(t, "psize"))
		}
		for k := rapid.IntRange(0, 2).Draw(t, "nwrites"); k > 0; k-- {
			s.writes = append(s.writes, rapid.IntRange(1, 9).Draw(t, "wsize"))
		}
		if i > 0 {
			for k := rapid.IntRange(0, 2).Draw(t, "nstale"); k > 0; k-- {
				s.staleOps = append(s.staleOps, rapid.IntRange(0, 7).Draw(t, "stale"))
			}
		}
		s.lateRead = s.closer == "peer" && rapid.IntRange(0, 2).Draw(t, "lateRead") == 0
		c.sessions = append(c.sessions, s)
	}
	return c
}

func checkReuse(t interface {
	Helper()
	Fatalf(string, ...any)
}, c reuseCase) {
	t.Helper()
	h := &ibb.Handler{}
	sv, err := wire.Serve(wire.SessionOpts{}, mux.New(stanza.NSClient, ibb.Handle(h)))
	if err != nil {
		t.Fatalf("harness: %v", err)
	}
	p := newPeer(sv)
	ln := h.Listen(sv.Session)
	var trace []string
	tracef := func(format string, a ...any) { trace = append(trace, fmt.Sprintf(format, a...)) }
	done := false
	finish := func() {
		if !done {
			done = true
			p.halt()
			sv.Shutdown(3 * time.Second)
			sv.Conn.Close()
		}
	}
	defer finish()
	fail := func(format string, a ...any) {
		t.Helper()
		ev.Failf(t, "sessions on one Handler:%s\ntrace:\n  %s\n%s", c.String(), strings.Join(trace, "\n  "), fmt.Sprintf(format, a...))
	}
	inconclusive := func(what string) {
		if pn := sv.Panic(); pn != "" {
			fail("%s", pn)
		}
		ev.Class("inconclusive-timeout")
		ev.Note("reuse: inconclusive: %s%s", what, c.String())
	}
	idn := 0
	id := func(pfx string) string { idn++; return fmt.Sprintf("%s%d", pfx, idn) }
	// request sends an IQ as the peer and returns the kind of the answer
	request := func(what, xml, rid string) (string, bool) {
		from := p.count()
		sv.Feed(xml)
		e, _ := p.waitEvent(from, func(e *event) bool { return (e.kind == "result" || e.kind == "error") && e.id == rid }, opTimeout)
		if e == nil {
			inconclusive("no answer to " + what)
			return "", false
		}
		tracef("%s -> %s", what, e)
		return e.kind, true
	}
	call := func(what string, f func() string) (string, bool) {
		ch := make(chan string, 1)
		go func() {
			var out string
			if pn := ev.Guard(func() { out = f() }); pn != "" {
				out = "PANIC " + pn
			}
			ch <- out
		}()
		select {
		case out := <-ch:
			tracef("%s -> %s", what, out)
			if strings.HasPrefix(out, "PANIC ") {
				fail("%s panicked: %s", what, out[6:])
			}
			return out, true
		case <-time.After(opTimeout):
			inconclusive(what + " did not return")
			return "", false
		}
	}

	var finished []net.Conn
	var lateReads []func() bool
	for si, s := range c.sessions {
		// ---- open
		var conn net.Conn
		if s.opener == "peer" {
			acc := make(chan net.Conn, 1)
			if s.taker == "expect" {
				ectx, ecancel := context.WithCancel(context.Background())
				defer ecancel()
				go func() { cn, _ := ln.Expect(ectx, jid.MustParse(peerJID), s.sid); acc <- cn }()
				// the expectation must be pending when the <open/> arrives
				for i := 0; i < 2000 && len(wire.BlockedMatching("ibb.(*Listener).Expect")) == 0; i++ {
					time.Sleep(time.Millisecond)
				}
			} else {
				go func() { cn, _ := ln.Accept(); acc <- cn }()
			}
			rid := id("op")
			kind, ok := request(fmt.Sprintf("session %d: peer <open sid=%q/>", si, s.sid), openIQ(rid, s.sid, 4096, s.carrier), rid)
			if !ok {
				return
			}
			if kind != "result" {
				fail("session %d: the peer's <open/> for sid %q (no live session has that id) was refused", si, s.sid)
			}
			select {
			case conn = <-acc:
			case <-time.After(opTimeout):
				inconclusive("Accept / Expect did not return")
				return
			}
			if conn == nil {
				fail("session %d: the peer's <open/> was accepted but %s returned no connection", si, s.taker)
			}
		} else {
			out, ok := call(fmt.Sprintf("session %d: OpenIQ sid=%q", si, s.sid), func() string {
				cn, err := h.OpenIQ(context.Background(), stanza.IQ{To: jid.MustParse(peerJID)}, sv.Session, s.carrier == "iq", 4096, s.sid)
				if cn != nil {
					conn = cn
				}
				return fmt.Sprint("err=", err)
			})
			if !ok {
				return
			}
			if out != "err=<nil>" || conn == nil {
				fail("session %d: OpenIQ failed although the peer accepted: %s", si, out)
			}
		}
		// ---- closing finished connections again must not disturb this one
		for _, k := range s.staleOps {
			if len(finished) == 0 {
				break
			}
			st := finished[k%len(finished)]
			if _, ok := call(fmt.Sprintf("session %d: Close() again on a finished connection", si), func() string { return fmt.Sprint("err=", st.Close()) }); !ok {
				return
			}
		}
		// ---- peer -> library
		var want []byte
		for k, n := range s.packets {
			data := bl(n, uint32(si*16+k)).bytes()
			want = append(want, data...)
			if s.carrier == "iq" {
				rid := id("pk")
				kind, ok := request(fmt.Sprintf("session %d: peer data seq=%d (%d bytes)", si, k, n), dataIQ(rid, s.sid, k, b64(data)), rid)
				if !ok {
					return
				}
				if kind != "result" {
					fail("session %d: data packet seq=%d of the live session %q was refused", si, k, s.sid)
				}
			} else {
				mid, sy := id("pm"), id("sy")
				from := p.count()
				sv.Feed(dataMsg(mid, s.sid, k, b64(data)) + syncIQ(sy))
				e, idx := p.waitEvent(from, func(e *event) bool { return e.kind == "error" && e.id == sy }, opTimeout)
				if e == nil {
					inconclusive("serve loop did not get past a data message")
					return
				}
				evs := p.events()
				for i := from; i < idx; i++ {
					if evs[i].kind == "msgerror" {
						fail("session %d: data message seq=%d of the live session %q was refused: %s", si, k, s.sid, evs[i])
					}
				}
				tracef("session %d: peer data message seq=%d (%d bytes) -> accepted", si, k, n)
			}
		}
		// ---- readers of earlier sessions that come only now
		for _, f := range lateReads {
			if !f() {
				return
			}
		}
		lateReads = nil
		// ---- library -> peer
		var wrote []byte
		for k, n := range s.writes {
			data := bl(n, uint32(1000+si*16+k)).bytes()
			wrote = append(wrote, data...)
			out, ok := call(fmt.Sprintf("session %d: Write(%d bytes)+Flush", si, n), func() string {
				_, err := conn.Write(data)
				if err == nil {
					err = conn.(*ibb.Conn).Flush()
				}
				return fmt.Sprint("err=", err)
			})
			if !ok {
				return
			}
			if out != "err=<nil>" {
				fail("session %d: writing on the live session %q failed: %s", si, s.sid, out)
			}
		}
		// ---- close
		if s.closer == "peer" {
			rid := id("cl")
			kind, ok := request(fmt.Sprintf("session %d: peer <close sid=%q/>", si, s.sid), closeIQ(rid, s.sid), rid)
			if !ok {
				return
			}
			if kind != "result" {
				fail("session %d: the peer's <close/> of the live session %q was refused", si, s.sid)
			}
		} else {
			if s.closer == "lib-refused" {
				p.setPolicy("", "", "error:item-not-found")
			}
			out, ok := call(fmt.Sprintf("session %d: Close()", si), func() string { return fmt.Sprint("err=", conn.Close()) })
			p.setPolicy("", "", "result")
			if !ok {
				return
			}
			if s.closer == "lib" && out != "err=<nil>" {
				fail("session %d: Close of the live session %q failed: %s", si, s.sid, out)
			}
			if s.closer == "lib-refused" {
				// whatever Close reports, this end has closed the session: what the
				// peer sends for it afterwards is for a closed session
				rid := id("late")
				kind, ok := request(fmt.Sprintf("session %d: peer data for the session the library has closed (the peer had refused the <close/>)", si), dataIQ(rid, s.sid, len(s.packets), b64([]byte("late"))), rid)
				if !ok {
					return
				}
				if kind != "error" {
					fail("session %d: the library closed session %q (Close returned %s; the peer answered the <close/> with an error); a data packet for it afterwards was accepted", si, s.sid, out)
				}
			}
		}
		// ---- what the library's reader gets: everything, then end-of-file (a
		// reader on the side that closed may get an error instead)
		si, s, conn, want := si, s, conn, want
		readAll := func() bool {
			var got []byte
			out, ok := call(fmt.Sprintf("session %d: read to the end", si), func() string {
				b, err := io.ReadAll(conn)
				got = b
				return fmt.Sprintf("%d bytes err=%v", len(b), err)
			})
			if !ok {
				return false
			}
			if s.closer == "peer" && (!bytes.Equal(got, want) || !strings.HasSuffix(out, "err=<nil>")) {
				fail("session %d (sid %q): the peer sent %x and closed; the reader got %x (%s)", si, s.sid, want, got, out)
			}
			if s.closer != "peer" && !bytes.HasPrefix(want, got) {
				fail("session %d (sid %q): the peer sent %x; the reader got %x, which is not a prefix of it", si, s.sid, want, got)
			}
			return true
		}
		if s.lateRead && s.closer == "peer" {
			lateReads = append(lateReads, readAll)
			ev.Class("reuse:read-after-the-next-session-got-data")
		} else if !readAll() {
			return
		}
		_ = wrote
		finished = append(finished, conn)
	}
	for _, f := range lateReads {
		if !f() {
			return
		}
	}
	finish()
	if pn := sv.Panic(); pn != "" {
		fail("%s", pn)
	}
}

func TestC15Reuse(t *testing.T) {
	ev.Check(t, 150, 2000, func(rt *rapid.T) {
		c := genReuse(rt)
		reused, stale, expected, refused := false, false, false, false
		seen := map[string]bool{}
		for _, s := range c.sessions {
			if seen[s.sid] {
				reused = true
			}
			seen[s.sid] = true
			if len(s.staleOps) > 0 {
				stale = true
			}
			if s.taker == "expect" {
				expected = true
			}
			if s.closer == "lib-refused" {
				refused = true
			}
		}
		classes := []string{"reuse"}
		if reused {
			classes = append(classes, "session-id-reused")
		}
		if stale {
			classes = append(classes, "finished-connection-closed-again")
		}
		if expected {
			classes = append(classes, "session-taken-with-Expect")
		}
		if refused {
			classes = append(classes, "close-answered-with-an-error")
		}
		ev.Case(reused || stale || expected || refused, c.String(), classes...)
		checkReuse(rt, c)
	})
}
