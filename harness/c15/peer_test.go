package c15

// The scripted IBB peer: the harness end of the wire.Conn under the library
// session.  It parses (incrementally, with the independent encoding/xml pass of
// wire.ParseStream) every element the library writes, classifies it as an
// XEP-0047 event, answers requests according to a policy the test sets, and
// lets the test wait for events.

import (
	"encoding/base64"
	"encoding/xml"
	"fmt"
	"strconv"
	"strings"
	"sync"
	"time"

	"mellium.im/xmpp/verifharness/internal/wire"
	"mellium.im/xmpp/verifharness/internal/xt"
)

const (
	nsIBB     = "http://jabber.org/protocol/ibb"
	nsStanzas = "urn:ietf:params:xml:ns:xmpp-stanzas"
	peerJID   = "peer@example.org/ibb"
	localJID  = "test@example.net"
)

// event is one element written by the library, seen through XEP-0047 glasses.
type event struct {
	node *xt.Node
	// kind: open | data | close (requests of the library),
	// result | error (iq replies), msgerror (message of type error), other
	kind    string
	carrier string // iq | message
	id      string
	sid     string
	seqRaw  string
	seq     int // -1 when not a number in 0..65535
	b64     string
	block   string // open: block-size attribute
	stanza  string // open: stanza attribute
	cond    string // error replies: defined condition (local name)
	etype   string // error replies: error type attribute
}

func (e *event) String() string {
	switch e.kind {
	case "data":
		return fmt.Sprintf("data[%s id=%q sid=%q seq=%s b64=%q]", e.carrier, e.id, e.sid, e.seqRaw, clip(e.b64, 40))
	case "open":
		return fmt.Sprintf("open[id=%q sid=%q block-size=%s stanza=%q]", e.id, e.sid, e.block, e.stanza)
	case "close":
		return fmt.Sprintf("close[id=%q sid=%q]", e.id, e.sid)
	case "result":
		return fmt.Sprintf("result[id=%q]", e.id)
	case "error":
		return fmt.Sprintf("error[id=%q %s/%s]", e.id, e.etype, e.cond)
	case "msgerror":
		return fmt.Sprintf("msgerror[id=%q %s/%s]", e.id, e.etype, e.cond)
	}
	return "other[" + clip(e.node.Canon(), 120) + "]"
}

func clip(s string, n int) string {
	if len(s) > n {
		return s[:n] + fmt.Sprintf("…(%d)", len(s))
	}
	return s
}

func classify(n *xt.Node) *event {
	e := &event{node: n, kind: "other", seq: -1}
	e.id, _ = n.Get("id")
	typ, _ := n.Get("type")
	errInfo := func() {
		if en := n.Find("error"); en != nil {
			e.etype, _ = en.Get("type")
			for _, c := range en.Children {
				if !c.IsText() && c.Name.Space == nsStanzas && c.Name.Local != "text" {
					e.cond = c.Name.Local
					break
				}
			}
		}
	}
	child := func(local string) *xt.Node {
		for _, c := range n.Children {
			if !c.IsText() && c.Name.Space == nsIBB && c.Name.Local == local {
				return c
			}
		}
		return nil
	}
	fillData := func(d *xt.Node) {
		e.kind = "data"
		e.sid, _ = d.Get("sid")
		e.seqRaw, _ = d.Get("seq")
		if v, err := strconv.ParseUint(e.seqRaw, 10, 16); err == nil {
			e.seq = int(v)
		}
		e.b64 = d.InnerText()
	}
	switch n.Name.Local {
	case "iq":
		e.carrier = "iq"
		switch typ {
		case "result":
			e.kind = "result"
		case "error":
			e.kind = "error"
			errInfo()
		case "set", "get":
			if d := child("data"); d != nil && typ == "set" {
				fillData(d)
			} else if o := child("open"); o != nil && typ == "set" {
				e.kind = "open"
				e.sid, _ = o.Get("sid")
				e.block, _ = o.Get("block-size")
				e.stanza, _ = o.Get("stanza")
			} else if c := child("close"); c != nil && typ == "set" {
				e.kind = "close"
				e.sid, _ = c.Get("sid")
			}
		}
	case "message":
		e.carrier = "message"
		if typ == "error" {
			e.kind = "msgerror"
			errInfo()
		} else if d := child("data"); d != nil {
			fillData(d)
		}
	}
	return e
}

type peer struct {
	sv *wire.Served
	ns string

	mu      sync.Mutex
	cond    *sync.Cond
	evts    []*event
	off     int
	perr    error // set when the peer is halted: the output does not parse
	tailErr error
	stop    bool
	closed  bool // stream end tag seen
	done    chan struct{}

	// policy (guarded by mu)
	openReply string // "result" | "error:<cond>" | "none"
	dataReply string // "result" | "none"
	closeRep  string // "result" | "none"
	// light mode: do not keep nodes of data events (very long transfers)
	light bool
	// what follows the acknowledgement of an open request in the same write
	early func(sid string) string
}

func newPeer(sv *wire.Served) *peer {
	p := &peer{sv: sv, ns: sv.Opts.NS(), done: make(chan struct{}), openReply: "result", dataReply: "result", closeRep: "result"}
	p.cond = sync.NewCond(&p.mu)
	go p.loop()
	go func() {
		// wake waiters when the serve loop ends
		<-sv.Done()
		p.mu.Lock()
		p.cond.Broadcast()
		p.mu.Unlock()
	}()
	return p
}

// setEarly: what the peer sends in the same write as its acknowledgement of
// an open request (nil: nothing).
func (p *peer) setEarly(f func(sid string) string) {
	p.mu.Lock()
	p.early = f
	p.mu.Unlock()
}

func (p *peer) setPolicy(open, data, cls string) {
	p.mu.Lock()
	if open != "" {
		p.openReply = open
	}
	if data != "" {
		p.dataReply = data
	}
	if cls != "" {
		p.closeRep = cls
	}
	p.mu.Unlock()
}

func (p *peer) loop() {
	defer close(p.done)
	for {
		var nodes []*xt.Node
		var sawClose bool
		stopped := false
		p.sv.Conn.WaitOutput(func(b []byte) bool {
			p.mu.Lock()
			stopped = p.stop
			off := p.off
			p.mu.Unlock()
			if len(b) > off {
				// An error here may only mean that the output so far ends in the
				// middle of a construct (for instance inside a multi-byte
				// character): the complete items are consumed, the tail is parsed
				// again when more has been written, and the error counts only if
				// it is still there at the end of the case.
				items, rest, err := wire.ParseStream(b[off:], false, p.ns)
				for _, it := range items {
					switch it.Kind {
					case "element":
						nodes = append(nodes, it.Node)
					case "close":
						sawClose = true
					}
				}
				p.mu.Lock()
				p.off = off + rest
				p.tailErr = err
				p.mu.Unlock()
			}
			return stopped || len(nodes) > 0 || sawClose
		}, 250*time.Millisecond)
		for _, n := range nodes {
			e := classify(n)
			p.mu.Lock()
			open, data, cls := p.openReply, p.dataReply, p.closeRep
			if p.light && e.kind == "data" {
				e.node = nil
			}
			p.evts = append(p.evts, e)
			p.cond.Broadcast()
			p.mu.Unlock()
			if stopped {
				continue
			}
			// automatic replies
			switch {
			case e.kind == "open":
				p.mu.Lock()
				early := p.early
				p.mu.Unlock()
				if open == "result" && early != nil {
					// the accepting peer speaks first: its first data packet
					// travels right behind its acknowledgement of the open request
					p.sv.Feed(`<iq type="result" id="` + escAttr(e.id) + `" from="` + peerJID + `"/>` + early(e.sid))
				} else {
					p.reply(e.id, open)
				}
			case e.kind == "data" && e.carrier == "iq" && e.id != "":
				p.reply(e.id, data)
			case e.kind == "close":
				p.reply(e.id, cls)
			}
		}
		if sawClose {
			p.mu.Lock()
			p.closed = true
			p.cond.Broadcast()
			p.mu.Unlock()
		}
		if stopped {
			p.mu.Lock()
			p.perr = p.tailErr
			p.mu.Unlock()
			return
		}
	}
}

func escAttr(s string) string {
	var sb strings.Builder
	_ = xml.EscapeText(&sb, []byte(s))
	return sb.String()
}

func (p *peer) reply(id, how string) {
	switch {
	case how == "result":
		p.sv.Feed(`<iq type="result" id="` + escAttr(id) + `" from="` + peerJID + `"/>`)
	case how == "error-bare":
		// a refusal without an <error/> child (a server bouncing the request)
		p.sv.Feed(`<iq type="error" id="` + escAttr(id) + `" from="` + peerJID + `"/>`)
	case how == "error-echo":
		// a refusal that only echoes the request
		p.sv.Feed(`<iq type="error" id="` + escAttr(id) + `" from="` + peerJID + `"><open xmlns="` + nsIBB + `" sid="echo" block-size="4096"/></iq>`)
	case strings.HasPrefix(how, "error:"):
		parts := strings.SplitN(strings.TrimPrefix(how, "error:"), "/", 2)
		typ, cond := "cancel", parts[0]
		if len(parts) == 2 {
			typ, cond = parts[0], parts[1]
		}
		p.sv.Feed(`<iq type="error" id="` + escAttr(id) + `" from="` + peerJID + `"><error type="` + typ + `"><` + cond + ` xmlns="` + nsStanzas + `"/></error></iq>`)
	}
}

func (p *peer) halt() {
	p.mu.Lock()
	p.stop = true
	p.mu.Unlock()
	p.sv.Conn.Feed(nil) // broadcast
	<-p.done
}

func (p *peer) count() int {
	p.mu.Lock()
	defer p.mu.Unlock()
	return len(p.evts)
}

func (p *peer) events() []*event {
	p.mu.Lock()
	defer p.mu.Unlock()
	return append([]*event(nil), p.evts...)
}

// waitEvent waits for the first event at index >= from satisfying pred.
// It gives up when the timeout passes, when the output stops being well-formed
// or when the serve loop has ended and nothing more can come.
func (p *peer) waitEvent(from int, pred func(*event) bool, d time.Duration) (*event, int) {
	deadline := time.Now().Add(d)
	t := time.AfterFunc(d, func() { p.mu.Lock(); p.cond.Broadcast(); p.mu.Unlock() })
	defer t.Stop()
	p.mu.Lock()
	defer p.mu.Unlock()
	i := from
	grace := false
	for {
		for ; i < len(p.evts); i++ {
			if pred(p.evts[i]) {
				return p.evts[i], i
			}
		}
		if p.perr != nil || !time.Now().Before(deadline) {
			return nil, -1
		}
		select {
		case <-p.sv.Done():
			// the serve loop has ended: give the parser one more round
			if grace {
				return nil, -1
			}
			grace = true
			p.mu.Unlock()
			time.Sleep(20 * time.Millisecond)
			p.mu.Lock()
			continue
		default:
		}
		p.cond.Wait()
	}
}

func (p *peer) describe(from int) string {
	p.mu.Lock()
	defer p.mu.Unlock()
	var sb strings.Builder
	n := 0
	for i := from; i < len(p.evts); i++ {
		if n >= 60 {
			fmt.Fprintf(&sb, "\n    … %d more", len(p.evts)-i)
			break
		}
		fmt.Fprintf(&sb, "\n    [%d] %s", i, p.evts[i])
		n++
	}
	if p.perr != nil {
		fmt.Fprintf(&sb, "\n    output not well-formed: %v", p.perr)
	}
	return sb.String()
}

// ------------------------------------------------------------ peer requests

func b64(b []byte) string { return base64.StdEncoding.EncodeToString(b) }

func dataIQ(id, sid string, seq int, text string) string {
	return `<iq type="set" id="` + id + `" from="` + peerJID + `" to="` + localJID + `"><data xmlns="` + nsIBB + `" seq="` + strconv.Itoa(seq) + `" sid="` + escAttr(sid) + `">` + text + `</data></iq>`
}

func dataMsg(id, sid string, seq int, text string) string {
	return `<message id="` + id + `" from="` + peerJID + `" to="` + localJID + `"><data xmlns="` + nsIBB + `" seq="` + strconv.Itoa(seq) + `" sid="` + escAttr(sid) + `">` + text + `</data></message>`
}

func openIQ(id, sid string, block int, stanza string) string {
	s := `<iq type="set" id="` + id + `" from="` + peerJID + `" to="` + localJID + `"><open xmlns="` + nsIBB + `" block-size="` + strconv.Itoa(block) + `" sid="` + escAttr(sid) + `"`
	if stanza != "" {
		s += ` stanza="` + stanza + `"`
	}
	return s + `/></iq>`
}

func closeIQ(id, sid string) string {
	return `<iq type="set" id="` + id + `" from="` + peerJID + `" to="` + localJID + `"><close xmlns="` + nsIBB + `" sid="` + escAttr(sid) + `"/></iq>`
}

// syncIQ is a request no handler is registered for; its (error) reply shows
// that the serve loop has finished everything fed before it.
func syncIQ(id string) string {
	return `<iq type="get" id="` + id + `" from="` + peerJID + `" to="` + localJID + `"><ping xmlns="urn:xmpp:ping"/></iq>`
}
