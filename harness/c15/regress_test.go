package c15

// Concrete scenarios: witnesses of every defect found on the pinned tree,
// deterministic sweeps around block / base64-group boundaries, the statistical
// wake-up probe and (thorough tier) transfers of more than 65536 packets.

import (
	"fmt"
	"os"
	"strings"
	"testing"
	"time"

	"mellium.im/xmpp/ibb"
	"mellium.im/xmpp/mux"
	"mellium.im/xmpp/stanza"
	"mellium.im/xmpp/verifharness/internal/ev"
	"mellium.im/xmpp/verifharness/internal/wire"
)

func bl(n int, seed uint32) blob { return blob{N: n, Seed: seed} }

type named struct {
	name string
	sc   *scenario
}

func regressScenarios() []named {
	var out []named
	add := func(name string, sc *scenario) {
		if sc.Final == "" {
			sc.Final = "PC"
		}
		if sc.DrainK == 0 {
			sc.DrainK = 4096
		}
		if sc.OpenReply == "" {
			sc.OpenReply = "result"
		}
		if sc.SID == "" {
			sc.SID = "s1"
		}
		if sc.Carrier == "" {
			sc.Carrier = "iq"
		}
		out = append(out, named{name, sc})
	}
	// finding 1: an error reply to the open request still yields a connection
	add("open-refused-item-not-found", &scenario{Opener: "lib", Block: 4096, OpenReply: "error:cancel/item-not-found"})
	add("open-refused-not-acceptable-message", &scenario{Opener: "lib", Carrier: "message", Block: 10, OpenReply: "error:cancel/not-acceptable"})
	add("open-refused-default", &scenario{Opener: "libdefault", OpenReply: "error:modify/resource-constraint"})
	add("open-unanswered", &scenario{Opener: "lib", OpenReply: "none"})
	// finding 2: a refused packet uses up its sequence number
	add("refused-b64-then-retry-same-seq", &scenario{Opener: "peer", Listen: true, Block: 64, Steps: []step{
		{Op: "P", B: bl(3, 1)}, {Op: "Bb64", B: bl(0, 0), K: 0}, {Op: "P", B: bl(3, 2)}, {Op: "R", K: 64}}})
	add("refused-overflow-then-retry-same-seq", &scenario{Opener: "peer", Listen: true, Block: 8, Steps: []step{
		{Op: "SRB", K: 8}, {Op: "P", B: bl(6, 1)}, {Op: "P", B: bl(6, 2)}, {Op: "R", K: 64}, {Op: "P", B: bl(6, 2)}, {Op: "R", K: 64}}})
	add("refused-overflow-then-retry-message", &scenario{Opener: "lib", Carrier: "message", Block: 8, Steps: []step{
		{Op: "SRB", K: 8}, {Op: "P", B: bl(6, 1)}, {Op: "P", B: bl(6, 2)}, {Op: "R", K: 64}, {Op: "P", B: bl(6, 2)}, {Op: "R", K: 64}}})
	// finding 3: the valid prefix of a corrupt packet reaches the reader;
	// truncated base64 ends the whole session
	add("corrupt-packet-prefix-delivered", &scenario{Opener: "peer", Listen: true, Block: 64, Steps: []step{
		{Op: "P", B: bl(3, 1)}, {Op: "Bb64", B: bl(6, 7), K: 0}, {Op: "PC"}, {Op: "R", K: 64}}})
	add("corrupt-packet-prefix-delivered-message", &scenario{Opener: "lib", Carrier: "message", Block: 64, Steps: []step{
		{Op: "R", K: 64}, {Op: "Bb64", B: bl(9, 7), K: 1}, {Op: "P", B: bl(2, 3)}}})
	add("truncated-base64-kills-session", &scenario{Opener: "peer", Listen: true, Block: 64, Steps: []step{
		{Op: "P", B: bl(3, 1)}, {Op: "Bb64", B: bl(3, 7), K: 3}, {Op: "P", B: bl(3, 2)}}})
	add("truncated-base64-kills-session-message", &scenario{Opener: "peer", Listen: true, Carrier: "message", Block: 64, Steps: []step{
		{Op: "Bb64", B: bl(0, 7), K: 2}}})
	// finding 4: Close leaves the stream registered
	add("packet-after-local-close", &scenario{Opener: "lib", Block: 64, Steps: []step{
		{Op: "W", B: bl(10, 1)}, {Op: "C"}, {Op: "P", B: bl(3, 1)}}})
	add("packet-after-local-close-accepted-stream", &scenario{Opener: "peer", Listen: true, Carrier: "message", Block: 64, Steps: []step{
		{Op: "P", B: bl(3, 1)}, {Op: "C"}, {Op: "P", B: bl(3, 2)}, {Op: "R", K: 2}}})
	add("packet-after-peer-close", &scenario{Opener: "lib", Block: 64, Steps: []step{
		{Op: "P", B: bl(3, 1)}, {Op: "PC"}, {Op: "P", B: bl(3, 2)}}})
	// finding 5: wake-up protocol of Read (spurious end-of-file on an empty packet)
	add("empty-packet-wakes-pending-read", &scenario{Opener: "peer", Listen: true, Block: 64, Steps: []step{
		{Op: "R", K: 16}, {Op: "P", B: bl(0, 0)}, {Op: "P", B: bl(5, 9)}}})
	add("empty-packet-wakes-pending-read-message", &scenario{Opener: "lib", Carrier: "message", Block: 64, Steps: []step{
		{Op: "R", K: 16}, {Op: "P", B: bl(0, 0)}, {Op: "P", B: bl(0, 0)}, {Op: "P", B: bl(5, 9)}, {Op: "R", K: 3}, {Op: "R", K: 3}}})
	// the default receive buffer (262144 bytes) with the largest block size
	add("default-buffer-overflow", &scenario{Opener: "peer", Listen: true, Block: 65535, Steps: []step{
		{Op: "P", B: bl(65535, 1)}, {Op: "P", B: bl(65535, 2)}, {Op: "P", B: bl(65535, 3)}, {Op: "P", B: bl(65535, 4)},
		{Op: "P", B: bl(65535, 5)}, {Op: "R", K: 1 << 17}, {Op: "P", B: bl(65535, 5)}, {Op: "Bseq", B: bl(3, 1), K: 1}}, DrainK: 1 << 18})
	// miscellaneous shapes that must keep working
	add("no-listener", &scenario{Opener: "peer", Listen: false, Block: 64})
	add("both-directions-parallel", &scenario{Opener: "lib", Block: 5, Final: "C", Steps: []step{
		{Op: "Par", B: bl(100, 1), Pk: []blob{bl(5, 1), bl(5, 2), bl(0, 0), bl(4, 3)}}, {Op: "R", K: 7}, {Op: "F"}, {Op: "W", B: bl(2, 2)}}})
	add("tail-bytes-on-close", &scenario{Opener: "lib", Carrier: "message", Block: 4, Final: "C", Steps: []step{
		{Op: "W", B: bl(1, 1)}, {Op: "F"}, {Op: "W", B: bl(1, 2)}, {Op: "W", B: bl(5, 3)}}})
	add("peer-closes-with-unflushed-writes", &scenario{Opener: "lib", Block: 100, Final: "PC", Steps: []step{
		{Op: "W", B: bl(50, 1)}, {Op: "W", B: bl(7, 2)}}})
	add("close-wakes-pending-read", &scenario{Opener: "lib", Block: 100, Final: "C", Steps: []step{{Op: "R", K: 5}}})
	add("peer-close-wakes-pending-read", &scenario{Opener: "peer", Listen: true, Block: 100, Final: "PC", Steps: []step{{Op: "R", K: 5}, {Op: "Bseq", B: bl(3, 1), K: 1}}})
	return out
}

// TestC15Regress replays the concrete witnesses (every finding, fixed or not).
func TestC15Regress(t *testing.T) {
	for _, n := range regressScenarios() {
		n := n
		t.Run(n.name, func(st *testing.T) {
			ev.Begin(st)
			report(st, n.sc, runScenario(n.sc))
		})
	}
}

// TestC15SendSweep: sender side, every payload length around the base64 group
// and block boundaries for small blocks, each written whole / bytewise / in
// block-sized calls, with and without Flush in between, both carriers.
func TestC15SendSweep(t *testing.T) {
	ev.Begin(t)
	lens := []int{0, 1, 2, 3, 4, 5, 6, 7, 8, 9, 10, 11, 12, 13}
	blocks := []int{1, 2, 3, 4, 5, 7}
	if ev.Thorough() {
		lens = append(lens, 14, 15, 16, 17, 18, 19, 20, 21, 22, 30, 31, 32, 33)
		blocks = append(blocks, 6, 8, 9, 16)
	}
	big := []struct{ block, n int }{{768, 767}, {768, 768}, {768, 769}, {768, 1536}, {768, 1537}, {767, 2300}, {769, 2310}, {0, 2047}, {0, 2048}, {0, 2049}, {0, 4097}, {65535, 65534}, {65535, 65535}, {65535, 65536}, {65535, 131071}}
	run := func(carrier string, block, n, mode int) {
		sc := &scenario{Opener: "lib", Carrier: carrier, Block: block, SID: "sw", OpenReply: "result", Final: "C", DrainK: 64}
		b := bl(n, uint32(n*31+block))
		be := sc.blockEff()
		switch mode {
		case 0:
			sc.Steps = []step{{Op: "W", B: b}}
		case 1:
			sc.Steps = []step{{Op: "WL", B: b, K: 1}}
		case 2:
			sc.Steps = []step{{Op: "WL", B: b, K: be}}
		case 3: // two writes with a flush in between
			h := n / 2
			sc.Steps = []step{{Op: "W", B: bl(h, 5)}, {Op: "F"}, {Op: "W", B: bl(n-h, 6)}}
		case 4:
			sc.Steps = []step{{Op: "WL", B: b, K: be + 1}, {Op: "F"}}
			sc.Final = "PC"
		}
		report(t, sc, runScenario(sc))
	}
	for _, carrier := range []string{"iq", "message"} {
		for _, block := range blocks {
			for _, n := range lens {
				for mode := 0; mode < 5; mode++ {
					run(carrier, block, n, mode)
				}
			}
		}
		for _, bn := range big {
			for _, mode := range []int{0, 2, 3} {
				run(carrier, bn.block, bn.n, mode)
			}
		}
	}
}

// TestC15CrossSweep: the same boundaries end to end through two library
// sessions.
func TestC15CrossSweep(t *testing.T) {
	ev.Begin(t)
	lens := []int{0, 1, 2, 3, 4, 5, 6, 7, 11, 12, 13}
	for _, carrier := range []string{"iq", "message"} {
		for _, block := range []int{1, 2, 3, 4, 5} {
			for _, n := range lens {
				for mode := 0; mode < 3; mode++ {
					c := &crossCase{Carrier: carrier, Block: block, SID: "x", ReadK: []int{1 + (n+mode)%3}, RevK: 2}
					w := wstep{B: bl(n, uint32(n))}
					switch mode {
					case 1:
						w.K = 1
					case 2:
						w.K = block
						c.Rev = []wstep{{B: bl(n, 99), K: 1}}
					}
					c.Fwd = []wstep{w}
					res := runCross(c)
					ev.Case(res.nontrivial, c.String(), res.classes...)
					if res.viol != "" {
						ev.Failf(t, "scenario: %s\n\nVIOLATED: %s", c, res.viol)
					}
					if res.inconclusive != "" {
						ev.Class("inconclusive-timeout")
						ev.Note("inconclusive: %s", res.inconclusive)
					}
				}
			}
		}
	}
}

// TestC15ReadWake: statistical probe of the Read wake-up window.  A reader
// starts on an empty stream while a packet is on its way (with a varying tiny
// offset between the two).  After the packet has been acknowledged the reader
// must return; a stall is reported only when the reader is then found parked in
// ibb.(*Conn).Read (blocked-state rule), never on the basis of time alone.
func TestC15ReadWake(t *testing.T) {
	ev.Begin(t)
	n := ev.N(15000, 60000)
	h := &ibb.Handler{}
	sv, err := wire.Serve(wire.SessionOpts{}, mux.New(stanza.NSClient, ibb.Handle(h)))
	if err != nil {
		t.Skip(err)
	}
	p := newPeer(sv)
	defer func() {
		p.halt()
		sv.Shutdown(opTimeout)
	}()
	ln := h.Listen(sv.Session)
	defer ln.Close()
	type acc struct {
		c   *ibb.Conn
		err error
	}
	ach := make(chan acc, 1)
	go func() {
		c, err := ln.Accept()
		cc, _ := c.(*ibb.Conn)
		ach <- acc{cc, err}
	}()
	sv.Feed(openIQ("op", "wake", 4096, "message"))
	var conn *ibb.Conn
	select {
	case a := <-ach:
		conn = a.c
	case <-time.After(opTimeout):
	}
	if conn == nil {
		ev.Class("inconclusive-timeout")
		return
	}
	ev.Case(false, fmt.Sprintf("readwake x%d", n), "readwake")
	spin := func(k int) int {
		x := 0
		for i := 0; i < k; i++ {
			x += i ^ (x >> 3)
		}
		return x
	}
	sink := 0
	type rd struct {
		n   int
		err error
		b   [8]byte
	}
	for i := 0; i < n; i++ {
		data := []byte{byte(i), byte(i >> 8), 0x5a}
		id := fmt.Sprintf("w%d", i)
		// Three iterations in four use the message carrier (the handler has no
		// reply to encode between buffering the bytes and signalling the
		// reader, which makes the window easier to hit); the request that
		// follows shows when the serve loop is past the packet.
		pkt := dataIQ(id, "wake", i%65536, b64(data))
		if i%4 != 3 {
			pkt = dataMsg("m"+id, "wake", i%65536, b64(data)) + syncIQ(id)
		}
		done := make(chan rd, 1)
		reader := func() {
			var r rd
			r.n, r.err = conn.Read(r.b[:])
			done <- r
		}
		from := p.count()
		mode := i % 2
		jit := (i / 2 * 37) % 3000
		if mode == 0 {
			go reader()
			sink += spin(jit)
			sv.Feed(pkt)
		} else {
			sv.Feed(pkt)
			sink += spin(jit * 4)
			go reader()
		}
		ev.Class("readwake-iterations")
		if mode == 0 {
			ev.Class("readwake:reader-first")
		} else {
			ev.Class("readwake:packet-first")
		}
		e, _ := p.waitEvent(from, func(e *event) bool { return e.id == id && (e.kind == "result" || e.kind == "error") }, opTimeout)
		if e != nil && i%4 != 3 && e.kind == "error" && e.cond == "service-unavailable" {
			// reply to the synchronisation request: was the message refused?
			evs := p.events()
			for j := from; j < len(evs); j++ {
				if evs[j].kind == "msgerror" {
					ev.Failf(t, "ReadWake iteration %d: in-sequence message packet seq=%d answered with %s", i, i%65536, evs[j])
				}
			}
		} else if e == nil || e.kind != "result" {
			if pn := sv.Panic(); pn != "" {
				ev.Failf(t, "ReadWake iteration %d: serve goroutine panicked: %s", i, pn)
			}
			if e != nil {
				ev.Failf(t, "ReadWake iteration %d: in-sequence packet seq=%d answered with %s", i, i%65536, e)
			}
			ev.Class("inconclusive-timeout")
			return
		}
		var r rd
		select {
		case r = <-done:
		case <-time.After(3 * time.Second):
			stalled := ""
			for _, g := range wire.Blocked() {
				if strings.Contains(g, "ibb.(*Conn).Read") {
					stalled = g
				}
			}
			if stalled == "" {
				ev.Class("inconclusive-timeout")
				return
			}
			// confirm: the bytes are there, only the wake-up was lost
			sv.Feed(closeIQ("cl", "wake"))
			select {
			case r = <-done:
			case <-time.After(opTimeout):
			}
			ev.Failf(t, "ReadWake iteration %d (order=%d, spin=%d): packet seq=%d with 3 bytes was accepted (serve loop past it: %s) but the Read that was started on the empty stream stayed parked for 3 s:\n%s\nafter the peer closed the stream the same Read returned (%d, %s) %x — the data had been in the buffer all along (lost wake-up)",
				i, mode, jit, i%65536, e, stalled, r.n, errStr(r.err), r.b[:max(r.n, 0)])
		}
		if r.err != nil || r.n != 3 || r.b[0] != data[0] || r.b[1] != data[1] || r.b[2] != data[2] {
			ev.Failf(t, "ReadWake iteration %d: Read returned (%d, %s) %x, want the 3 bytes %x of the packet just acknowledged", i, r.n, errStr(r.err), r.b[:max(r.n, 0)], data)
		}
	}
	if sink == 42 {
		fmt.Fprintln(os.Stderr)
	}
}

// TestC15Wrap: more than 65536 data packets in one stream, as receiver (both
// tiers) and as sender (thorough tier), so that seq wraps from 65535 to 0.
func TestC15Wrap(t *testing.T) {
	ev.Begin(t)
	shard := 0
	fmt.Sscanf(os.Getenv("VERIF_SHARD"), "%d", &shard)
	carrier := []string{"iq", "message"}[shard%2]
	block := 1 + (shard/2)%3
	extra := 150 + 37*shard
	if !ev.Thorough() {
		// quick tier: the receiving direction only, over the cheaper carrier
		carrier, extra = "message", 40
	}
	// sender: every Write call of `block` bytes; packets carry 3 bytes each for
	// blocks 1..3 (one base64 group), so > 65536 packets need > 196608 bytes
	nbytes := 3 * (65536 + extra)
	send := &scenario{Name: fmt.Sprintf("wrap-send(%s,block=%d,%d bytes in Write calls of %d)", carrier, block, nbytes, block),
		Light: true, Opener: "lib", Carrier: carrier, Block: block, SID: "wrap", OpenReply: "result", Final: "C", DrainK: 64,
		Steps: []step{{Op: "WL", B: bl(nbytes, uint32(shard)), K: block}}}
	var res result
	if ev.Thorough() {
		res = runScenario(send)
		report(t, send, res)
	}
	// receiver: 65536+extra packets of 1..3 bytes, reads now and then, bad
	// packets around the wrap
	recv := &scenario{Name: fmt.Sprintf("wrap-recv(%s,%d packets)", carrier, 65536+extra),
		Light: true, Opener: "peer", Listen: true, Carrier: carrier, Block: 3, SID: "wrap", Final: "PC", DrainK: 1 << 16}
	for i := 0; i < 65536+extra; i++ {
		recv.Steps = append(recv.Steps, step{Op: "P", B: bl(1+i%3, uint32(i))})
		if i%4096 == 4095 {
			recv.Steps = append(recv.Steps, step{Op: "R", K: 1 << 15})
		}
		if i == 65534 || i == 65535 || i == 65536 {
			recv.Steps = append(recv.Steps, step{Op: "Bseq", B: bl(2, 1), K: 1}, step{Op: "Bseq", B: bl(2, 1), K: 65535}, step{Op: "Bb64", B: bl(3, 1), K: 0})
		}
	}
	res = runScenario(recv)
	report(t, recv, res)
}
