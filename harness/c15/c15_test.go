// C15 — An in-band bytestream is a reliable ordered byte pipe.
package c15

import (
	"testing"

	"pgregory.net/rapid"

	"mellium.im/xmpp/verifharness/internal/ev"
)

func TestMain(m *testing.M) { ev.Main(m, "C15") }

func report(t interface {
	Helper()
	Fatalf(string, ...any)
}, sc *scenario, res result) {
	ev.Case(res.nontrivial, sc.String(), res.classes...)
	if res.viol != "" {
		ev.Failf(t, "scenario: %s\n\nVIOLATED: %s\n\nhistory:\n    %s", sc, res.viol, res.log)
	}
	if res.inconclusive != "" {
		ev.Class("inconclusive-timeout")
		ev.Note("inconclusive: %s", res.inconclusive)
	}
}

// TestC15Pipe: generated scenarios against the scripted IBB peer.
func TestC15Pipe(t *testing.T) {
	ev.Check(t, 500, 1500, func(rt *rapid.T) {
		sc := genScenario(rt)
		report(rt, sc, runScenario(sc))
	})
}

// TestC15Cross: two library sessions joined by a plain byte copier.
func TestC15Cross(t *testing.T) {
	ev.Check(t, 150, 500, func(rt *rapid.T) {
		c := genCross(rt)
		res := runCross(c)
		ev.Case(res.nontrivial, c.String(), res.classes...)
		if res.viol != "" {
			ev.Failf(rt, "scenario: %s\n\nVIOLATED: %s", c, res.viol)
		}
		if res.inconclusive != "" {
			ev.Class("inconclusive-timeout")
			ev.Note("inconclusive: %s", res.inconclusive)
		}
	})
}
