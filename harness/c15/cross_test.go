package c15

// Cross-check set-up: two library sessions, each with its own ibb.Handler,
// joined by harness goroutines that copy the bytes one session writes into the
// other session's input (nothing is injected or altered).  One end writes, the
// other reads; optionally the reading end writes back at the same time.

import (
	"bytes"
	"context"
	"fmt"
	"io"
	"net"
	"strings"
	"sync"
	"sync/atomic"
	"time"

	"pgregory.net/rapid"

	"mellium.im/xmpp/ibb"
	"mellium.im/xmpp/jid"
	"mellium.im/xmpp/mux"
	"mellium.im/xmpp/stanza"
	"mellium.im/xmpp/verifharness/internal/ev"
	"mellium.im/xmpp/verifharness/internal/wire"
)

type wstep struct {
	Flush bool
	B     blob
	K     int // 0: one Write call, otherwise bytes per Write call
}

func (w wstep) String() string {
	if w.Flush {
		return "F"
	}
	if w.K > 0 {
		return fmt.Sprintf("W(%s by %d)", w.B, w.K)
	}
	return "W(" + w.B.String() + ")"
}

type crossCase struct {
	Default bool // Handler.Open instead of OpenIQ
	Carrier string
	Block   int
	SID     string
	Fwd     []wstep
	Rev     []wstep // written by the accepting end while it reads
	ReadK   []int   // read sizes of the accepting end, used cyclically
	RevK    int     // read size of the opening end
}

func (c *crossCase) String() string {
	var sb strings.Builder
	if c.Default {
		sb.WriteString("cross Open()")
	} else {
		fmt.Fprintf(&sb, "cross OpenIQ(%s,block=%d,sid=%q)", c.Carrier, c.Block, c.SID)
	}
	sb.WriteString(" fwd:")
	for _, w := range c.Fwd {
		sb.WriteString(" " + w.String())
	}
	if len(c.Rev) > 0 {
		sb.WriteString(" rev:")
		for _, w := range c.Rev {
			sb.WriteString(" " + w.String())
		}
	}
	fmt.Fprintf(&sb, " reads=%v/%d", c.ReadK, c.RevK)
	return sb.String()
}

func concat(ws []wstep) []byte {
	var out []byte
	for _, w := range ws {
		if !w.Flush {
			out = append(out, w.B.bytes()...)
		}
	}
	return out
}

func pump(src, dst *wire.Conn, stop *atomic.Bool, wg *sync.WaitGroup) {
	defer wg.Done()
	off := 0
	for {
		var chunk []byte
		src.WaitOutput(func(b []byte) bool {
			if stop.Load() {
				return true
			}
			if len(b) > off {
				chunk = append([]byte(nil), b[off:]...)
				off = len(b)
				return true
			}
			return false
		}, 250*time.Millisecond)
		if stop.Load() {
			return
		}
		if len(chunk) > 0 {
			dst.Feed(chunk)
		}
	}
}

type crossRun struct {
	c      *crossCase
	wg     sync.WaitGroup
	pmu    sync.Mutex
	panics []string
	res    result
	svA    *wire.Served
	svB    *wire.Served
	hA, hB *ibb.Handler
}

func (r *crossRun) failf(format string, a ...any) {
	if r.res.viol == "" {
		r.res.viol = fmt.Sprintf(format, a...)
	}
	panic(abortRun{})
}

func (r *crossRun) inconclusive(format string, a ...any) {
	if r.res.inconclusive == "" {
		r.res.inconclusive = fmt.Sprintf(format, a...)
	}
	panic(abortRun{})
}

func cspawn[T any](r *crossRun, f func() T) chan T {
	ch := make(chan T, 1)
	r.wg.Add(1)
	go func() {
		defer r.wg.Done()
		var v T
		if p := ev.Guard(func() { v = f() }); p != "" {
			r.pmu.Lock()
			r.panics = append(r.panics, p)
			r.pmu.Unlock()
		}
		ch <- v
	}()
	return ch
}

func (r *crossRun) checkPanics() {
	r.pmu.Lock()
	ps := append([]string(nil), r.panics...)
	r.pmu.Unlock()
	if len(ps) > 0 {
		r.failf("a library call panicked: %s", ps[0])
	}
	for name, sv := range map[string]*wire.Served{"opening": r.svA, "accepting": r.svB} {
		if p := sv.Panic(); p != "" {
			r.failf("the serve goroutine of the %s session panicked: %s", name, p)
		}
	}
}

func cawait[T any](r *crossRun, ch chan T, what, stallFrame string, gid ...*atomic.Value) T {
	select {
	case v := <-ch:
		r.checkPanics()
		return v
	case <-time.After(opTimeout):
	}
	r.checkPanics()
	blocked := wire.Blocked()
	if stallFrame != "" && len(gid) == 1 {
		id, _ := gid[0].Load().(string)
		if g := parkedIn(blocked, id, stallFrame); g != "" {
			{
				r.failf("%s did not return within %v although the writer's Close had returned nil (everything delivered and acknowledged); blocked state:\n%s", what, opTimeout, g)
			}
		}
	}
	r.inconclusive("timeout waiting for %s (blocked library goroutines: %d)", what, len(blocked))
	panic("unreachable")
}

type rdAll struct {
	data  []byte
	err   error
	calls int
	bad   string
}

func readAll(c net.Conn, ks []int, gid *atomic.Value) rdAll {
	var out rdAll
	gid.Store(goid())
	if ks[0] < 0 {
		// the application drains the stream with io.Copy into a consumer that
		// is slower than the packets arrive (it looks at what it was handed
		// only after a while)
		sink := &slowSink{}
		_, err := io.Copy(sink, c)
		out.data, out.calls = sink.data, sink.calls
		out.err = err
		if err == nil {
			out.err = io.EOF
		}
		return out
	}
	for i := 0; ; i++ {
		k := ks[i%len(ks)]
		buf := make([]byte, k)
		n, err := c.Read(buf)
		out.calls++
		if n < 0 || n > k {
			out.bad = fmt.Sprintf("Read(%d) returned n=%d", k, n)
			return out
		}
		out.data = append(out.data, buf[:n]...)
		if err != nil {
			out.err = err
			return out
		}
		if n == 0 {
			out.bad = fmt.Sprintf("Read(%d) returned (0, nil)", k)
			return out
		}
	}
}

type slowSink struct {
	data  []byte
	calls int
}

func (s *slowSink) Write(p []byte) (int, error) {
	s.calls++
	time.Sleep(time.Duration(200+100*(s.calls%7)) * time.Microsecond)
	s.data = append(s.data, p...)
	return len(p), nil
}

func doWrites(c *ibb.Conn, ws []wstep) string {
	for i, w := range ws {
		if w.Flush {
			if err := c.Flush(); err != nil {
				return fmt.Sprintf("step %d: Flush returned %s", i, errStr(err))
			}
			continue
		}
		data := w.B.bytes()
		k := w.K
		if k <= 0 || k > len(data) {
			k = len(data)
		}
		for off := 0; ; off += k {
			end := off + k
			if end > len(data) {
				end = len(data)
			}
			n, err := c.Write(data[off:end])
			if err != nil || n != end-off {
				return fmt.Sprintf("step %d: Write of %d bytes at offset %d returned (%d, %s)", i, end-off, off, n, errStr(err))
			}
			if end >= len(data) {
				break
			}
		}
	}
	return ""
}

func (r *crossRun) body(ctx context.Context) {
	c := r.c
	hA, hB := r.hA, r.hB
	ln := hB.Listen(r.svB.Session)
	defer func() { ev.Guard(func() { ln.Close() }) }()
	type acc struct {
		c   net.Conn
		err error
	}
	ach := cspawn(r, func() acc { c, err := ln.Accept(); return acc{c, err} })
	type opened struct {
		c   *ibb.Conn
		err error
	}
	to := r.svB.Session.LocalAddr()
	var och chan opened
	if c.Default {
		och = cspawn(r, func() opened { c, err := hA.Open(ctx, r.svA.Session, to); return opened{c, err} })
	} else {
		och = cspawn(r, func() opened {
			cc, err := hA.OpenIQ(ctx, stanza.IQ{To: to}, r.svA.Session, c.Carrier == "iq", uint16(c.Block), c.SID)
			return opened{cc, err}
		})
	}
	o := cawait(r, och, "Open towards a session with a listener", "")
	if o.c == nil || o.err != nil {
		r.failf("Open returned (conn != nil: %v, %s) although the other session has a listener accepting", o.c != nil, errStr(o.err))
	}
	a := cawait(r, ach, "Accept", "")
	bc, _ := a.c.(*ibb.Conn)
	if bc == nil || a.err != nil {
		r.failf("Accept returned (%v, %s)", a.c, errStr(a.err))
	}
	ac := o.c
	// readers on both ends run for the whole transfer
	var aG, bG atomic.Value
	bRead := cspawn(r, func() rdAll { return readAll(bc, c.ReadK, &bG) })
	aRead := cspawn(r, func() rdAll { return readAll(ac, []int{c.RevK}, &aG) })
	closed := false
	defer func() {
		if !closed {
			// abandoned half-way: try to release the readers
			ch := cspawn(r, func() error { return ac.Close() })
			select {
			case <-ch:
			case <-time.After(2 * time.Second):
			}
		}
	}()
	// reverse writer
	var rev chan string
	if len(c.Rev) > 0 {
		rev = cspawn(r, func() string {
			if s := doWrites(bc, c.Rev); s != "" {
				return s
			}
			if err := bc.Flush(); err != nil {
				return "final Flush returned " + errStr(err)
			}
			return ""
		})
	}
	if s := cawait(r, cspawn(r, func() string { return doWrites(ac, c.Fwd) }), "the forward writes", ""); s != "" {
		r.failf("opening end: %s (the accepting end reads continuously, total payload below the default receive buffer)", s)
	}
	if rev != nil {
		if s := cawait(r, rev, "the reverse writes", ""); s != "" {
			r.failf("accepting end: %s", s)
		}
	}
	if err := cawait(r, cspawn(r, func() error { return ac.Close() }), "Close of the opening end", ""); err != nil {
		r.failf("Close of the opening end returned %s", errStr(err))
	}
	closed = true
	want := concat(c.Fwd)
	got := cawait(r, bRead, "the accepting end's reader to reach end-of-file", "ibb.(*Conn).Read", &bG)
	if got.bad != "" {
		r.failf("accepting end: %s", got.bad)
	}
	if !bytes.Equal(got.data, want) || got.err != io.EOF {
		r.failf("accepting end read %d bytes then %s; want the %d bytes written then io.EOF; first difference at offset %d (read %s, written %s)",
			len(got.data), errStr(got.err), len(want), firstDiff(got.data, want), hexclip(tail(got.data, firstDiff(got.data, want))), hexclip(tail(want, firstDiff(got.data, want))))
	}
	back := cawait(r, aRead, "the opening end's reader to reach end-of-file after its own Close", "ibb.(*Conn).Read", &aG)
	if back.bad != "" {
		r.failf("opening end: %s", back.bad)
	}
	wantBack := concat(c.Rev)
	// Flush hands complete 3-byte groups to the wire; up to two trailing bytes
	// may legitimately stay with the non-closing writer
	minBack := len(wantBack) - len(wantBack)%3
	if len(back.data) > len(wantBack) || !bytes.Equal(back.data, wantBack[:len(back.data)]) || len(back.data) < minBack || back.err != io.EOF {
		r.failf("opening end read %d bytes then %s; want at least the first %d of the %d bytes the accepting end wrote and flushed, in order, then io.EOF; first difference at offset %d",
			len(back.data), errStr(back.err), minBack, len(wantBack), firstDiff(back.data, wantBack))
	}
}

func firstDiff(a, b []byte) int {
	n := len(a)
	if len(b) < n {
		n = len(b)
	}
	for i := 0; i < n; i++ {
		if a[i] != b[i] {
			return i
		}
	}
	return n
}

func tail(b []byte, off int) []byte {
	if off > len(b) {
		return nil
	}
	return b[off:]
}

func runCross(c *crossCase) result {
	r := &crossRun{c: c, hA: &ibb.Handler{}, hB: &ibb.Handler{}}
	hA, hB := r.hA, r.hB
	var err error
	r.svA, err = wire.Serve(wire.SessionOpts{Local: jid.MustParse("a@example.net/one"), Remote: jid.MustParse("example.net")}, mux.New(stanza.NSClient, ibb.Handle(hA)))
	if err != nil {
		return result{inconclusive: "harness: " + err.Error()}
	}
	r.svB, err = wire.Serve(wire.SessionOpts{Local: jid.MustParse("b@example.org/two"), Remote: jid.MustParse("example.org")}, mux.New(stanza.NSClient, ibb.Handle(hB)))
	if err != nil {
		return result{inconclusive: "harness: " + err.Error()}
	}
	var stop atomic.Bool
	var pwg sync.WaitGroup
	pwg.Add(2)
	go pump(r.svA.Conn, r.svB.Conn, &stop, &pwg)
	go pump(r.svB.Conn, r.svA.Conn, &stop, &pwg)
	ctx, cancel := context.WithCancel(context.Background())
	func() {
		defer func() {
			if x := recover(); x != nil {
				if _, ok := x.(abortRun); !ok {
					panic(x)
				}
			}
		}()
		r.body(ctx)
		r.checkPanics()
	}()
	cancel()
	stop.Store(true)
	// wake the pumps (they wait on output)
	r.svA.Conn.Feed(nil)
	r.svB.Conn.Feed(nil)
	pwg.Wait()
	downA := r.svA.Shutdown(opTimeout)
	downB := r.svB.Shutdown(opTimeout)
	gone := make(chan struct{})
	go func() { r.wg.Wait(); close(gone) }()
	select {
	case <-gone:
	case <-time.After(opTimeout):
		if r.res.viol == "" && r.res.inconclusive == "" {
			r.res.inconclusive = "library calls still running after both sessions ended"
		}
	}
	if (!downA || !downB) && r.res.viol == "" && r.res.inconclusive == "" {
		r.res.inconclusive = "Serve did not return after the stream was closed"
	}
	total := len(concat(c.Fwd))
	writes := 0
	for _, w := range c.Fwd {
		if !w.Flush {
			if w.K > 0 && w.B.N > 0 {
				writes += (w.B.N + w.K - 1) / w.K
			} else {
				writes++
			}
		}
	}
	classes := []string{"cross", "cross:" + c.Carrier}
	if total >= 2 && writes >= 2 {
		r.res.nontrivial = true
		classes = append(classes, "nt:cross-multi-write")
	}
	if len(c.Rev) > 0 {
		r.res.nontrivial = true
		classes = append(classes, "nt:cross-both-directions")
	}
	r.res.classes = classes
	r.res.log = "(two library sessions; see scenario)"
	return r.res
}

func genWsteps(t *rapid.T, label string, be, n, maxTotal int) []wstep {
	var ws []wstep
	total := 0
	for i := 0; i < n; i++ {
		if rapid.IntRange(0, 4).Draw(t, label+"-flush") == 0 {
			ws = append(ws, wstep{Flush: true})
			continue
		}
		sz := genSize(t, label+"-n", be, 20000)
		if total+sz > maxTotal {
			sz = maxTotal - total
		}
		total += sz
		w := wstep{B: genBlob(t, label, sz)}
		if rapid.IntRange(0, 2).Draw(t, label+"-chunked") == 0 {
			w.K = rapid.SampledFrom([]int{1, 2, 3, 4, 5, be - 1, be, be + 1, 767, 768, 769}).Draw(t, label+"-k")
			if w.K < 1 {
				w.K = 1
			}
			if sz/w.K > 3000 {
				w.K = sz/3000 + 1
			}
		}
		ws = append(ws, w)
	}
	return ws
}

func genCross(t *rapid.T) *crossCase {
	c := &crossCase{}
	c.Default = rapid.IntRange(0, 7).Draw(t, "default") == 0
	c.Carrier = rapid.SampledFrom([]string{"iq", "message"}).Draw(t, "carrier")
	c.Block = genBlock(t)
	c.SID = rapid.SampledFrom(sids).Draw(t, "sid")
	if c.Default {
		c.Carrier, c.Block = "iq", 0
	}
	be := c.Block
	if be == 0 {
		be = ibb.BlockSize
	}
	c.Fwd = genWsteps(t, "fwd", be, rapid.IntRange(1, 8).Draw(t, "nfwd"), 150000)
	if rapid.IntRange(0, 2).Draw(t, "both") == 0 {
		c.Rev = genWsteps(t, "rev", be, rapid.IntRange(1, 5).Draw(t, "nrev"), 100000)
	}
	nk := rapid.IntRange(1, 3).Draw(t, "nreadk")
	for i := 0; i < nk; i++ {
		c.ReadK = append(c.ReadK, rapid.SampledFrom([]int{1, 2, 3, 5, 64, 1000, 4096, 1 << 17}).Draw(t, "readk"))
	}
	if total := len(concat(c.Fwd)); total > 20000 {
		// keep the number of Read calls bounded
		for i := range c.ReadK {
			if c.ReadK[i] < 64 {
				c.ReadK[i] = 64
			}
		}
	}
	if rapid.IntRange(0, 3).Draw(t, "drainByCopy") == 0 {
		// the accepting end drains with io.Copy into a slow consumer (see readAll)
		c.ReadK = []int{-1}
	}
	c.RevK = rapid.SampledFrom([]int{1, 3, 64, 4096, 1 << 17}).Draw(t, "revk")
	if len(concat(c.Rev)) > 20000 && c.RevK < 64 {
		c.RevK = 64
	}
	return c
}
