// C13 — Core stanzas and errors encode consistently and round-trip.
//
// Every value is pushed through all encoding paths the library offers
// (xml.Marshal, Wrap(nil)/TokenReader/WriteXML, internal/marshal), each output
// is parsed by an independent namespace-aware parser (tree_test.go), compared
// with a reference tree derived from the field values, decoded again through
// every decoding path (xml.Unmarshal, NewIQ/NewMessage/NewPresence,
// UnmarshalError/UnmarshalIQError) and compared with the original under the
// documented normalisations.
package c13

import (
	"bytes"
	"encoding/xml"
	"fmt"
	"testing"

	"pgregory.net/rapid"

	"mellium.im/xmpp/internal/marshal"
	"mellium.im/xmpp/jid"
	"mellium.im/xmpp/stanza"
	"mellium.im/xmpp/stream"
	"mellium.im/xmpp/verifharness/internal/ev"
)

func TestMain(m *testing.M) { ev.Main(m, "C13") }

type fataler interface {
	Helper()
	Fatalf(string, ...any)
}

// ---------------------------------------------------------------- helpers

func firstStart(b []byte) (xml.StartElement, *xml.Decoder, error) {
	d := xml.NewDecoder(bytes.NewReader(b))
	for {
		tok, err := d.Token()
		if err != nil {
			return xml.StartElement{}, d, err
		}
		if s, ok := tok.(xml.StartElement); ok {
			return s.Copy(), d, nil
		}
	}
}

func stzClasses(s stz) []string {
	c := []string{"kind-" + s.kind}
	switch s.space {
	case "":
		c = append(c, "ns-empty")
	case stanza.NSClient:
		c = append(c, "ns-client")
	default:
		c = append(c, "ns-server")
	}
	if s.local != s.kind {
		c = append(c, "xmlname-local-not-canonical")
	}
	if s.id == "" {
		c = append(c, "id-empty")
	}
	if s.lang != "" {
		c = append(c, "lang-set")
	}
	if s.to.Equal(jid.JID{}) {
		c = append(c, "to-empty")
	}
	if isSpecial(s.to.String()) || isSpecial(s.from.String()) {
		c = append(c, "jid-special-chars")
	}
	return c
}

func stzSpecial(s stz) bool { return isSpecial(s.id) || isSpecial(s.lang) }

func errSpecial(se stanza.Error) bool {
	n := 0
	sp := false
	for k, v := range se.Text {
		if v != "" {
			n++
		}
		if isSpecial(k) || isSpecial(v) {
			sp = true
		}
	}
	return n >= 2 || sp
}

func streamSpecial(e stream.Error) bool {
	sp := isSpecial(e.Content)
	for _, lt := range e.Text {
		if isSpecial(lt.Lang) || isSpecial(lt.Value) {
			sp = true
		}
	}
	return sp || len(e.Text) >= 2
}

func show(p *node) string {
	if p == nil {
		return "nil"
	}
	if p.Declared {
		return p.String() + " (handed over as unqualified names with xmlns attributes)"
	}
	return p.String()
}

// compareRoot checks name and attributes of a parsed root against a reference.
func compareRoot(got, want *node, spaceOptional, emptyAttrsOptional bool) string {
	if got.Name.Local != want.Name.Local || (got.Name.Space != want.Name.Space && !(spaceOptional && got.Name.Space == "")) {
		return fmt.Sprintf("element is {%s}%s, want {%s}%s", got.Name.Space, got.Name.Local, want.Name.Space, want.Name.Local)
	}
	ga := got.Attr
	if emptyAttrsOptional {
		ga = dropEmpty(ga)
	}
	if !sameAttrs(ga, want.Attr) {
		return fmt.Sprintf("attributes of %s, want those of %s", got.String(), want.String())
	}
	return ""
}

// ---------------------------------------------------------------- A: stanza headers

type encoded struct {
	name          string
	b             []byte
	spaceOptional bool // produced from struct tags: namespace supplied by the stream
}

func checkEncodedStanza(t fataler, fail func(string, ...any), s stz, invalid bool, outs []encoded) {
	t.Helper()
	ref := refStart(s)
	var decoded []stz
	for _, o := range outs {
		tree, err := parse(o.b)
		if err != nil {
			fail("%s output is not well-formed: %v\noutput: %q", o.name, err, o.b)
		}
		if len(tree.Kids) != 0 {
			fail("%s output has content: %q", o.name, o.b)
		}
		if !invalid {
			if d := compareRoot(tree, ref, o.spaceOptional, true); d != "" {
				fail("%s output %q: %s", o.name, o.b, d)
			}
		}
		// decode 1: xml.Unmarshal into the struct
		var dv stz
		var derr error
		if p := ev.Guard(func() { dv, derr = unmarshalStz(s.kind, o.b) }); p != "" {
			fail("xml.Unmarshal of %s output %q: %s", o.name, o.b, p)
		}
		if derr != nil {
			fail("xml.Unmarshal of %s output %q: %v", o.name, o.b, derr)
		}
		// decode 2: NewIQ/NewMessage/NewPresence on the parsed start element
		start, _, err := firstStart(o.b)
		if err != nil {
			fail("%s output %q: no start element: %v", o.name, o.b, err)
		}
		var nv stz
		if p := ev.Guard(func() { nv, derr = newStz(s.kind, start) }); p != "" {
			fail("New%s on start of %s output %q: %s", s.kind, o.name, o.b, p)
		}
		if derr != nil {
			fail("New%s on start of %s output %q: %v", s.kind, o.name, o.b, derr)
		}
		// attributes of the same local names in a foreign namespace are not the
		// stanza's own: parsing the start element gives the same value with them
		noisy := start.Copy()
		ext := func(local, v string) xml.Attr {
			return xml.Attr{Name: xml.Name{Space: "urn:verif:ext", Local: local}, Value: v}
		}
		noisy.Attr = append([]xml.Attr{ext("type", "result"), ext("id", "foreign-id")}, append(noisy.Attr, ext("to", "foreign@example.org/x"), ext("from", "other@example.org/y"), ext("type", "unavailable"), ext("lang", "tlh"))...)
		var nv2 stz
		var nerr error
		if p := ev.Guard(func() { nv2, nerr = newStz(s.kind, noisy) }); p != "" {
			fail("New%s on a start element with foreign-namespace attributes: %s", s.kind, p)
		}
		if nerr != nil {
			fail("New%s on the start of %s output %q with foreign-namespace attributes added: %v", s.kind, o.name, o.b, nerr)
		}
		if d := diffStz(nv2, nv, false); d != "" {
			fail("%s output %q: New%s(start) = %s, but %s once attributes type/id/to/from/lang in a foreign namespace are added to the start element (%s)", o.name, o.b, s.kind, nv, nv2, d)
		}
		dv.kind, nv.kind = s.kind, s.kind
		if d := diffStz(nv, dv, false); d != "" {
			fail("%s output %q: New%s(start) = %s but xml.Unmarshal = %s (%s)", o.name, o.b, s.kind, nv, dv, d)
		}
		if !invalid {
			if d := diffStz(dv, s, o.spaceOptional); d != "" {
				fail("%s output %q decodes to %s: %s", o.name, o.b, dv, d)
			}
		}
		decoded = append(decoded, dv)
	}
	// all paths decode to the same value
	for i := 1; i < len(decoded); i++ {
		a, b := decoded[0], decoded[i]
		opt := outs[0].spaceOptional || outs[i].spaceOptional
		if a.space != b.space && opt {
			// namespace supplied by context on at least one side
			if a.space == "" {
				a.space = b.space
			} else if b.space == "" {
				b.space = a.space
			}
		}
		if d := diffStz(b, a, false); d != "" {
			fail("%s output %q and %s output %q decode differently: %s vs %s (%s)", outs[0].name, outs[0].b, outs[i].name, outs[i].b, a, b, d)
		}
	}
}

func checkStanza(t fataler, s stz, invalid bool) {
	t.Helper()
	fail := func(format string, args ...any) {
		t.Helper()
		ev.Failf(t, "value: %s (invalid-xml-chars=%v)\n%s", s, invalid, fmt.Sprintf(format, args...))
	}
	var m, w []byte
	var err error
	if p := ev.Guard(func() { m, err = xml.Marshal(s.value()) }); p != "" {
		fail("xml.Marshal: %s", p)
	}
	if err != nil {
		fail("xml.Marshal: %v", err)
	}
	if p := ev.Guard(func() { w, err = viaCopy(s.wrap(nil)) }); p != "" {
		fail("Wrap(nil): %s", p)
	}
	if err != nil {
		fail("Wrap(nil) copied into an xml.Encoder: %v (output so far %q)", err, w)
	}
	checkEncodedStanza(t, fail, s, invalid, []encoded{
		{"Wrap(nil)", w, false},
		{"xml.Marshal", m, true},
	})
}

func TestC13Stanza(t *testing.T) {
	ev.Check(t, 8000, 60000, func(rt *rapid.T) {
		invalid := rapid.IntRange(0, 7).Draw(rt, "invalid") == 0
		s := genStz(rt, invalid)
		cl := stzClasses(s)
		if invalid {
			cl = append(cl, "invalid-xml-chars")
		}
		ev.Case(stzSpecial(s), fmt.Sprintf("stanza|%s|%v", s, invalid), cl...)
		checkStanza(rt, s, invalid)
	})
}

// ---------------------------------------------------------------- A': internal/marshal paths

func viaEncodeXML(v interface{}) ([]byte, error) {
	var b bytes.Buffer
	e := xml.NewEncoder(&b)
	if err := marshal.EncodeXML(e, v); err != nil {
		return b.Bytes(), err
	}
	if err := e.Flush(); err != nil {
		return b.Bytes(), err
	}
	return b.Bytes(), nil
}

func viaMarshalTokenReader(v interface{}) ([]byte, error) {
	r, err := marshal.TokenReader(v)
	if err != nil {
		return nil, err
	}
	return viaCopy(r)
}

func checkMarshalPkgStanza(t fataler, s stz, invalid bool) {
	t.Helper()
	fail := func(format string, args ...any) {
		t.Helper()
		ev.Failf(t, "value: %s (invalid-xml-chars=%v)\n%s", s, invalid, fmt.Sprintf(format, args...))
	}
	var r, e []byte
	var err error
	if p := ev.Guard(func() { r, err = viaMarshalTokenReader(s.value()) }); p != "" {
		fail("marshal.TokenReader: %s", p)
	}
	if err != nil {
		fail("marshal.TokenReader copied into an xml.Encoder: %v (output so far %q)", err, r)
	}
	if p := ev.Guard(func() { e, err = viaEncodeXML(s.value()) }); p != "" {
		fail("marshal.EncodeXML: %s", p)
	}
	if err != nil {
		fail("marshal.EncodeXML into an xml.Encoder: %v (output so far %q)", err, e)
	}
	m, err := xml.Marshal(s.value())
	if err != nil {
		fail("xml.Marshal: %v", err)
	}
	checkEncodedStanza(t, fail, s, invalid, []encoded{
		{"xml.Marshal", m, true},
		{"marshal.TokenReader", r, true},
		{"marshal.EncodeXML", e, true},
	})
}

func TestC13MarshalPkg(t *testing.T) {
	ev.Check(t, 5000, 30000, func(rt *rapid.T) {
		invalid := rapid.IntRange(0, 7).Draw(rt, "invalid") == 0
		switch rapid.IntRange(0, 4).Draw(rt, "what") {
		case 0: // stanza error through the Marshaler/WriterTo branches
			se := genStanzaError(rt, invalid)
			ev.Case(errSpecial(se), fmt.Sprintf("marshalpkg|%s|%v", showStanzaError(se), invalid), "marshalpkg-stanza-error")
			checkStanzaError(rt, se, nil, invalid, true)
		case 1:
			e := genStreamError(rt, invalid)
			ev.Case(streamSpecial(e), fmt.Sprintf("marshalpkg|%s|%v", showStreamError(e), invalid), "marshalpkg-stream-error")
			checkStreamError(rt, e, nil, invalid, true)
		default:
			s := genStz(rt, invalid)
			cl := append(stzClasses(s), "marshalpkg-stanza")
			ev.Case(stzSpecial(s), fmt.Sprintf("marshalpkg|%s|%v", s, invalid), cl...)
			checkMarshalPkgStanza(rt, s, invalid)
		}
	})
}

// ---------------------------------------------------------------- B: Wrap / Result / Error

func checkHelpers(t fataler, s stz, payload *node, se stanza.Error) {
	t.Helper()
	fail := func(format string, args ...any) {
		t.Helper()
		ev.Failf(t, "value: %s\npayload: %s\nerror: %s\n%s", s, show(payload), showStanzaError(se), fmt.Sprintf(format, args...))
	}
	wrapped := func(hdr stz, inner []xml.Token) []string {
		outer := refStart(hdr).tokens()
		var all []xml.Token
		all = append(all, outer[0])
		all = append(all, inner...)
		all = append(all, outer[1])
		return normTokens(all)
	}
	var payloadToks []xml.Token
	if payload != nil {
		payloadToks = payload.tokens()
	}
	run := func(what string, f func() xml.TokenReader) []xml.Token {
		var toks []xml.Token
		var err error
		if p := ev.Guard(func() { toks, err = readAll(f()) }); p != "" {
			fail("%s: %s", what, p)
		}
		if err != nil {
			fail("%s: reading tokens: %v", what, err)
		}
		return toks
	}
	checkBytes := func(what string, toks []xml.Token, want *node) []byte {
		b, err := encodeTokens(toks)
		if err != nil {
			fail("%s: tokens %v do not encode: %v", what, normTokens(toks), err)
		}
		tree, err := parse(b)
		if err != nil {
			fail("%s: output %q is not well-formed: %v", what, b, err)
		}
		w := want.resolved("")
		if d := compareRoot(tree, w, false, false); d != "" {
			fail("%s: output %q: %s", what, b, d)
		}
		if len(tree.Kids) != len(w.Kids) {
			fail("%s: output %q has %d children, want %d (%s)", what, b, len(tree.Kids), len(w.Kids), w)
		}
		for i := range w.Kids {
			g, x := tree.Kids[i], w.Kids[i]
			if (g.El == nil) != (x.El == nil) || g.Text != x.Text {
				fail("%s: output %q child %d differs, want %s", what, b, i, w)
			}
			if g.El != nil {
				if g.El.Name != x.El.Name || !sameAttrs(g.El.Attr, x.El.Attr) || !sameStrings(g.El.kidSet(), x.El.kidSet()) {
					fail("%s: output %q child %d is %s, want %s", what, b, i, g.El, x.El)
				}
			}
		}
		return b
	}

	// Wrap: the stanza's own header around the unchanged payload.
	toks := run("Wrap(payload)", func() xml.TokenReader { return s.wrap(payload.reader()) })
	if got, want := normTokens(toks), wrapped(s, payloadToks); !sameStrings(got, want) {
		fail("Wrap(payload) tokens\n got  %v\n want %v", got, want)
	}
	wantTree := refStart(s)
	if payload != nil {
		wantTree.Kids = append(wantTree.Kids, kid{El: payload})
	}
	wb := checkBytes("Wrap(payload)", toks, wantTree)
	if s.kind == "iq" && s.typ != string(stanza.ErrorIQ) {
		// UnmarshalIQError on anything but an error IQ: the header, no error.
		start, dec, err := firstStart(wb)
		if err != nil {
			fail("Wrap(payload) output %q: %v", wb, err)
		}
		var iq stanza.IQ
		if p := ev.Guard(func() { iq, err = stanza.UnmarshalIQError(dec, start) }); p != "" {
			fail("UnmarshalIQError on %q: %s", wb, p)
		}
		if err != nil {
			fail("UnmarshalIQError on %q (type %q): unexpected error %v", wb, s.typ, err)
		}
		hdr := fromIQ(iq)
		hdr.kind = "iq"
		if d := diffStz(hdr, s, false); d != "" {
			fail("UnmarshalIQError on %q = %s: %s", wb, hdr, d)
		}
	}

	// Result: type result, addresses swapped, everything else kept.
	if s.kind == "iq" {
		r := s
		r.typ = string(stanza.ResultIQ)
		r.to, r.from = s.from, s.to
		toks := run("Result(payload)", func() xml.TokenReader { return s.iq().Result(payload.reader()) })
		if got, want := normTokens(toks), wrapped(r, payloadToks); !sameStrings(got, want) {
			fail("Result(payload) tokens\n got  %v\n want %v (type result, to=%q from=%q)", got, want, r.to.String(), r.from.String())
		}
		wantTree := refStart(r)
		if payload != nil {
			wantTree.Kids = append(wantTree.Kids, kid{El: payload})
		}
		checkBytes("Result(payload)", toks, wantTree)
	}

	// Error: type error, addresses swapped, the error's own encoding inside.
	r := s
	r.typ = "error"
	r.to, r.from = s.from, s.to
	errToks := run("Error.TokenReader()", func() xml.TokenReader { return se.TokenReader() })
	toks = run("Error(err)", func() xml.TokenReader { return s.errorReply(se) })
	if got, want := normTokens(toks), wrapped(r, errToks); !sameStrings(got, want) {
		fail("Error(err) tokens\n got  %v\n want %v (type error, to=%q from=%q, err.TokenReader() inside)", got, want, r.to.String(), r.from.String())
	}
	wantTree = refStart(r)
	wantTree.Kids = append(wantTree.Kids, kid{El: refStanzaError(se, nil)})
	b := checkBytes("Error(err)", toks, wantTree)

	// ... and it parses back: header through NewX / UnmarshalIQError, error
	// through UnmarshalError, from the token stream and from the bytes.
	var got stanza.Error
	var err error
	if len(toks) > 0 {
		if p := ev.Guard(func() { got, err = stanza.UnmarshalError(&sliceReader{toks: toks[1:]}) }); p != "" {
			fail("UnmarshalError on the tokens of Error(err): %s", p)
		}
		if err != nil {
			fail("UnmarshalError on the tokens of Error(err) %v: %v", normTokens(toks), err)
		}
		if d := diffStanzaError(got, se); d != "" {
			fail("UnmarshalError on the tokens of Error(err) = %s: %s", showStanzaError(got), d)
		}
	}
	if len(toks) > 0 && s.kind == "iq" {
		st0, _ := toks[0].(xml.StartElement)
		// the reply read straight from its tokens (no serialisation in between)
		var iq stanza.IQ
		var e error
		if p := ev.Guard(func() { iq, e = stanza.UnmarshalIQError(&sliceReader{toks: toks[1:]}, st0.Copy()) }); p != "" {
			fail("UnmarshalIQError on the tokens of Error(err): %s", p)
		}
		ge, ok := e.(stanza.Error)
		if !ok {
			fail("UnmarshalIQError on the tokens of Error(err) %v returned error %T %v, want the stanza.Error", normTokens(toks), e, e)
		}
		if d := diffStanzaError(ge, se); d != "" {
			fail("UnmarshalIQError on the tokens of Error(err) = %s: %s", showStanzaError(ge), d)
		}
		th := fromIQ(iq)
		th.kind = s.kind
		if d := diffStz(th, r, true); d != "" {
			fail("header of Error(err) read from its tokens parses to %s: %s", th, d)
		}
	}
	start, dec, err := firstStart(b)
	if err != nil {
		fail("Error(err) output %q: %v", b, err)
	}
	var hdr stz
	if s.kind == "iq" {
		var iq stanza.IQ
		var e error
		if p := ev.Guard(func() { iq, e = stanza.UnmarshalIQError(dec, start) }); p != "" {
			fail("UnmarshalIQError on %q: %s", b, p)
		}
		ge, ok := e.(stanza.Error)
		if !ok {
			fail("UnmarshalIQError on %q returned error %T %v, want a stanza.Error", b, e, e)
		}
		hdr, got = fromIQ(iq), ge
	} else {
		var e error
		if p := ev.Guard(func() { hdr, e = newStz(s.kind, start) }); p != "" || e != nil {
			fail("New%s on start of %q: %s %v", s.kind, b, p, e)
		}
		if p := ev.Guard(func() { got, e = stanza.UnmarshalError(dec) }); p != "" {
			fail("UnmarshalError on %q: %s", b, p)
		}
		if e != nil {
			fail("UnmarshalError on %q: %v", b, e)
		}
	}
	hdr.kind = s.kind
	if d := diffStz(hdr, r, false); d != "" {
		fail("header of Error(err) output %q parses to %s: %s", b, hdr, d)
	}
	if d := diffStanzaError(got, se); d != "" {
		fail("error in Error(err) output %q parses to %s: %s", b, showStanzaError(got), d)
	}
}

func TestC13Helpers(t *testing.T) {
	ev.Check(t, 5000, 30000, func(rt *rapid.T) {
		s := genStz(rt, false)
		payload := genMaybePayload(rt, "payload")
		se := genStanzaError(rt, false)
		cl := append(stzClasses(s), "helpers")
		if payload != nil {
			cl = append(cl, "payload")
		}
		if !s.to.Equal(s.from) {
			cl = append(cl, "to-differs-from-from")
		}
		ev.Case(stzSpecial(s) || errSpecial(se), fmt.Sprintf("helpers|%s|%s|%s", s, show(payload), showStanzaError(se)), cl...)
		checkHelpers(rt, s, payload, se)
	})
}

// ---------------------------------------------------------------- C: StartElement / NewX

func checkStartElement(t fataler, s stz, perm []int) {
	t.Helper()
	fail := func(format string, args ...any) {
		t.Helper()
		ev.Failf(t, "value: %s perm=%v\n%s", s, perm, fmt.Sprintf(format, args...))
	}
	ref := refStart(s)

	// value -> start -> value
	var st xml.StartElement
	if p := ev.Guard(func() { st = s.start() }); p != "" {
		fail("StartElement: %s", p)
	}
	am, dup := attrMap(st.Attr)
	if dup != "" {
		fail("StartElement() = %v: %s", st, dup)
	}
	if st.Name != ref.Name || !sameAttrs(am, ref.Attr) {
		fail("StartElement() = %v, want %s", st, ref)
	}
	var back stz
	var err error
	if p := ev.Guard(func() { back, err = newStz(s.kind, st) }); p != "" {
		fail("New%s(v.StartElement()): %s", s.kind, p)
	}
	if err != nil {
		fail("New%s(v.StartElement()=%v): %v", s.kind, st, err)
	}
	back.kind = s.kind
	if d := diffStz(back, s, false); d != "" {
		fail("New%s(v.StartElement()=%v) = %s: %s", s.kind, st, back, d)
	}

	// canonical start -> value -> start
	canon := ref.tokens()[0].(xml.StartElement)
	// perm is a permutation of 0..4: the order in which the attributes appear
	seen := map[xml.Name]bool{}
	var attrs []xml.Attr
	for _, i := range perm {
		if i < len(canon.Attr) && !seen[canon.Attr[i].Name] {
			seen[canon.Attr[i].Name] = true
			attrs = append(attrs, canon.Attr[i])
		}
	}
	canon.Attr = attrs
	var v stz
	if p := ev.Guard(func() { v, err = newStz(s.kind, canon.Copy()) }); p != "" {
		fail("New%s(%v): %s", s.kind, canon, p)
	}
	if err != nil {
		fail("New%s(%v): %v", s.kind, canon, err)
	}
	var st2 xml.StartElement
	if p := ev.Guard(func() { st2 = v.start() }); p != "" {
		fail("New%s(%v).StartElement(): %s", s.kind, canon, p)
	}
	am2, dup := attrMap(st2.Attr)
	if dup != "" {
		fail("New%s(%v).StartElement() = %v: %s", s.kind, canon, st2, dup)
	}
	if st2.Name != canon.Name || !sameAttrs(am2, ref.Attr) {
		fail("New%s(start).StartElement() = %v, start = %v", s.kind, st2, canon)
	}
}

func TestC13StartElement(t *testing.T) {
	ev.Check(t, 6000, 30000, func(rt *rapid.T) {
		invalid := rapid.IntRange(0, 7).Draw(rt, "invalid") == 0
		s := genStz(rt, invalid)
		perm := rapid.Permutation([]int{0, 1, 2, 3, 4}).Draw(rt, "attr-order")
		cl := append(stzClasses(s), "start-element")
		ev.Case(stzSpecial(s), fmt.Sprintf("start|%s|%v", s, perm), cl...)
		checkStartElement(rt, s, perm)
	})
}

// ---------------------------------------------------------------- D: stanza errors

type encErr struct {
	name string
	b    []byte
}

func checkStanzaError(t fataler, se stanza.Error, payload *node, invalid bool, marshalPkg bool) {
	t.Helper()
	fail := func(format string, args ...any) {
		t.Helper()
		ev.Failf(t, "value: %s (invalid-xml-chars=%v)\npayload: %s\n%s", showStanzaError(se), invalid, show(payload), fmt.Sprintf(format, args...))
	}
	var outs []encErr
	add := func(name string, f func() ([]byte, error)) {
		var b []byte
		var err error
		if p := ev.Guard(func() { b, err = f() }); p != "" {
			fail("%s: %s", name, p)
		}
		if err != nil {
			fail("%s: %v (output so far %q)", name, err, b)
		}
		outs = append(outs, encErr{name, b})
	}
	if marshalPkg {
		add("marshal.TokenReader", func() ([]byte, error) { return viaMarshalTokenReader(se) })
		add("marshal.EncodeXML", func() ([]byte, error) { return viaEncodeXML(se) })
		add("xml.Marshal", func() ([]byte, error) { return xml.Marshal(se) })
	} else {
		add("TokenReader", func() ([]byte, error) { return viaCopy(se.TokenReader()) })
		add("xml.Marshal", func() ([]byte, error) { return xml.Marshal(se) })
		add("xml.Marshal(pointer)", func() ([]byte, error) { return xml.Marshal(&se) })
		add("WriteXML", func() ([]byte, error) {
			var b bytes.Buffer
			e := xml.NewEncoder(&b)
			if _, err := se.WriteXML(e); err != nil {
				return b.Bytes(), err
			}
			err := e.Flush()
			return b.Bytes(), err
		})
		add("Wrap(payload)", func() ([]byte, error) { return viaCopy(se.Wrap(payload.reader())) })
		// the reader is the encoding of the value it was obtained from: what the
		// application does with the map behind Text afterwards (a handler that
		// prepares a batch of replies re-using one map) does not change it
		add("TokenReader, the Text map rewritten before the reader is consumed", func() ([]byte, error) {
			se2 := se
			if se.Text != nil {
				se2.Text = make(map[string]string, len(se.Text))
				for k, v := range se.Text {
					se2.Text[k] = v
				}
			}
			r := se2.TokenReader()
			first := true
			for k := range se2.Text {
				if first {
					delete(se2.Text, k)
					first = false
					continue
				}
				se2.Text[k] = "rewritten afterwards"
			}
			if se2.Text != nil {
				se2.Text["zz"] = "added afterwards"
			}
			return viaCopy(r)
		})
	}
	var decoded []stanza.Error
	for _, o := range outs {
		tree, err := parse(o.b)
		if err != nil {
			fail("%s output is not well-formed: %v\noutput: %q", o.name, err, o.b)
		}
		if !invalid {
			var p *node
			if o.name == "Wrap(payload)" {
				p = payload
			}
			want := refStanzaError(se, p).resolved("")
			if d := compareRoot(tree, want, false, false); d != "" {
				fail("%s output %q: %s", o.name, o.b, d)
			}
			if got, w := tree.kidSet(), want.kidSet(); !sameStrings(got, w) {
				fail("%s output %q has children\n got  %v\n want %v", o.name, o.b, got, w)
			}
		}
		var got stanza.Error
		if p := ev.Guard(func() { err = xml.Unmarshal(o.b, &got) }); p != "" {
			fail("xml.Unmarshal of %s output %q: %s", o.name, o.b, p)
		}
		if err != nil {
			fail("xml.Unmarshal of %s output %q: %v", o.name, o.b, err)
		}
		if !invalid {
			if d := diffStanzaError(got, se); d != "" {
				fail("%s output %q decodes to %s: %s", o.name, o.b, showStanzaError(got), d)
			}
		}
		decoded = append(decoded, got)
	}
	for i := 1; i < len(decoded); i++ {
		if d := diffStanzaError(decoded[i], decoded[0]); d != "" {
			fail("%s output %q and %s output %q decode differently: %s vs %s (%s)", outs[0].name, outs[0].b, outs[i].name, outs[i].b,
				showStanzaError(decoded[0]), showStanzaError(decoded[i]), d)
		}
	}
	if marshalPkg || invalid {
		// (unserialised tokens carry characters XML cannot: nothing to compare)
		return
	}
	// decoding straight from the token reader (no serialisation in between)
	var got stanza.Error
	var err error
	if p := ev.Guard(func() { err = xml.NewTokenDecoder(se.Wrap(payload.reader())).Decode(&got) }); p != "" {
		fail("decoding from Wrap(payload) tokens: %s", p)
	}
	if err != nil {
		fail("decoding from Wrap(payload) tokens: %v", err)
	}
	if d := diffStanzaError(got, decoded[0]); d != "" {
		fail("decoding from Wrap(payload) tokens = %s, from %s output = %s (%s)", showStanzaError(got), outs[0].name, showStanzaError(decoded[0]), d)
	}
}

func TestC13StanzaError(t *testing.T) {
	ev.Check(t, 6000, 40000, func(rt *rapid.T) {
		invalid := rapid.IntRange(0, 7).Draw(rt, "invalid") == 0
		se := genStanzaError(rt, invalid)
		payload := genMaybePayload(rt, "app")
		cl := []string{"stanza-error"}
		if payload != nil {
			cl = append(cl, "payload")
		}
		if se.Condition == "" {
			cl = append(cl, "condition-empty")
		}
		if !se.By.Equal(jid.JID{}) {
			cl = append(cl, "by-set")
		}
		n, empties := 0, 0
		for _, v := range se.Text {
			if v == "" {
				empties++
			} else {
				n++
			}
		}
		cl = append(cl, fmt.Sprintf("texts-%d", n))
		if empties > 0 {
			cl = append(cl, "empty-text-entry")
		}
		if invalid {
			cl = append(cl, "invalid-xml-chars")
		}
		ev.Case(errSpecial(se), fmt.Sprintf("stanza-error|%s|%s|%v", showStanzaError(se), show(payload), invalid), cl...)
		checkStanzaError(rt, se, payload, invalid, false)
	})
}

// ---------------------------------------------------------------- E: stream errors

func checkStreamError(t fataler, e stream.Error, payload *node, invalid bool, marshalPkg bool) {
	t.Helper()
	fail := func(format string, args ...any) {
		t.Helper()
		ev.Failf(t, "value: %s (invalid-xml-chars=%v)\napplication payload: %s\n%s", showStreamError(e), invalid, show(payload), fmt.Sprintf(format, args...))
	}
	// The application payload is a one-shot reader: a fresh value per path.
	val := func() stream.Error {
		if payload == nil {
			return e
		}
		return e.ApplicationError(payload.reader())
	}
	var outs []encErr
	add := func(name string, f func() ([]byte, error)) {
		var b []byte
		var err error
		if p := ev.Guard(func() { b, err = f() }); p != "" {
			fail("%s: %s", name, p)
		}
		if err != nil {
			fail("%s: %v (output so far %q)", name, err, b)
		}
		outs = append(outs, encErr{name, b})
	}
	if marshalPkg {
		add("marshal.TokenReader", func() ([]byte, error) { return viaMarshalTokenReader(val()) })
		add("marshal.EncodeXML", func() ([]byte, error) { return viaEncodeXML(val()) })
		add("xml.Marshal", func() ([]byte, error) { return xml.Marshal(val()) })
	} else {
		add("TokenReader", func() ([]byte, error) { return viaCopy(val().TokenReader()) })
		add("xml.Marshal", func() ([]byte, error) { return xml.Marshal(val()) })
		add("xml.Marshal(pointer)", func() ([]byte, error) { v := val(); return xml.Marshal(&v) })
		add("WriteXML", func() ([]byte, error) {
			var b bytes.Buffer
			enc := xml.NewEncoder(&b)
			if _, err := val().WriteXML(enc); err != nil {
				return b.Bytes(), err
			}
			err := enc.Flush()
			return b.Bytes(), err
		})
	}
	var decoded []stream.Error
	for _, o := range outs {
		tree, err := parse(o.b)
		if err != nil {
			fail("%s output is not well-formed: %v\noutput: %q", o.name, err, o.b)
		}
		if !invalid {
			want := refStreamError(e, payload).resolved("")
			if d := compareRoot(tree, want, false, false); d != "" {
				fail("%s output %q: %s", o.name, o.b, d)
			}
			if got, w := tree.kidSet(), want.kidSet(); !sameStrings(got, w) {
				fail("%s output %q has children\n got  %v\n want %v", o.name, o.b, got, w)
			}
		}
		var got stream.Error
		if p := ev.Guard(func() { err = xml.Unmarshal(o.b, &got) }); p != "" {
			fail("xml.Unmarshal of %s output %q: %s", o.name, o.b, p)
		}
		if err != nil {
			fail("xml.Unmarshal of %s output %q: %v", o.name, o.b, err)
		}
		if !invalid {
			if d := diffStreamError(got, e); d != "" {
				fail("%s output %q decodes to %s: %s", o.name, o.b, showStreamError(got), d)
			}
		}
		decoded = append(decoded, got)
	}
	for i := 1; i < len(decoded); i++ {
		if d := diffStreamError(decoded[i], decoded[0]); d != "" {
			fail("%s output %q and %s output %q decode differently: %s vs %s (%s)", outs[0].name, outs[0].b, outs[i].name, outs[i].b,
				showStreamError(decoded[0]), showStreamError(decoded[i]), d)
		}
	}
	if marshalPkg || invalid {
		return
	}
	// decoding straight from the token reader (no serialisation in between)
	var got stream.Error
	var err error
	if p := ev.Guard(func() { err = xml.NewTokenDecoder(val().TokenReader()).Decode(&got) }); p != "" {
		fail("decoding from TokenReader() tokens: %s", p)
	}
	if err != nil {
		fail("decoding from TokenReader() tokens: %v", err)
	}
	if d := diffStreamError(got, decoded[0]); d != "" {
		fail("decoding from TokenReader() tokens = %s, from %s output = %s (%s)", showStreamError(got), outs[0].name, showStreamError(decoded[0]), d)
	}
}

func TestC13StreamError(t *testing.T) {
	ev.Check(t, 6000, 40000, func(rt *rapid.T) {
		invalid := rapid.IntRange(0, 7).Draw(rt, "invalid") == 0
		e := genStreamError(rt, invalid)
		payload := genMaybePayload(rt, "app")
		cl := []string{"stream-error", fmt.Sprintf("stream-texts-%d", len(e.Text))}
		if payload != nil {
			cl = append(cl, "payload")
		}
		if e.Content != "" {
			cl = append(cl, "see-other-host-content")
		}
		if invalid {
			cl = append(cl, "invalid-xml-chars")
		}
		ev.Case(streamSpecial(e), fmt.Sprintf("stream-error|%s|%s|%v", showStreamError(e), show(payload), invalid), cl...)
		checkStreamError(rt, e, payload, invalid, false)
	})
}

// TestC13Predefined runs every predefined stream error, stanza error
// condition and stanza type once with and once without decorations (complete
// enumeration of the constants).
func TestC13Predefined(t *testing.T) {
	ev.Begin(t)
	texts := []langText{{"", "plain"}, {"en", "a<b & \"c\" 'd' \r\n\t \u65e5\u672c"}}
	for _, base := range streamErrors {
		for _, deco := range []bool{false, true} {
			e := stream.Error{Err: base.Err}
			if deco {
				e.Text = texts
				if e.Err == "see-other-host" {
					e.Content = "[2001:db8::1]:5222"
				}
			}
			ev.Case(deco, "predefined|"+showStreamError(e), "predefined-stream-error")
			checkStreamError(t, e, nil, false, false)
		}
	}
	for _, c := range conditions {
		for _, et := range errorTypes {
			se := stanza.Error{Type: et, Condition: c, Text: map[string]string{"": "x", "de": "\u00fc<&>"}}
			ev.Case(true, "predefined|"+showStanzaError(se), "predefined-stanza-error")
			checkStanzaError(t, se, nil, false, false)
		}
	}
	to, from := jid.MustParse("to@example.net/r'\"<"), jid.MustParse("from@example.org")
	for _, k := range kinds {
		for _, ty := range typesOf(k) {
			for _, sp := range spaces {
				s := stz{kind: k, space: sp, local: k, typ: ty, id: "id&1", lang: "en", to: to, from: from}
				ev.Case(true, "predefined|"+s.String(), "predefined-stanza-type")
				checkStanza(t, s, false)
				checkStartElement(t, s, []int{4, 3, 2, 1, 0})
				checkHelpers(t, s, el("urn:x", "ping"), stanza.Error{Type: stanza.Cancel, Condition: stanza.ServiceUnavailable})
			}
		}
	}
}

// ---------------------------------------------------------------- regressions

// TestC13Regress replays the concrete inputs of every finding made with this
// check (and a few hand-picked neighbours).  Each runs as its own subtest so
// that one failing witness does not hide the others.
func TestC13Regress(t *testing.T) {
	sub := func(name string, f func(t *testing.T)) {
		t.Run(name, func(st *testing.T) {
			ev.Begin(st)
			f(st)
		})
	}
	app := el("urn:x", "app")

	// finding 1: stream error carrying an application payload could not be decoded
	sub("stream-error-application-payload", func(t *testing.T) {
		e := stream.Error{Err: "undefined-condition", Text: []langText{{"en", "x"}}}
		ev.Case(true, "regress|"+showStreamError(e)+"|app", "regress")
		checkStreamError(t, e, app, false, false)
	})
	sub("stream-error-application-payload-nested", func(t *testing.T) {
		e := stream.Error{Err: "see-other-host", Content: "example.org:5222", Text: []langText{{"", "a"}, {"de", "b"}}}
		p := el("urn:y:2", "a", kid{El: el("urn:x", "b", kid{Text: "t"})}, kid{Text: "u"})
		ev.Case(true, "regress|"+showStreamError(e)+"|nested", "regress")
		checkStreamError(t, e, p, false, false)
	})
	// finding 2: marshal.EncodeXML mangled xml:lang of a marshalled stanza
	for _, k := range kinds {
		k := k
		sub("encodexml-lang-"+k, func(t *testing.T) {
			s := stz{kind: k, local: k, typ: typesOf(k)[1], lang: "en", id: "1"}
			ev.Case(true, "regress|"+s.String(), "regress")
			checkMarshalPkgStanza(t, s, false)
		})
	}
	sub("encodexml-special-fields", func(t *testing.T) {
		for _, k := range kinds {
			s := stz{kind: k, space: stanza.NSServer, local: "x", typ: "error", id: "<&'\"\r\n\t>", lang: " \n", to: jid.MustParse("a@b/c'd\"<e f"), from: jid.MustParse("b")}
			ev.Case(true, "regress|marshalpkg|"+s.String(), "regress")
			checkMarshalPkgStanza(t, s, false)
			s = stz{kind: k, local: k, typ: "error", id: "a\x00b\xff", lang: "\ufffe"}
			checkMarshalPkgStanza(t, s, true)
		}
	})
	// finding class 3 (seeded): state shared between encodings
	sub("readers-prepared-before-writing", func(t *testing.T) { regressIndependence(t) })
	// neighbours
	sub("stanza-special-fields", func(t *testing.T) {
		for _, k := range kinds {
			s := stz{kind: k, space: stanza.NSServer, local: "x", typ: "error", id: "<&'\"\r\n\t>", lang: " \n", to: jid.MustParse("a@b/c'd\"<e f"), from: jid.MustParse("b")}
			ev.Case(true, "regress|"+s.String(), "regress")
			checkStanza(t, s, false)
			checkStartElement(t, s, []int{2, 0, 4, 1, 3})
			checkHelpers(t, s, app, stanza.Error{Type: stanza.Wait, Text: map[string]string{"": " ", "en": "]]>", "x": ""}})
		}
	})
	sub("stanza-error-texts", func(t *testing.T) {
		se := stanza.Error{Type: stanza.Modify, Condition: stanza.Gone, By: jid.MustParse("x@y/z z"), Text: map[string]string{"": " \n ", "en": "a<b", "de": "", "a\"b": "\r"}}
		ev.Case(true, "regress|"+showStanzaError(se), "regress")
		checkStanzaError(t, se, app, false, false)
		checkStanzaError(t, se, nil, false, true)
	})
	sub("invalid-characters-stay-well-formed", func(t *testing.T) {
		s := stz{kind: "message", local: "message", typ: "chat", id: "a\x00b\xff", lang: "\ufffe"}
		ev.Case(true, "regress|"+s.String(), "regress")
		checkStanza(t, s, true)
		se := stanza.Error{Type: stanza.Auth, Text: map[string]string{"\x01": "\x0b", "": "\xed\xa0\x80"}}
		checkStanzaError(t, se, nil, true, false)
		e := stream.Error{Err: "see-other-host", Content: "\x1f", Text: []langText{{"\uffff", "\x00"}}}
		checkStreamError(t, e, nil, true, false)
	})
}
