package c13

import (
	"encoding/xml"
	"fmt"
	"sort"
	"strings"
	"unicode/utf8"

	"pgregory.net/rapid"

	"mellium.im/xmpp/jid"
	"mellium.im/xmpp/stanza"
	"mellium.im/xmpp/stream"
	"mellium.im/xmpp/verifharness/internal/ev"
)

// ------------------------------------------------------------------ text

// Pieces made only of characters XML 1.0 can carry (Char production).
var validPieces = []string{
	"<", ">", "&", "'", `"`, "]]>", "&amp;", "&#x0;", "&lt;", "<!--", "-->", "<![CDATA[", "<?x?>", "</error>",
	" ", "  ", "\t", "\n", "\r", "\r\n", "\n\n  ", "\u00a0", "\u2028", "\u0085", "\x7f",
	"\u00e9", "\u00df", "\u0416", "\u65e5\u672c\u8a9e", "\U0001f600", "\ufffd", "\ue000", "\U0010ffff", "\ud7ff", "\U00010000",
	"a", "abc", "x y", "=", "/", ":", "%", "\\",
}

// Pieces XML 1.0 cannot carry: the encoder has to substitute them, the output
// must still be well-formed.
var invalidPieces = []string{"\x00", "\x01", "\x08", "\x0b", "\x0c", "\x1f", "\ufffe", "\uffff", "\xff", "\xc3", "\xed\xa0\x80", "\xf4\x90\x80\x80"}

func validXMLRune(r rune) bool {
	return r == 0x9 || r == 0xA || r == 0xD ||
		(r >= 0x20 && r <= 0xD7FF) || (r >= 0xE000 && r <= 0xFFFD) || (r >= 0x10000 && r <= 0x10FFFF)
}

func validXMLString(s string) bool {
	for i := 0; i < len(s); {
		r, w := utf8.DecodeRuneInString(s[i:])
		if r == utf8.RuneError && w == 1 {
			return false
		}
		if !validXMLRune(r) {
			return false
		}
		i += w
	}
	return true
}

func isSpecial(s string) bool {
	for _, r := range s {
		if strings.ContainsRune("<>&'\"\t\n\r", r) || r > 0x7e {
			return true
		}
	}
	return false
}

// genText draws a text value.  With invalid set it may contain characters
// outside the XML Char production (then only well-formedness and agreement of
// the encoding paths are checked, not equality with the original).
func genText(t *rapid.T, label string, invalid bool) string {
	n := rapid.IntRange(0, 5).Draw(t, label+"-pieces")
	var b strings.Builder
	for i := 0; i < n; i++ {
		k := rapid.IntRange(0, 9).Draw(t, label+"-kind")
		switch {
		case k <= 6:
			b.WriteString(rapid.SampledFrom(validPieces).Draw(t, label+"-piece"))
		case k <= 8:
			s := rapid.StringN(0, 4, -1).Draw(t, label+"-str")
			for _, r := range s {
				if validXMLRune(r) {
					b.WriteRune(r)
				} else if invalid {
					b.WriteRune(r)
				} else {
					b.WriteByte('x')
				}
			}
		default:
			if invalid {
				b.WriteString(rapid.SampledFrom(invalidPieces).Draw(t, label+"-bad"))
			} else {
				b.WriteString(rapid.SampledFrom(validPieces).Draw(t, label+"-piece"))
			}
		}
	}
	return b.String()
}

// genMaybeText is genText with a good share of empty and plain values.
func genMaybeText(t *rapid.T, label string, plain []string, invalid bool) string {
	switch rapid.IntRange(0, 4).Draw(t, label+"-mode") {
	case 0:
		return ""
	case 1:
		return rapid.SampledFrom(plain).Draw(t, label+"-plain")
	}
	return genText(t, label, invalid)
}

// ------------------------------------------------------------------ JIDs

var (
	localRunes    = []rune("abcxyzABC019.-_~!$%^*()+={}|\u00e9\u00df\u0436\u03bb\u65e5")
	resourceRunes = []rune("abcxyzABC019 .-_'\"<>&/@:;=\\\u00e9\u00df\u0436\u65e5\u672c\U0001f600")
	domains       = []string{"example.net", "b", "xn--bcher-kva.example", "b\u00fccher.example", "\u4f8b\u3048.jp", "192.0.2.1", "[::1]", "a.b.c.example.org", "EXAMPLE.com"}
	fallbackJID   = jid.MustParse("fallback@example.net/r")
)

func genJID(t *rapid.T, label string) jid.JID {
	switch rapid.IntRange(0, 5).Draw(t, label+"-mode") {
	case 0, 1:
		return jid.JID{}
	}
	local := rapid.StringOfN(rapid.SampledFrom(localRunes), 0, 6, -1).Draw(t, label+"-local")
	domain := rapid.SampledFrom(domains).Draw(t, label+"-domain")
	res := rapid.StringOfN(rapid.SampledFrom(resourceRunes), 0, 8, -1).Draw(t, label+"-res")
	if rapid.IntRange(0, 19).Draw(t, label+"-long") == 0 {
		// an address at (or just below) the size limit of its parts: 1023 bytes
		// each, 3071 in all with the separators
		cut := func(n int) int { return 1023 - rapid.SampledFrom([]int{0, 0, 1, 2, 500}).Draw(t, label+"-short") + 0*n }
		local = strings.Repeat("l", cut(0))
		res = strings.Repeat("r", cut(1))
		if rapid.Bool().Draw(t, label+"-longdomain") {
			// labels of at most 63 bytes up to the wanted size
			total := cut(2)
			var sb strings.Builder
			for sb.Len() < total {
				n := total - sb.Len()
				if sb.Len() > 0 {
					sb.WriteByte('.')
					n--
				}
				if n > 63 {
					n = 63
				}
				if n == 0 {
					n = 1
				}
				sb.WriteString(strings.Repeat("d", n))
			}
			domain = sb.String()
			if len(domain) > 1023 {
				domain = domain[:1023]
			}
		}
	}
	var j jid.JID
	var err error
	if p := guard(func() { j, err = jid.New(local, domain, res) }); p != "" || err != nil {
		ev.Class("jid-candidate-rejected-fallback-used")
		return fallbackJID
	}
	// Only addresses that survive their own string form are used as originals
	// (the wire carries the string form).
	// (the wire carries the string form: an address that does not survive its
	// own string form cannot come back equivalent in any stanza.  No such address
	// exists on a tree where the addresses are canonical; the generator does not
	// hide one behind a fallback.)
	if back, err := jid.Parse(j.String()); err != nil || !back.Equal(j) {
		ev.Failf(t, "the address built from the parts (%q, %q, %q) has the string form %q, which parses to %v (error %v): a stanza carrying it in to/from/by cannot decode to an equivalent value", local, domain, res, j.String(), back, err)
	}
	return j
}

func guard(f func()) (p string) {
	defer func() {
		if r := recover(); r != nil {
			p = fmt.Sprint(r)
		}
	}()
	f()
	return ""
}

// ------------------------------------------------------------------ stanzas

var (
	kinds         = []string{"iq", "message", "presence"}
	spaces        = []string{"", stanza.NSClient, stanza.NSServer}
	iqTypes       = []string{string(stanza.GetIQ), string(stanza.SetIQ), string(stanza.ResultIQ), string(stanza.ErrorIQ)}
	messageTypes  = []string{string(stanza.NormalMessage), string(stanza.ChatMessage), string(stanza.ErrorMessage), string(stanza.GroupChatMessage), string(stanza.HeadlineMessage)}
	presenceTypes = []string{string(stanza.AvailablePresence), string(stanza.ErrorPresence), string(stanza.ProbePresence), string(stanza.SubscribePresence), string(stanza.SubscribedPresence), string(stanza.UnavailablePresence), string(stanza.UnsubscribePresence), string(stanza.UnsubscribedPresence)}
	plainIDs      = []string{"a", "abc123", "0", "id-1", "9f0c4e7a"}
	plainLangs    = []string{"en", "de-CH", "x-klingon", "zh-Hant"}
)

func typesOf(kind string) []string {
	switch kind {
	case "iq":
		return iqTypes
	case "message":
		return messageTypes
	}
	return presenceTypes
}

// stz is the harness's own, kind-independent model of a stanza header.
type stz struct {
	kind         string
	space, local string // XMLName as given
	id, lang     string
	typ          string
	to, from     jid.JID
}

func (s stz) String() string {
	return fmt.Sprintf("%s{XMLName:{%q %q} id=%q to=%q from=%q lang=%q type=%q}", s.kind, s.space, s.local, s.id, s.to.String(), s.from.String(), s.lang, s.typ)
}

func (s stz) name() xml.Name { return xml.Name{Space: s.space, Local: s.local} }

func (s stz) iq() stanza.IQ {
	return stanza.IQ{XMLName: s.name(), ID: s.id, To: s.to, From: s.from, Lang: s.lang, Type: stanza.IQType(s.typ)}
}
func (s stz) message() stanza.Message {
	return stanza.Message{XMLName: s.name(), ID: s.id, To: s.to, From: s.from, Lang: s.lang, Type: stanza.MessageType(s.typ)}
}
func (s stz) presence() stanza.Presence {
	return stanza.Presence{XMLName: s.name(), ID: s.id, To: s.to, From: s.from, Lang: s.lang, Type: stanza.PresenceType(s.typ)}
}

func (s stz) value() interface{} {
	switch s.kind {
	case "iq":
		return s.iq()
	case "message":
		return s.message()
	}
	return s.presence()
}

func (s stz) start() xml.StartElement {
	switch s.kind {
	case "iq":
		return s.iq().StartElement()
	case "message":
		return s.message().StartElement()
	}
	return s.presence().StartElement()
}

func (s stz) wrap(p xml.TokenReader) xml.TokenReader {
	switch s.kind {
	case "iq":
		return s.iq().Wrap(p)
	case "message":
		return s.message().Wrap(p)
	}
	return s.presence().Wrap(p)
}

func (s stz) errorReply(e stanza.Error) xml.TokenReader {
	switch s.kind {
	case "iq":
		return s.iq().Error(e)
	case "message":
		return s.message().Error(e)
	}
	return s.presence().Error(e)
}

func fromIQ(v stanza.IQ) stz {
	return stz{kind: "iq", space: v.XMLName.Space, local: v.XMLName.Local, id: v.ID, to: v.To, from: v.From, lang: v.Lang, typ: string(v.Type)}
}
func fromMessage(v stanza.Message) stz {
	return stz{kind: "message", space: v.XMLName.Space, local: v.XMLName.Local, id: v.ID, to: v.To, from: v.From, lang: v.Lang, typ: string(v.Type)}
}
func fromPresence(v stanza.Presence) stz {
	return stz{kind: "presence", space: v.XMLName.Space, local: v.XMLName.Local, id: v.ID, to: v.To, from: v.From, lang: v.Lang, typ: string(v.Type)}
}

// newStz is NewIQ/NewMessage/NewPresence.
func newStz(kind string, start xml.StartElement) (stz, error) {
	switch kind {
	case "iq":
		v, err := stanza.NewIQ(start)
		return fromIQ(v), err
	case "message":
		v, err := stanza.NewMessage(start)
		return fromMessage(v), err
	}
	v, err := stanza.NewPresence(start)
	return fromPresence(v), err
}

// unmarshalStz is xml.Unmarshal into the stanza struct.
func unmarshalStz(kind string, b []byte) (stz, error) {
	switch kind {
	case "iq":
		var v stanza.IQ
		err := xml.Unmarshal(b, &v)
		return fromIQ(v), err
	case "message":
		var v stanza.Message
		err := xml.Unmarshal(b, &v)
		return fromMessage(v), err
	}
	var v stanza.Presence
	err := xml.Unmarshal(b, &v)
	return fromPresence(v), err
}

func genStz(t *rapid.T, invalid bool) stz {
	s := stz{kind: rapid.SampledFrom(kinds).Draw(t, "kind")}
	s.space = rapid.SampledFrom(spaces).Draw(t, "space")
	switch rapid.IntRange(0, 3).Draw(t, "local") {
	case 0:
		s.local = ""
	case 1:
		s.local = "other"
	default:
		s.local = s.kind
	}
	s.typ = rapid.SampledFrom(typesOf(s.kind)).Draw(t, "type")
	s.id = genMaybeText(t, "id", plainIDs, invalid)
	s.lang = genMaybeText(t, "lang", plainLangs, invalid)
	s.to = genJID(t, "to")
	s.from = genJID(t, "from")
	return s
}

// diffStz compares a decoded stanza header with the expected one under the
// documented normalisations: the local name is always the kind's; addresses
// are compared with Equal; when spaceOptional is set the namespace may be
// absent (the struct tags carry no namespace: a marshalled stanza takes the
// namespace of the stream it is written to).
func diffStz(got, want stz, spaceOptional bool) string {
	var d []string
	if got.local != want.kind {
		d = append(d, fmt.Sprintf("XMLName.Local=%q want %q", got.local, want.kind))
	}
	if got.space != want.space && !(spaceOptional && got.space == "") {
		d = append(d, fmt.Sprintf("XMLName.Space=%q want %q", got.space, want.space))
	}
	if got.id != want.id {
		d = append(d, fmt.Sprintf("ID=%q want %q", got.id, want.id))
	}
	if got.lang != want.lang {
		d = append(d, fmt.Sprintf("Lang=%q want %q", got.lang, want.lang))
	}
	if got.typ != want.typ {
		d = append(d, fmt.Sprintf("Type=%q want %q", got.typ, want.typ))
	}
	if !got.to.Equal(want.to) {
		d = append(d, fmt.Sprintf("To=%q want %q", got.to.String(), want.to.String()))
	}
	if !got.from.Equal(want.from) {
		d = append(d, fmt.Sprintf("From=%q want %q", got.from.String(), want.from.String()))
	}
	return strings.Join(d, "; ")
}

// refStart is the reference for the start element of a stanza header: the
// kind's local name in the value's namespace; type always for iq and message,
// for presence only when not "available"; to/from/id/xml:lang exactly when not
// empty.
func refStart(s stz) *node {
	n := el(s.space, s.kind)
	if s.kind != "presence" || s.typ != "" {
		n.with("", "type", s.typ)
	}
	if !s.to.Equal(jid.JID{}) {
		n.with("", "to", s.to.String())
	}
	if !s.from.Equal(jid.JID{}) {
		n.with("", "from", s.from.String())
	}
	if s.id != "" {
		n.with("", "id", s.id)
	}
	if s.lang != "" {
		n.with(xmlURL, "lang", s.lang)
	}
	return n
}

// dropEmpty removes empty id/to/from attributes (the standard marshaller
// writes them for empty fields; they decode to the empty value).
func dropEmpty(a map[xml.Name]string) map[xml.Name]string {
	out := map[xml.Name]string{}
	for k, v := range a {
		if v == "" && k.Space == "" && (k.Local == "id" || k.Local == "to" || k.Local == "from") {
			continue
		}
		out[k] = v
	}
	return out
}

func attrMap(attrs []xml.Attr) (map[xml.Name]string, string) {
	m := map[xml.Name]string{}
	for _, a := range attrs {
		if _, dup := m[a.Name]; dup {
			return m, fmt.Sprintf("duplicate attribute {%s}%s", a.Name.Space, a.Name.Local)
		}
		m[a.Name] = a.Value
	}
	return m, ""
}

// ------------------------------------------------------------------ payloads

var (
	payloadSpaces = []string{"urn:x", "urn:y:2", "jabber:iq:roster", "http://example.org/ns#frag"}
	payloadLocals = []string{"query", "a", "b", "ping", "x-y", "_z"}
	attrLocals    = []string{"k", "v", "id", "to", "type", "node"}
)

// genPayload draws one application element (every element carries its own
// namespace, so that serialisation cannot change the tree).
func genPayload(t *rapid.T, label string, depth int) *node {
	n := el(rapid.SampledFrom(payloadSpaces).Draw(t, label+"-ns"), rapid.SampledFrom(payloadLocals).Draw(t, label+"-name"))
	for i, na := 0, rapid.IntRange(0, 2).Draw(t, label+"-nattr"); i < na; i++ {
		if rapid.IntRange(0, 5).Draw(t, label+"-attrkind") == 0 {
			n.with(xmlURL, "lang", rapid.SampledFrom(plainLangs).Draw(t, label+"-alang"))
		} else {
			n.with("", rapid.SampledFrom(attrLocals).Draw(t, label+"-aname"), genText(t, label+"-aval", false))
		}
	}
	for i, nk := 0, rapid.IntRange(0, 2).Draw(t, label+"-nkids"); i < nk; i++ {
		if depth > 0 && rapid.Bool().Draw(t, label+"-kidkind") {
			n.Kids = append(n.Kids, kid{El: genPayload(t, label+"-kid", depth-1)})
		} else {
			n.addText(genText(t, label+"-text", false))
		}
	}
	return n
}

func genMaybePayload(t *rapid.T, label string) *node {
	if rapid.IntRange(0, 2).Draw(t, label+"-present") == 0 {
		return nil
	}
	p := genPayload(t, label, 2)
	if rapid.IntRange(0, 3).Draw(t, label+"-declared-form") == 0 {
		var mark func(n *node)
		mark = func(n *node) {
			n.Declared = true
			for _, k := range n.Kids {
				if k.El != nil {
					mark(k.El)
				}
			}
		}
		mark(p)
	}
	return p
}

// ------------------------------------------------------------------ stanza errors

var (
	errorTypes = []stanza.ErrorType{stanza.Cancel, stanza.Auth, stanza.Continue, stanza.Modify, stanza.Wait}
	conditions = []stanza.Condition{
		stanza.BadRequest, stanza.Conflict, stanza.FeatureNotImplemented, stanza.Forbidden, stanza.Gone,
		stanza.InternalServerError, stanza.ItemNotFound, stanza.JIDMalformed, stanza.NotAcceptable,
		stanza.NotAllowed, stanza.NotAuthorized, stanza.PolicyViolation, stanza.RecipientUnavailable,
		stanza.Redirect, stanza.RegistrationRequired, stanza.RemoteServerNotFound, stanza.RemoteServerTimeout,
		stanza.ResourceConstraint, stanza.ServiceUnavailable, stanza.SubscriptionRequired,
		stanza.UndefinedCondition, stanza.UnexpectedRequest,
	}
)

func genStanzaError(t *rapid.T, invalid bool) stanza.Error {
	se := stanza.Error{Type: rapid.SampledFrom(errorTypes).Draw(t, "etype")}
	if rapid.IntRange(0, 9).Draw(t, "econd-empty") == 0 {
		se.Condition = "" // documented to be sent as undefined-condition
	} else {
		se.Condition = rapid.SampledFrom(conditions).Draw(t, "econd")
	}
	switch rapid.IntRange(0, 3).Draw(t, "ename") {
	case 0:
		se.XMLName = xml.Name{Local: "error"}
	case 1:
		se.XMLName = xml.Name{Space: stanza.NSClient, Local: "error"}
	}
	se.By = genJID(t, "by")
	n := rapid.IntRange(0, 4).Draw(t, "ntexts")
	if n > 0 || rapid.Bool().Draw(t, "emptymap") {
		se.Text = map[string]string{}
	}
	for i := 0; i < n; i++ {
		lang := genMaybeText(t, "tlang", plainLangs, invalid)
		var val string
		if rapid.IntRange(0, 5).Draw(t, "tempty") == 0 {
			val = ""
		} else {
			val = genText(t, "tval", invalid)
		}
		se.Text[lang] = val
	}
	if rapid.IntRange(0, 29).Draw(t, "manytexts") == 0 {
		// translations into dozens of languages
		if se.Text == nil {
			se.Text = map[string]string{}
		}
		for i, m := 0, rapid.SampledFrom([]int{9, 17, 33, 65}).Draw(t, "nmanytexts"); i < m; i++ {
			se.Text[fmt.Sprintf("en-x-l%d", i)] = fmt.Sprintf("text %d", i)
		}
	}
	return se
}

func showStanzaError(se stanza.Error) string {
	langs := make([]string, 0, len(se.Text))
	for l := range se.Text {
		langs = append(langs, l)
	}
	sort.Strings(langs)
	var b strings.Builder
	fmt.Fprintf(&b, "stanza.Error{XMLName:{%q %q} Type:%q Condition:%q By:%q Text:", se.XMLName.Space, se.XMLName.Local, se.Type, se.Condition, se.By.String())
	if se.Text == nil {
		b.WriteString("nil")
	} else {
		b.WriteString("{")
		for _, l := range langs {
			fmt.Fprintf(&b, "%q:%q,", l, se.Text[l])
		}
		b.WriteString("}")
	}
	b.WriteString("}")
	return b.String()
}

// diffStanzaError compares under the documented normalisations: XMLName is not
// carried, an empty condition is sent as undefined-condition, empty text
// entries are not sent, a nil and an empty text map are the same.
func diffStanzaError(got, want stanza.Error) string {
	var d []string
	if got.Type != want.Type {
		d = append(d, fmt.Sprintf("Type=%q want %q", got.Type, want.Type))
	}
	wc := want.Condition
	if wc == "" {
		wc = stanza.UndefinedCondition
	}
	if got.Condition != wc {
		d = append(d, fmt.Sprintf("Condition=%q want %q", got.Condition, wc))
	}
	if !got.By.Equal(want.By) {
		d = append(d, fmt.Sprintf("By=%q want %q", got.By.String(), want.By.String()))
	}
	gt, wt := map[string]string{}, map[string]string{}
	for k, v := range got.Text {
		if v != "" {
			gt[k] = v
		}
	}
	for k, v := range want.Text {
		if v != "" {
			wt[k] = v
		}
	}
	for k, v := range wt {
		if g, ok := gt[k]; !ok {
			d = append(d, fmt.Sprintf("Text[%q] missing, want %q", k, v))
		} else if g != v {
			d = append(d, fmt.Sprintf("Text[%q]=%q want %q", k, g, v))
		}
	}
	for k, v := range gt {
		if _, ok := wt[k]; !ok {
			d = append(d, fmt.Sprintf("unexpected Text[%q]=%q", k, v))
		}
	}
	sort.Strings(d)
	return strings.Join(d, "; ")
}

// refStanzaError is the reference encoding of a stanza error (RFC 6120 §8.3.2):
// <error type by?> holding the condition element and the non-empty texts in the
// stanza error namespace, xml:lang on a text exactly when its key is not empty,
// then the application payload.
func refStanzaError(se stanza.Error, payload *node) *node {
	n := el("", "error").with("", "type", string(se.Type))
	if !se.By.Equal(jid.JID{}) {
		n.with("", "by", se.By.String())
	}
	c := se.Condition
	if c == "" {
		c = stanza.UndefinedCondition
	}
	n.Kids = append(n.Kids, kid{El: el(stanza.NSError, string(c))})
	for lang, val := range se.Text {
		if val == "" {
			continue
		}
		tx := el(stanza.NSError, "text")
		if lang != "" {
			tx.with(xmlURL, "lang", lang)
		}
		tx.addText(val)
		n.Kids = append(n.Kids, kid{El: tx})
	}
	if payload != nil {
		n.Kids = append(n.Kids, kid{El: payload})
	}
	return n
}

// ------------------------------------------------------------------ stream errors

type langText = struct {
	Lang  string
	Value string
}

var streamErrors = []stream.Error{
	stream.BadFormat, stream.BadNamespacePrefix, stream.Conflict, stream.ConnectionTimeout, stream.HostGone,
	stream.HostUnknown, stream.ImproperAddressing, stream.InternalServerError, stream.InvalidFrom,
	stream.InvalidNamespace, stream.InvalidXML, stream.NotAuthorized, stream.NotWellFormed,
	stream.PolicyViolation, stream.RemoteConnectionFailed, stream.Reset, stream.ResourceConstraint,
	stream.RestrictedXML, stream.SeeOtherHost, stream.SystemShutdown, stream.UndefinedCondition,
	stream.UnsupportedEncoding, stream.UnsupportedFeature, stream.UnsupportedStanzaType, stream.UnsupportedVersion,
}

var hosts = []string{"example.net:5222", "[2001:db8::1]:5269", "192.0.2.7:9999", "other.example", "a<b&c"}

// genStreamError draws a predefined stream error with texts; Content only for
// see-other-host (its documented use).
func genStreamError(t *rapid.T, invalid bool) stream.Error {
	base := rapid.SampledFrom(streamErrors).Draw(t, "serr")
	if rapid.IntRange(0, 3).Draw(t, "soh") == 0 {
		base = stream.SeeOtherHost
	}
	e := stream.Error{Err: base.Err}
	if e.Err == "see-other-host" {
		e.Content = genMaybeText(t, "content", hosts, invalid)
	}
	n := rapid.IntRange(0, 3).Draw(t, "nstexts")
	if n == 0 && rapid.Bool().Draw(t, "emptyslice") {
		e.Text = []langText{}
	}
	for i := 0; i < n; i++ {
		lt := langText{Lang: genMaybeText(t, "stlang", plainLangs, invalid)}
		if rapid.IntRange(0, 5).Draw(t, "stempty") != 0 {
			lt.Value = genText(t, "stval", invalid)
		}
		e.Text = append(e.Text, lt)
	}
	if rapid.IntRange(0, 29).Draw(t, "manystexts") == 0 {
		for i, m := 0, rapid.SampledFrom([]int{9, 17, 33, 65}).Draw(t, "nmanystexts"); i < m; i++ {
			e.Text = append(e.Text, langText{Lang: fmt.Sprintf("en-x-l%d", i), Value: fmt.Sprintf("text %d", i)})
		}
	}
	return e
}

func showStreamError(e stream.Error) string {
	return fmt.Sprintf("stream.Error{Err:%q Content:%q Text:%q}", e.Err, e.Content, e.Text)
}

func diffStreamError(got, want stream.Error) string {
	var d []string
	if got.Err != want.Err {
		d = append(d, fmt.Sprintf("Err=%q want %q", got.Err, want.Err))
	}
	if got.Content != want.Content {
		d = append(d, fmt.Sprintf("Content=%q want %q", got.Content, want.Content))
	}
	if len(got.Text) != len(want.Text) {
		d = append(d, fmt.Sprintf("%d texts %q want %d %q", len(got.Text), got.Text, len(want.Text), want.Text))
	} else {
		for i := range want.Text {
			if got.Text[i] != want.Text[i] {
				d = append(d, fmt.Sprintf("Text[%d]=%q want %q", i, got.Text[i], want.Text[i]))
			}
		}
	}
	return strings.Join(d, "; ")
}

// refStreamError is the reference encoding (RFC 6120 §4.9.2).
func refStreamError(e stream.Error, payload *node) *node {
	n := el(stream.NS, "error")
	c := el(stream.NSError, e.Err)
	c.addText(e.Content)
	n.Kids = append(n.Kids, kid{El: c})
	for _, lt := range e.Text {
		tx := el(stream.NSError, "text")
		if lt.Lang != "" {
			tx.with(xmlURL, "lang", lt.Lang)
		}
		tx.addText(lt.Value)
		n.Kids = append(n.Kids, kid{El: tx})
	}
	if payload != nil {
		n.Kids = append(n.Kids, kid{El: payload})
	}
	return n
}
