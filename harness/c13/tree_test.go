package c13

// Independent view of XML produced by the library: a small namespace-aware
// tree built from encoding/xml's *raw* tokens (prefixes resolved here, not by
// the decoder), so that undeclared prefixes, duplicate attributes, mismatched
// end tags, several roots and text outside the root are all detected.  Trees
// are compared structurally: namespace-resolved, attribute order insensitive,
// never as strings.

import (
	"bytes"
	"encoding/xml"
	"fmt"
	"hash/fnv"
	"io"
	"sort"
	"strings"

	"mellium.im/xmlstream"
)

const xmlURL = "http://www.w3.org/XML/1998/namespace"

type kid struct {
	El   *node
	Text string
}

type node struct {
	Name xml.Name
	Attr map[xml.Name]string
	Kids []kid
	// Declared: handed over as tokens the way hand-written token streams often
	// are - an unqualified name plus an xmlns attribute naming the namespace -
	// instead of a qualified name (the elements below it likewise)
	Declared bool
}

func el(space, local string, kids ...kid) *node {
	return &node{Name: xml.Name{Space: space, Local: local}, Attr: map[xml.Name]string{}, Kids: kids}
}

func (n *node) with(space, local, value string) *node {
	n.Attr[xml.Name{Space: space, Local: local}] = value
	return n
}

func (n *node) addText(s string) {
	if s == "" {
		return
	}
	if l := len(n.Kids); l > 0 && n.Kids[l-1].El == nil {
		n.Kids[l-1].Text += s
		return
	}
	n.Kids = append(n.Kids, kid{Text: s})
}

// String is a canonical rendering (attributes sorted, names in {ns}local form).
func (n *node) String() string {
	var b strings.Builder
	n.render(&b)
	return b.String()
}

func (n *node) render(b *strings.Builder) {
	fmt.Fprintf(b, "<{%s}%s", n.Name.Space, n.Name.Local)
	names := make([]xml.Name, 0, len(n.Attr))
	for k := range n.Attr {
		names = append(names, k)
	}
	sort.Slice(names, func(i, j int) bool {
		if names[i].Space != names[j].Space {
			return names[i].Space < names[j].Space
		}
		return names[i].Local < names[j].Local
	})
	for _, k := range names {
		fmt.Fprintf(b, " {%s}%s=%q", k.Space, k.Local, n.Attr[k])
	}
	b.WriteString(">")
	for _, k := range n.Kids {
		if k.El != nil {
			k.El.render(b)
		} else {
			fmt.Fprintf(b, "%q", k.Text)
		}
	}
	b.WriteString("</>")
}

// resolved returns a copy in which elements without a namespace inherit the
// namespace of their parent (what a parser sees after serialisation).
func (n *node) resolved(parent string) *node {
	c := &node{Name: n.Name, Attr: map[xml.Name]string{}}
	if c.Name.Space == "" {
		c.Name.Space = parent
	}
	for k, v := range n.Attr {
		c.Attr[k] = v
	}
	for _, k := range n.Kids {
		if k.El != nil {
			c.Kids = append(c.Kids, kid{El: k.El.resolved(c.Name.Space)})
		} else {
			c.addText(k.Text)
		}
	}
	return c
}

// kidSet renders the children as a sorted multiset (for comparisons in which
// the statement does not fix the order of children).
func (n *node) kidSet() []string {
	var out []string
	for _, k := range n.Kids {
		if k.El != nil {
			out = append(out, k.El.String())
		} else {
			out = append(out, fmt.Sprintf("%q", k.Text))
		}
	}
	sort.Strings(out)
	return out
}

func sameAttrs(a, b map[xml.Name]string) bool {
	if len(a) != len(b) {
		return false
	}
	for k, v := range a {
		if w, ok := b[k]; !ok || w != v {
			return false
		}
	}
	return true
}

// tokens converts a reference tree into the token sequence a caller would
// hand to the library (attributes in sorted order).
func (n *node) tokens() []xml.Token {
	start := xml.StartElement{Name: n.Name}
	if n.Declared && n.Name.Space != "" {
		start.Name.Space = ""
		start.Attr = append(start.Attr, xml.Attr{Name: xml.Name{Local: "xmlns"}, Value: n.Name.Space})
	}
	names := make([]xml.Name, 0, len(n.Attr))
	for k := range n.Attr {
		names = append(names, k)
	}
	sort.Slice(names, func(i, j int) bool {
		if names[i].Space != names[j].Space {
			return names[i].Space < names[j].Space
		}
		return names[i].Local < names[j].Local
	})
	for _, k := range names {
		start.Attr = append(start.Attr, xml.Attr{Name: k, Value: n.Attr[k]})
	}
	out := []xml.Token{start}
	for _, k := range n.Kids {
		if k.El != nil {
			out = append(out, k.El.tokens()...)
		} else {
			out = append(out, xml.CharData(k.Text))
		}
	}
	return append(out, start.End())
}

type sliceReader struct {
	toks []xml.Token
	i    int
}

func (r *sliceReader) Token() (xml.Token, error) {
	if r.i >= len(r.toks) {
		return nil, io.EOF
	}
	t := r.toks[r.i]
	r.i++
	return xml.CopyToken(t), nil
}

// volatileReader is a token reader with the buffer discipline of an
// *xml.Decoder: the bytes of a character-data token are only valid until the
// next call to Token (encoding/xml says so for Decoder.Token; payloads that
// applications pass on usually come from a decoder).  The previous token's
// bytes are overwritten when the next one is asked for.
type volatileReader struct {
	toks []xml.Token
	i    int
	last []byte
}

func (r *volatileReader) Token() (xml.Token, error) {
	for k := range r.last {
		r.last[k] = '#'
	}
	r.last = nil
	if r.i >= len(r.toks) {
		return nil, io.EOF
	}
	t := r.toks[r.i]
	r.i++
	if cd, ok := t.(xml.CharData); ok {
		r.last = append([]byte(nil), cd...)
		return xml.CharData(r.last), nil
	}
	return xml.CopyToken(t), nil
}

// reader returns a token reader over the tree; for about half of the trees
// (decided by their content, so that a case is reproducible) it has a
// decoder's buffer discipline.
func (n *node) reader() xml.TokenReader {
	if n == nil {
		return nil
	}
	toks := n.tokens()
	h := fnv.New32a()
	for _, t := range toks {
		fmt.Fprintf(h, "%v|", t)
	}
	if h.Sum32()%2 == 0 {
		return &volatileReader{toks: toks}
	}
	return &sliceReader{toks: toks}
}

// parse is the independent well-formedness check and tree builder.
func parse(b []byte) (*node, error) {
	// First: the plain encoding/xml pass named by the statement.
	d := xml.NewDecoder(bytes.NewReader(b))
	for {
		_, err := d.Token()
		if err == io.EOF {
			break
		}
		if err != nil {
			return nil, fmt.Errorf("encoding/xml: %v", err)
		}
	}
	// Second: raw tokens, namespaces resolved here.
	type scope struct {
		raw  xml.Name
		n    *node
		bind map[string]string
	}
	lookup := func(stack []scope, prefix string) (string, bool) {
		if prefix == "xml" {
			return xmlURL, true
		}
		for i := len(stack) - 1; i >= 0; i-- {
			if v, ok := stack[i].bind[prefix]; ok {
				return v, true
			}
		}
		return "", prefix == ""
	}
	var stack []scope
	var root *node
	d = xml.NewDecoder(bytes.NewReader(b))
	for {
		tok, err := d.RawToken()
		if err == io.EOF {
			break
		}
		if err != nil {
			return nil, fmt.Errorf("raw: %v", err)
		}
		switch t := tok.(type) {
		case xml.StartElement:
			if len(stack) == 0 && root != nil {
				return nil, fmt.Errorf("second root element <%s>", t.Name.Local)
			}
			sc := scope{raw: t.Name, bind: map[string]string{}}
			for _, a := range t.Attr {
				switch {
				case a.Name.Space == "xmlns":
					if a.Value == "" {
						return nil, fmt.Errorf("prefix %q bound to the empty namespace", a.Name.Local)
					}
					if _, dup := sc.bind[a.Name.Local]; dup {
						return nil, fmt.Errorf("prefix %q declared twice on <%s>", a.Name.Local, t.Name.Local)
					}
					sc.bind[a.Name.Local] = a.Value
				case a.Name.Space == "" && a.Name.Local == "xmlns":
					if _, dup := sc.bind[""]; dup {
						return nil, fmt.Errorf("default namespace declared twice on <%s>", t.Name.Local)
					}
					sc.bind[""] = a.Value
				}
			}
			stack = append(stack, sc)
			n := &node{Attr: map[xml.Name]string{}}
			ns, ok := lookup(stack, t.Name.Space)
			if !ok {
				return nil, fmt.Errorf("undeclared prefix %q on element <%s:%s>", t.Name.Space, t.Name.Space, t.Name.Local)
			}
			if t.Name.Local == "" {
				return nil, fmt.Errorf("element without a name")
			}
			n.Name = xml.Name{Space: ns, Local: t.Name.Local}
			for _, a := range t.Attr {
				if a.Name.Space == "xmlns" || (a.Name.Space == "" && a.Name.Local == "xmlns") {
					continue
				}
				an := xml.Name{Local: a.Name.Local}
				if a.Name.Space != "" {
					ans, ok := lookup(stack, a.Name.Space)
					if !ok {
						return nil, fmt.Errorf("undeclared prefix %q on attribute %s:%s", a.Name.Space, a.Name.Space, a.Name.Local)
					}
					an.Space = ans
				}
				if _, dup := n.Attr[an]; dup {
					return nil, fmt.Errorf("duplicate attribute {%s}%s on <%s>", an.Space, an.Local, t.Name.Local)
				}
				n.Attr[an] = a.Value
			}
			stack[len(stack)-1].n = n
			if len(stack) == 1 {
				root = n
			} else {
				p := stack[len(stack)-2].n
				p.Kids = append(p.Kids, kid{El: n})
			}
		case xml.EndElement:
			if len(stack) == 0 {
				return nil, fmt.Errorf("unbalanced </%s>", t.Name.Local)
			}
			if top := stack[len(stack)-1]; top.raw != t.Name {
				return nil, fmt.Errorf("<%s:%s> closed by </%s:%s>", top.raw.Space, top.raw.Local, t.Name.Space, t.Name.Local)
			}
			stack = stack[:len(stack)-1]
		case xml.CharData:
			if len(stack) == 0 {
				if strings.TrimSpace(string(t)) != "" {
					return nil, fmt.Errorf("text %q outside the root element", string(t))
				}
				continue
			}
			stack[len(stack)-1].n.addText(string(t))
		default:
			return nil, fmt.Errorf("unexpected %T in output", tok)
		}
	}
	if len(stack) != 0 {
		return nil, fmt.Errorf("unclosed <%s>", stack[len(stack)-1].raw.Local)
	}
	if root == nil {
		return nil, fmt.Errorf("no root element")
	}
	return root, nil
}

// readAll drains a token reader the way xmlstream.Copy does (a nil token with
// a nil error ends the stream as well).
func readAll(r xml.TokenReader) ([]xml.Token, error) {
	var out []xml.Token
	for i := 0; i < 100000; i++ {
		tok, err := r.Token()
		if tok != nil {
			out = append(out, xml.CopyToken(tok))
		}
		if err == io.EOF {
			return out, nil
		}
		if err != nil {
			return out, err
		}
		if tok == nil {
			return out, nil
		}
	}
	return out, fmt.Errorf("token reader did not end within 100000 tokens")
}

func encodeTokens(toks []xml.Token) ([]byte, error) {
	var b bytes.Buffer
	e := xml.NewEncoder(&b)
	for _, t := range toks {
		if err := e.EncodeToken(t); err != nil {
			return b.Bytes(), err
		}
	}
	if err := e.Flush(); err != nil {
		return b.Bytes(), err
	}
	return b.Bytes(), nil
}

// viaCopy serialises a token reader through xmlstream.Copy into an
// xml.Encoder, the way a session writes it.
func viaCopy(r xml.TokenReader) ([]byte, error) {
	var b bytes.Buffer
	e := xml.NewEncoder(&b)
	if _, err := xmlstream.Copy(e, r); err != nil {
		return b.Bytes(), err
	}
	if err := e.Flush(); err != nil {
		return b.Bytes(), err
	}
	return b.Bytes(), nil
}

// normTokens merges adjacent character data, drops empty character data and
// renders every token canonically so that two sequences can be compared.
func normTokens(toks []xml.Token) []string {
	var out []string
	text := ""
	flush := func() {
		if text != "" {
			out = append(out, fmt.Sprintf("T%q", text))
			text = ""
		}
	}
	for _, t := range toks {
		switch tt := t.(type) {
		case xml.CharData:
			text += string(tt)
		case xml.StartElement:
			flush()
			n := &node{Name: tt.Name, Attr: map[xml.Name]string{}}
			dup := ""
			for _, a := range tt.Attr {
				if _, ok := n.Attr[a.Name]; ok {
					dup = " DUPLICATE-ATTR " + a.Name.Local
				}
				n.Attr[a.Name] = a.Value
			}
			s := n.String()
			out = append(out, "S"+strings.TrimSuffix(s, "</>")+dup)
		case xml.EndElement:
			flush()
			out = append(out, fmt.Sprintf("E{%s}%s", tt.Name.Space, tt.Name.Local))
		default:
			flush()
			out = append(out, fmt.Sprintf("?%T", t))
		}
	}
	flush()
	return out
}

func sameStrings(a, b []string) bool {
	if len(a) != len(b) {
		return false
	}
	for i := range a {
		if a[i] != b[i] {
			return false
		}
	}
	return true
}
