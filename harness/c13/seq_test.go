package c13

import (
	"bytes"
	"encoding/xml"
	"fmt"
	"strings"
	"testing"

	"pgregory.net/rapid"

	"mellium.im/xmpp/stanza"
	"mellium.im/xmpp/stream"
	"mellium.im/xmpp/verifharness/internal/ev"
)

// TestC13DecodeSequence: stanzas and errors are read one after the other from
// one decoder (that is what reading a stream is).  What an element decodes to
// does not depend on what the decoder decoded before it: each element of the
// sequence decodes to the value it decodes to on its own.
func TestC13DecodeSequence(t *testing.T) {
	ev.Check(t, 2500, 15000, func(rt *rapid.T) {
		type item struct {
			kind  string // stanza kind, "stanza-error", "stream-error"
			desc  string
			bytes []byte
			alone string
			aerr  error
		}
		decode := func(kind string, dec func(v interface{}) error) (string, error) {
			switch kind {
			case "iq":
				var v stanza.IQ
				err := dec(&v)
				return fromIQ(v).String(), err
			case "message":
				var v stanza.Message
				err := dec(&v)
				return fromMessage(v).String(), err
			case "presence":
				var v stanza.Presence
				err := dec(&v)
				return fromPresence(v).String(), err
			case "stanza-error":
				var v stanza.Error
				err := dec(&v)
				return showStanzaError(v), err
			}
			var v stream.Error
			err := dec(&v)
			return showStreamError(v), err
		}
		n := rapid.IntRange(2, 4).Draw(rt, "n")
		var items []item
		var descs []string
		for i := 0; i < n; i++ {
			var it item
			var v interface{}
			switch rapid.IntRange(0, 4).Draw(rt, "what") {
			case 0, 1:
				s := genStz(rt, false)
				s.local = s.kind
				it.kind, it.desc, v = s.kind, s.String(), s.value()
			case 2, 3:
				se := genStanzaError(rt, false)
				it.kind, it.desc, v = "stanza-error", showStanzaError(se), se
			default:
				e := genStreamError(rt, false)
				it.kind, it.desc, v = "stream-error", showStreamError(e), e
			}
			var err error
			if p := ev.Guard(func() { it.bytes, err = xml.Marshal(v) }); p != "" || err != nil {
				// (what the marshaller does with the value is the other tests' subject)
				rt.Skip("value does not marshal")
			}
			b := it.bytes
			if p := ev.Guard(func() { it.alone, it.aerr = decode(it.kind, func(v interface{}) error { return xml.Unmarshal(b, v) }) }); p != "" {
				rt.Skip("decoding alone panics")
			}
			items = append(items, it)
			descs = append(descs, it.kind+" "+it.desc)
		}
		kinds := map[string]bool{}
		for _, it := range items {
			kinds[it.kind] = true
		}
		ev.Case(len(kinds) >= 2, "decode-sequence "+strings.Join(descs, " | "), "decode-sequence", fmt.Sprintf("decode-sequence-errors-first=%v", strings.HasSuffix(items[0].kind, "error")))
		var all []byte
		for _, it := range items {
			all = append(all, it.bytes...)
		}
		d := xml.NewDecoder(bytes.NewReader(all))
		for i, it := range items {
			var got string
			var err error
			if p := ev.Guard(func() { got, err = decode(it.kind, d.Decode) }); p != "" {
				ev.Failf(rt, "sequence: %s\nsequence bytes: %q\ndecoding element %d (%s) after the ones before it: %s", strings.Join(descs, " | "), all, i, it.bytes, p)
			}
			if (err == nil) != (it.aerr == nil) {
				ev.Failf(rt, "sequence: %s\nsequence bytes: %q\nelement %d (%s) decodes with error %v on its own and with error %v after the elements before it", strings.Join(descs, " | "), all, i, it.bytes, it.aerr, err)
			}
			if err != nil {
				return // (the decoder's position is undefined after an error)
			}
			if got != it.alone {
				ev.Failf(rt, "sequence: %s\nsequence bytes: %q\nelement %d (%s), read from the same decoder after the elements before it, decodes to\n  %s\non its own it decodes to\n  %s", strings.Join(descs, " | "), all, i, it.bytes, got, it.alone)
			}
		}
	})
}
