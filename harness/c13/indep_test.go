package c13

// Independence of encodings (metamorphic relation).
//
// A token reader obtained from a value (TokenReader(), Wrap(payload),
// x.Error(err), iq.Result(p), stream error with application payload) must
// produce the document of THAT value no matter what else the library was asked
// to encode between its creation and its consumption.  Several independently
// generated values of the same and of different kinds are turned into readers
// first — with xml.Marshal / WriteXML / further readers of unrelated values in
// between — and only then consumed, in a generated order (sequentially or
// token-wise interleaved).  Each must yield exactly the canonical document the
// same recipe yields when it is created and consumed on its own, before and
// after the batch.  This catches any state shared between encodings (package
// level templates, attribute slices shared between copies of a start element,
// caches), whatever value kind it sits in.

import (
	"encoding/xml"
	"fmt"
	"io"
	"strings"
	"testing"

	"pgregory.net/rapid"

	"mellium.im/xmpp/internal/marshal"
	"mellium.im/xmpp/jid"
	"mellium.im/xmpp/stanza"
	"mellium.im/xmpp/stream"
	"mellium.im/xmpp/verifharness/internal/ev"
)

// recipe is a reproducible way of obtaining a token reader from a value.
type recipe struct {
	desc     string
	families []string               // code families it goes through
	mk       func() xml.TokenReader // a fresh reader of the value
	std      func() ([]byte, error) // the standard marshaller on the same value (nil if none)
}

func (r recipe) in(f string) bool {
	for _, x := range r.families {
		if x == f {
			return true
		}
	}
	return false
}

const (
	famStanza      = "stanza-header"
	famStanzaError = "stanza-error"
	famStreamError = "stream-error"
	famMarshalPkg  = "marshal-helper"
)

func recipeWrap(s stz, p *node) recipe {
	return recipe{
		desc:     fmt.Sprintf("%s.Wrap(%s)", s, show(p)),
		families: []string{famStanza},
		mk:       func() xml.TokenReader { return s.wrap(p.reader()) },
		std:      func() ([]byte, error) { return xml.Marshal(s.value()) },
	}
}

func recipeResult(s stz, p *node) recipe {
	return recipe{
		desc:     fmt.Sprintf("%s.Result(%s)", s, show(p)),
		families: []string{famStanza},
		mk:       func() xml.TokenReader { return s.iq().Result(p.reader()) },
		std:      func() ([]byte, error) { return xml.Marshal(s.value()) },
	}
}

func recipeErrorReply(s stz, se stanza.Error) recipe {
	return recipe{
		desc:     fmt.Sprintf("%s.Error(%s)", s, showStanzaError(se)),
		families: []string{famStanza, famStanzaError},
		mk:       func() xml.TokenReader { return s.errorReply(se) },
		std:      func() ([]byte, error) { return xml.Marshal(se) },
	}
}

func recipeStanzaError(se stanza.Error, p *node, wrap bool) recipe {
	r := recipe{
		families: []string{famStanzaError},
		std:      func() ([]byte, error) { return xml.Marshal(se) },
	}
	if wrap {
		r.desc = fmt.Sprintf("%s.Wrap(%s)", showStanzaError(se), show(p))
		r.mk = func() xml.TokenReader { return se.Wrap(p.reader()) }
	} else {
		r.desc = fmt.Sprintf("%s.TokenReader()", showStanzaError(se))
		r.mk = func() xml.TokenReader { return se.TokenReader() }
	}
	return r
}

func recipeStreamError(e stream.Error, p *node) recipe {
	val := func() stream.Error {
		if p == nil {
			return e
		}
		return e.ApplicationError(p.reader())
	}
	return recipe{
		desc:     fmt.Sprintf("%s.ApplicationError(%s).TokenReader()", showStreamError(e), show(p)),
		families: []string{famStreamError},
		mk:       func() xml.TokenReader { return val().TokenReader() },
		std:      func() ([]byte, error) { return xml.Marshal(val()) },
	}
}

// recipeMarshalPkg: the internal helper behind Session.Encode* turning a plain
// value into tokens (internal/marshal.TokenReader); the reader may be consumed
// after further values have been handed to the helper.
func recipeMarshalPkg(s stz) recipe {
	return recipe{
		desc:     fmt.Sprintf("marshal.TokenReader(%s)", s),
		families: []string{famMarshalPkg},
		mk: func() xml.TokenReader {
			r, err := marshal.TokenReader(s.value())
			if err != nil {
				return errReader{err}
			}
			return r
		},
		std: func() ([]byte, error) { return xml.Marshal(s.value()) },
	}
}

type errReader struct{ err error }

func (e errReader) Token() (xml.Token, error) { return nil, e.err }

// genRecipe draws a recipe; family "" means any.
func genRecipe(t *rapid.T, family string) recipe {
	var k int
	switch family {
	case famStanza:
		k = rapid.IntRange(0, 2).Draw(t, "recipe-kind")
	case famStanzaError:
		k = rapid.IntRange(2, 4).Draw(t, "recipe-kind")
	case famStreamError:
		k = 5
	case famMarshalPkg:
		k = 6
	default:
		k = rapid.IntRange(0, 6).Draw(t, "recipe-kind")
	}
	switch k {
	case 0:
		return recipeWrap(genStz(t, false), genMaybePayload(t, "p"))
	case 1:
		s := genStz(t, false)
		s.kind, s.local = "iq", "iq"
		s.typ = rapid.SampledFrom(iqTypes).Draw(t, "iqtype")
		return recipeResult(s, genMaybePayload(t, "p"))
	case 2:
		return recipeErrorReply(genStz(t, false), genStanzaError(t, false))
	case 3:
		return recipeStanzaError(genStanzaError(t, false), nil, false)
	case 4:
		return recipeStanzaError(genStanzaError(t, false), genMaybePayload(t, "p"), true)
	case 6:
		return recipeMarshalPkg(genStz(t, false))
	}
	return recipeStreamError(genStreamError(t, false), genMaybePayload(t, "p"))
}

// noise is an unrelated encoding performed between creation and consumption.
type noise struct {
	desc string
	do   func() error
}

func discardEncoder() *xml.Encoder { return xml.NewEncoder(io.Discard) }

func genNoise(t *rapid.T, recipes []recipe) noise {
	switch rapid.IntRange(0, 7).Draw(t, "noise-kind") {
	case 7:
		s := genStz(t, false)
		return noise{"marshal.TokenReader(" + s.String() + ") (never read) + marshal.EncodeXML", func() error {
			if _, err := marshal.TokenReader(s.value()); err != nil {
				return err
			}
			e := discardEncoder()
			if err := marshal.EncodeXML(e, s.value()); err != nil {
				return err
			}
			return e.Flush()
		}}
	case 0:
		se := genStanzaError(t, false)
		return noise{"xml.Marshal(" + showStanzaError(se) + ")", func() error { _, err := xml.Marshal(se); return err }}
	case 1:
		se := genStanzaError(t, false)
		return noise{showStanzaError(se) + ".WriteXML", func() error {
			e := discardEncoder()
			if _, err := se.WriteXML(e); err != nil {
				return err
			}
			return e.Flush()
		}}
	case 2:
		se := genStanzaError(t, false)
		return noise{showStanzaError(se) + ".TokenReader() (never read)", func() error { _ = se.TokenReader(); return nil }}
	case 3:
		e := genStreamError(t, false)
		return noise{"xml.Marshal(" + showStreamError(e) + ")", func() error { _, err := xml.Marshal(e); return err }}
	case 4:
		s := genStz(t, false)
		se := genStanzaError(t, false)
		return noise{s.String() + ".Error(" + showStanzaError(se) + ") read to the end", func() error { _, err := readAll(s.errorReply(se)); return err }}
	case 5:
		s := genStz(t, false)
		return noise{"xml.Marshal + StartElement of " + s.String(), func() error { _ = s.start(); _, err := xml.Marshal(s.value()); return err }}
	}
	// the standard marshaller on the value of one of the recipes of the batch
	i := rapid.IntRange(0, len(recipes)-1).Draw(t, "noise-recipe")
	return noise{fmt.Sprintf("standard marshaller on the value of reader %d", i), func() error {
		if recipes[i].std == nil {
			return nil
		}
		_, err := recipes[i].std()
		return err
	}}
}

// document is the canonical form of what a reader produced: normalised tokens
// and, when they serialise, the canonical rendering of the parsed tree.
type document struct {
	toks []string
	tree string
	raw  []byte
}

func canonicalDocument(toks []xml.Token) (document, error) {
	d := document{toks: normTokens(toks)}
	b, err := encodeTokens(toks)
	d.raw = b
	if err != nil {
		return d, fmt.Errorf("tokens do not encode: %v", err)
	}
	tree, err := parse(b)
	if err != nil {
		return d, fmt.Errorf("output %q is not well-formed: %v", b, err)
	}
	d.tree = tree.String()
	return d, nil
}

func (d document) same(o document) bool {
	return sameStrings(d.toks, o.toks) && d.tree == o.tree
}

// checkIndependence: noiseBefore[i] runs before reader i is created,
// noiseBefore[len(recipes)] after the last one; interleave is a token-wise
// consumption schedule (reader indices), whatever is left is drained in order.
func checkIndependence(t fataler, recipes []recipe, noiseBefore [][]noise, interleave []int, order []int) {
	t.Helper()
	describe := func() string {
		var b strings.Builder
		for i, r := range recipes {
			for _, n := range noiseBefore[i] {
				fmt.Fprintf(&b, "  (in between: %s)\n", n.desc)
			}
			fmt.Fprintf(&b, "  reader %d := %s\n", i, r.desc)
		}
		for _, n := range noiseBefore[len(recipes)] {
			fmt.Fprintf(&b, "  (in between: %s)\n", n.desc)
		}
		fmt.Fprintf(&b, "  consumed: token-wise schedule %v, then whole readers in order %v", interleave, order)
		return b.String()
	}
	fail := func(format string, args ...any) {
		t.Helper()
		ev.Failf(t, "readers created first, consumed afterwards:\n%s\n%s", describe(), fmt.Sprintf(format, args...))
	}
	solo := func(when string) []document {
		docs := make([]document, len(recipes))
		for i, r := range recipes {
			var toks []xml.Token
			var err error
			if p := ev.Guard(func() { toks, err = readAll(r.mk()) }); p != "" {
				fail("reader %d on its own (%s): %s", i, when, p)
			}
			if err != nil {
				fail("reader %d on its own (%s): %v", i, when, err)
			}
			if docs[i], err = canonicalDocument(toks); err != nil {
				fail("reader %d on its own (%s): %v", i, when, err)
			}
		}
		return docs
	}
	before := solo("before the batch")

	// create all readers, unrelated encodings in between
	runNoise := func(ns []noise) {
		for _, n := range ns {
			var err error
			if p := ev.Guard(func() { err = n.do() }); p != "" {
				fail("%s: %s", n.desc, p)
			}
			if err != nil {
				fail("%s: %v", n.desc, err)
			}
		}
	}
	readers := make([]xml.TokenReader, len(recipes))
	for i, r := range recipes {
		runNoise(noiseBefore[i])
		if p := ev.Guard(func() { readers[i] = r.mk() }); p != "" {
			fail("creating reader %d: %s", i, p)
		}
	}
	runNoise(noiseBefore[len(recipes)])

	// consume
	toks := make([][]xml.Token, len(recipes))
	done := make([]bool, len(recipes))
	step := func(i int) {
		if done[i] {
			return
		}
		var tok xml.Token
		var err error
		if p := ev.Guard(func() { tok, err = readers[i].Token() }); p != "" {
			fail("reading reader %d: %s", i, p)
		}
		if tok != nil {
			toks[i] = append(toks[i], xml.CopyToken(tok))
		}
		switch {
		case err == io.EOF, tok == nil && err == nil:
			done[i] = true
		case err != nil:
			fail("reading reader %d: %v", i, err)
		}
		if len(toks[i]) > 100000 {
			fail("reader %d did not end within 100000 tokens", i)
		}
	}
	for _, i := range interleave {
		step(i % len(recipes))
	}
	for _, i := range order {
		for !done[i] {
			step(i)
		}
	}
	for i := range recipes {
		got, err := canonicalDocument(toks[i])
		if err != nil {
			fail("reader %d consumed in the batch: %v\n tokens %v\n on its own it gave %v", i, err, got.toks, before[i].toks)
		}
		if !got.same(before[i]) {
			fail("reader %d consumed in the batch differs from the same value encoded on its own:\n batch %v\n       %q\n alone %v\n       %q", i, got.toks, got.raw, before[i].toks, before[i].raw)
		}
	}
	after := solo("after the batch")
	for i := range recipes {
		if !after[i].same(before[i]) {
			fail("reader %d on its own gives a different document after the batch than before:\n after  %v\n before %v", i, after[i].toks, before[i].toks)
		}
	}
}

func TestC13Independence(t *testing.T) {
	ev.Check(t, 5000, 40000, func(rt *rapid.T) {
		n := rapid.IntRange(2, 4).Draw(rt, "readers")
		recipes := make([]recipe, 0, n)
		// Half of the batches stay within one family (shared code), the others mix.
		family := ""
		if rapid.Bool().Draw(rt, "one-family") {
			family = rapid.SampledFrom([]string{famStanza, famStanzaError, famStreamError, famMarshalPkg}).Draw(rt, "family")
		}
		for i := 0; i < n; i++ {
			recipes = append(recipes, genRecipe(rt, family))
		}
		noiseBefore := make([][]noise, n+1)
		nNoise := 0
		for i := range noiseBefore {
			// two slots in six carry one or two unrelated encodings
			for k := rapid.IntRange(0, 5).Draw(rt, "noise-count") - 3; k > 0; k-- {
				noiseBefore[i] = append(noiseBefore[i], genNoise(rt, recipes))
				nNoise++
			}
		}
		order := rapid.Permutation(seq(n)).Draw(rt, "order")
		var interleave []int
		if rapid.Bool().Draw(rt, "interleaved") {
			interleave = rapid.SliceOfN(rapid.IntRange(0, n-1), 1, 12).Draw(rt, "schedule")
		}

		cl := []string{"independence", fmt.Sprintf("independence-readers-%d", n)}
		shared := false
		for _, f := range []string{famStanza, famStanzaError, famStreamError, famMarshalPkg} {
			c := 0
			for _, r := range recipes {
				if r.in(f) {
					c++
				}
			}
			if c >= 2 {
				shared = true
				cl = append(cl, "independence-two-of-"+f)
			}
		}
		if !shared {
			cl = append(cl, "independence-all-kinds-differ")
		}
		if nNoise > 0 {
			cl = append(cl, "independence-encodings-in-between")
		}
		if interleave != nil {
			cl = append(cl, "independence-tokenwise-interleaved")
		}
		var canon strings.Builder
		for i, r := range recipes {
			for _, nz := range noiseBefore[i] {
				canon.WriteString("~" + nz.desc + "|")
			}
			canon.WriteString(r.desc + "|")
		}
		fmt.Fprintf(&canon, "%v|%v", interleave, order)
		// non-trivial: at least two readers that go through the same code family
		ev.Case(shared, "independence|"+canon.String(), cl...)
		checkIndependence(rt, recipes, noiseBefore, interleave, order)
	})
}

func seq(n int) []int {
	s := make([]int, n)
	for i := range s {
		s[i] = i
	}
	return s
}

// regressIndependence holds the concrete batches of the findings of this class.
func regressIndependence(t *testing.T) {
	none := func(n int) [][]noise { return make([][]noise, n+1) }
	// seeded C13-r2: outer <error/> start element shared between stanza errors
	errs := []stanza.Error{
		{Type: stanza.Cancel, By: jid.MustParse("room@muc.example.net"), Condition: stanza.ItemNotFound, Text: map[string]string{"en": "a < b & c"}},
		{Type: stanza.Wait, By: jid.MustParse("example.org"), Condition: stanza.ResourceConstraint},
		{Type: stanza.Auth, Condition: stanza.Forbidden, Text: map[string]string{"": "n\u00f6"}},
	}
	var rs []recipe
	for _, se := range errs {
		rs = append(rs, recipeStanzaError(se, nil, false))
	}
	ev.Case(true, "regress|independence|three stanza errors prepared before writing", "regress")
	checkIndependence(t, rs, none(3), nil, []int{0, 1, 2})
	checkIndependence(t, rs, none(3), []int{0, 1, 2, 2, 1, 0}, []int{2, 0, 1})

	iq := stz{kind: "iq", local: "iq", id: "1", typ: "get", to: jid.MustParse("a@example.net"), from: jid.MustParse("b@example.net/r")}
	msg := stz{kind: "message", local: "message", id: "2", typ: "chat", to: jid.MustParse("c@example.net"), from: jid.MustParse("d@example.net/r")}
	rs = []recipe{
		recipeErrorReply(iq, stanza.Error{Type: stanza.Cancel, Condition: stanza.ServiceUnavailable}),
		recipeErrorReply(msg, stanza.Error{Type: stanza.Modify, Condition: stanza.NotAcceptable}),
	}
	ev.Case(true, "regress|independence|two error replies prepared before writing", "regress")
	checkIndependence(t, rs, none(2), nil, []int{0, 1})

	// xml.Marshal(other) between TokenReader() and its consumption
	other := errs[1]
	nz := none(1)
	nz[1] = []noise{{"xml.Marshal(" + showStanzaError(other) + ")", func() error { _, err := xml.Marshal(other); return err }}}
	ev.Case(true, "regress|independence|marshal of another error before the reader is read", "regress")
	checkIndependence(t, []recipe{recipeStanzaError(errs[0], el("urn:x", "app"), true)}, nz, nil, []int{0})

	// seeded C13 (first round) neighbour: stream errors with several language tagged texts
	rs = []recipe{
		recipeStreamError(stream.Error{Err: "host-gone", Text: []langText{{"en", "gone"}, {"de", "weg"}}}, nil),
		recipeStreamError(stream.Error{Err: "see-other-host", Content: "example.org:5222", Text: []langText{{"fr", "ailleurs"}}}, el("urn:x", "app")),
		recipeWrap(iq, el("urn:y:2", "query")),
		recipeResult(iq, nil),
	}
	ev.Case(true, "regress|independence|mixed kinds", "regress")
	checkIndependence(t, rs, none(4), []int{3, 0, 1, 2, 0}, []int{3, 2, 1, 0})
}
