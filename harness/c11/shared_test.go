package c11

// JIDs are immutable values: one value may be handed to any number of
// goroutines.  Several goroutines derive new addresses from the same values at
// the same time (Bare, Domain, WithLocal, WithDomain, WithResource, Copy,
// String, the XML attribute encoding); every result equals what the same call
// gives on its own, and the shared values still read the same afterwards.

import (
	"encoding/xml"
	"fmt"
	"sync"
	"testing"

	"pgregory.net/rapid"

	"mellium.im/xmpp/jid"
	"mellium.im/xmpp/verifharness/internal/ev"
)

type sharedOp struct {
	kind opKind
	base int
	arg  string
}

func applyShared(j jid.JID, op sharedOp) (string, string) {
	var out jid.JID
	var err error
	switch op.kind {
	case opBare:
		out = j.Bare()
	case opDomain:
		out = j.Domain()
	case opCopy:
		out = j.Copy()
	case opWithLocal:
		out, err = j.WithLocal(op.arg)
	case opWithDomain:
		out, err = j.WithDomain(op.arg)
	case opWithResource:
		out, err = j.WithResource(op.arg)
	case opReparse:
		out, err = jid.Parse(j.String())
	default:
		a, e := j.MarshalXMLAttr(xml.Name{Local: "to"})
		if e != nil {
			return "", e.Error()
		}
		return "attr:" + a.Value, ""
	}
	if err != nil {
		return "", err.Error()
	}
	return fmt.Sprintf("%q|%q|%q|%q", out.Localpart(), out.Domainpart(), out.Resourcepart(), out.String()), ""
}

func TestC11Shared(t *testing.T) {
	ev.Check(t, 1500, 20000, func(rt *rapid.T) {
		c := cx{t: rt}
		var bases []jid.JID
		var desc []string
		nb := rapid.IntRange(1, 3).Draw(rt, "nbases")
		for i := 0; i < nb; i++ {
			l, d, r := genHistPart(rt, roleLocal), genHistPart(rt, roleDomain), genHistPart(rt, roleResource)
			j, err := jid.New(l, d, r)
			if err != nil {
				j = jid.MustParse(pick(rt, fallbackBases, "fallback"))
			}
			// values with a history of their own: derived, so that they may share
			// memory with their parents
			if rapid.Bool().Draw(rt, "derived") {
				if b, err := j.Bare().WithResource(genHistPart(rt, roleResource)); err == nil {
					j = b
				}
			}
			bases = append(bases, j)
			desc = append(desc, j.String())
		}
		ng := rapid.IntRange(2, 6).Draw(rt, "goroutines")
		ops := make([][]sharedOp, ng)
		for g := range ops {
			n := rapid.IntRange(1, 6).Draw(rt, "nops")
			for k := 0; k < n; k++ {
				op := sharedOp{base: rapid.IntRange(0, nb-1).Draw(rt, "base")}
				op.kind = rapid.SampledFrom([]opKind{opBare, opDomain, opCopy, opWithLocal, opWithDomain, opWithResource, opWithResource, opReparse, opDecodeAttr}).Draw(rt, "kind")
				switch op.kind {
				case opWithLocal:
					op.arg = genHistPart(rt, roleLocal)
				case opWithDomain:
					op.arg = genHistPart(rt, roleDomain)
				case opWithResource:
					op.arg = genHistPart(rt, roleResource)
				}
				ops[g] = append(ops[g], op)
			}
		}
		c.in = fmt.Sprintf("shared values %q used by %d goroutines at once", desc, ng)
		ev.Case(true, fmt.Sprintf("shared|%q|%v", desc, ops), "values-shared-between-goroutines")
		// what every call gives on its own (on copies that share nothing)
		want := make([][][2]string, ng)
		for g := range ops {
			for _, op := range ops[g] {
				lone, err := jid.Parse(bases[op.base].String())
				if err != nil {
					c.fail("harness: %q does not parse: %v", bases[op.base].String(), err)
				}
				o, e := applyShared(lone, op)
				want[g] = append(want[g], [2]string{o, e})
			}
		}
		before := make([]parts, nb)
		for i, b := range bases {
			before[i] = c.parts("shared value", b)
		}
		got := make([][][2]string, ng)
		panics := make([]string, ng)
		var wg sync.WaitGroup
		start := make(chan struct{})
		for g := range ops {
			wg.Add(1)
			go func(g int) {
				defer wg.Done()
				<-start
				panics[g] = ev.Guard(func() {
					for round := 0; round < 20; round++ {
						for k, op := range ops[g] {
							o, e := applyShared(bases[op.base], op)
							if round == 0 {
								got[g] = append(got[g], [2]string{o, e})
							} else if got[g][k] != [2]string{o, e} {
								got[g][k] = [2]string{o, e}
							}
						}
					}
				})
			}(g)
		}
		close(start)
		wg.Wait()
		for g := range ops {
			if panics[g] != "" {
				c.fail("goroutine %d: %s", g, panics[g])
			}
			for k, op := range ops[g] {
				if got[g][k] != want[g][k] {
					c.fail("goroutine %d: %s(%q) on the shared value %q gave %v; on its own it gives %v", g, opNames[op.kind], op.arg, desc[op.base], got[g][k], want[g][k])
				}
			}
		}
		for i, b := range bases {
			if after := c.parts("shared value", b); after != before[i] {
				c.fail("the shared value %q reads %v after being used by the goroutines (before: %v)", desc[i], after, before[i])
			}
		}
	})
}
